#!/bin/bash
# all.sh [quick|thorough]: every claimed check on the current /repo tree; prints one line per property.
cd "$(dirname "$0")"
tier=${1:-quick}
fail=0
for c in $(python3 -c 'import json; print(" ".join(p["property_id"] for p in json.load(open("MANIFEST.json"))["checks"]))'); do
  out=$(./run.sh $c $tier 2>&1); rc=$?
  echo "$c rc=$rc $(echo "$out" | grep -E '^(OK|VIOLATION|SELFTEST)' | head -2 | tr '\n' ' ')"
  [ $rc -ne 0 ] && fail=1
done
exit $fail

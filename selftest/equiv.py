#!/usr/bin/env python3
"""False-alarm sweep: applies behaviour-preserving rewrites to scratch copies of
/repo (never to /repo itself) and runs every claimed check on each. A check that
reports anything on such a copy is a false alarm of the machinery.

  equiv.py [N] [seed]      N rewrites (default 60), spread over the source files

Rewrites (purely syntactic, semantics-preserving for side-effect-free operands):
  flip     `if a < b {`            ->  `if b > a {`        (also <=, >, >=, ==, !=)
  swap     `if A && B {` / `||`    ->  operands exchanged  (both sides simple comparisons)
  incr     `i++`                   ->  `i += 1`            and  `x += n` -> `x = x + n`
  else     `if c { A } else { B }` is left alone (needs a parser); not generated

Each candidate must still build and pass the repository's own tests on the copy,
otherwise it is discarded (not an equivalent rewrite after all).
"""
import os, re, random, subprocess, sys, shutil, json, glob
from concurrent.futures import ThreadPoolExecutor

VERIF = os.path.dirname(os.path.dirname(os.path.abspath(__file__)))
ENV = dict(os.environ, GOFLAGS="-mod=mod", GOPROXY="off", GOSUMDB="off", GOTOOLCHAIN="local")
ENV.pop("GOWORK", None)
SCRATCH = "/tmp/gts-equiv"
SIMPLE = r"[A-Za-z_][\w\.]*(?:\[[\w\.\+\-]+\])?|len\([\w\.\[\]]+\)|-?\d+|'[^']+'|\"[^\"]*\""
MIRROR = {"<": ">", "<=": ">=", ">": "<", ">=": "<=", "==": "==", "!=": "!="}

def candidates(path, text):
    out = []
    lines = text.split("\n")
    for i, line in enumerate(lines):
        m = re.match(r"^(\s*(?:\} else )?if )(" + SIMPLE + r") (<=|>=|<|>|==|!=) (" + SIMPLE + r") \{$", line)
        if m and "nil" not in line and "err" not in line:
            new = "%s%s %s %s {" % (m.group(1), m.group(4), MIRROR[m.group(3)], m.group(2))
            out.append(("flip", i, line, new))
        cmp = r"(?:" + SIMPLE + r") (?:<=|>=|<|>|==|!=) (?:" + SIMPLE + r")"
        m = re.match(r"^(\s*(?:\} else )?if )(" + cmp + r") (&&|\|\|) (" + cmp + r") \{$", line)
        if m and "nil" not in line and "err" not in line and "[" not in line:
            new = "%s%s %s %s {" % (m.group(1), m.group(4), m.group(3), m.group(2))
            out.append(("swap", i, line, new))
        m = re.match(r"^(\s*)([A-Za-z_]\w*)\+\+$", line)
        if m:
            out.append(("incr", i, line, "%s%s += 1" % (m.group(1), m.group(2))))
        m = re.match(r"^(\s*)([A-Za-z_]\w*) \+= (" + SIMPLE + r")$", line)
        if m and m.group(3) != "1":
            out.append(("incr", i, line, "%s%s = %s + %s" % (m.group(1), m.group(2), m.group(2), m.group(3))))
    return out

def sh(cmd, cwd, timeout=900):
    return subprocess.run(cmd, cwd=cwd, env=ENV, capture_output=True, text=True, timeout=timeout, shell=isinstance(cmd, str))

def run_one(k, slot, rel, kind, lineno, old, new, props):
    copy = os.path.join(SCRATCH, "slot%d" % slot)
    sh("git checkout -q -- . ", copy)
    p = os.path.join(copy, rel)
    if kind == "renamefunc":
        # rename an unexported top-level function throughout its package directory
        d = os.path.dirname(p)
        r = sh("gofmt -r '%s -> %sZz' -w *.go" % (old, old), d)
        if r.returncode != 0:
            return dict(k=k, status="skipped")
        old, new = "func " + old, "func " + old + "Zz"
    elif old is None:
        # AST-level rewrite: `lineno` is the site index of `kind`
        r = subprocess.run([os.path.join(VERIF, "bin", "rewrite"), "-file", p, "-kind", kind, "-n", str(lineno)], capture_output=True, text=True)
        if r.returncode != 0:
            return dict(k=k, status="skipped")
        open(p, "w").write(r.stdout)
        old, new = "%s site %d" % (kind, lineno), r.stderr.strip().replace(copy + "/", "")
    else:
        lines = open(p).read().split("\n")
        if lines[lineno] != old:
            return dict(k=k, status="skipped")
        lines[lineno] = new
        open(p, "w").write("\n".join(lines))
    b = sh("go build ./... && go test -vet=off -count=1 ./... >/dev/null 2>&1", copy)
    if b.returncode != 0:
        sh("git checkout -q -- . ", copy)
        return dict(k=k, status="discarded", why="does not build / tests fail: not an equivalent rewrite", file=rel, line=lineno + 1, new=new.strip())
    alarms = []
    for c in props:
        r = sh([os.path.join(VERIF, "bin", "gtsverif"), "-repo", copy, "-verif", VERIF, "-property", c, "-tier", "quick", "-no-evidence"], VERIF)
        if r.returncode != 0:
            first = [l for l in r.stdout.splitlines() if l.startswith("  [")][:2]
            alarms.append((c, first))
    sh("git checkout -q -- . ", copy)
    return dict(k=k, status="false-alarm" if alarms else "silent", file=rel, line=lineno + 1, kind=kind, old=old.strip(), new=new.strip(), alarms=alarms)

def main():
    n = int(sys.argv[1]) if len(sys.argv) > 1 else 60
    seed = int(sys.argv[2]) if len(sys.argv) > 2 else 1
    slots = 6
    random.seed(seed)
    sh("cd checker && go build -o ../bin/gtsverif .", VERIF)
    props = [c["property_id"] for c in json.load(open(os.path.join(VERIF, "MANIFEST.json")))["checks"]]
    shutil.rmtree(SCRATCH, ignore_errors=True)
    os.makedirs(SCRATCH)
    for s in range(slots):
        sh(["git", "-C", "/repo", "worktree", "add", "--detach", "-f", os.path.join(SCRATCH, "slot%d" % s), "HEAD"], "/")
    files = [f for f in subprocess.check_output(["git", "-C", "/repo", "ls-files", "*.go"], text=True).split() if not f.endswith("_test.go") and not f.startswith("cmd/togo") and not f.startswith("internal")]
    cands = []
    if os.environ.get("EQUIV_MODE", "ast") == "text":
        for f in files:
            for (kind, i, old, new) in candidates(f, open(os.path.join("/repo", f)).read()):
                cands.append((f, kind, i, old, new))
        random.shuffle(cands)
        cands = cands[:n]
    else:
        sh("cd selftest/rewrite && go build -o ../../bin/rewrite .", VERIF)
        bykind = {}
        for f in files:
            out = subprocess.run([os.path.join(VERIF, "bin", "rewrite"), "-file", os.path.join("/repo", f), "-list"], capture_output=True, text=True).stdout
            for line in out.splitlines():
                kind, cnt = line.split()
                for i in range(int(cnt)):
                    bykind.setdefault(kind, []).append((f, kind, i, None, None))
        if os.environ.get("EQUIV_RENAMEFUNC"):
            for f in files:
                for m in re.finditer(r"^func ([a-z]\w*)\(", open(os.path.join("/repo", f)).read(), re.M):
                    if m.group(1) not in ("main", "init"):
                        bykind.setdefault("renamefunc", []).append((f, "renamefunc", 0, m.group(1), None))
        weights = json.loads(os.environ.get("EQUIV_WEIGHTS", "null")) or {"rename": 0.15, "tmpret": 0.12, "flip": 0.12, "swap": 0.08, "ifelse": 0.04, "incr": 0.04, "opassign": 0.04, "extract": 0.14, "splitdecl": 0.09, "varform": 0.09, "rangeidx": 0.09}
        for kind, lst in bykind.items():
            random.shuffle(lst)
            cands += lst[:max(1, int(n * weights.get(kind, 0.05)))]
        random.shuffle(cands)
    print("%d candidate rewrites out of %d files" % (len(cands), len(files)))
    results = []
    try:
        with ThreadPoolExecutor(max_workers=slots) as ex:
            futs = []
            import itertools, threading
            free = list(range(slots))
            lock = threading.Lock()
            def job(k, c):
                with lock:
                    slot = free.pop()
                try:
                    return run_one(k, slot, c[0], c[1], c[2], c[3], c[4], props)
                finally:
                    with lock:
                        free.append(slot)
            for k, c in enumerate(cands):
                futs.append(ex.submit(job, k, c))
            for f in futs:
                r = f.result()
                results.append(r)
                if r["status"] == "false-alarm":
                    print("FALSE-ALARM %s:%d  %s  ->  %s   %s" % (r["file"], r["line"], r["old"], r["new"], r["alarms"]))
    finally:
        for s in range(slots):
            sh(["git", "-C", "/repo", "worktree", "remove", "--force", os.path.join(SCRATCH, "slot%d" % s)], "/")
        shutil.rmtree(SCRATCH, ignore_errors=True)
    cnt = {}
    for r in results:
        cnt[r["status"]] = cnt.get(r["status"], 0) + 1
    print("summary:", cnt)
    json.dump(results, open(os.path.join(VERIF, "selftest", "equiv_last.json"), "w"), indent=1)
    sys.exit(1 if cnt.get("false-alarm") else 0)

if __name__ == "__main__":
    main()

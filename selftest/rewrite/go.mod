module rewrite

go 1.23

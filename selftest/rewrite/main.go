// Command rewrite applies one behaviour-preserving rewrite to a Go source file.
//
//	rewrite -file F -list            prints the number of candidate sites per kind
//	rewrite -file F -kind K -n I     prints F with the I-th site of kind K rewritten
//
// Kinds: flip (comparison operands), swap (&& / || operands), ifelse (branches
// exchanged under a negated condition), tmpret (return value through a local),
// rename (a local variable renamed consistently), incr (x++ <-> x += 1),
// opassign (x += e <-> x = x + e). Operands must be free of calls (len
// excepted) for flip/swap, so evaluation order cannot matter.
package main

import (
	"bytes"
	"flag"
	"fmt"
	"go/ast"
	"go/format"
	"go/parser"
	"go/token"
	"os"
	"sort"
)

func pure(e ast.Expr) bool {
	ok := true
	ast.Inspect(e, func(n ast.Node) bool {
		switch x := n.(type) {
		case *ast.CallExpr:
			if id, isID := x.Fun.(*ast.Ident); !isID || (id.Name != "len" && id.Name != "int" && id.Name != "byte") {
				ok = false
			}
		case *ast.UnaryExpr:
			if x.Op == token.ARROW {
				ok = false
			}
		case *ast.FuncLit:
			ok = false
		}
		return ok
	})
	return ok
}

var mirror = map[token.Token]token.Token{token.LSS: token.GTR, token.GTR: token.LSS, token.LEQ: token.GEQ, token.GEQ: token.LEQ, token.EQL: token.EQL, token.NEQ: token.NEQ}
var negate = map[token.Token]token.Token{token.LSS: token.GEQ, token.GTR: token.LEQ, token.LEQ: token.GTR, token.GEQ: token.LSS, token.EQL: token.NEQ, token.NEQ: token.EQL}

type site struct {
	kind  string
	apply func()
	pos   token.Pos
}

func main() {
	file := flag.String("file", "", "source file")
	kind := flag.String("kind", "", "rewrite kind")
	n := flag.Int("n", 0, "site index")
	list := flag.Bool("list", false, "list candidate counts")
	flag.Parse()
	fset := token.NewFileSet()
	f, err := parser.ParseFile(fset, *file, nil, parser.ParseComments)
	if err != nil {
		fmt.Fprintln(os.Stderr, err)
		os.Exit(2)
	}
	var sites []site
	add := func(k string, pos token.Pos, fn func()) { sites = append(sites, site{k, fn, pos}) }
	for _, d := range f.Decls {
		fd, ok := d.(*ast.FuncDecl)
		if !ok || fd.Body == nil {
			continue
		}
		used := map[string]bool{}
		ast.Inspect(fd, func(m ast.Node) bool {
			if id, ok := m.(*ast.Ident); ok {
				used[id.Name] = true
			}
			return true
		})
		ast.Inspect(fd.Body, func(m ast.Node) bool {
			switch x := m.(type) {
			case *ast.BinaryExpr:
				if _, ok := mirror[x.Op]; ok && pure(x.X) && pure(x.Y) {
					if id, isID := x.Y.(*ast.Ident); !(isID && id.Name == "nil") {
						add("flip", x.Pos(), func() { x.X, x.Y, x.Op = x.Y, x.X, mirror[x.Op] })
					}
				}
				if (x.Op == token.LAND || x.Op == token.LOR) && pure(x.X) && pure(x.Y) {
					add("swap", x.Pos(), func() { x.X, x.Y = x.Y, x.X })
				}
			case *ast.IfStmt:
				blk, isBlk := x.Else.(*ast.BlockStmt)
				if x.Init == nil && isBlk {
					add("ifelse", x.Pos(), func() {
						var c ast.Expr
						if be, ok := x.Cond.(*ast.BinaryExpr); ok && negate[be.Op] != 0 {
							c = &ast.BinaryExpr{X: be.X, Op: negate[be.Op], Y: be.Y}
						} else if u, ok := x.Cond.(*ast.UnaryExpr); ok && u.Op == token.NOT {
							c = u.X
						} else {
							c = &ast.UnaryExpr{Op: token.NOT, X: &ast.ParenExpr{X: x.Cond}}
						}
						x.Cond = c
						x.Body, x.Else = blk, x.Body
					})
				}
			case *ast.BlockStmt:
				for i, st := range x.List {
					i := i
					if ret, ok := st.(*ast.ReturnStmt); ok && len(ret.Results) == 1 && fd.Type.Results != nil && len(fd.Type.Results.List) == 1 && len(fd.Type.Results.List[0].Names) <= 1 {
						switch ret.Results[0].(type) {
						case *ast.CallExpr, *ast.CompositeLit, *ast.SelectorExpr, *ast.IndexExpr:
							name := "retv"
							for used[name] {
								name += "x"
							}
							typ := fd.Type.Results.List[0].Type
							add("tmpret", ret.Pos(), func() {
								decl := &ast.DeclStmt{Decl: &ast.GenDecl{Tok: token.VAR, Specs: []ast.Spec{&ast.ValueSpec{Names: []*ast.Ident{ast.NewIdent(name)}, Type: typ, Values: []ast.Expr{ret.Results[0]}}}}}
								nr := &ast.ReturnStmt{Results: []ast.Expr{ast.NewIdent(name)}}
								nl := append([]ast.Stmt{}, x.List[:i]...)
								nl = append(nl, decl, nr)
								nl = append(nl, x.List[i+1:]...)
								x.List = nl
							})
						}
					}
					if inc, ok := st.(*ast.IncDecStmt); ok {
						add("incr", inc.Pos(), func() {
							tok := token.ADD_ASSIGN
							if inc.Tok == token.DEC {
								tok = token.SUB_ASSIGN
							}
							x.List[i] = &ast.AssignStmt{Lhs: []ast.Expr{inc.X}, Tok: tok, Rhs: []ast.Expr{&ast.BasicLit{Kind: token.INT, Value: "1"}}}
						})
					}
					// extract: `if cond {` -> `cNN := cond; if cNN {`
					if is, ok := st.(*ast.IfStmt); ok && is.Init == nil && pure(is.Cond) {
						if _, isBin := is.Cond.(*ast.BinaryExpr); isBin {
							name := "condv"
							for used[name] {
								name += "x"
							}
							add("extract", is.Pos(), func() {
								def := &ast.AssignStmt{Lhs: []ast.Expr{ast.NewIdent(name)}, Tok: token.DEFINE, Rhs: []ast.Expr{is.Cond}}
								is.Cond = ast.NewIdent(name)
								nl := append([]ast.Stmt{}, x.List[:i]...)
								nl = append(nl, def)
								nl = append(nl, x.List[i:]...)
								x.List = nl
							})
						}
					}
					// splitdecl: `a, b := x, y` -> `a := x; b := y` when y does not mention a
					if as, ok := st.(*ast.AssignStmt); ok && as.Tok == token.DEFINE && len(as.Lhs) == 2 && len(as.Rhs) == 2 {
						a, okA := as.Lhs[0].(*ast.Ident)
						b, okB := as.Lhs[1].(*ast.Ident)
						mention := false
						if okA {
							ast.Inspect(as.Rhs[1], func(k ast.Node) bool {
								if id, ok := k.(*ast.Ident); ok && id.Name == a.Name {
									mention = true
								}
								return true
							})
						}
						if okA && okB && a.Name != "_" && b.Name != "_" && !mention && pure(as.Rhs[0]) && pure(as.Rhs[1]) && a.Obj != nil && a.Obj.Decl == ast.Node(as) && b.Obj != nil && b.Obj.Decl == ast.Node(as) {
							add("splitdecl", as.Pos(), func() {
								s1 := &ast.AssignStmt{Lhs: []ast.Expr{a}, Tok: token.DEFINE, Rhs: []ast.Expr{as.Rhs[0]}}
								s2 := &ast.AssignStmt{Lhs: []ast.Expr{b}, Tok: token.DEFINE, Rhs: []ast.Expr{as.Rhs[1]}}
								nl := append([]ast.Stmt{}, x.List[:i]...)
								nl = append(nl, s1, s2)
								nl = append(nl, x.List[i+1:]...)
								x.List = nl
							})
						}
					}
					// elsereturn: `if c { ...return } ; return Y` (last two statements) -> `if c {...} else { return Y }`
					if is, ok := st.(*ast.IfStmt); ok && is.Else == nil && i+2 == len(x.List) && len(is.Body.List) > 0 {
						_, endsRet := is.Body.List[len(is.Body.List)-1].(*ast.ReturnStmt)
						last, lastRet := x.List[i+1].(*ast.ReturnStmt)
						if endsRet && lastRet && m == ast.Node(fd.Body) {
							_ = last
						}
					}
					// varform: `v := e` -> `var v = e` for a call / composite / selector value
					if as, ok := st.(*ast.AssignStmt); ok && as.Tok == token.DEFINE && len(as.Lhs) == 1 && len(as.Rhs) == 1 {
						if id, isID := as.Lhs[0].(*ast.Ident); isID && id.Name != "_" {
							switch as.Rhs[0].(type) {
							case *ast.CallExpr, *ast.CompositeLit, *ast.SelectorExpr, *ast.BinaryExpr:
								if _, isLabeled := m.(*ast.BlockStmt); isLabeled {
									add("varform", as.Pos(), func() {
										x.List[i] = &ast.DeclStmt{Decl: &ast.GenDecl{Tok: token.VAR, Specs: []ast.Spec{&ast.ValueSpec{Names: []*ast.Ident{id}, Values: []ast.Expr{as.Rhs[0]}}}}}
									})
								}
							}
						}
					}
					// rangeidx: `for i, v := range xs {` -> `for i := range xs { v := xs[i]; ...` (xs an identifier)
					if rs, ok := st.(*ast.RangeStmt); ok && rs.Tok == token.DEFINE && rs.Key != nil && rs.Value != nil {
						k, okK := rs.Key.(*ast.Ident)
						v, okV := rs.Value.(*ast.Ident)
						xs, okX := rs.X.(*ast.Ident)
						if okK && okV && okX && k.Name != "_" && v.Name != "_" {
							add("rangeidx", rs.Pos(), func() {
								def := &ast.AssignStmt{Lhs: []ast.Expr{v}, Tok: token.DEFINE, Rhs: []ast.Expr{&ast.IndexExpr{X: ast.NewIdent(xs.Name), Index: ast.NewIdent(k.Name)}}}
								rs.Value = nil
								rs.Body.List = append([]ast.Stmt{def}, rs.Body.List...)
							})
						}
					}
					if as, ok := st.(*ast.AssignStmt); ok && len(as.Lhs) == 1 && (as.Tok == token.ADD_ASSIGN || as.Tok == token.SUB_ASSIGN) {
						if id, isID := as.Lhs[0].(*ast.Ident); isID && pure(as.Rhs[0]) {
							add("opassign", as.Pos(), func() {
								op := token.ADD
								if as.Tok == token.SUB_ASSIGN {
									op = token.SUB
								}
								x.List[i] = &ast.AssignStmt{Lhs: as.Lhs, Tok: token.ASSIGN, Rhs: []ast.Expr{&ast.BinaryExpr{X: ast.NewIdent(id.Name), Op: op, Y: &ast.ParenExpr{X: as.Rhs[0]}}}}
							})
						}
					}
				}
			case *ast.AssignStmt:
				// rename a local declared here with :=
				if x.Tok == token.DEFINE {
					for _, l := range x.Lhs {
						id, ok := l.(*ast.Ident)
						if !ok || id.Name == "_" || id.Obj == nil || id.Obj.Decl != ast.Node(x) || len(id.Name) < 2 {
							continue
						}
						obj := id.Obj
						nn := id.Name + "Q"
						if used[nn] {
							continue
						}
						add("rename", id.Pos(), func() {
							ast.Inspect(fd, func(k ast.Node) bool {
								if u, ok := k.(*ast.Ident); ok && u.Obj == obj {
									u.Name = nn
								}
								return true
							})
						})
					}
				}
			}
			return true
		})
	}
	sort.SliceStable(sites, func(i, j int) bool { return sites[i].pos < sites[j].pos })
	if *list {
		cnt := map[string]int{}
		for _, s := range sites {
			cnt[s.kind]++
		}
		var ks []string
		for k := range cnt {
			ks = append(ks, k)
		}
		sort.Strings(ks)
		for _, k := range ks {
			fmt.Printf("%s %d\n", k, cnt[k])
		}
		return
	}
	i := 0
	for _, s := range sites {
		if s.kind != *kind {
			continue
		}
		if i == *n {
			s.apply()
			var buf bytes.Buffer
			if err := format.Node(&buf, fset, f); err != nil {
				fmt.Fprintln(os.Stderr, err)
				os.Exit(2)
			}
			fmt.Fprintf(os.Stderr, "%s\n", fset.Position(s.pos))
			os.Stdout.Write(buf.Bytes())
			return
		}
		i++
	}
	fmt.Fprintln(os.Stderr, "no such site")
	os.Exit(3)
}

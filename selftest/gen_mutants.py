#!/usr/bin/env python3
"""Self-test corpus: one broken instance per rule (DESIGN.md 7a), plus a few
behaviour-preserving variants that must stay silent. Each entry is an edit of
one file of /repo applied through a go/packages overlay by `gtsverif -tier
thorough`; nothing here is ever written into /repo. Regenerate mutants.json
with:  python3 selftest/gen_mutants.py"""
import json, os

M = []

def mut(id, prop, file, old, new, expect=None, silent=False, note="", old2="", new2="", file3="", old3="", new3=""):
    M.append(dict(id=id, property=prop, file=file, old=old, new=new, old2=old2, new2=new2, file3=file3, old3=old3, new3=new3, expect=expect or [], silent=silent, note=note))

# ---------------------------------------------------------------- C18
mut("c18-comp-swap-pair", "C18", "nucleotide.go",
    '[]byte("TGCAAYRMKVHDBtgcaayrmkvhdb"),\n\t)\n\tff := make',
    '[]byte("TGCAAYRKMVHDBtgcaayrmkvhdb"),\n\t)\n\tff := make',
    ["COMP|gts.Complement|byte=K", "COMP|gts.Complement|byte=M"], note="K/M complements swapped in upper case only")
mut("c18-trans-lower-a", "C18", "nucleotide.go",
    '[]byte("UGCAAYRMKVHDBugcaayrmkvhdb")', '[]byte("UGCAAYRMKVHDBtgcaayrmkvhdb")',
    ["TRANS|gts.Transcribe|byte=a"], note="lower-case a transcribed to t")
mut("c18-lookup-old", "C18", "nucleotide.go", "q[i] = new[j]", "q[i] = old[j]", ["LOOKUP|gts.replaceBytes|hit"])
mut("c18-class-m", "C18", "nucleotide.go", 'b.WriteString("[acm]")', 'b.WriteString("[ack]")', ["CLASSES|gts.Match|query=m"])
mut("c18-class-missing-case", "C18", "nucleotide.go", "\t\tcase 's':\n\t\t\tb.WriteString(\"[cgs]\")\n", "", ["CLASSES|gts.Match|query=s"])
mut("c18-literal-unescaped", "C18", "nucleotide.go", "b.WriteString(regexp.QuoteMeta(string([]byte{c})))", "b.WriteByte(c)", ["LITERAL|gts.Match|dynamic-write"])
mut("c18-fold-query", "C18", "nucleotide.go", "for _, c := range lowerBytes(query.Bytes()) {", "for _, c := range query.Bytes() {", ["FOLD|gts.Match|lower-query"])
mut("c18-lookup-one", "C18", "sequence.go", "return index.Lookup(sep, -1)", "return index.Lookup(sep, 1)", ["FOLD|gts.Search|all-hits"])
mut("c18-search-unsorted", "C18", "sequence.go", "\tsort.Sort(BySegment(segments))\n\treturn segments\n}\n", "\t_ = sort.Sort\n\treturn segments\n}\n", ["FOLD|gts.Search|sorted"])
mut("c18-search-fold-seq", "C18", "sequence.go", "s := lowerBytes(seq.Bytes())", "s := seq.Bytes()", ["FOLD|gts.Search|lower-seq"])
mut("c18-silent-const", "C18", "nucleotide.go",
    'func Complement(seq Sequence) Sequence {\n\tp := replaceBytes(\n\t\tseq.Bytes(),\n\t\t[]byte("ACGTURYKMBDHVacgturykmbdhv"),',
    'const compFrom = "ACGTURYKMBDHVacgturykmbdhv"\n\nfunc Complement(seq Sequence) Sequence {\n\tp := replaceBytes(\n\t\tseq.Bytes(),\n\t\t[]byte(compFrom),',
    silent=True, note="hoisting the alphabet into a named constant changes nothing")

# ---------------------------------------------------------------- C14
mut("c14-key1-delete-erase", "C14", "cmd/gts/delete.go", '\t\t\t{"erase", *erase},\n', '', ["KEY-1|main.deleteFunc|flag=erase"])
mut("c14-key1-query-comma", "C14", "cmd/gts/query.go", '\t\t\t{"comma", comma},\n', '', ["KEY-1|main.queryFunc|flag=separator"])
mut("c14-key1-extract-invert", "C14", "cmd/gts/extract.go", '\t\t\t{"invert", *invert},\n', '', ["KEY-1|main.extractFunc|flag=invert-region"])
mut("c14-key1-search-propstrs", "C14", "cmd/gts/search.go", '\t\t\t{"propstrs", *propstrs},\n', '', ["KEY-1|main.searchFunc|flag=qualifier"])
mut("c14-key1-select-strand", "C14", "cmd/gts/select.go", '\t\t\t{"strand", *strand},\n', '', ["KEY-1|main.selectFunc|flag=strand"])
mut("c14-key1-annotate-featin", "C14", "cmd/gts/annotate.go", '\t\t\t{"featin", encodeToString(featsum)},\n', '', expect=["KEY-1|main.annotateFunc|flag=feature_table"], old2="featsum := h.Sum(nil)\n", new2="featsum := h.Sum(nil)\n\t_ = featsum\n")
mut("c14-key1-define-location", "C14", "cmd/gts/define.go", '\t\t\t{"location", loc.String()},\n', '', ["KEY-1|main.defineFunc|flag=location"])
mut("c14-key1-new-unkeyed-switch", "C14", "cmd/gts/sort.go",
    '\treverse := opt.Switch(\'r\', "reverse", "reverse the sort order")\n',
    '\treverse := opt.Switch(\'r\', "reverse", "reverse the sort order")\n\tstable := opt.Switch(\'s\', "stable", "keep the input order of equal lengths")\n\t_ = stable\n',
    [], silent=True, note="declared but never read: not output-affecting")
mut("c14-key1-new-unkeyed-read", "C14", "cmd/gts/sort.go",
    '\tvar iface sort.Interface\n\tiface = byLength(seqs)\n\tif *reverse {',
    '\tvar iface sort.Interface\n\tiface = byLength(seqs)\n\tif *format == "none" {\n\t\tseqs = nil\n\t}\n\tif *nocache && *reverse {',
    ["KEY-1|main.sortFunc|flag=no-cache"], note="the no-cache switch read outside its guard role becomes an output-affecting option")
mut("c14-key2-clear-command", "C14", "cmd/gts/clear.go", '\t\t\t{"command", strings.Join(ctx.Name, "-")},\n', '\t\t\t{"command", strings.Join([]string{"gts"}, "-")},\n', ["KEY-2|main.clearFunc"])
mut("c14-key3-insert-path", "C14", "cmd/gts/insert.go", '{"guest", guestSum},', '{"guest", *guestPath},', expect=["KEY-3|main.insertFunc|input=guest"], old2="guestSum := h.Sum(nil)\n", new2="guestSum := h.Sum(nil)\n\t_ = guestSum\n")
mut("c14-key4-early-scanner", "C14", "cmd/gts/reverse.go", "\tif !*nocache {\n", "\tpeek := make([]byte, 1)\n\td.Read(peek)\n\tif !*nocache {\n", ["KEY-4|main.reverseFunc"])
mut("c14-key5-no-rewind", "C14", "cmd/gts/io.go",
    "\tdsum := h.Sum(nil)\n\n\tif _, err := d.infile.Seek(0, io.SeekStart); err != nil {\n\t\treturn false, err\n\t}\n",
    "\tdsum := h.Sum(nil)\n", ["KEY-5|main.ioDelegate.TryCache|rewind"])
mut("c14-key5-data-in-root", "C14", "cmd/gts/io.go",
    "\th.Reset()\n\th.Write(data)\n\tdsum := h.Sum(nil)", "\th.Write(data)\n\tdsum := h.Sum(nil)", ["KEY-5|main.ioDelegate.TryCache|data-digest"])
mut("c14-key5-swapped-key", "C14", "cmd/gts/io.go", "cache.CreateLevel(dir, h, rsum, dsum, flate.BestSpeed)", "cache.CreateLevel(dir, h, dsum, rsum, flate.BestSpeed)", ["KEY-5|main.ioDelegate.TryCache|same-key"])
mut("c14-key5-spool-no-rewind", "C14", "cmd/gts/io.go",
    "\t\tif _, err := f.Seek(0, io.SeekStart); err != nil {\n\t\t\td.Close()\n\t\t\treturn false, err\n\t\t}\n\n\t\td.infile = f",
    "\t\td.infile = f", ["KEY-5|main.ioDelegate.TryCache|spool-rewind"])
mut("c14-replay-on-error", "C14", "cmd/gts/io.go",
    "\t\td.cache = f\n\t\treturn false, nil\n\t}\n",
    "\t\td.cache = f\n\t\tif d.outfile == nil {\n\t\t\treturn false, nil\n\t\t}\n\t}\n", ["REPLAY|main.ioDelegate.TryCache|replay-valid"],
    note="falls through to the replay after a failed Open")
mut("c14-tee-short", "C14", "cmd/gts/io.go", "n, err := d.cache.Write(p)\n\t\tif err != nil {", "n, err := d.cache.Write(p[:len(p)/2])\n\t\tif err != nil {", ["TEE|main.ioDelegate.Write|same-bytes-cache"])
mut("c14-tee-dropped-error", "C14", "cmd/gts/io.go", "\t\tn, err := d.cache.Write(p)\n\t\tif err != nil {\n\t\t\treturn n, err\n\t\t}\n", "\t\td.cache.Write(p)\n", ["TEE|main.ioDelegate.Write|error-cache"])
mut("c14-commit-close-ignores", "C14", "cmd/gts/io.go", "err != nil || !d.commit {", "err != nil {", ["COMMIT|main.ioDelegate.Close|finalise"])
mut("c14-commit-before-err", "C14", "cmd/gts/rotate.go",
    "\tif err := scanner.Err(); err != nil {\n\t\treturn ctx.Raise(fmt.Errorf(\"encountered error in scanner: %v\", err))\n\t}\n\n\td.Commit()\n",
    "\td.Commit()\n\tif err := scanner.Err(); err != nil {\n\t\treturn ctx.Raise(fmt.Errorf(\"encountered error in scanner: %v\", err))\n\t}\n\n",
    ["COMMIT|main.rotateFunc|commit#1"])
mut("c14-commit-second-writer", "C14", "cmd/gts/io.go", "\t\td.cache = f\n\t\treturn false, nil\n", "\t\td.cache = f\n\t\td.commit = true\n\t\treturn false, nil\n", ["COMMIT|main.ioDelegate.Close|single-writer"])
mut("c14-commit-deferred", "C14", "cmd/gts/join.go", "\tdefer d.Close()\n", "\tdefer d.Close()\n\tdefer d.Commit()\n", ["COMMIT|main.joinFunc|deferred-commit"])
mut("c14-silent-reorder-tuples", "C14", "cmd/gts/delete.go",
    '\t\t\t{"locator", *locstr},\n\t\t\t{"erase", *erase},\n', '\t\t\t{"erase", *erase},\n\t\t\t{"locator", *locstr},\n', silent=True)
mut("c14-silent-payload-var", "C14", "cmd/gts/rotate.go",
    '\t\tdata := encodePayload([]tuple{\n\t\t\t{"command", strings.Join(ctx.Name, "-")},\n\t\t\t{"version", gts.Version.String()},\n\t\t\t{"locator", *locstr},\n\t\t\t{"filetype", filetype},\n\t\t})\n',
    '\t\ttt := []tuple{\n\t\t\t{"command", strings.Join(ctx.Name, "-")},\n\t\t\t{"version", gts.Version.String()},\n\t\t\t{"locator", *locstr},\n\t\t\t{"filetype", filetype},\n\t\t}\n\t\tdata := encodePayload(tt)\n',
    silent=True)

# ---------------------------------------------------------------- C13
mut("c13-int1-drop-bodysum", "C13", "cmd/cache/header.go",
    '\tif !bytes.Equal(bsum, h.BodySum) {\n\t\treturn errors.New("body hash sum mismatch")\n\t}\n', '\t_ = bsum\n',
    ["INT-1|cache.Header.Validate|field=BodySum"])
mut("c13-int1-wrong-polarity", "C13", "cmd/cache/header.go", "if !bytes.Equal(dsum, h.DataSum) {", "if bytes.Equal(dsum, h.DataSum) {",
    ["INT-1|cache.Header.Validate|nil-only-if-all-equal"])
mut("c13-int2-flip-acc", "C13", "cmd/cache/file.go", "if err := hd.Validate(rsum, dsum, bsum); ret == nil {", "if err := hd.Validate(rsum, dsum, bsum); ret != nil {",
    ["INT-2|cache.Open|err-Validate"])
mut("c13-int2-validate-args", "C13", "cmd/cache/file.go", "hd.Validate(rsum, dsum, bsum)", "hd.Validate(rsum, rsum, bsum)", ["INT-2|cache.Open|validate-arg=DataSum"])
mut("c13-int2-drop-copy-error", "C13", "cmd/cache/file.go", "\t_, ret := io.Copy(h, f)\n", "\tvar ret error\n\tio.Copy(h, f)\n", ["INT-2|cache.Open|err-io.Copy"])
mut("c13-int3-copyn", "C13", "cmd/cache/file.go", "_, ret := io.Copy(h, f)", "_, ret := io.CopyN(h, f, 4096)", ["INT-3|cache.Open"])
mut("c13-int3-no-reset", "C13", "cmd/cache/file.go", "\th.Reset()\n\t_, ret := io.Copy(h, f)", "\t_, ret := io.Copy(h, f)", ["INT-3|cache.Open|body-digest"])
mut("c13-int4-short-header", "C13", "cmd/cache/header.go",
    '\tif n != len(p) {\n\t\treturn Header{}, errors.New("could not read sufficient bytes in header")\n\t}\n', '\t_ = n\n', ["INT-4|cache.ReadHeader|short-read"])
mut("c13-int5-name-rsum-only", "C13", "cmd/cache/file.go",
    "func CreateLevel(path string, h hash.Hash, rsum, dsum []byte, level int) (*File, error) {\n\th.Reset()\n\th.Write(append(rsum, dsum...))",
    "func CreateLevel(path string, h hash.Hash, rsum, dsum []byte, level int) (*File, error) {\n\th.Reset()\n\th.Write(rsum)",
    ["INT-5|cache.CreateLevel|name-binds-key", "INT-5|cache|same-name"])
mut("c13-int6-header-before-hash", "C13", "cmd/cache/file.go",
    "\t\tf.h.Reset()\n\t\tif _, err := io.Copy(f.h, f.f); ret == nil {\n\t\t\tret = err\n\t\t}\n\n\t\tf.hd.BodySum = f.h.Sum(nil)\n",
    "\t\tif ret == nil {\n\t\t\t_, ret = f.f.Seek(0, io.SeekStart)\n\t\t}\n\t\tif ret == nil {\n\t\t\t_, ret = f.hd.WriteTo(f.f)\n\t\t}\n\n\t\tf.h.Reset()\n\t\tif _, err := io.Copy(f.h, f.f); ret == nil {\n\t\t\tret = err\n\t\t}\n\n\t\tf.hd.BodySum = f.h.Sum(nil)\n",
    ["INT-6|cache.File.Close|order"])
mut("c13-int6-no-flush", "C13", "cmd/cache/file.go", "\t\tret := f.wr.Close()\n\n\t\tif _, err := f.f.Seek(int64(f.h.Size())*3, io.SeekStart); ret == nil {",
    "\t\tvar ret error\n\n\t\tif _, err := f.f.Seek(int64(f.h.Size())*3, io.SeekStart); ret == nil {", ["INT-6|cache.File.Close|order"])
mut("c13-int6-factor-open", "C13", "cmd/cache/file.go", "f.Seek(int64(size)*3, io.SeekStart)", "f.Seek(int64(size)*2, io.SeekStart)", ["INT-6|cache.Open|seek|factor"])
mut("c13-int6-writeto-order", "C13", "cmd/cache/header.go", "append(append(h.RootSum, h.DataSum...), h.BodySum...)", "append(append(h.DataSum, h.RootSum...), h.BodySum...)", ["INT-6|cache.Header.WriteTo|layout"])
mut("c13-int6-readheader-layout", "C13", "cmd/cache/header.go", "return Header{p[:i], p[i:j], p[j:]}, nil", "return Header{p[:i], p[j:], p[i:j]}, nil", ["INT-6|cache.ReadHeader|layout"])
mut("c13-int6-placeholder-late", "C13", "cmd/cache/file.go",
    "\t_, ret := f.Write(make([]byte, h.Size()*3))\n\n\thd := Header{rsum, dsum, nil}\n\trd := flate.NewReader(f)\n\twr, err := flate.NewWriter(f, level)\n",
    "\thd := Header{rsum, dsum, nil}\n\trd := flate.NewReader(f)\n\twr, err := flate.NewWriter(f, level)\n\t_, ret := f.Write(make([]byte, h.Size()*3))\n",
    ["INT-6|cache.CreateLevel|placeholder"])
mut("c13-int8-close-seek-dropped", "C13", "cmd/cache/file.go",
    "\t\tif ret == nil {\n\t\t\t_, ret = f.f.Seek(0, io.SeekStart)\n\t\t}\n", "\t\tif ret == nil {\n\t\t\tf.f.Seek(0, io.SeekStart)\n\t\t}\n", ["INT-8|cache.File.Close|err-os.File.Seek"])
mut("c13-int10-finalise-after-failure-reverted", "C13", "cmd/cache/file.go",
    "\t\tif ret == nil {\n\t\t\t_, ret = f.f.Seek(0, io.SeekStart)\n\t\t}\n\t\tif ret == nil {\n\t\t\t_, ret = f.hd.WriteTo(f.f)\n\t\t}\n",
    "\t\tif _, err := f.f.Seek(0, io.SeekStart); ret == nil {\n\t\t\tret = err\n\t\t}\n\n\t\tif _, err := f.hd.WriteTo(f.f); ret == nil {\n\t\t\tret = err\n\t\t}\n",
    ["INT-10|cache.File.Close|finalise"], note="the repaired defect, reintroduced")
mut("c13-int10-silent-early-return", "C13", "cmd/cache/file.go",
    "\t\tif ret == nil {\n\t\t\t_, ret = f.f.Seek(0, io.SeekStart)\n\t\t}\n\t\tif ret == nil {\n\t\t\t_, ret = f.hd.WriteTo(f.f)\n\t\t}\n",
    "\t\tif ret != nil {\n\t\t\treturn ret\n\t\t}\n\t\t_, ret = f.f.Seek(0, io.SeekStart)\n\t\tif ret == nil {\n\t\t\t_, ret = f.hd.WriteTo(f.f)\n\t\t}\n", silent=True)
mut("c13-int8-no-remove", "C13", "cmd/gts/io.go", "if err := d.cache.Close(); err != nil || !d.commit {", "if d.cache.Close(); !d.commit {", ["INT-8|main.ioDelegate.Close|remove-on-failure"])
mut("c13-int9-write-half", "C13", "cmd/cache/file.go", "return f.wr.Write(p)", "return f.wr.Write(p[:len(p)/2])", ["INT-9|cache.File.Write|passthrough"])
mut("c13-silent-readfull", "C13", "cmd/cache/header.go",
    '\tn, err := r.Read(p)\n\tif err != nil {\n\t\treturn Header{}, fmt.Errorf("while reading header: %v", err)\n\t}\n\tif n != len(p) {\n\t\treturn Header{}, errors.New("could not read sufficient bytes in header")\n\t}\n',
    '\tif _, err := io.ReadFull(r, p); err != nil {\n\t\treturn Header{}, fmt.Errorf("while reading header: %v %v", err, errors.New(""))\n\t}\n',
    silent=True, note="io.ReadFull is an accepted way to reject a short header")
mut("c13-silent-named-const", "C13", "cmd/cache/file.go", "f.Seek(int64(size)*3, io.SeekStart)", "f.Seek(int64(size)*headerFields, io.SeekStart)",
    silent=True, old2="// File represents a cache file.", new2="const headerFields = 3\n\n// File represents a cache file.")

# ---------------------------------------------------------------- C02..C05, C15 (conserve)
mut("c02-fmap-guest-skip-source", "C02", "sequence.go",
    "\tfor _, f := range guest.Features() {\n\t\tf.Loc = f.Loc.Expand(0, index)\n\t\tff = ff.Insert(f)\n\t}\n\thost = WithFeatures(host, ff)\n\n\tp := insert(host.Bytes(), index, guest.Bytes())\n\thost = WithBytes(host, p)\n\n\treturn host\n}\n\n// Embed",
    "\tfor _, f := range guest.Features() {\n\t\tif f.Key == \"source\" {\n\t\t\tcontinue\n\t\t}\n\t\tf.Loc = f.Loc.Expand(0, index)\n\t\tff = ff.Insert(f)\n\t}\n\thost = WithFeatures(host, ff)\n\n\tp := insert(host.Bytes(), index, guest.Bytes())\n\thost = WithBytes(host, p)\n\n\treturn host\n}\n\n// Embed",
    ["FMAP|gts.Insert|features-loop#2"])
mut("c02-fmap-embed-conditional-sink", "C02", "sequence.go",
    "\t\tf.Loc = f.Loc.Expand(index, Len(guest))\n\t\tff = ff.Insert(f)\n", "\t\tf.Loc = f.Loc.Expand(index, Len(guest))\n\t\tif f.Loc.Len() > 0 {\n\t\t\tff = ff.Insert(f)\n\t\t}\n",
    ["FMAP|gts.Embed|features-loop#1"])
mut("c02-fmap-guest-not-looped", "C02", "sequence.go",
    "\tfor _, f := range guest.Features() {\n\t\tf.Loc = f.Loc.Expand(0, index)\n\t\tff = ff.Insert(f)\n\t}\n\thost = WithFeatures(host, ff)\n\n\tp := insert(host.Bytes(), index, guest.Bytes())\n\thost = WithBytes(host, p)\n\n\treturn host\n}\n\n// Delete",
    "\thost = WithFeatures(host, ff)\n\n\tp := insert(host.Bytes(), index, guest.Bytes())\n\thost = WithBytes(host, p)\n\n\treturn host\n}\n\n// Delete",
    ["FMAP|gts.Embed|input#2"])
mut("c02-fmap-loc-from-other", "C02", "sequence.go", "\t\tf.Loc = f.Loc.Shift(index, Len(guest))\n", "\t\tf.Loc = Point(index)\n", ["FMAP|gts.Insert|features-loop#1"])
mut("c02-fill-shift-skips-first", "C02", "location.go",
    "\tlocs := make([]Location, len(joined))\n\tfor j, loc := range joined {\n\t\tlocs[j] = loc.Shift(i, n)\n\t}",
    "\tlocs := make([]Location, len(joined))\n\tfor j, loc := range joined {\n\t\tif j == 0 {\n\t\t\tcontinue\n\t\t}\n\t\tlocs[j] = loc.Shift(i, n)\n\t}",
    ["FILL|gts.Joined.Shift"])
mut("c03-mustpass-no-linear", "C03", "sequence.go", "\tseq = WithTopology(seq, Linear)\n\n\treturn seq\n", "\treturn seq\n", ["MUST-PASS|gts.Slice|return#2"])
mut("c03-mustpass-circular", "C03", "sequence.go", "\tseq = WithTopology(seq, Linear)\n\n\treturn seq\n", "\tseq = WithTopology(seq, Circular)\n\n\treturn seq\n", ["MUST-PASS|gts.Slice|return#2"])
mut("c03-fmap-delete-drops", "C03", "sequence.go",
    "\t\tf.Loc = f.Loc.Expand(offset, -length)\n\t\tff[i] = f\n", "\t\tif f.Loc.Len() == 0 {\n\t\t\tcontinue\n\t\t}\n\t\tf.Loc = f.Loc.Expand(offset, -length)\n\t\tff[i] = f\n",
    ["FMAP|gts.Delete|features-loop#1"])
mut("c03-fmap-slice-key-rewritten", "C03", "sequence.go", "\t\tff[i].Loc = loc\n", "\t\tff[i].Loc = loc\n\t\tf.Key = \"misc_feature\"\n\t\tff[i].Key = f.Key\n", ["FMAP|gts.Slice|features-loop#1"])
mut("c04-fill-normalize-partial", "C04", "location.go",
    "\tll := make([]Location, len(ordered))\n\tfor i, l := range ordered {\n\t\tll[i] = l.Normalize(length)\n\t}",
    "\tll := make([]Location, len(ordered))\n\tfor i, l := range ordered[1:] {\n\t\tll[i] = l.Normalize(length)\n\t}",
    ["FILL|gts.Ordered.Normalize"])
mut("c04-fmap-rotate-props", "C04", "sequence.go", "\t\tf.Loc = f.Loc.Expand(0, n).Normalize(Len(seq))\n", "\t\tf.Loc = f.Loc.Expand(0, n).Normalize(Len(seq))\n\t\tf.Props = nil\n", ["FMAP|gts.Rotate|features-loop#1"])
mut("c05-fill-reverse-lt", "C05", "location.go",
    "func (joined Joined) Reverse(length int) Location {\n\tll := make([]Location, len(joined))\n\tfor l, r := 0, len(ll)-1; l <= r; l, r = l+1, r-1 {",
    "func (joined Joined) Reverse(length int) Location {\n\tll := make([]Location, len(joined))\n\tfor l, r := 0, len(ll)-1; l < r; l, r = l+1, r-1 {",
    ["FILL|gts.Joined.Reverse"])
mut("c05-fill-regions-complement-index", "C05", "region.go", "ret[len(rr)-i-1] = r.Complement()", "ret[len(rr)-i] = r.Complement()", ["FILL|gts.Regions.Complement"],
    note="would also panic at run time; the rule reports the index form")
mut("c05-fmap-reverse-key", "C05", "sequence.go", "ff = ff.Insert(Feature{f.Key, f.Loc.Reverse(Len(seq)), f.Props.Clone()})", "ff = ff.Insert(Feature{\"misc_feature\", f.Loc.Reverse(Len(seq)), f.Props.Clone()})", ["FMAP|gts.Reverse|features-loop#1"])
mut("c05-fmap-concat-head-dropped", "C05", "sequence.go", "ff := append(FeatureSlice(nil), head.Features()...)", "ff := FeatureSlice(nil)", ["FMAP|gts.Concat|all-arguments"])
mut("c05-silent-reverse-ge", "C05", "location.go",
    "func (ordered Ordered) Reverse(length int) Location {\n\tll := make([]Location, len(ordered))\n\tfor l, r := 0, len(ll)-1; l <= r; l, r = l+1, r-1 {",
    "func (ordered Ordered) Reverse(length int) Location {\n\tll := make([]Location, len(ordered))\n\tfor l, r := 0, len(ll)-1; r >= l; l, r = l+1, r-1 {",
    silent=True)
mut("c05-silent-reverse-range", "C05", "location.go",
    "func (joined Joined) Reverse(length int) Location {\n\tll := make([]Location, len(joined))\n\tfor l, r := 0, len(ll)-1; l <= r; l, r = l+1, r-1 {\n\t\tll[l], ll[r] = joined[r].Reverse(length), joined[l].Reverse(length)\n\t}",
    "func (joined Joined) Reverse(length int) Location {\n\tll := make([]Location, len(joined))\n\tfor i, loc := range joined {\n\t\tll[len(joined)-1-i] = loc.Reverse(length)\n\t}",
    silent=True, note="an equivalent mirrored range loop is accepted")
mut("c15-locate-on-edited", "C15", "cmd/gts/insert.go",
    "\t\t\tfor _, index := range indices {\n\t\t\t\tout = insert(out, index, guest)\n\t\t\t}",
    "\t\t\tfor k := range indices {\n\t\t\t\tout = insert(out, locate(out)[len(indices)-1-k].Head(), guest)\n\t\t\t}",
    ["INPUT-COORD|main.insertFunc"])
mut("c15-delete-relocate", "C15", "cmd/gts/delete.go",
    "\t\t\ti, n := s.Head(), s.Len()\n\t\t\tseq = delete(seq, i, n)\n", "\t\t\ti, n := s.Head(), s.Len()\n\t\t\tseq = delete(seq, i, n)\n\t\t\t_ = locate(seq)\n",
    ["INPUT-COORD|main.deleteFunc"])
mut("c15-silent-copy-first", "C15", "cmd/gts/rotate.go", "\t\trr := locate(seq)\n", "\t\torig := gts.Sequence(gts.Copy(seq))\n\t\trr := locate(orig)\n", silent=True)

# ---------------------------------------------------------------- E7 orders + FILTER (C03, C09, C19)
mut("c03-e7-overlap-le", "C03", "location.go", "return s < u && l < e", "return s <= u && l < e", ["E7-INTERVAL|gts.rangeOverlap"])
mut("c03-e7-within-lt", "C03", "location.go", "return l <= s && e <= u", "return l < s && e <= u", ["E7-INTERVAL|gts.rangeWithin"])
mut("c03-e7-overlap-no-normalise", "C03", "location.go",
    "func rangeOverlap(s, e, l, u int) bool {\n\tif e < s {\n\t\ts, e = e, s\n\t}", "func rangeOverlap(s, e, l, u int) bool {\n\tif e < s {\n\t\ts, e = s, e\n\t}", ["E7-INTERVAL|gts.rangeOverlap"])
mut("c03-e7-arith", "C03", "location.go", "return l <= s && e <= u", "return l <= s && e-u <= 0", ["E7-INTERVAL|gts.rangeWithin"], note="arithmetic on inputs leaves the fragment: undecided, fails closed")
mut("c09-e7-less-le", "C09", "region.go", "\tif l[0] < r[0] {\n\t\treturn true\n\t}", "\tif l[0] <= r[0] {\n\t\treturn true\n\t}", ["E7-SWO|gts.BySegment.Less"])
mut("c09-e7-less-no-swap-r", "C09", "region.go", "\tif r[1] < r[0] {\n\t\tr[0], r[1] = r[1], r[0]\n\t}\n", "", ["E7-SWO|gts.BySegment.Less"])
mut("c09-e7-less-ignores-high", "C09", "region.go", "\tif l[1] < r[1] {\n\t\treturn true\n\t}\n\treturn false\n}", "\treturn false\n}", ["E7-SWO|gts.BySegment.Less"])
mut("c09-e7-max", "C09", "utils.go", "func Max(i, j int) int {\n\tif j < i {", "func Max(i, j int) int {\n\tif i < j {", ["E7-UTIL|gts.Max"])
mut("c09-silent-less-rewrite", "C09", "region.go",
    "\tif l[0] < r[0] {\n\t\treturn true\n\t}\n\tif r[0] < l[0] {\n\t\treturn false\n\t}\n\tif l[1] < r[1] {\n\t\treturn true\n\t}\n\treturn false\n}",
    "\tif l[0] != r[0] {\n\t\treturn l[0] < r[0]\n\t}\n\treturn l[1] < r[1]\n}", silent=True, note="an equivalent formulation of the same order")
mut("c19-e7-cmp-sign", "C19", "location.go", "\tcase s2 < s1:\n\t\treturn 1", "\tcase s2 < s1:\n\t\treturn -1", ["E7-CMP|gts.rangeCompare"])
mut("c19-e7-cmp-drop-end", "C19", "location.go", "\tcase e1 < e2:\n\t\treturn -1\n", "", ["E7-CMP|gts.rangeCompare"])
mut("c19-filter-negated", "C19", "feature.go", "if filter(NewFeature(f.Key, f.Loc, f.Props)) {", "if !filter(NewFeature(f.Key, f.Loc, f.Props)) {", ["FILTER|gts.FeatureSlice.Filter|keep"])
mut("c19-filter-wrong-elem", "C19", "feature.go", "\t\tgg[i] = ff[index]\n", "\t\tgg[i] = ff[i]\n\t\t_ = index\n", ["FILTER|gts.FeatureSlice.Filter|result"])
mut("c19-silent-filter-direct", "C19", "feature.go",
    "\tindices := make([]int, 0, len(ff))\n\tfor i, f := range ff {\n\t\tif filter(NewFeature(f.Key, f.Loc, f.Props)) {\n\t\t\tindices = append(indices, i)\n\t\t}\n\t}\n\tgg := make(FeatureSlice, len(indices))\n\tfor i, index := range indices {\n\t\tgg[i] = ff[index]\n\t}\n\treturn gg\n",
    "\tgg := make(FeatureSlice, 0, len(ff))\n\tfor i, f := range ff {\n\t\tif filter(f) {\n\t\t\tgg = append(gg, ff[i])\n\t\t}\n\t}\n\treturn gg\n", silent=True)

# ---------------------------------------------------------------- C01, C16 (tables)
mut("c01-labels-reader-rename", "C01", "seqio/genbank_subparsers.go", 'consrtmParser := subfieldParser("CONSRTM", depth)', 'consrtmParser := subfieldParser("CONSRTIUM", depth)', ["LABELS|seqio.GenBank.String|label=CONSRTM"])
mut("c01-labels-writer-rename", "C01", "seqio/genbank.go", 'b.WriteString("DBLINK      ")', 'b.WriteString("DBLINKS     ")', ["LABELS|seqio.GenBank.String|label=DBLINKS"])
mut("c01-width-remark", "C01", "seqio/genbank.go", '"  REMARK    "', '"  REMARK   "', ["WIDTH|seqio.GenBank.String|prefix=REMARK"])
mut("c01-width-indent", "C01", "seqio/genbank.go", 'const defaultGenBankIndent = "            "', 'const defaultGenBankIndent = "           "', ["WIDTH|seqio.defaultGenBankIndent"])
mut("c01-width-extra-formatter", "C01", "seqio/genbank.go", 'return fmt.Sprintf("%-12s%s", name, value)', 'return fmt.Sprintf("%-13s%s", name, value)', ["WIDTH|seqio.genbankFieldFormatter"])
mut("c01-calendar-jun", "C01", "seqio/date.go", '"JUN": time.June,', '"JUN": time.July,', ["CALENDAR|seqio.monthMap|month=JUN"])
mut("c01-calendar-march", "C01", "seqio/date.go", "time.March:     31,", "time.March:     30,", ["CALENDAR|seqio.dayMap|month=3"])
mut("c01-calendar-leap-order", "C01", "seqio/date.go", "\tcase year%400 == 0:\n\t\treturn true\n\tcase year%100 == 0:\n\t\treturn false\n", "\tcase year%100 == 0:\n\t\treturn false\n\tcase year%400 == 0:\n\t\treturn true\n", ["CALENDAR|seqio.isLeapYear"])
mut("c01-silent-const-label", "C01", "seqio/genbank.go", 'b.WriteString("VERSION     " + gb.Fields.Version + "\\n")', 'const versionLabel = "VERSION     "\n\tb.WriteString(versionLabel + gb.Fields.Version + "\\n")', silent=True)
mut("c16-layout-76", "C16", "seqio/origin.go", "ret := lines * 76", "ret := lines * 75", ["LAYOUT|seqio.toOriginLength|constants", "LAYOUT-ARITH|seqio.toOriginLength"])
mut("c16-layout-verb-slow", "C16", "seqio/genbank_subparsers.go", '\t\t\tprefix := []byte(fmt.Sprintf("%9d", i+1))\n\t\t\tif !bytes.HasPrefix(q, prefix) {', '\t\t\tprefix := []byte(fmt.Sprintf("%8d", i+1))\n\t\t\tif !bytes.HasPrefix(q, prefix) {', ["LAYOUT|seqio.slowGenBankOriginParser|index-width"])
mut("c16-arith-lastblock", "C16", "seqio/origin.go", "return ret + lastBlock + 1", "return ret + lastBlock", ["LAYOUT-ARITH|seqio.toOriginLength"])
mut("c16-arith-from", "C16", "seqio/origin.go", "lastLine -= 11", "lastLine -= 10", ["LAYOUT-ARITH|seqio.fromOriginLength"])
mut("c16-layout-validate-step", "C16", "seqio/genbank_subparsers.go", "\t\tfor j := 0; j < 60 && i+j < length; j += 10 {\n\t\t\tif p[offset] != spaceByte {", "\t\tfor j := 0; j < 60 && i+j < length; j += 12 {\n\t\t\tif p[offset] != spaceByte {", ["LAYOUT|seqio.validateOrigin|loops"])
mut("c16-layout-bytes-index", "C16", "seqio/origin.go", "\t\t\tstart += 9\n", "\t\t\tstart += 8\n", ["LAYOUT|seqio.Origin.Bytes|constants"])
mut("c16-silent-named-consts", "C16", "seqio/origin.go", "\tlines := length / 60\n\tret := lines * 76\n\n\tlastLine := length % 60\n", "\tconst perLine, lineBytes = 60, 76\n\tlines := length / perLine\n\tret := lines * lineBytes\n\n\tlastLine := length % perLine\n", silent=True)

# ---------------------------------------------------------------- C11 (effects)
mut("c11-revert-delete", "C11", "sequence.go",
    "\tff := make(FeatureSlice, len(seq.Features()))\n\tfor i, f := range seq.Features() {\n\t\tf.Loc = f.Loc.Expand(offset, -length)\n\t\tff[i] = f\n\t}\n",
    "\tff := seq.Features()\n\tfor i, f := range ff {\n\t\tff[i].Loc = f.Loc.Expand(offset, -length)\n\t}\n", ["PURE|gts.Delete"])
mut("c11-revert-insert-helper", "C11", "sequence.go",
    "\tr := make([]byte, 0, len(p)+len(q))\n\tr = append(r, p[:pos]...)\n\tr = append(r, q...)\n\treturn append(r, p[pos:]...)\n",
    "\treturn append(p[:pos], append(q, p[pos:]...)...)\n", ["PURE|gts.insert"])
mut("c11-revert-rotate", "C11", "sequence.go",
    "\tq := seq.Bytes()\n\tp := make([]byte, 0, len(q))\n\tp = append(p, q[m:]...)\n\tp = append(p, q[:m]...)\n",
    "\tp := seq.Bytes()\n\tp = append(p[m:], p[:m]...)\n", ["PURE|gts.Rotate"])
mut("c11-revert-concat", "C11", "sequence.go",
    "\t\tff := append(FeatureSlice(nil), head.Features()...)\n\t\tp := append([]byte(nil), head.Bytes()...)\n", "\t\tff, p := head.Features(), head.Bytes()\n", ["PURE|gts.Concat"])
mut("c11-revert-featureslice-insert", "C11", "feature.go",
    "\tgg := make(FeatureSlice, len(ff)+1)\n\tcopy(gg, ff[:i])\n\tgg[i] = f\n\tcopy(gg[i+1:], ff[i:])\n\n\treturn gg\n",
    "\tff = append(ff, Feature{})\n\tcopy(ff[i+1:], ff[i:])\n\tff[i] = f\n\n\treturn ff\n", ["PURE|(gts.FeatureSlice).Insert"])
mut("c11-reverse-in-place", "C11", "sequence.go",
    "\tp := make([]byte, Len(seq))\n\tcopy(p, seq.Bytes())\n\tflip.Bytes(p)\n", "\tp := seq.Bytes()\n\tflip.Bytes(p)\n", ["PURE|gts.Reverse"])
mut("c11-gbf-slice-renumber-in-place", "C11", "seqio/genbank.go",
    "\tfor i := range refs {\n\t\trefs[i].Number = i + 1\n\t}\n\n\tgbf.References = refs\n", "\tfor i := range gbf.References {\n\t\tgbf.References[i].Number = i + 1\n\t}\n\t_ = refs\n", ["PURE|(seqio.GenBankFields).Slice"])
mut("c11-ascomplete-on-argument", "C11", "sequence.go", "loc := f.Loc.Expand(end, end-seqlen).Expand(0, -start)", "loc := f.Loc", ["PURE|gts.asComplete"],
    note="asComplete is only safe on the fresh results of Expand")
mut("c11-props-clone-shallow", "C11", "nucleotide.go", "ff[i] = Feature{f.Key, f.Loc.Complement(), f.Props.Clone()}", "f.Props.Set(\"complemented\")\n\t\tff[i] = Feature{f.Key, f.Loc.Complement(), f.Props}", ["PURE|"],
    note="(*Props).Set through a pointer to the loop copy: Set replaces/appends on the copy header; appending into spare capacity of the argument's qualifier list is a write")
mut("c11-silent-insert-copy", "C11", "sequence.go",
    "\tr := make([]byte, 0, len(p)+len(q))\n\tr = append(r, p[:pos]...)\n\tr = append(r, q...)\n\treturn append(r, p[pos:]...)\n",
    "\tr := make([]byte, len(p)+len(q))\n\tcopy(r, p[:pos])\n\tcopy(r[pos:], q)\n\tcopy(r[pos+len(q):], p[pos:])\n\treturn r\n", silent=True)

# ---------------------------------------------------------------- siblings / extra structural rules
mut("c02-sibling-ambiguous-shift", "C02", "location.go", "left, right := Ambiguous{start, i}, Ambiguous{i + n, end + n}", "left, right := Ambiguous{start, i}, Ambiguous{i + 1, end + n}", ["SIBLING|gts.Ranged.Shift~Ambiguous.Shift"])
mut("c02-sibling-ranged-shift-boundary", "C02", "location.go", "\tif i <= start {\n\t\tstart += n\n\t}\n\tif i < end {\n\t\tend += n\n\t}\n\treturn Ranged{start, end, partial}", "\tif i < start {\n\t\tstart += n\n\t}\n\tif i < end {\n\t\tend += n\n\t}\n\treturn Ranged{start, end, partial}", ["SIBLING|gts.Ranged.Shift~Ambiguous.Shift"])
mut("c02-sibling-embed-shift", "C02", "sequence.go", "f.Loc = f.Loc.Expand(index, Len(guest))", "f.Loc = f.Loc.Shift(index, Len(guest))", ["SIBLING|gts.Insert~Embed"])
mut("c02-len-origin", "C02", "seqio/origin.go", "\tif len(o.Buffer) == 0 {\n\t\treturn 0\n\t}\n\tif o.Parsed {", "\tif len(o.Buffer) <= 12 {\n\t\treturn 0\n\t}\n\tif o.Parsed {", ["LEN|seqio.Origin.Len"])
mut("c03-clamp-between", "C03", "location.go", "\tp := int(between)\n\tif i < p {\n\t\tp = Max(i, p+n)\n\t}", "\tp := int(between)\n\tif i < p {\n\t\tp += n\n\t}", ["CLAMP|gts.Between.Expand"])
mut("c03-sibling-ambiguous-expand", "C03", "location.go",
    "\tstart, end := ambiguous.Start, ambiguous.End\n\tif (0 <= n && i <= start) || (n < 0 && i < start) {", "\tstart, end := ambiguous.Start, ambiguous.End\n\tif (0 <= n && i <= start) || (n < 0 && i <= start) {", ["SIBLING|gts.Ranged.Expand~Ambiguous.Expand"])
mut("c03-window-reference", "C03", "seqio/genbank.go", "if gts.LocationOverlap(loc, start, end) {", "if loc.Start <= end && start <= loc.End {", ["WINDOW|seqio.GenBankFields.Slice"])
mut("c03-window-slice-bounds", "C03", "sequence.go", "ff := seq.Features().Filter(Overlap(start, end))", "ff := seq.Features().Filter(Overlap(start, end+1))", ["WINDOW|gts.Slice|features"])
mut("c04-sibling-normalize-partial", "C04", "location.go",
    "\tleft, right := Range(start, length), Range(0, end)\n\tif ranged.Partial.Partial5 {\n\t\tleft.Partial = Partial5\n\t}\n\tif ranged.Partial.Partial3 {\n\t\tright.Partial = Partial3\n\t}",
    "\tleft, right := Range(start, length), Range(0, end)\n\tif ranged.Partial != Complete {\n\t\tleft.Partial = Partial5\n\t\tright.Partial = Partial3\n\t}", ["SIBLING|gts.Ranged.Shift~Ranged.Normalize"])
mut("c04-mod-normalise", "C04", "sequence.go", "\tfor Len(seq) > 0 && n < 0 {\n\t\tn += Len(seq)\n\t}\n\tn %= Len(seq)\n", "\tn = (n + Len(seq)) % Len(seq)\n", ["MOD-NORMALISE|gts.Rotate"])
mut("c04-silent-mod-closed-form", "C04", "sequence.go", "\tfor Len(seq) > 0 && n < 0 {\n\t\tn += Len(seq)\n\t}\n\tn %= Len(seq)\n", "\tn = ((n % Len(seq)) + Len(seq)) % Len(seq)\n", silent=True)
mut("c05-reverse-map", "C05", "region.go",
    "\tret := make(Regions, len(rr))\n\tfor i, r := range rr {\n\t\t// Flip the order of regions.\n\t\tret[len(rr)-i-1] = r.Complement()\n\t}\n\treturn ret",
    "\tret := make(Regions, len(rr))\n\tcopy(ret, rr)\n\tfor l, r := 0, len(ret)-1; l < r; l, r = l+1, r-1 {\n\t\tret[l], ret[r] = ret[r].Complement(), ret[l].Complement()\n\t}\n\treturn ret", ["REVERSE-MAP|gts.Regions.Complement"])
mut("c05-mirror", "C05", "region.go", "ret[len(rr)-i-1] = r.Complement()", "ret[i] = r.Complement()", ["FILL|gts.Regions.Complement"])
mut("c05-lookup-index0", "C05", "nucleotide.go",
    "\t\tswitch j := bytes.IndexByte(old, c); j {\n\t\tcase -1:\n\t\t\tq[i] = c\n\t\tdefault:\n\t\t\tq[i] = new[j]\n\t\t}",
    "\t\tif j := bytes.IndexByte(old, c); j > 0 {\n\t\t\tq[i] = new[j]\n\t\t} else {\n\t\t\tq[i] = c\n\t\t}", ["LOOKUP|gts.replaceBytes"])
mut("c05-silent-lookup-if", "C05", "nucleotide.go",
    "\t\tswitch j := bytes.IndexByte(old, c); j {\n\t\tcase -1:\n\t\t\tq[i] = c\n\t\tdefault:\n\t\t\tq[i] = new[j]\n\t\t}",
    "\t\tif j := bytes.IndexByte(old, c); j >= 0 {\n\t\t\tq[i] = new[j]\n\t\t} else {\n\t\t\tq[i] = c\n\t\t}", silent=True)
mut("c15-mirror", "C15", "region.go", "ret[len(rr)-i-1] = r.Complement()", "ret[i] = r.Complement()", ["FILL|gts.Regions.Complement"])
mut("c19-regexp-pred", "C19", "feature.go", "\t\t\tfor _, v := range vv {\n\t\t\t\tif re.MatchString(v) {", "\t\t\tfor _, v := range vv {\n\t\t\t\tif re.FindString(v) != \"\" {", ["REGEXP-PRED|gts.Qualifier"])
mut("c19-source-prefix", "C19", "feature.go", "\tfor i < len(ff) && ff[i].Key == \"source\" {\n\t\ti++\n\t}", "\tif len(ff) > 0 && ff[0].Key == \"source\" {\n\t\ti = 1\n\t}", ["SOURCE-PREFIX|gts.FeatureSlice.Insert"])

# ---------------------------------------------------------------- order-type interpretation of the region algebra (C09, C15)
mut("c09-minimize-merge-no-max", "C09", "region.go", "ss[i] = Segment{Min(l[0], r[0]), Max(l[1], r[1])}", "ss[i] = Segment{l[0], r[1]}", ["MINIMIZE|gts.Minimize"])
mut("c09-minimize-abutting", "C09", "region.go", "\t\tif l[1] < r[0] {\n\t\t\ti++", "\t\tif l[1] <= r[0] {\n\t\t\ti++", ["MINIMIZE|gts.Minimize"])
mut("c09-minimize-skip-after-merge", "C09", "region.go", "\t\t\tcopy(ss[i+1:], ss[i+2:])\n\t\t\tss = ss[:len(ss)-1]\n", "\t\t\tcopy(ss[i+1:], ss[i+2:])\n\t\t\tss = ss[:len(ss)-1]\n\t\t\ti++\n", ["MINIMIZE|gts.Minimize"])
mut("c09-flatten-no-orient", "C09", "region.go", "\t\tif s[1] < s[0] {\n\t\t\ts = Segment{s[1], s[0]}\n\t\t}\n", "", ["MINIMIZE|gts.Minimize"])
mut("c09-invert-empty-gap", "C09", "region.go", "\t\tif start != s[0] {\n\t\t\trr = append(rr, Segment{start, s[0]})\n\t\t}", "\t\trr = append(rr, Segment{start, s[0]})", ["INVERT|gts.InvertLinear"])
mut("c09-invert-tail-dropped", "C09", "region.go", "\tif start != n {\n\t\trr = append(rr, Segment{start, n})\n\t}\n", "", ["INVERT|gts.InvertLinear"])
mut("c09-invertcircular-guard", "C09", "region.go", "if ss[0][0] == 0 || ss[len(ss)-1][1] == n {", "if ss[0][0] == 0 && ss[len(ss)-1][1] == n {", ["INVERT|gts.InvertCircular"])
mut("c09-silent-minimize-rewrite", "C09", "region.go", "\t\tif l[1] < r[0] {\n\t\t\ti++\n\t\t} else {", "\t\tif r[0] > l[1] {\n\t\t\ti += 1\n\t\t} else {", silent=True)
mut("c15-minimize-merge-no-max", "C15", "region.go", "ss[i] = Segment{Min(l[0], r[0]), Max(l[1], r[1])}", "ss[i] = Segment{l[0], r[1]}", ["MINIMIZE|gts.Minimize"])

# ---------------------------------------------------------------- C07 (traps)
mut("c07-revert-field-indent", "C07", "seqio/genbank_subparsers.go",
    "\t\tif indentLength < 0 {\n\t\t\tstate.Clear()\n\t\t\twhat := fmt.Sprintf(\"uneven indent in field `%s`\", name)\n\t\t\treturn pars.NewError(what, state.Position())\n\t\t}\n\t\tindentParser", "\t\tindentParser", ["NN|seqio.genbankFieldNameParser"])
mut("c07-revert-dblink", "C07", "seqio/genbank_subparsers.go",
    "\t\t\tif len(s) < i+2 {\n\t\t\t\treturn pars.NewError(\"expected value after `:`\", state.Position())\n\t\t\t}\n", "", ["IDX|seqio.genbankDBLinkPairParser"])
mut("c07-dblink-guard-off-by-one", "C07", "seqio/genbank_subparsers.go", "if len(s) < i+2 {", "if len(s) < i+1 {", ["IDX|seqio.genbankDBLinkPairParser"])
mut("c07-revert-reference-pad", "C07", "seqio/genbank_subparsers.go", "\t\tif paddingLength < 0 {\n\t\t\tpaddingLength = 0\n\t\t}\n", "", ["NN|seqio.genbankReferenceParser"])
mut("c07-revert-slow-origin", "C07", "seqio/genbank_subparsers.go",
    "\t\t\t\t\tif len(q) <= extent {\n\t\t\t\t\t\tpos.Byte += extent\n\t\t\t\t\t\treturn pars.NewError(\"unexpected end of line\", pos)\n\t\t\t\t\t}\n\t\t\t\t\tif !isBaseCharacter(q[extent]) {", "\t\t\t\t\tif !isBaseCharacter(q[extent]) {", ["IDX|seqio.slowGenBankOriginParser"])
mut("c07-revert-negative-length", "C07", "seqio/genbank.go", "\tif length < 0 {\n\t\treturn pars.NewError(\"negative sequence length\", state.Position())\n\t}\n", "", ["NN|seqio."])
mut("c07-definition-empty", "C07", "seqio/genbank_subparsers.go", "if len(p) != 0 && p[len(p)-1] != '.' {", "if p[len(p)-1] != '.' {", ["IDX|seqio.genbankDefinitionParser"])
mut("c07-toqualifier-no-case", "C07", "feature.go",
    "\tswitch i := strings.IndexByte(s, '='); i {\n\tcase -1:\n\t\treturn Qualifier(s, \"\")\n\tdefault:\n\t\treturn Qualifier(s[:i], s[i+1:])\n\t}",
    "\ti := strings.IndexByte(s, '=')\n\treturn Qualifier(s[:i], s[i+1:])", ["IDX|gts.toQualifier"])
mut("c07-asdate-no-len-check", "C07", "seqio/date.go", "\tif len(parts) != 3 {\n\t\treturn Date{}, errors.New(\"expected 3 fields in date\")\n\t}\n", "\t_ = errors.New\n", ["IDX|seqio.AsDate"])
mut("c07-searchstring-no-empty", "C07", "seqio/insdc.go", "\tif len(ss) == 0 {\n\t\treturn false\n\t}\n\tn := len(ss) / 2", "\tn := len(ss) / 2", ["IDX|seqio.searchString"])
mut("c07-aslocation-no-err", "C07", "location.go", "\tresult, err := ParseLocation.Parse(pars.FromString(s))\n\tif err != nil {\n\t\treturn nil, err\n\t}\n\treturn result.Value.(Location), nil", "\tresult, _ := ParseLocation.Parse(pars.FromString(s))\n\treturn result.Value.(Location), nil", ["RES|gts.AsLocation"])
mut("c07-request-unchecked", "C07", "seqio/genbank_subparsers.go",
    "\t\t\tif err := state.Request(toOriginLength(length)); err != nil {\n\t\t\t\treturn pars.NewError(\"not enough bytes in state\", state.Position())\n\t\t\t}\n", "\t\t\tstate.Request(toOriginLength(length))\n", ["REQ-ERR|seqio.makeGenbankOriginParser"])
mut("c07-keyline-repeat", "C07", "seqio/insdc.go",
    "\t\tfor i := 0; i < depth-len(prefix+key); i++ {\n\t\t\tc, err := pars.Next(state)\n\t\t\tif err != nil {\n\t\t\t\treturn err\n\t\t\t}\n\t\t\tif c != ' ' {\n\t\t\t\treturn pars.NewError(\"wanted indent\", state.Position())\n\t\t\t}\n\t\t\tstate.Advance()\n\t\t}\n",
    "\t\tif err := pars.String(strings.Repeat(\" \", depth-len(prefix+key)))(state, pars.Void); err != nil {\n\t\t\treturn pars.NewError(\"wanted indent\", state.Position())\n\t\t}\n", ["NN|seqio.featureKeylineParser"])
mut("c07-double-advance", "C07", "location.go", "\tif c != '^' {\n\t\terr := pars.NewError(\"expected `^`\", state.Position())\n\t\tstate.Pop()\n\t\treturn err\n\t}\n\tstate.Advance()\n", "\tif c != '^' {\n\t\terr := pars.NewError(\"expected `^`\", state.Position())\n\t\tstate.Pop()\n\t\treturn err\n\t}\n\tstate.Advance()\n\tstate.Advance()\n", ["REQ-ADV|gts.parseBetween"])
mut("c07-silent-guard-rewrite", "C07", "seqio/genbank_subparsers.go", "if len(s) < i+2 {", "if i+2 > len(s) {", silent=True)

# ---------------------------------------------------------------- C12 (Repair: no-panic + structural clauses)
mut("c12-revert-join-panic", "C12", "feature.go",
    "\t\t\t\tkeep = append(keep, indices[:len(locs)]...)\n\t\t\t} else {\n\t\t\t\tkeep = append(keep, indices...)\n\t\t\t}\n",
    "\t\t\t}\n\t\t\tkeep = append(keep, indices[:len(locs)]...)\n", ["IDX|gts.Repair"])
mut("c12-group-key-no-props", "C12", "feature.go", 'key := fmt.Sprintf("%q:%q", f.Key, f.Props)', 'key := fmt.Sprintf("%q:%v", f.Key, len(f.Key))', ["GROUP-KEY|gts.Repair"])
mut("c12-group-key-unquoted-reverted", "C12", "feature.go", 'key := fmt.Sprintf("%q:%q", f.Key, f.Props)', 'key := fmt.Sprintf("%s:%v", f.Key, f.Props)', ["GROUP-KEY-INJECTIVE|gts.Repair|key-format"], note="the repaired defect, reintroduced")
mut("c12-group-key-sprint-concat", "C12", "feature.go", 'key := fmt.Sprintf("%q:%q", f.Key, f.Props)', 'key := f.Key + ":" + fmt.Sprint(f.Props)', ["GROUP-KEY-INJECTIVE|gts.Repair|key-format"])
mut("c12-group-key-silent-quoted-concat", "C12", "feature.go", 'key := fmt.Sprintf("%q:%q", f.Key, f.Props)', 'key := fmt.Sprintf("%q", f.Key) + ":" + fmt.Sprintf("%q", f.Props)', silent=True)
mut("c12-force-always", "C12", "feature.go", 'force := ff[indices[0]].Key == "source"', 'force := ff[indices[0]].Key != ""', ["FORCE-SOURCE|gts.Repair"])
mut("c12-no-copy", "C12", "feature.go", "\tgg := make([]Feature, len(ff))\n\tcopy(gg, ff)\n", "\tgg := ff\n", ["ONLY-LOC|gts.Repair|copy"])
mut("c12-silent-group-key-order", "C12", "feature.go", 'key := fmt.Sprintf("%q:%q", f.Key, f.Props)', 'key := fmt.Sprintf("%q|%q", f.Props, f.Key)', silent=True)

mut("c03-silent-sibling-local-rename", "C03", "location.go",
    "\tstart, end := ambiguous.Start, ambiguous.End\n\tif (0 <= n && i <= start) || (n < 0 && i < start) {\n\t\tstart = Max(i, start+n)\n\t}\n\tif (0 <= n && i < end) || (n < 0 && i <= end) {\n\t\tend = Max(i, end+n)\n\t}\n\tif start == end {\n\t\treturn Between(start)\n\t}\n\treturn Ambiguous{start, end}",
    "\tlo, hi := ambiguous.Start, ambiguous.End\n\tif (0 <= n && i <= lo) || (n < 0 && i < lo) {\n\t\tlo = Max(i, lo+n)\n\t}\n\tif (0 <= n && i < hi) || (n < 0 && i <= hi) {\n\t\thi = Max(i, hi+n)\n\t}\n\tif lo == hi {\n\t\treturn Between(lo)\n\t}\n\treturn Ambiguous{lo, hi}",
    silent=True, note="renaming locals in one sibling only is not a difference")


# ---------------------------------------------------------------- round-2 rules
# C06 Push / print-parse
mut("c06-merge-start-from-u", "C06", "location.go", "ll.Data = Ranged{v.Start, u.End, partial}", "ll.Data = Ranged{u.Start, u.End, partial}", ["MERGE-RANGED|gts.(*LocationList).Push|Ranged+Ranged"])
mut("c06-merge-nonabutting", "C06", "location.go", "|| force) && v.End == u.Start {", "|| force) && v.End <= u.Start {", ["MERGE-RANGED|gts.(*LocationList).Push|Ranged+Ranged"])
mut("c06-merge-force-ignored", "C06", "location.go", "if ((v.Partial.Partial3 && u.Partial.Partial5) || force) && v.End == u.Start {", "if (v.Partial.Partial3 && u.Partial.Partial5) && v.End == u.Start {\n\t\t\t\t_ = force", ["MERGE-RANGED|gts.(*LocationList).Push|Ranged+Ranged"])
mut("c06-merge-silent-keyed", "C06", "location.go", "ll.Data = Ranged{v.Start, u.End, partial}", "ll.Data = Ranged{Start: v.Start, End: u.End, Partial: partial}", silent=True)
mut("c06-merge-silent-ctor", "C06", "location.go", "ll.Data = Ranged{v.Start, u.End, partial}", "ll.Data = PartialRange(v.Start, u.End, partial)", silent=True, note="the constructor is resolved through its body")
mut("c06-absorb-adjacent-point", "C06", "location.go", "\t\tcase Point:\n\t\t\tif v == u {\n\t\t\t\treturn\n\t\t\t}\n\t\tcase Ranged:\n\t\t\tif int(v) == u.Start {", "\t\tcase Point:\n\t\t\tif v+1 == u {\n\t\t\t\treturn\n\t\t\t}\n\t\tcase Ranged:\n\t\t\tif int(v) == u.Start {", ["PUSH-ABSORB|gts.(*LocationList).Push|Point+Point"])
mut("c06-absorb-point-before-range", "C06", "location.go", "\t\tcase Ranged:\n\t\t\tif int(v) == u.Start {\n\t\t\t\tll.Data = u\n\t\t\t\treturn\n\t\t\t}\n\t\t}\n\n\tcase Ranged:", "\t\tcase Ranged:\n\t\t\tif int(v)+1 == u.Start {\n\t\t\t\tll.Data = u\n\t\t\t\treturn\n\t\t\t}\n\t\t}\n\n\tcase Ranged:", ["PUSH-ABSORB|gts.(*LocationList).Push|Point+Ranged"])
mut("c06-absorb-silent-flip", "C06", "location.go", "\t\tcase Between:\n\t\t\tif v.End == int(u) {", "\t\tcase Between:\n\t\t\tif int(u) == v.End {", silent=True)
mut("c06-offset-point-printer", "C06", "location.go", "return strconv.Itoa(int(point + 1))", "return strconv.Itoa(int(point))", ["OFFSET-AGREE|gts.Point"])
mut("c06-offset-ambiguous-parser", "C06", "location.go", "\tstart := result.Value.(int) - 1\n\tc, err := pars.Next(state)", "\tstart := result.Value.(int)\n\tc, err := pars.Next(state)", ["OFFSET-AGREE|gts.Ambiguous.Start"])
mut("c06-offset-silent-point", "C06", "location.go", "return strconv.Itoa(int(point + 1))", "return strconv.Itoa(int(point) + 1)", silent=True)
mut("c06-between-no-adjacency", "C06", "location.go", "\tif start+1 != end {\n\t\tstate.Pop()\n\t\treturn fmt.Errorf(\"%d^%d is not a valid location: coordinates should be adjacent\", start, end)\n\t}\n", "\t_ = end\n", ["OFFSET-AGREE|gts.Between"])
mut("c06-wrap-request-short", "C06", "location.go", "state.Request(6)", "state.Request(5)", ["WRAP-TOKENS|gts.Ordered"])
mut("c06-wrap-ctor", "C06", "location.go", "result.SetValue(Order(result.Value.([]Location)...))", "result.SetValue(Join(result.Value.([]Location)...))", ["WRAP-TOKENS|gts.Ordered"])
mut("c06-marker-printer-flag", "C06", "location.go", "\tif ranged.Partial.Partial3 {\n\t\tb.WriteByte('>')", "\tif ranged.Partial.Partial5 {\n\t\tb.WriteByte('>')", ["MARKER-AGREE|gts.Ranged|>|printer"])
mut("c06-marker-legacy-unguarded", "C06", "location.go", "if err == nil && c == '>' {", "if err == nil {", ["MARKER-AGREE|gts.Ranged|>|parser"])

# C08
mut("c08-walk-original", "C08", "region.go",
    "\tfor left+1 < len(rr) && rr[left].Len() < lower {\n\t\tlower -= rr[left].Len()\n\t\tleft++\n\t}\n\tfor right+1 < len(rr) && rr[right].Len() < upper {\n\t\tupper -= rr[right].Len()\n\t\tright++\n\t}\n",
    "\tfor k := 0; k+1 < len(rr); k++ {\n\t\tn := rr[k].Len()\n\t\tif n < lower {\n\t\t\tleft = k + 1\n\t\t\tlower -= n\n\t\t}\n\t\tif n < upper {\n\t\t\tright = k + 1\n\t\t\tupper -= n\n\t\t}\n\t}\n",
    ["WALK-PREFIX|gts.Regions.Resize|consume#1", "WALK-PREFIX|gts.Regions.Resize|consume#2"], note="the repaired defect, reintroduced")
mut("c08-walk-silent-index-guard", "C08", "region.go",
    "\tfor left+1 < len(rr) && rr[left].Len() < lower {\n\t\tlower -= rr[left].Len()\n\t\tleft++\n\t}\n\tfor right+1 < len(rr) && rr[right].Len() < upper {\n\t\tupper -= rr[right].Len()\n\t\tright++\n\t}\n",
    "\tfor k := 0; k+1 < len(rr); k++ {\n\t\tn := rr[k].Len()\n\t\tif left == k && n < lower {\n\t\t\tleft = k + 1\n\t\t\tlower -= n\n\t\t}\n\t\tif right == k && n < upper {\n\t\t\tright = k + 1\n\t\t\tupper -= n\n\t\t}\n\t}\n",
    silent=True, note="a correct single-loop walk (index == position guard)")
mut("c08-mirror-missing", "C08", "modifier.go", "\tp, q := Unpack(mod)\n\n\tif tail < head {\n\t\thead, tail = mod.Apply(-head, -tail)\n\t\treturn -head, -tail\n\t}\n\n\ttail = head + q", "\tp, q := Unpack(mod)\n\n\ttail = head + q", ["MIRROR-APPLY|gts.HeadHead.Apply"])
mut("c08-mirror-unnegated-return", "C08", "modifier.go", "\tq := int(mod)\n\tif tail < head {\n\t\thead, tail = mod.Apply(-head, -tail)\n\t\treturn -head, -tail\n\t}", "\tq := int(mod)\n\tif tail < head {\n\t\thead, tail = mod.Apply(-head, -tail)\n\t\treturn -tail, -head\n\t}", ["MIRROR-APPLY|gts.Tail.Apply"])
mut("c08-modpair-printer", "C08", "modifier.go", "return fmt.Sprintf(\"%s..%s\", Head(p), Head(q))", "return fmt.Sprintf(\"%s..%s\", Head(p), Tail(q))", ["MOD-PAIR|gts.HeadHead"])
mut("c08-modpair-order", "C08", "modifier.go", "result.SetValue(TailTail{p, q})", "result.SetValue(TailTail{q, p})", ["MOD-PAIR|gts.TailTail"])
mut("c08-modpair-sigil", "C08", "modifier.go", "\tif mod == 0 {\n\t\treturn \"$\"\n\t}\n\treturn fmt.Sprintf(\"$%+d\", mod)", "\tif mod == 0 {\n\t\treturn \"$\"\n\t}\n\treturn fmt.Sprintf(\"^%+d\", mod)", ["MOD-PAIR|gts.Tail"])
mut("c08-locator-silent-local", "C08", "locator.go", "\t\treturn Regions{loc.Region()}\n", "\t\trr := Regions{loc.Region()}\n\t\treturn rr\n", silent=True)
mut("c08-precedence-swapped", "C08", "locator.go",
    "\t\tmod, err := AsModifier(s)\n\t\tif err == nil {\n\t\t\treturn relativeLocator(mod), nil\n\t\t}\n\n\t\tloc, ok := tryLocation(s)\n\t\tif ok {\n\t\t\treturn locationLocator(loc), nil\n\t\t}\n",
    "\t\tloc, ok := tryLocation(s)\n\t\tif ok {\n\t\t\treturn locationLocator(loc), nil\n\t\t}\n\n\t\tmod, err := AsModifier(s)\n\t\tif err == nil {\n\t\t\treturn relativeLocator(mod), nil\n\t\t}\n",
    ["LOC-PRECEDENCE|gts.AsLocator|case=-1"])
mut("c08-split-keeps-at", "C08", "locator.go", "mod, err := AsModifier(s[i+1:])", "mod, err := AsModifier(s[i:])", ["LOC-PRECEDENCE|gts.AsLocator|case=default"])

# C10
mut("c10-concat-append-first", "C10", "sequence.go",
    "\t\t\tfor _, f := range seq.Features() {\n\t\t\t\tf.Loc = f.Loc.Expand(0, len(p))\n\t\t\t\tff = ff.Insert(f)\n\t\t\t}\n\t\t\tp = append(p, seq.Bytes()...)\n",
    "\t\t\tp = append(p, seq.Bytes()...)\n\t\t\tfor _, f := range seq.Features() {\n\t\t\t\tf.Loc = f.Loc.Expand(0, len(p))\n\t\t\t\tff = ff.Insert(f)\n\t\t\t}\n", ["CONCAT-OFFSET|gts.Concat"])
mut("c10-concat-offset-own-length", "C10", "sequence.go", "f.Loc = f.Loc.Expand(0, len(p))", "f.Loc = f.Loc.Expand(0, Len(seq))", ["CONCAT-OFFSET|gts.Concat"])
mut("c10-concat-silent-local-offset", "C10", "sequence.go",
    "\t\t\tfor _, f := range seq.Features() {\n\t\t\t\tf.Loc = f.Loc.Expand(0, len(p))",
    "\t\t\toffset := len(p)\n\t\t\tfor _, f := range seq.Features() {\n\t\t\t\tf.Loc = f.Loc.Expand(0, offset)", silent=True)
mut("c10-neg-start-le", "C10", "sequence.go", "\tif start < 0 {\n\t\tstart += seqlen", "\tif start <= 0 {\n\t\tstart += seqlen", ["NEG-INDEX|gts.Slice|start"])

# C17
mut("c17-format-no-final-newline", "C17", "seqio/fasta.go", 's := fmt.Sprintf(">%s\\n%s\\n", desc, data)', 's := fmt.Sprintf(">%s\\n%s", desc, data)', ["FASTA-WRITE|seqio.Fasta.WriteTo|format"])
mut("c17-read-join-sep", "C17", "seqio/fasta.go", "data := bytes.Join(lines, nil)", "data := bytes.Join(lines, []byte{' '})", ["FASTA-READ|seqio.FastaParser|residues"])
mut("c17-read-crlf-reverted", "C17", "seqio/fasta.go", "\tfor i, line := range lines {\n\t\tlines[i] = bytes.TrimSuffix(line, []byte{'\\r'})\n\t}\n", "", ["FASTA-READ|seqio.FastaParser|carriage-return"], note="the repaired defect, reintroduced")
mut("c17-read-desc-child", "C17", "seqio/fasta.go", "desc := string(result.Children[1].Token)", "desc := string(result.Children[2].Token)", ["FASTA-READ|seqio.FastaParser|description"])
mut("c17-desc-upper", "C17", "seqio/fasta.go", "f := Fasta{info, v.Bytes()}", "f := Fasta{info, bytes.ToUpper(v.Bytes())}", ["FASTA-DESC|seqio.FastaWriter.WriteSeq|Fasta#1"])
mut("c17-gbf-region-zero-based", "C17", "seqio/genbank.go", 'return fmt.Sprintf("%s:%d-%d %s", gbf.Version, head+1, tail, gbf.Definition)', 'return fmt.Sprintf("%s:%d-%d %s", gbf.Version, head, tail, gbf.Definition)', ["FASTA-DESC|seqio.GenBankFields.String|return#1"])
mut("c17-silent-replace-minus-one", "C17", "seqio/fasta.go", 'desc := strings.NewReplacer("\\n", " ", "\\r", " ").Replace(f.Desc)', 'desc := strings.Replace(strings.Replace(f.Desc, "\\n", " ", -1), "\\r", " ", -1)', silent=True)
mut("c17-desc-carriage-return-reverted", "C17", "seqio/fasta.go", 'desc := strings.NewReplacer("\\n", " ", "\\r", " ").Replace(f.Desc)', 'desc := strings.ReplaceAll(f.Desc, "\\n", " ")', ["FASTA-WRITE|seqio.Fasta.WriteTo|description"], note="the repaired defect, reintroduced")
mut("c17-desc-silent-nested-replaceall", "C17", "seqio/fasta.go", 'desc := strings.NewReplacer("\\n", " ", "\\r", " ").Replace(f.Desc)', 'desc := strings.ReplaceAll(strings.ReplaceAll(f.Desc, "\\r", " "), "\\n", " ")', silent=True)
mut("c17-desc-replacer-breaks-line", "C17", "seqio/fasta.go", 'desc := strings.NewReplacer("\\n", " ", "\\r", " ").Replace(f.Desc)', 'desc := strings.NewReplacer("\\n", " ", "\\r", "\\n").Replace(f.Desc)', ["FASTA-WRITE|seqio.Fasta.WriteTo|description"])
mut("c17-silent-trimright-cr", "C17", "seqio/fasta.go", "lines[i] = bytes.TrimSuffix(line, []byte{'\\r'})", 'lines[i] = bytes.TrimRight(line, "\\r")', silent=True)

# C01
mut("c01-pad-reader-constant", "C01", "seqio/genbank_subparsers.go", "paddingLength := 3 - len(strconv.Itoa(ref.Number))", "paddingLength := 4 - len(strconv.Itoa(ref.Number))", ["PAD-AGREE|seqio.REFERENCE"])
mut("c01-pad-silent-le", "C01", "seqio/genbank.go", "\t\t\tif padLength < 0 {\n\t\t\t\tpadLength = 0", "\t\t\tif padLength <= -1 {\n\t\t\t\tpadLength = 0", silent=True)
mut("c01-trim-none", "C01", "seqio/strings.go", '\ts = strings.TrimSuffix(s, ".")\n', "", ["TRIM-ONE|seqio.FlatFileSplit"])

# C03
mut("c03-neg-end-le", "C03", "sequence.go", "\tif end < 0 {\n\t\tend += seqlen", "\tif end <= 0 {\n\t\tend += seqlen", ["NEG-INDEX|gts.Slice|end"])
mut("c03-neg-silent-flipped", "C03", "sequence.go", "\tif start < 0 {\n\t\tstart += seqlen", "\tif 0 > start {\n\t\tstart += seqlen", silent=True)
mut("c03-erase-delete-unfiltered", "C03", "sequence.go", "\tseq = WithFeatures(seq, ff)\n\treturn Delete(seq, offset, length)\n}\n\n// Slice returns", "\t_ = ff\n\treturn Delete(seq, offset, length)\n}\n\n// Slice returns", ["ERASE-ORDER|gts.Erase"])
mut("c03-range-elem-silent-index", "C03", "seqio/genbank.go", "\t\t\t\tfor i, loc := range olap {\n\t\t\t\t\thead, tail := loc.Start, loc.End", "\t\t\t\tfor i := range olap {\n\t\t\t\t\thead, tail := olap[i].Start, olap[i].End", silent=True)
mut("c03-fmap-conditional-expand", "C03", "sequence.go", "\t\tf.Loc = f.Loc.Expand(offset, -length)\n\t\tff[i] = f", "\t\tif f.Key != \"source\" {\n\t\t\tf.Loc = f.Loc.Expand(offset, -length)\n\t\t}\n\t\tff[i] = f", ["FMAP|gts.Delete"])
mut("c03-fmap-silent-invariant-cond", "C03", "sequence.go", "\t\tf.Loc = f.Loc.Expand(offset, -length)\n\t\tff[i] = f", "\t\tif length != 0 {\n\t\t\tf.Loc = f.Loc.Expand(offset, -length)\n\t\t}\n\t\tff[i] = f", silent=True, note="a loop-invariant condition applies to every feature alike")

# C05
mut("c05-locate-forward-swapped", "C05", "region.go", "\treturn Slice(seq, head, tail)\n}", "\treturn Slice(seq, tail, head)\n}", ["LOCATE-RC|gts.Segment.Locate|return#2"])
mut("c05-locate-no-complement", "C05", "region.go", "return Reverse(Complement(Slice(seq, tail, head)))", "return Reverse(Slice(seq, tail, head))", ["LOCATE-RC|gts.Segment.Locate|return#1"])
mut("c05-locate-silent-order", "C05", "region.go", "return Reverse(Complement(Slice(seq, tail, head)))", "return Complement(Reverse(Slice(seq, tail, head)))", silent=True)

# C07
mut("c07-panic-new-in-parser", "C07", "location.go", "\tpoint := result.Value.(int)\n\tresult.SetValue(Point(point - 1))", "\tpoint := result.Value.(int)\n\tif point == 0 {\n\t\tpanic(\"position 0\")\n\t}\n\tresult.SetValue(Point(point - 1))", ["PANIC|"])
mut("c07-commit-fieldname", "C07", "seqio/genbank_subparsers.go", "\t\tif indentLength < 0 {\n\t\t\tstate.Clear()\n", "\t\tif indentLength < 0 {\n", ["COMMIT|seqio.genbankFieldNameParser|clear"])
mut("c07-commit-after-body", "C07", "seqio/genbank_subparsers.go", "\t\tstate.Clear()\n\t\tif err := fieldBodyParser(state, result); err != nil {\n\t\t\treturn err\n\t\t}\n", "\t\tif err := fieldBodyParser(state, result); err != nil {\n\t\t\treturn err\n\t\t}\n\t\tstate.Clear()\n", ["COMMIT|seqio.genbankFeatureParser|table-parser#1"])

# C12
mut("c12-keep-drops-unmerged", "C12", "feature.go", "\t\t\t} else {\n\t\t\t\tkeep = append(keep, indices...)\n\t\t\t}\n", "\t\t\t}\n", ["KEEP-ALL|gts.Repair"])
mut("c12-group-conditional", "C12", "feature.go", "\t\tindex[key] = append(index[key], i)\n", "\t\tif f.Loc != nil {\n\t\t\tindex[key] = append(index[key], i)\n\t\t}\n", ["GROUP-ALL|gts.Repair"])
mut("c12-silent-nonempty-neq", "C12", "feature.go", "\t\tif len(indices) > 0 {\n", "\t\tif len(indices) != 0 {\n", silent=True)

# C14 KEY-6
mut("c14-key6-func-values", "C14", "cmd/gts/extract.go", '{"locators", *locstrs},', '{"locators", *locstrs},\n\t\t\t{"compiled", locators},', ["KEY-6|main.extractFunc|tuple=compiled"])
mut("c14-key6-silent-iface-conv", "C14", "cmd/gts/extract.go", '{"invert", *invert},', '{"invert", interface{}(*invert)},', silent=True, note="an explicit conversion keeps the concrete type")

# C15
mut("c15-dedup-by-length", "C15", "cmd/gts/extract.go", "if reflect.DeepEqual(rr[i], r) {", "if rr[i].Len() == r.Len() {\n\t\t\t_ = reflect.DeepEqual", ["DEDUP-EXACT|main.containsRegion"])
mut("c15-chain-silent-outer-var", "C15", "cmd/gts/insert.go", "\t\tfor _, guest := range guests {\n\t\t\tout := gts.Sequence(gts.Copy(host))\n", "\t\tvar out gts.Sequence\n\t\tfor _, guest := range guests {\n\t\t\tout = gts.Sequence(gts.Copy(host))\n", silent=True, note="declared outside, restarted at the top of every iteration")

# C04
mut("c04-fmap-conditional-normalize", "C04", "sequence.go", "\t\tf.Loc = f.Loc.Expand(0, n).Normalize(Len(seq))\n", "\t\tif f.Loc.Len() > 1 {\n\t\t\tf.Loc = f.Loc.Expand(0, n).Normalize(Len(seq))\n\t\t}\n", ["FMAP|gts.Rotate"])
mut("c04-merge-swapped", "C04", "location.go", "partial := Partial{v.Partial.Partial5, u.Partial.Partial3}", "partial := Partial{v.Partial.Partial3, u.Partial.Partial5}", ["MERGE-RANGED|gts.(*LocationList).Push|Ranged+Ranged"])
# PURE per operation
mut("c02-pure-insert-in-place", "C02", "sequence.go", "\tr := make([]byte, 0, len(p)+len(q))\n\tr = append(r, p[:pos]...)\n", "\tr := p[:pos]\n", ["PURE|gts.insert"])


# PUSH-POP
mut("c07-pushpop-ambiguous-leak", "C07", "location.go", "\tif c != '.' {\n\t\terr := pars.NewError(\"expected `.`\", state.Position())\n\t\tstate.Pop()\n\t\treturn err\n\t}", "\tif c != '.' {\n\t\terr := pars.NewError(\"expected `.`\", state.Position())\n\t\treturn err\n\t}", ["PUSH-POP|gts.parseAmbiguous|frames"])
mut("c07-pushpop-join-reverted", "C07", "location.go", "\tif err := multipleLocationParser(state, result); err != nil {\n\t\tstate.Pop()\n\t\treturn err\n\t}\n\tc, err := pars.Next(state)\n\tif err != nil {\n\t\tstate.Pop()\n\t\treturn err\n\t}\n\tif c != ')' {\n\t\terr := pars.NewError(\"expected `)`\", state.Position())\n\t\tstate.Pop()\n\t\treturn err\n\t}\n\tstate.Advance()\n\tresult.SetValue(Join(", "\tif err := multipleLocationParser(state, result); err != nil {\n\t\treturn err\n\t}\n\tc, err := pars.Next(state)\n\tif err != nil {\n\t\tstate.Pop()\n\t\treturn err\n\t}\n\tif c != ')' {\n\t\terr := pars.NewError(\"expected `)`\", state.Position())\n\t\tstate.Pop()\n\t\treturn err\n\t}\n\tstate.Advance()\n\tresult.SetValue(Join(", ["PUSH-POP|gts.parseJoin|frames"], note="the repaired defect, reintroduced")
mut("c07-pushpop-double-drop", "C07", "location.go", "\tresult.SetValue(Ambiguous{start, end})\n\tstate.Drop()\n", "\tresult.SetValue(Ambiguous{start, end})\n\tstate.Drop()\n\tstate.Drop()\n", ["PUSH-POP|gts.parseAmbiguous|frames"])
mut("c07-pushpop-silent-defer-free", "C07", "location.go", "\tif start+1 != end {\n\t\tstate.Pop()\n\t\treturn fmt.Errorf(", "\tif end != start+1 {\n\t\tstate.Pop()\n\t\treturn fmt.Errorf(", silent=True)


# ---------------------------------------------------------------- round-3 rules
mut("c02-shortcut-ordered-expand", "C02", "location.go", "func (ordered Ordered) Expand(i, n int) Location {\n", "func (ordered Ordered) Expand(i, n int) Location {\n\tif n == 0 {\n\t\treturn ordered\n\t}\n", ["NO-SHORTCUT|gts.Ordered.Expand"])
mut("c03-wrap-ge", "C03", "sequence.go", "\tif end < start {\n\t\tlength := seqlen - start + end", "\tif start >= end {\n\t\tlength := seqlen - start + end", ["WRAP-COND|gts.Slice"])
mut("c03-wrap-silent-flipped", "C03", "sequence.go", "\tif end < start {\n\t\tlength := seqlen - start + end", "\tif start > end {\n\t\tlength := seqlen - start + end", silent=True)
mut("c05-complemented-reverse-adjusted", "C05", "location.go", "return Complemented{complement.Location.Reverse(length)}", "return Complemented{complement.Location.Reverse(length - 1)}", ["DELEGATE-COMPLEMENT|gts.Complemented.Reverse"])
mut("c05-complemented-reverse-silent-local", "C05", "location.go", "return Complemented{complement.Location.Reverse(length)}", "loc := complement.Location.Reverse(length)\n\treturn Complemented{loc}", silent=True)
mut("c02-complemented-shift-as-expand", "C02", "location.go", "return Complemented{complement.Location.Shift(i, n)}", "return Complemented{complement.Location.Expand(i, n)}", ["DELEGATE-COMPLEMENT|gts.Complemented.Shift"])
mut("c07-commit-source-pop", "C07", "seqio/genbank_subparsers.go", "\t\tif err := organismParser(state, pars.Void); err != nil {\n\t\t\tstate.Pop()\n\t\t\treturn err\n\t\t}", "\t\tif err := organismParser(state, pars.Void); err != nil {\n\t\t\treturn err\n\t\t}", ["COMMIT|seqio.genbankSourceParser|clear"])
mut("c08-grammar-leaf-operand", "C08", "locator.go", "parser = pars.Any(parseComplement(&parser), parseRange, parsePoint)", "parser = pars.Any(parseComplement(parsePoint), parseRange, parsePoint)", ["LOC-GRAMMAR|gts.parseComplement"])
mut("c14-key7-sort-after-read", "C14", "cmd/gts/select.go", "\tsort.Strings(*selectors)\n\n\tfilters := make([]gts.Filter, len(*selectors))\n", "\tfilters := make([]gts.Filter, len(*selectors))\n\tdefer sort.Strings(*selectors)\n", ["KEY-7|main.selectFunc"], note="the option is read (len) before it is sorted")
mut("c14-key8-length-only", "C14", "cmd/gts/query.go", '{"names", *names},', '{"names", len(*names)},', ["KEY-8|main.queryFunc|tuple=names"])
mut("c14-key8-first-element", "C14", "cmd/gts/extract.go", '{"locators", *locstrs},', '{"locators", (*locstrs)[0]},', ["KEY-8|main.extractFunc|tuple=locators"])
mut("c16-loop-bound-writer-inclusive", "C16", "seqio/origin.go", "\t\tfor j := 0; j < 60 && i+j < length; j += 10 {\n\t\t\tstart := i + j", "\t\tfor j := 0; j < 60 && i+j <= length; j += 10 {\n\t\t\tstart := i + j", ["LOOP-BOUND|seqio.NewOrigin"])
mut("c16-loop-bound-silent-flipped", "C16", "seqio/origin.go", "\t\tfor j := 0; j < 60 && i+j < length; j += 10 {\n\t\t\tstart := i + j", "\t\tfor j := 0; j < 60 && length > i+j; j += 10 {\n\t\t\tstart := i + j", silent=True)
mut("c01-prefix-journal", "C01", "seqio/genbank.go", '"  JOURNAL   " + AddPrefix(ref.Journal, indent) + "\\n"', '"  JOURNAL   " + ref.Journal + "\\n"', ["PREFIX-ALL|seqio.GenBank.String|JOURNAL"])
mut("c01-prefix-silent-local", "C01", "seqio/genbank.go", '\t\t\tb.WriteString("  TITLE     " + AddPrefix(ref.Title, indent) + "\\n")', '\t\t\ttitle := AddPrefix(ref.Title, indent)\n\t\t\tb.WriteString("  TITLE     " + title + "\\n")', silent=True)
mut("c01-dblink-separator", "C01", "seqio/genbank.go", 'fmt.Sprintf("%s: %s\\n", pair.Key, pair.Value)', 'fmt.Sprintf("%s:%s\\n", pair.Key, pair.Value)', ["DBLINK-AGREE|seqio.DBLINK"])
mut("c01-dblink-guard-strict", "C01", "seqio/genbank_subparsers.go", "if len(s) < i+2 {", "if len(s) < i+3 {", ["DBLINK-AGREE|seqio.DBLINK"])
mut("c19-esc-slash-sticky", "C19", "feature.go", "\t\t\tif !esc {\n\t\t\t\treturn s[:i], s[i+1:]\n\t\t\t}\n\t\t\tesc = false\n", "\t\t\tif !esc {\n\t\t\t\treturn s[:i], s[i+1:]\n\t\t\t}\n", ["ESC-AUTOMATON|gts.shiftSelector|slash,pending=true"], note="the repaired defect, reintroduced")
mut("c19-esc-silent-spelled-out", "C19", "feature.go", "\t\t\tesc = !esc\n", "\t\t\tif esc {\n\t\t\t\tesc = false\n\t\t\t} else {\n\t\t\t\tesc = true\n\t\t\t}\n", silent=True)
mut("c19-pure-insert-append", "C19", "feature.go", "\tgg := make(FeatureSlice, len(ff)+1)\n\tcopy(gg, ff[:i])\n\tgg[i] = f\n\tcopy(gg[i+1:], ff[i:])\n", "\tgg := append(ff, f)\n\tcopy(gg[i+1:], ff[i:])\n\tgg[i] = f\n", ["PURE|(gts.FeatureSlice).Insert"])
mut("c06-pure-flatten-in-place", "C06", "location.go", "\tlist := []Location{}\n\tfor i := range locs {", "\tlist := locs[:0]\n\tfor i := range locs {", ["PURE|"])
mut("c15-locator-shared", "C15", "locator.go", "func locationLocator(loc Location) Locator {\n\treturn func(seq Sequence) Regions {\n\t\treturn Regions{loc.Region()}\n\t}\n}", "func locationLocator(loc Location) Locator {\n\trr := Regions{loc.Region()}\n\treturn func(seq Sequence) Regions {\n\t\treturn rr\n\t}\n}", ["LOCATOR-FRESH|gts.locationLocator"])
mut("c12-concat-offset-head", "C12", "sequence.go", "f.Loc = f.Loc.Expand(0, len(p))", "f.Loc = f.Loc.Expand(0, Len(head))", ["CONCAT-OFFSET|gts.Concat"])


mut("c04-partial-shift-complete", "C04", "location.go", "\tif i < end {\n\t\tend += n\n\t}\n\treturn Ranged{start, end, partial}", "\tif i < end {\n\t\tend += n\n\t}\n\treturn Ranged{start, end, Complete}", ["PARTIAL-CARRY|gts.Ranged.Shift"])
mut("c04-partial-normalize-silent-literal", "C04", "location.go", "\t\treturn PartialRange(start, end, ranged.Partial)\n\t}\n\tleft, right := Range(start, length), Range(0, end)", "\t\treturn Ranged{start, end, ranged.Partial}\n\t}\n\tleft, right := Range(start, length), Range(0, end)", silent=True)
mut("c04-partial-split-right-unmarked", "C04", "location.go", "\tif ranged.Partial.Partial3 {\n\t\tright.Partial = Partial3\n\t}\n\treturn Join(left, right)", "\t_ = right.Partial\n\treturn Join(left, right)", ["PARTIAL-CARRY|gts.Ranged.Normalize"])
mut("c06-push-complement-order", "C06", "location.go", "\t\t\ttmp := LocationList{u.Location, nil}\n\t\t\ttmp.Push(v.Location, force)", "\t\t\ttmp := LocationList{v.Location, nil}\n\t\t\ttmp.Push(u.Location, force)", ["PUSH-COMPLEMENT|gts.(*LocationList).Push|Complemented+Complemented"])
mut("c06-push-complement-force-dropped", "C06", "location.go", "\t\t\ttmp.Push(v.Location, force)", "\t\t\ttmp.Push(v.Location, false)", ["PUSH-COMPLEMENT|gts.(*LocationList).Push|Complemented+Complemented"])


mut("c01-blank-line-reverted", "C01", "seqio/genbank.go", "\tif len(gb.Table) > 0 {\n\t\tb.WriteString(\"FEATURES             Location/Qualifiers\\n\")\n\t\tfmtr := INSDCFormatter{gb.Table, \"     \", 21}\n\t\tfmtr.WriteTo(&b)\n\t\tb.WriteByte('\\n')\n\t}\n", "\tb.WriteString(\"FEATURES             Location/Qualifiers\\n\")\n\tfmtr := INSDCFormatter{gb.Table, \"     \", 21}\n\tfmtr.WriteTo(&b)\n\tb.WriteByte('\\n')\n", ["BLANK-LINE|seqio.GenBank.String"], note="the repaired defect, reintroduced")
mut("c01-blank-line-double-newline", "C01", "seqio/genbank.go", 'b.WriteString("VERSION     " + gb.Fields.Version + "\\n")', 'b.WriteString("VERSION     " + gb.Fields.Version + "\\n")\n\tb.WriteByte(\'\\n\')', ["BLANK-LINE|seqio.GenBank.String"])
mut("c01-blank-line-silent-guard-neq", "C01", "seqio/genbank.go", "\tif len(gb.Table) > 0 {\n\t\tb.WriteString(\"FEATURES", "\tif len(gb.Table) != 0 {\n\t\tb.WriteString(\"FEATURES", silent=True)
mut("c05-mirror-point-as-offset", "C05", "location.go", "return Point(length - 1 - int(point))", "return Point(length - int(point))", ["MIRROR-ARITH|gts.Point.Reverse"])
mut("c05-mirror-point-silent-reordered", "C05", "location.go", "return Point(length - 1 - int(point))", "return Point(length - int(point) - 1)", silent=True)
mut("c05-mirror-ranged-unswapped", "C05", "location.go", "ret := PartialRange(length-ranged.End, length-ranged.Start, ranged.Partial)", "ret := PartialRange(length-ranged.Start, length-ranged.End, ranged.Partial)", ["MIRROR-ARITH|gts.Ranged.Reverse"])
mut("c04-normalize-ambiguous-reverted", "C04", "location.go", "return Ambiguous{ambiguous.Start % length, (ambiguous.End-1)%length + 1}", "return Ambiguous{ambiguous.Start % length, ambiguous.End % length}", ["NORMALIZE-ARITH|gts.Ambiguous.Normalize"], note="the repaired defect, reintroduced")
mut("c04-normalize-ranged-end", "C04", "location.go", "start, end := ranged.Start%length, (ranged.End-1)%length+1", "start, end := ranged.Start%length, ranged.End%length", ["NORMALIZE-ARITH|gts.Ranged.Normalize"])


mut("c07-commit-body-origin-reverted", "C07", "seqio/genbank_subparsers.go", "\t\t\tpars.Line(state, result)\n\t\t\tstate.Clear()\n\n\t\t\tif err := state.Request(toOriginLength(length)); err != nil {", "\t\t\tpars.Line(state, result)\n\n\t\t\tif err := state.Request(toOriginLength(length)); err != nil {", ["COMMIT-BODY|seqio.makeGenbankOriginParser|ORIGIN"], note="the repaired defect, reintroduced")
mut("c07-commit-body-dblink-late", "C07", "seqio/genbank_subparsers.go", "\t\tstate.Clear()\n\t\tif err := pairParser(state, result); err != nil {\n\t\t\treturn err\n\t\t}\n", "\t\tif err := pairParser(state, result); err != nil {\n\t\t\treturn err\n\t\t}\n\t\tstate.Clear()\n", ["COMMIT-BODY|seqio.genbankDBLinkParser|DBLINK"], note="committing after the first pair leaves its error uncommitted")


mut("c02-fill-silent-append-idiom", "C02", "location.go", "func (joined Joined) Shift(i, n int) Location {\n\tlocs := make([]Location, len(joined))\n\tfor j, loc := range joined {\n\t\tlocs[j] = loc.Shift(i, n)\n\t}\n\treturn Join(locs...)\n}", "func (joined Joined) Shift(i, n int) Location {\n\tvar locs []Location\n\tfor _, loc := range joined {\n\t\tlocs = append(locs, loc.Shift(i, n))\n\t}\n\treturn Join(locs...)\n}", silent=True, note="the append idiom builds the same list")
mut("c02-fill-append-skips", "C02", "location.go", "func (joined Joined) Shift(i, n int) Location {\n\tlocs := make([]Location, len(joined))\n\tfor j, loc := range joined {\n\t\tlocs[j] = loc.Shift(i, n)\n\t}\n\treturn Join(locs...)\n}", "func (joined Joined) Shift(i, n int) Location {\n\tvar locs []Location\n\tfor _, loc := range joined {\n\t\tif loc.Len() == 0 {\n\t\t\tcontinue\n\t\t}\n\t\tlocs = append(locs, loc.Shift(i, n))\n\t}\n\treturn Join(locs...)\n}", ["FILL|gts.Joined.Shift|append#1"])

# ---------------------------------------------------------------- STATELESS (every library property)
mut("c09-stateless-flatten-buffer", "C09", "region.go",
    "func Minimize(arg Region) []Segment {\n\tss := flattenRegion(arg)\n",
    "var flattenScratch []Segment\n\nfunc Minimize(arg Region) []Segment {\n\tflattenScratch = append(flattenScratch[:0], flattenRegion(arg)...)\n\tss := flattenScratch\n",
    ["STATELESS|gts.Minimize|flattenScratch"], note="a scratch buffer kept between calls: an earlier result changes under a later call")
mut("c09-stateless-silent-local-scratch", "C09", "region.go",
    "func Minimize(arg Region) []Segment {\n\tss := flattenRegion(arg)\n",
    "func Minimize(arg Region) []Segment {\n\tvar scratch []Segment\n\tscratch = append(scratch[:0], flattenRegion(arg)...)\n\tss := scratch\n",
    silent=True, note="the same buffer as a local is fresh on every call")
mut("c17-stateless-fasta-scratch", "C17", "seqio/fasta.go",
    "\tdata := bytes.Join(lines, nil)\n",
    "\tfastaScratch = append(fastaScratch[:0], bytes.Join(lines, nil)...)\n\tdata := fastaScratch\n",
    ["STATELESS|gts/seqio.FastaParser$1|fastaScratch"], old2="// FastaParser attempts to parse a single FASTA file entry.\n", new2="var fastaScratch []byte\n\n// FastaParser attempts to parse a single FASTA file entry.\n")
mut("c18-stateless-table-patched", "C18", "nucleotide.go",
    'func Transcribe(seq Sequence) Sequence {\n\tp := replaceBytes(\n\t\tseq.Bytes(),\n\t\t[]byte("ACGTURYKMBDHVacgturykmbdhv"),\n\t\t[]byte("UGCAAYRMKVHDBugcaayrmkvhdb"),\n\t)',
    'var transcriptCodes = []byte("UGCAAYRMKVHDBugcaayrmkvhdb")\n\nfunc Transcribe(seq Sequence) Sequence {\n\tcodes := transcriptCodes[:]\n\tcodes[0] = \'U\'\n\tp := replaceBytes(\n\t\tseq.Bytes(),\n\t\t[]byte("ACGTURYKMBDHVacgturykmbdhv"),\n\t\tcodes,\n\t)',
    ["STATELESS|gts.Transcribe|transcriptCodes"], note="a store through a local alias of a package-level table")
mut("c18-stateless-silent-readonly-table", "C18", "sequence.go",
    "func bytesIndexAll(s, sep []byte) []int {\n",
    "var allHits = -1\n\nfunc bytesIndexAll(s, sep []byte) []int {\n\t_ = allHits\n",
    silent=True, note="a package variable that is only read is not state")
mut("c11-stateless-memo", "C11", "sequence.go",
    "func bytesIndexAll(s, sep []byte) []int {\n\tindex := suffixarray.New(s)\n",
    "var lastIndex *suffixarray.Index\n\nfunc bytesIndexAll(s, sep []byte) []int {\n\tindex := suffixarray.New(s)\n\tlastIndex = index\n",
    ["STATELESS|gts.bytesIndexAll|lastIndex"])

# ---------------------------------------------------------------- round-4 rules
mut("c03-kind-complement-unwrapped", "C03", "location.go",
    "\tcase Complemented:\n\t\treturn Complemented{asComplete(v.Location)}\n",
    "\tcase Complemented:\n\t\treturn asComplete(v.Location)\n",
    ["KIND-PRESERVE|gts.asComplete|case=Complemented"])
mut("c03-kind-silent-complement-rewrapped", "C03", "location.go",
    "\tcase Complemented:\n\t\treturn Complemented{asComplete(v.Location)}\n",
    "\tcase Complemented:\n\t\treturn Complemented{Location: asComplete(v.Location)}\n",
    silent=True, note="looking through the wrapper and putting it back keeps the kind")
mut("c10-complete-in-delete", "C10", "sequence.go",
    "\t\tf.Loc = f.Loc.Expand(offset, -length)\n\t\tff[i] = f\n",
    "\t\tf.Loc = f.Loc.Expand(offset, -length)\n\t\tif f.Key == \"source\" {\n\t\t\tf.Loc = asComplete(f.Loc)\n\t\t}\n\t\tff[i] = f\n",
    ["COMPLETE-ONLY-SLICE|gts.asComplete|caller=gts.Delete"])
mut("c03-normalise-info-first", "C03", "sequence.go",
    "\tseqlen := Len(seq)\n\tif start < 0 {\n\t\tstart += seqlen\n\t}\n",
    "\tseqlen := Len(seq)\n\tmeta := trySlice(seq.Info(), start, end)\n\t_ = meta\n\tif start < 0 {\n\t\tstart += seqlen\n\t}\n",
    ["NORMALISE-FIRST|gts.Slice|start", "NORMALISE-FIRST|gts.Slice|end"])
mut("c03-normalise-silent-swapped", "C03", "sequence.go",
    "\tif start < 0 {\n\t\tstart += seqlen\n\t}\n\n\tif end < 0 {\n\t\tend += seqlen\n\t}\n",
    "\tif end < 0 {\n\t\tend += seqlen\n\t}\n\n\tif start < 0 {\n\t\tstart += seqlen\n\t}\n",
    silent=True, note="the two canonicalisations are independent")
mut("c04-reorder-sorted-parts", "C04", "location.go",
    "\tfor i, l := range joined {\n\t\tll[i] = l.Normalize(length)\n\t}\n\treturn Join(ll...)",
    "\tfor i, l := range joined {\n\t\tll[i] = l.Normalize(length)\n\t}\n\tsortLocations(ll)\n\treturn Join(ll...)",
    ["NO-REORDER|gts.Joined.Normalize"], old2="// LocationLess tests if location a is less than b.\n", new2="func sortLocations(ll []Location) {\n\tfor i := 1; i < len(ll); i++ {\n\t\tfor j := i; j > 0 && LocationLess(ll[j], ll[j-1]); j-- {\n\t\t\tll[j], ll[j-1] = ll[j-1], ll[j]\n\t\t}\n\t}\n}\n\n// LocationLess tests if location a is less than b.\n")
mut("c04-reorder-silent-converted", "C04", "location.go",
    "\tfor i, l := range joined {\n\t\tll[i] = l.Normalize(length)\n\t}\n\treturn Join(ll...)",
    "\tfor i, l := range joined {\n\t\tll[i] = l.Normalize(length)\n\t}\n\tparts := []Location(ll)\n\treturn Join(parts...)",
    silent=True)
mut("c19-quant-within-any", "C19", "location.go",
    "\t\tfor _, l := range v.slice() {\n\t\t\tif !LocationWithin(l, lower, upper) {\n\t\t\t\treturn false\n\t\t\t}\n\t\t}\n\t\treturn true",
    "\t\tfor _, l := range v.slice() {\n\t\t\tif LocationWithin(l, lower, upper) {\n\t\t\t\treturn true\n\t\t\t}\n\t\t}\n\t\treturn false",
    ["QUANT-ALL|gts.LocationWithin|parts"])
mut("c19-quant-overlap-tail", "C19", "location.go",
    "\t\tfor _, l := range v.slice() {\n\t\t\tif LocationOverlap(l, lower, upper) {",
    "\t\tfor _, l := range v.slice()[1:] {\n\t\t\tif LocationOverlap(l, lower, upper) {",
    ["QUANT-ALL|gts.LocationOverlap|parts"])
mut("c19-quant-silent-index-loop", "C19", "location.go",
    "\t\tfor _, l := range v.slice() {\n\t\t\tif LocationOverlap(l, lower, upper) {",
    "\t\tparts := v.slice()\n\t\tfor i := range parts {\n\t\t\tl := parts[i]\n\t\t\tif LocationOverlap(l, lower, upper) {",
    silent=True)
mut("c06-print-one-base-return", "C06", "location.go",
    "\tb.WriteString(strconv.Itoa(ranged.Start + 1))\n\tb.WriteString(\"..\")",
    "\tb.WriteString(strconv.Itoa(ranged.Start + 1))\n\tif ranged.Len() == 1 {\n\t\treturn b.String()\n\t}\n\tb.WriteString(\"..\")",
    ["PRINT-TOTAL|gts.Ranged.String"])
mut("c17-slice-region-early-return", "C17", "seqio/genbank.go",
    "\tgbf.Region = gts.Segment{start, end}\n",
    "\tif len(gbf.References) == 0 {\n\t\treturn gbf\n\t}\n\tgbf.Region = gts.Segment{start, end}\n",
    ["SLICE-REGION|seqio.GenBankFields.Slice"])
mut("c08-dedup-head-tail-len", "C08", "cmd/gts/extract.go",
    "reflect.DeepEqual(rr[i], r)", "rr[i].Head() == r.Head() && rr[i].Tail() == r.Tail() && rr[i].Len() == r.Len()",
    ["DEDUP-EXACT|main.containsRegion"], old2='\t"reflect"\n', new2="")

# ---------------------------------------------------------------- round-4 rules, batch 2
mut("c14-key9-query-bases", "C14", "cmd/gts/search.go",
    "\tquerySum := h.Sum(nil)\n",
    "\th.Reset()\n\tfor _, query := range queries {\n\t\th.Write(query.Bytes())\n\t}\n\tquerySum := h.Sum(nil)\n",
    ["KEY-9|main.searchFunc|feed#3"], note="the digest of the concatenated bases loses the record boundaries")
mut("c14-key9-silent-local-bytes", "C14", "cmd/gts/insert.go",
    "\t\th.Write(guestBytes)\n", "\t\traw := guestBytes\n\t\th.Write(raw)\n", silent=True)
mut("c14-key10-seekable-stdin", "C14", "cmd/gts/io.go",
    "\tif d.infile == os.Stdin || !seekable(d.infile) {\n\t\t// Write to a temporary file to enable seeking.",
    "\tif (d.infile == os.Stdin && len(data) > 0) || !seekable(d.infile) {\n\t\t// Write to a temporary file to enable seeking.",
    ["KEY-10|main.ioDelegate.TryCache|hash"])
mut("c14-key10-silent-flipped", "C14", "cmd/gts/io.go",
    "\tif d.infile == os.Stdin || !seekable(d.infile) {\n\t\t// Write to a temporary file to enable seeking.",
    "\tif !seekable(d.infile) || os.Stdin == d.infile {\n\t\t// Write to a temporary file to enable seeking.", silent=True)
mut("c01-reqbuf-dump-lookahead", "C01", "seqio/insdc.go",
    "\t\tif err := state.Request(len(p)); err != nil {\n\t\t\treturn err\n\t\t}\n\t\tif !bytes.Equal(state.Buffer(), p) {\n\t\t\treturn pars.NewError(fmt.Sprintf(\"expected %q\", prefix+\"/\"), state.Position())\n\t\t}\n\t\tstate.Advance()\n\t\treturn word(state, result)",
    "\t\tif !bytes.HasPrefix(state.Dump(), p) {\n\t\t\treturn pars.NewError(fmt.Sprintf(\"expected %q\", prefix+\"/\"), state.Position())\n\t\t}\n\t\tif err := pars.Skip(state, len(p)); err != nil {\n\t\t\treturn err\n\t\t}\n\t\treturn word(state, result)",
    ["REQ-BUF|gts/seqio.qualifierNameParser|dump"])
mut("c16-residue-range-125", "C16", "seqio/genbank_subparsers.go", "var isBaseCharacter = ascii.Range(33, 126)", "var isBaseCharacter = ascii.Range(33, 125)", ["RESIDUE-CLASS|seqio.isBaseCharacter|set"])
mut("c16-residue-func-exclusive", "C16", "seqio/genbank_subparsers.go", "var isBaseCharacter = ascii.Range(33, 126)", "func isBaseCharacter(c byte) bool { return spaceByte < c && c < '~' }\n\nvar _ = ascii.Range", ["RESIDUE-CLASS|seqio.isBaseCharacter|set"])
mut("c16-residue-silent-func", "C16", "seqio/genbank_subparsers.go", "var isBaseCharacter = ascii.Range(33, 126)", "func isBaseCharacter(c byte) bool { return spaceByte < c && c <= '~' }\n\nvar _ = ascii.Range", silent=True, note="the same set written as a function of comparisons")
mut("c16-shallow-decode-in-place", "C16", "seqio/origin.go", "\t\tq := make([]byte, length)\n\t\toffset, start := 0, 0", "\t\tq := p[:length]\n\t\toffset, start := 0, 0", ["SHALLOW-CACHE|seqio.Origin.Bytes"])
mut("c15-stale-single", "C15", "cmd/gts/extract.go",
    "\t\tif *invert {\n\t\t\t// Support linear inversion only as topology is not well defined.\n\t\t\trr = gts.InvertLinear(gts.Regions(rr), gts.Len(seq))\n\t\t}\n\n\t\tfor _, region := range rr {\n\t\t\tif len(rr) == 1 || region.Len() != gts.Len(seq) {",
    "\t\tsingle := len(rr) == 1\n\t\tif *invert {\n\t\t\t// Support linear inversion only as topology is not well defined.\n\t\t\trr = gts.InvertLinear(gts.Regions(rr), gts.Len(seq))\n\t\t}\n\n\t\tfor _, region := range rr {\n\t\t\tif single || region.Len() != gts.Len(seq) {",
    ["STALE-VALUE|main.extract|single"])
mut("c15-stale-silent-seqlen", "C15", "cmd/gts/extract.go",
    "\t\tfor _, region := range rr {\n\t\t\tif len(rr) == 1 || region.Len() != gts.Len(seq) {",
    "\t\tseqlen := gts.Len(seq)\n\t\tfor _, region := range rr {\n\t\t\tif len(rr) == 1 || region.Len() != seqlen {",
    silent=True, note="the record is not re-assigned, so its length may be computed once")
mut("c15-emit-skip-wrap", "C15", "cmd/gts/split.go",
    "\t\t\t\thead := splits[i]\n\t\t\t\tsub := gts.Slice(seq, head, tail)",
    "\t\t\t\thead := splits[i]\n\t\t\t\tif tail <= head {\n\t\t\t\t\tcontinue\n\t\t\t\t}\n\t\t\t\tsub := gts.Slice(seq, head, tail)",
    ["EMIT-ALL|main.split|emit-loop#1"])
mut("c15-emit-silent-swapped-filter", "C15", "cmd/gts/extract.go",
    "if len(rr) == 1 || region.Len() != gts.Len(seq) {", "if region.Len() != gts.Len(seq) || len(rr) == 1 {", silent=True)
mut("c12-cuts-not-unique", "C12", "cmd/gts/split.go",
    "\t\t\theads := make([]int, len(unique))\n\t\t\ti := 0\n\t\t\tfor head := range unique {\n\t\t\t\theads[i] = head\n\t\t\t\ti++\n\t\t\t}\n",
    "\t\t\theads := make([]int, 0, len(rr))\n\t\t\tfor _, r := range rr {\n\t\t\t\theads = append(heads, gts.Min(r.Head(), r.Tail()))\n\t\t\t}\n\t\t\t_ = unique\n",
    ["UNIQUE-CUTS|main.split|cuts"])
mut("c19-not-per-selector", "C19", "cmd/gts/select.go",
    "\t\tfilters[i] = f\n\t}\n\tfilter := gts.Or(filters...)\n\tif *invert {\n\t\tfilter = gts.Not(filter)\n\t}\n",
    "\t\tif *invert {\n\t\t\tf = gts.Not(f)\n\t\t}\n\t\tfilters[i] = f\n\t}\n\tfilter := gts.Or(filters...)\n",
    ["NOT-OF-OR|main.select|invert#1"])
mut("c19-not-silent-named-or", "C19", "cmd/gts/select.go",
    "\tfilter := gts.Or(filters...)\n\tif *invert {\n\t\tfilter = gts.Not(filter)\n\t}\n",
    "\tany := gts.Or(filters...)\n\tfilter := any\n\tif *invert {\n\t\tfilter = gts.Not(any)\n\t}\n", silent=True)

mut("c19-values-only-reverted", "C19", "feature.go", "\t\t\t\tfor _, v := range vv[1:] {\n", "\t\t\t\tfor _, v := range vv {\n", ["VALUES-ONLY|gts.Qualifier|match#1"], note="the repaired defect, reintroduced")
mut("c19-values-only-silent-items", "C19", "feature.go",
    "\t\t\tfor _, vv := range f.Props {\n\t\t\t\tif len(vv) == 0 {\n\t\t\t\t\tcontinue\n\t\t\t\t}\n\t\t\t\tfor _, v := range vv[1:] {\n\t\t\t\t\tif re.MatchString(v) {\n\t\t\t\t\t\treturn true\n\t\t\t\t\t}\n\t\t\t\t}\n\t\t\t}\n",
    "\t\t\tfor _, item := range f.Props.Items() {\n\t\t\t\tif re.MatchString(item.Value) {\n\t\t\t\t\treturn true\n\t\t\t\t}\n\t\t\t}\n", silent=True)

mut("c07-overflow-bound-reverted", "C07", "seqio/genbank.go",
    "\tif int64(length) > maxGenBankLength {\n\t\treturn pars.NewError(\"sequence length exceeds the supported maximum\", state.Position())\n\t}\n", "",
    ["OVERFLOW|seqio.makeGenbankOriginParser|count#1"], note="the repaired defect, reintroduced")
mut("c07-overflow-silent-smaller-bound", "C07", "seqio/genbank.go", "const maxGenBankLength int64 = 1 << 40", "const maxGenBankLength int64 = 1 << 31", silent=True)

mut("c07-origin-line-end-reverted", "C07", "seqio/genbank_subparsers.go",
    "\t\t\tif len(bytes.TrimSpace(q[extent:])) != 0 {\n\t\t\t\tpos.Byte += extent\n\t\t\t\treturn pars.NewError(\"residues beyond the declared sequence length\", pos)\n\t\t\t}\n\n", "",
    ["ORIGIN-LINE-END|seqio.slowGenBankOriginParser|rest-of-line"], note="the repaired defect, reintroduced")
mut("c16-origin-line-end-reverted", "C16", "seqio/genbank_subparsers.go",
    "\t\t\tif len(bytes.TrimSpace(q[extent:])) != 0 {\n\t\t\t\tpos.Byte += extent\n\t\t\t\treturn pars.NewError(\"residues beyond the declared sequence length\", pos)\n\t\t\t}\n\n", "",
    ["ORIGIN-LINE-END|seqio.slowGenBankOriginParser|rest-of-line"], note="the repaired defect, reintroduced")
mut("c07-origin-line-end-silent-len", "C07", "seqio/genbank_subparsers.go",
    "\t\t\tif len(bytes.TrimSpace(q[extent:])) != 0 {\n", "\t\t\tif tail := bytes.TrimSpace(q[extent:]); len(tail) > 0 {\n", silent=True)
mut("c07-origin-end-reverted", "C07", "seqio/genbank_subparsers.go",
    "\t\t\t\tgb.Origin = &Origin{p, false}\n\t\t\t\treturn expectNoMoreResidues(state)\n", "\t\t\t\tgb.Origin = &Origin{p, false}\n\t\t\t\treturn nil\n",
    ["ORIGIN-END|seqio.makeGenbankOriginParser|store#1"], note="the repaired defect, reintroduced on the fast path")

mut("c18-byte-index-255", "C18", "nucleotide.go",
    "func replaceBytes(p, old, new []byte) []byte {",
    "var identity255 [255]byte\n\nfunc lookup255(c byte) byte { return identity255[c] }\n\nfunc replaceBytes(p, old, new []byte) []byte {",
    ["BYTE-INDEX|gts.lookup255|byte-index#1"], note="positive example: a table one entry short")
mut("c18-byte-index-silent-256", "C18", "nucleotide.go",
    "func replaceBytes(p, old, new []byte) []byte {",
    "var identity256 [256]byte\n\nfunc lookup256(c byte) byte { return identity256[c] }\n\nfunc replaceBytes(p, old, new []byte) []byte {",
    silent=True)
mut("c02-uncomparable-shortcut", "C02", "location.go",
    "\tfor j, loc := range joined {\n\t\tlocs[j] = loc.Shift(i, n)\n\t}\n\treturn Join(locs...)",
    "\tsame := true\n\tfor j, loc := range joined {\n\t\tlocs[j] = loc.Shift(i, n)\n\t\tsame = same && locs[j] == loc\n\t}\n\t_ = same\n\treturn Join(locs...)",
    ["UNCOMPARABLE|gts.Joined.Shift|compare#1"], note="positive example: interface comparison that panics for nested joins")

# ---------------------------------------------------------------- round-5 rules
mut("c05-identity-reverse-wholespan", "C05", "location.go",
    "func (ranged Ranged) Reverse(length int) Location {\n",
    "func (ranged Ranged) Reverse(length int) Location {\n\tif ranged.Start == 0 && ranged.End == length {\n\t\treturn ranged\n\t}\n",
    ["IDENTITY-RETURN|gts.Ranged.Reverse"])
mut("c02-identity-silent-flipped-zero", "C02", "location.go",
    "func (ranged Ranged) Shift(i, n int) Location {\n\tif n == 0 {\n\t\treturn ranged\n\t}",
    "func (ranged Ranged) Shift(i, n int) Location {\n\tif 0 == n {\n\t\treturn ranged\n\t}", silent=True)
mut("c12-kindset-one-base-point", "C12", "location.go",
    "\tif start == end {\n\t\treturn Between(start)\n\t}\n\treturn Ranged{start, end, partial}",
    "\tif start == end {\n\t\treturn Between(start)\n\t}\n\tif start+1 == end {\n\t\treturn Point(start)\n\t}\n\treturn Ranged{start, end, partial}",
    ["KIND-SET|gts.Ranged.Expand"])
mut("c07-mapinit-nil-store", "C07", "seqio/genbank_subparsers.go",
    "\t\t\tref.Xref = map[string]string{\"PUBMED\": string(result.Token)}\n",
    "\t\t\tref.Xref[\"PUBMED\"] = string(result.Token)\n",
    ["MAP-INIT|gts/seqio.genbankReferenceSubfieldParser|map-store#1(Xref)"])
mut("c07-mapinit-silent-made-first", "C07", "seqio/genbank_subparsers.go",
    "\t\t\tref.Xref = map[string]string{\"PUBMED\": string(result.Token)}\n",
    "\t\t\tref.Xref = make(map[string]string)\n\t\t\tref.Xref[\"PUBMED\"] = string(result.Token)\n", silent=True)
mut("c15-flush-skipped", "C15", "cmd/gts/split.go",
    "\t\tcase len(rr) == 0:\n\t\t\tif _, err := writer.WriteSeq(seq); err != nil {\n\t\t\t\treturn ctx.Raise(err)\n\t\t\t}\n",
    "\t\tcase len(rr) == 0:\n\t\t\tif _, err := writer.WriteSeq(seq); err != nil {\n\t\t\t\treturn ctx.Raise(err)\n\t\t\t}\n\t\t\tcontinue\n",
    ["FLUSH-ALL|main.split"])
mut("c14-key11-cachedir-error", "C14", "cmd/gts/io.go",
    "\tdir, err := gtsCacheDir()\n\tif err != nil {\n\t\treturn false, nil\n\t}",
    "\tdir, err := gtsCacheDir()\n\tif err != nil {\n\t\treturn false, err\n\t}",
    ["KEY-11|main.ioDelegate.TryCache|gts.gtsCacheDir#1"])
mut("c12-early-exit-repair", "C12", "feature.go",
    "\t// Identify the features with similar keys and values.\n",
    "\tif len(gg) < 2 {\n\t\treturn gg\n\t}\n\n\t// Identify the features with similar keys and values.\n",
    ["NO-EARLY-EXIT|gts.Repair"], note="flagged although harmless for this guard: the rule cannot tell a sound shortcut from an unsound one and fails closed")
mut("c06-parse-reject-ambiguous", "C06", "location.go",
    "\tend := result.Value.(int)\n\tresult.SetValue(Ambiguous{start, end})",
    "\tend := result.Value.(int)\n\tif end <= start+1 {\n\t\tstate.Pop()\n\t\treturn fmt.Errorf(\"%d.%d: coordinates should be ascending\", start+1, end)\n\t}\n\tresult.SetValue(Ambiguous{start, end})",
    ["PARSE-REJECT|gts.parseAmbiguous"])
mut("c16-index-atoi", "C16", "seqio/genbank_subparsers.go",
    "\t\tprefix := []byte(fmt.Sprintf(\"%9d\", i+1))\n\t\tif !bytes.HasPrefix(p[offset:], prefix) {\n\t\t\treturn pars.NewError(\"expected sequence index\", pos)\n\t\t}\n\t\toffset += len(prefix)\n\t\tpos.Byte += len(prefix)\n",
    "\t\tif index, err := strconv.Atoi(string(bytes.TrimLeft(p[offset:offset+9], \" \"))); err != nil || index != i+1 {\n\t\t\treturn pars.NewError(\"expected sequence index\", pos)\n\t\t}\n\t\toffset += 9\n\t\tpos.Byte += 9\n",
    ["INDEX-EXACT|seqio.validateOrigin|index"])
mut("c01-wrapjoin-source-reverted", "C01", "seqio/genbank_subparsers.go",
    "\tsourceBodyParser := genbankFieldBodyParser(depth, ' ')\n", "\tsourceBodyParser := genbankFieldBodyParser(depth, '\\n')\n",
    ["WRAP-JOIN|seqio.SOURCE"], note="the repaired defect, reintroduced")
mut("c01-wrapjoin-organism-reverted", "C01", "seqio/genbank.go",
    "\torganism := AddPrefix(gb.Fields.Source.Name, indent)\n", "\torganism := AddPrefix(wrap.Space(gb.Fields.Source.Name, 67), indent)\n",
    ["WRAP-JOIN|seqio.ORGANISM"], note="the repaired defect, reintroduced")
mut("c01-qualformat-unknown-flag", "C01", "seqio/insdc.go",
    "\tdefault:\n\t\treturn fmt.Sprintf(\"/%s=\\\"%s\\\"\", name, value)\n\t}\n}",
    "\tdefault:\n\t\tif value == \"\" {\n\t\t\treturn \"/\" + name\n\t\t}\n\t\treturn fmt.Sprintf(\"/%s=\\\"%s\\\"\", name, value)\n\t}\n}",
    ["QUAL-FORMAT|seqio.QualifierIO.String"])
mut("c04-fmap-normalize-guarded", "C04", "sequence.go",
    "\t\tf.Loc = f.Loc.Expand(0, n).Normalize(Len(seq))\n",
    "\t\tf.Loc = f.Loc.Expand(0, n)\n\t\tif r := f.Loc.Region(); Max(r.Head(), r.Tail()) > Len(seq) {\n\t\t\tf.Loc = f.Loc.Normalize(Len(seq))\n\t\t}\n",
    ["FMAP|gts.Rotate|features-loop#1"])
mut("c19-less-unwrap-hoisted", "C19", "location.go",
    "func LocationLess(a, b Location) bool {\n\tif c, ok := a.(Complemented); ok {\n\t\treturn LocationLess(c.Location, b)\n\t}\n\n\tif c, ok := b.(Complemented); ok {\n\t\treturn LocationLess(a, c.Location)\n\t}\n\n\tif ll, ok := a.(locationSlice); ok {\n\t\tfor _, l := range ll.slice() {\n\t\t\tif LocationLess(l, b) {",
    "func LocationLess(a, b Location) bool {\n\tif c, ok := a.(Complemented); ok {\n\t\ta = c.Location\n\t}\n\tif c, ok := b.(Complemented); ok {\n\t\tb = c.Location\n\t}\n\treturn locationLessParts(a, b)\n}\n\nfunc locationLessParts(a, b Location) bool {\n\tif ll, ok := a.(locationSlice); ok {\n\t\tfor _, l := range ll.slice() {\n\t\t\tif locationLessParts(l, b) {",
    ["LESS-UNWRAP|gts.LocationLess"], old2="\t\tfor _, l := range ll.slice() {\n\t\t\tif !LocationLess(a, l) {", new2="\t\tfor _, l := range ll.slice() {\n\t\t\tif !locationLessParts(a, l) {")

mut("c08-loc-whole-reverted", "C08", "locator.go", "result, err := pars.Exact(parser).Parse(pars.FromString(s))", "result, err := parser.Parse(pars.FromString(s))", ["LOC-WHOLE|gts.tryLocation"], note="the repaired defect, reintroduced")
mut("c08-loc-whole-silent-seq-end", "C08", "locator.go", "result, err := pars.Exact(parser).Parse(pars.FromString(s))", "whole := pars.Seq(parser, pars.End).Child(0)\n\tresult, err := whole.Parse(pars.FromString(s))", silent=True)

# ---------------------------------------------------------------- refactoring round 2: argmax, two-level aliasing, source rewrites
mut("c07-argmax-silent-append-form", "C07", "seqio/scanner.go", '\t\terrs := make([]struct {\n\t\t\terr error\n\t\t\tpos pars.Position\n\t\t}, len(sequenceParsers))\n\t\tfor i, p := range sequenceParsers {\n\t\t\ts.s.Push()\n\t\t\ts.res, errs[i].err = p.Parse(s.s)\n\t\t\tif errs[i].err == nil {\n\t\t\t\ts.s.Drop()\n\t\t\t\ts.p = p\n\t\t\t\treturn true\n\t\t\t}\n\t\t\terrs[i].pos = s.s.Position()\n\t\t\ts.s.Pop()\n\t\t}\n', '\t\ttype failure struct {\n\t\t\terr error\n\t\t\tpos pars.Position\n\t\t}\n\t\terrs := make([]failure, 0, len(sequenceParsers))\n\t\tfor _, p := range sequenceParsers {\n\t\t\tvar err error\n\t\t\ts.s.Push()\n\t\t\ts.res, err = p.Parse(s.s)\n\t\t\tif err == nil {\n\t\t\t\ts.s.Drop()\n\t\t\t\ts.p = p\n\t\t\t\treturn true\n\t\t\t}\n\t\t\terrs = append(errs, failure{err, s.s.Position()})\n\t\t\ts.s.Pop()\n\t\t}\n', silent=True,
    note="the failures are collected by append, one per parser that did not match: errs is as long as the (non-empty) parser table when the loop is left")
mut("c01-stateless-silent-append-form", "C01", "seqio/scanner.go", '\t\terrs := make([]struct {\n\t\t\terr error\n\t\t\tpos pars.Position\n\t\t}, len(sequenceParsers))\n\t\tfor i, p := range sequenceParsers {\n\t\t\ts.s.Push()\n\t\t\ts.res, errs[i].err = p.Parse(s.s)\n\t\t\tif errs[i].err == nil {\n\t\t\t\ts.s.Drop()\n\t\t\t\ts.p = p\n\t\t\t\treturn true\n\t\t\t}\n\t\t\terrs[i].pos = s.s.Position()\n\t\t\ts.s.Pop()\n\t\t}\n', '\t\ttype failure struct {\n\t\t\terr error\n\t\t\tpos pars.Position\n\t\t}\n\t\terrs := make([]failure, 0, len(sequenceParsers))\n\t\tfor _, p := range sequenceParsers {\n\t\t\tvar err error\n\t\t\ts.s.Push()\n\t\t\ts.res, err = p.Parse(s.s)\n\t\t\tif err == nil {\n\t\t\t\ts.s.Drop()\n\t\t\t\ts.p = p\n\t\t\t\treturn true\n\t\t\t}\n\t\t\terrs = append(errs, failure{err, s.s.Position()})\n\t\t\ts.s.Pop()\n\t\t}\n', silent=True,
    note="errs holds errors that came out of the package-level parser table, but appending to errs writes only its own fresh array")
mut("c07-argmax-append-skipped", "C07", "seqio/scanner.go", '\t\terrs := make([]struct {\n\t\t\terr error\n\t\t\tpos pars.Position\n\t\t}, len(sequenceParsers))\n\t\tfor i, p := range sequenceParsers {\n\t\t\ts.s.Push()\n\t\t\ts.res, errs[i].err = p.Parse(s.s)\n\t\t\tif errs[i].err == nil {\n\t\t\t\ts.s.Drop()\n\t\t\t\ts.p = p\n\t\t\t\treturn true\n\t\t\t}\n\t\t\terrs[i].pos = s.s.Position()\n\t\t\ts.s.Pop()\n\t\t}\n', '\t\ttype failure struct {\n\t\t\terr error\n\t\t\tpos pars.Position\n\t\t}\n\t\terrs := make([]failure, 0, len(sequenceParsers))\n\t\tfor _, p := range sequenceParsers {\n\t\t\tvar err error\n\t\t\ts.s.Push()\n\t\t\ts.res, err = p.Parse(s.s)\n\t\t\tif err == nil {\n\t\t\t\ts.s.Drop()\n\t\t\t\ts.p = p\n\t\t\t\treturn true\n\t\t\t}\n\t\t\tif s.s.Position().Line == 0 {\n\t\t\t\ts.s.Pop()\n\t\t\t\tcontinue\n\t\t\t}\n\t\t\terrs = append(errs, failure{err, s.s.Position()})\n\t\t\ts.s.Pop()\n\t\t}\n', ["IDX|seqio.Scanner.Scan|IDX#1"],
    note="an iteration that skips the append: errs can be empty when the best failure is looked up")
mut("c07-argmax-short-made", "C07", "seqio/scanner.go", "\t\t}, len(sequenceParsers))\n\t\tfor i, p := range sequenceParsers {", "\t\t}, len(sequenceParsers)-1)\n\t\tfor i, p := range sequenceParsers[1:] {",
    ["IDX|seqio.Scanner.Scan|IDX#1"], note="errs one shorter than the table: empty for a one-parser table")
mut("c01-stateless-two-level-write", "C01", "seqio/insdc.go",
    "func IsQuotedQualifier(name string) bool {\n\treturn searchString(name, QuotedQualifierNames)\n}",
    "func IsQuotedQualifier(name string) bool {\n\ttables := [][]string{QuotedQualifierNames}\n\tif len(tables[0]) > 0 && tables[0][0] == \"\" {\n\t\ttables[0][0] = name\n\t}\n\treturn searchString(name, QuotedQualifierNames)\n}",
    ["STATELESS|gts/seqio.IsQuotedQualifier|QuotedQualifierNames"], note="a fresh container holding the package-level table: a store two dereferences down lands in the table")
mut("c01-stateless-silent-container-write", "C01", "seqio/insdc.go",
    "func IsQuotedQualifier(name string) bool {\n\treturn searchString(name, QuotedQualifierNames)\n}",
    "func IsQuotedQualifier(name string) bool {\n\ttables := [][]string{QuotedQualifierNames}\n\ttables[0] = tables[0][:len(tables[0]):len(tables[0])]\n\treturn searchString(name, tables[0])\n}",
    silent=True, note="a store into the fresh container itself touches no package-level memory")
mut("c19-inline-silent-early-return-helper", "C19", "feature.go",
    "\t\t\t\tfor _, v := range vv[1:] {\n\t\t\t\t\tif re.MatchString(v) {\n\t\t\t\t\t\treturn true\n\t\t\t\t\t}\n\t\t\t\t}\n",
    "\t\t\t\tif matchAny(re, vv[1:]) {\n\t\t\t\t\treturn true\n\t\t\t\t}\n", silent=True,
    old2="// Qualifier tests if any of the values", new2="func matchAny(re *regexp.Regexp, values []string) bool {\n\tfor _, v := range values {\n\t\tif re.MatchString(v) {\n\t\t\treturn true\n\t\t}\n\t}\n\treturn false\n}\n\n// Qualifier tests if any of the values",
    note="a search loop extracted into a helper that returns early is inlined back before the rules look")
mut("c19-inline-early-return-helper-wrong", "C19", "feature.go",
    "\t\t\t\tfor _, v := range vv[1:] {\n\t\t\t\t\tif re.MatchString(v) {\n\t\t\t\t\t\treturn true\n\t\t\t\t\t}\n\t\t\t\t}\n",
    "\t\t\t\tif matchAny(re, vv) {\n\t\t\t\t\treturn true\n\t\t\t\t}\n", ["VALUES-ONLY|gts.Qualifier|match#1"],
    old2="// Qualifier tests if any of the values", new2="func matchAny(re *regexp.Regexp, values []string) bool {\n\tfor _, v := range values {\n\t\tif re.MatchString(v) {\n\t\t\treturn true\n\t\t}\n\t}\n\treturn false\n}\n\n// Qualifier tests if any of the values",
    note="the same extraction, but the helper is handed the row with the qualifier name in it: the rules see through the helper")
mut("c16-rename-silent-layout-helper", "C16", "seqio/origin.go", "func toOriginLength(length int) int {", "func formattedLength(length int) int {", silent=True,
    old2="toOriginLength(length))", new2="formattedLength(length))", file3="seqio/genbank_subparsers.go", old3="toOriginLength(", new3="formattedLength(",
    note="a renamed unexported anchor is found again by its signature and given its recorded name back before the rules look")
mut("c16-rename-layout-helper-and-break", "C16", "seqio/origin.go", "func toOriginLength(length int) int {", "func formattedLength(length int) int {\n\tlength++",
    ["LAYOUT"], old2="toOriginLength(length))", new2="formattedLength(length))", file3="seqio/genbank_subparsers.go", old3="toOriginLength(", new3="formattedLength(",
    note="the renamed anchor is still analysed: a changed layout formula under the new name is reported")

# ---------------------------------------------------------------- FOLD-BYTEWISE (C18)
mut("c18-fold-bytewise-search-seq-reverted", "C18", "sequence.go", "s := lowerBytes(seq.Bytes())", "s := bytes.ToLower(seq.Bytes())", ["FOLD-BYTEWISE|gts.Search|seq"], note="the repaired defect, reintroduced: a rune-wise fold shifts the offsets behind an invalid UTF-8 byte")
mut("c18-fold-bytewise-search-query-reverted", "C18", "sequence.go", "sep := lowerBytes(query.Bytes())", "sep := bytes.ToLower(query.Bytes())", ["FOLD-BYTEWISE|gts.Search|query"])
mut("c18-fold-bytewise-match-seq-reverted", "C18", "nucleotide.go", "p := lowerBytes(seq.Bytes())", "p := bytes.ToLower(seq.Bytes())", ["FOLD-BYTEWISE|gts.Match|seq"])
mut("c18-fold-bytewise-match-query-upper", "C18", "nucleotide.go", "for _, c := range lowerBytes(query.Bytes()) {", "for _, c := range bytes.ToLower(query.Bytes()) {", ["FOLD-BYTEWISE|gts.Match|query"])
mut("c18-fold-helper-misses-z", "C18", "nucleotide.go", "if 'A' <= c && c <= 'Z' {", "if 'A' <= c && c < 'Z' {", ["FOLD-BYTEWISE|gts.Search|seq", "FOLD-BYTEWISE|gts.Match|seq"], note="the per-byte map is evaluated for all 256 values: Z is not folded")
mut("c18-fold-helper-folds-punctuation", "C18", "nucleotide.go", "if 'A' <= c && c <= 'Z' {\n\t\t\tc += 'a' - 'A'\n\t\t}", "if '@' <= c && c <= 'Z' {\n\t\t\tc |= 0x20\n\t\t}", ["FOLD-BYTEWISE|gts.Search|seq"], note="@ becomes a back quote: a byte outside the letters is changed")
mut("c18-fold-helper-silent-or-bit", "C18", "nucleotide.go", "c += 'a' - 'A'", "c |= 0x20", silent=True, note="setting bit 5 of an upper-case ASCII letter is the same map")
mut("c18-fold-helper-silent-index-loop", "C18", "nucleotide.go", "\tfor i, c := range p {\n\t\tif 'A' <= c && c <= 'Z' {\n\t\t\tc += 'a' - 'A'\n\t\t}\n\t\tq[i] = c\n\t}", "\tfor i := 0; i < len(p); i++ {\n\t\tc := p[i]\n\t\tif c >= 'A' && c <= 'Z' {\n\t\t\tc = c - 'A' + 'a'\n\t\t}\n\t\tq[i] = c\n\t}", silent=True, note="the same fold as a counted loop")
mut("c18-fold-inline-silent", "C18", "sequence.go", "s := lowerBytes(seq.Bytes())", "raw := seq.Bytes()\n\ts := make([]byte, len(raw))\n\tfor i, c := range raw {\n\t\tif 'A' <= c && c <= 'Z' {\n\t\t\tc += 32\n\t\t}\n\t\ts[i] = c\n\t}", silent=True, note="the fold written out in Search itself")

# ---------------------------------------------------------------- round-6 rules
mut("c15-backfront-insert-unsorted", "C15", "cmd/gts/insert.go", "\t\tsort.Sort(sort.Reverse(sort.IntSlice(indices)))\n", "\t\t_ = sort.Ints\n", ["BACK-TO-FRONT|main.insertFunc|edit-loop#1"], note="the insertion points are used in table order")
mut("c15-backfront-insert-ascending", "C15", "cmd/gts/insert.go", "\t\tsort.Sort(sort.Reverse(sort.IntSlice(indices)))\n", "\t\tsort.Ints(indices)\n", ["BACK-TO-FRONT|main.insertFunc|edit-loop#1"], note="sorted, but walked from the near end")
mut("c15-backfront-delete-not-flipped", "C15", "cmd/gts/delete.go", "\t\tflip.Flip(gts.BySegment(ss))\n", "\t\t_ = flip.Flip\n", ["BACK-TO-FRONT|main.deleteFunc|edit-loop#1"])
mut("c15-backfront-silent-ascending-walked-down", "C15", "cmd/gts/insert.go",
    "\t\tsort.Sort(sort.Reverse(sort.IntSlice(indices)))\n", "\t\tsort.Ints(indices)\n", silent=True,
    old2="\t\t\tfor _, index := range indices {\n\t\t\t\tout = insert(out, index, guest)\n\t\t\t}", new2="\t\t\tfor k := len(indices) - 1; k >= 0; k-- {\n\t\t\t\tout = insert(out, indices[k], guest)\n\t\t\t}",
    note="ascending order walked from the last index down is the same order of application")
mut("c02-lendelegate-contig-fallback", "C02", "seqio/genbank.go", "func (gb GenBank) Len() int {\n\treturn gb.Origin.Len()\n}", "func (gb GenBank) Len() int {\n\tif n := gb.Origin.Len(); n != 0 {\n\t\treturn n\n\t}\n\treturn gb.Fields.Contig.Region.Len()\n}", ["LEN-DELEGATE|gts/seqio.GenBank"])
mut("c03-quantall-within-skips-parts", "C03", "location.go", "\t\tfor _, l := range v.slice() {\n\t\t\tif !LocationWithin(l, lower, upper) {\n\t\t\t\treturn false\n\t\t\t}\n\t\t}\n\t\treturn true", "\t\tfor _, l := range v.slice() {\n\t\t\tif c, ok := l.(contiguousLocation); ok {\n\t\t\t\ts, e := c.span()\n\t\t\t\tif !rangeWithin(s, e, lower, upper) {\n\t\t\t\t\treturn false\n\t\t\t\t}\n\t\t\t}\n\t\t}\n\t\treturn true", ["QUANT-ALL|gts.LocationWithin"])
mut("c05-regiondelegate-head-tail", "C05", "region.go", "\t\tret[len(rr)-i-1] = r.Complement()\n", "\t\tret[len(rr)-i-1] = Segment{r.Tail(), r.Head()}\n", ["REGION-DELEGATE|gts.Regions.Complement"])
mut("c05-regiondelegate-silent-temp", "C05", "region.go", "\t\tret[len(rr)-i-1] = r.Complement()\n", "\t\tc := r.Complement()\n\t\tret[len(rr)-i-1] = c\n", silent=True)
mut("c07-honour-guard-dropped", "C07", "seqio/genbank.go", "\t\t\tif !state.Pushed() {\n\t\t\t\treturn err\n\t\t\t}\n\t\t\tstate.Pop()\n", "\t\t\tstate.Pop()\n", ["COMMIT-HONOUR|seqio.tryAllParsers"])
mut("c07-honour-silent-positive-form", "C07", "seqio/genbank.go", "\t\t\tif !state.Pushed() {\n\t\t\t\treturn err\n\t\t\t}\n\t\t\tstate.Pop()\n", "\t\t\tif state.Pushed() {\n\t\t\t\tstate.Pop()\n\t\t\t\tcontinue\n\t\t\t}\n\t\t\treturn err\n", silent=True, note="the same protocol with the test the other way round")
mut("c01-locussep-computed-width", "C01", "seqio/genbank.go", "\"%-12s%-17s %10d bp %6s     %-9s%s %s\", \"LOCUS\", gb.Fields.LocusName,\n", "\"%-12s%s%*d bp %6s     %-9s%s %s\", \"LOCUS\", gb.Fields.LocusName, 28-len(gb.Fields.LocusName),\n", ["LOCUS-SEP|seqio.GenBank.String|LOCUS"])
mut("c01-locussep-topology-width", "C01", "seqio/genbank.go", "%6s     %-9s%s %s\", \"LOCUS\"", "%6s     %-8s%s %s\", \"LOCUS\"", ["LOCUS-SEP|seqio.GenBank.String|LOCUS"], note="`circular` has eight letters: a width of 8 leaves no blank before the division")
mut("c01-locussep-silent-wider-name", "C01", "seqio/genbank.go", "\"%-12s%-17s %10d bp", "\"%-12s%-24s %10d bp", silent=True, note="a wider name column still ends in a literal blank")
mut("c16-originparsed-guard-hoisted", "C16", "seqio/origin.go", "\tif !o.Parsed {\n\t\tp := o.Buffer\n\t\tif len(p) < 12 {\n\t\t\treturn nil\n\t\t}\n", "\tp := o.Buffer\n\tif len(p) < 12 {\n\t\treturn nil\n\t}\n\tif !o.Parsed {\n", ["ORIGIN-PARSED|seqio.Origin.Bytes"])
mut("c16-originparsed-silent-early-return", "C16", "seqio/origin.go", "func (o *Origin) Bytes() []byte {\n\tif !o.Parsed {", "func (o *Origin) Bytes() []byte {\n\tif o.Parsed {\n\t\treturn o.Buffer\n\t}\n\tif !o.Parsed {", silent=True)
mut("c15-walkprefix-stale-index", "C15", "region.go", "\t\tlower -= rr[left].Len()\n\t\tleft++\n", "\t\tleft++\n\t\tlower -= rr[left].Len()\n", ["WALK-PREFIX|gts.Regions.Resize|consume#1"])
mut("c19-rangepred-clipped-overlap", "C19", "location.go", "\treturn s < u && l < e\n}", "\tif s < l {\n\t\ts = l\n\t}\n\tif u < e {\n\t\te = u\n\t}\n\treturn s < e\n}", ["E7-RANGE|gts.rangeOverlap"])
mut("c19-rangepred-within-strict", "C19", "location.go", "\treturn l <= s && e <= u\n}", "\treturn l <= s && e < u\n}", ["E7-RANGE|gts.rangeWithin"])
mut("c19-rangepred-silent-demorgan", "C19", "location.go", "\treturn s < u && l < e\n}", "\treturn !(u <= s || e <= l)\n}", silent=True)
mut("c19-loopcapture-shared-clause", "C19", "feature.go", "\t\tprops, err := toQualifier(head)\n\t\tif err != nil {\n\t\t\treturn FalseFilter, err\n\t\t}\n\t\tfilter = And(filter, props)\n", "\t\tif props, err = toQualifier(head); err != nil {\n\t\t\treturn FalseFilter, err\n\t\t}\n\t\tprev := filter\n\t\tfilter = func(f Feature) bool { return prev(f) && props(f) }\n", ["LOOP-CAPTURE|gts.Selector|literal#1"],
    old2="\thead, tail := shiftSelector(sel)\n\tfilter := Key(head)\n", new2="\tvar (\n\t\tprops Filter\n\t\terr   error\n\t)\n\thead, tail := shiftSelector(sel)\n\tfilter := Key(head)\n")
mut("c19-loopcapture-silent-per-iteration", "C19", "feature.go", "\t\tfilter = And(filter, props)\n", "\t\tprev, clause := filter, props\n\t\tfilter = func(f Feature) bool { return prev(f) && clause(f) }\n", silent=True, note="copies declared inside the loop are fresh per iteration")
mut("c13-payload-percent-v", "C13", "cmd/gts/io.go", "\tp, err := json.Marshal(tt)\n\tif err != nil {\n\t\tpanic(err)\n\t}\n\treturn p\n", "\tb := &bytes.Buffer{}\n\tfor _, t := range tt {\n\t\tfmt.Fprintf(b, \"%v=%v\\n\", t[0], t[1])\n\t}\n\t_ = json.Marshal\n\treturn b.Bytes()\n", ["PAYLOAD-ENCODE|main.encodePayload"], old2="import (\n", new2="import (\n\t\"bytes\"\n\t\"fmt\"\n")
mut("c14-hash-crc32", "C14", "cmd/gts/hash.go", "\treturn sha1.New()\n", "\t_ = sha1.New\n\treturn crc32.NewIEEE()\n", ["HASH-STRONG|main.newHash"], old2="import (\n", new2="import (\n\t\"hash/crc32\"\n")
mut("c14-hash-silent-sha256", "C14", "cmd/gts/hash.go", "\treturn sha1.New()\n", "\t_ = sha1.New\n\treturn sha256.New()\n", silent=True, old2="import (\n", new2="import (\n\t\"crypto/sha256\"\n")
mut("c14-maporder-caseless-tiebreak", "C14", "cmd/gts/summary.go", "\treturn pp[i].Key < pp[j].Key\n", "\treturn strings.ToLower(pp[i].Key) < strings.ToLower(pp[j].Key)\n", ["MAP-ORDER|main.summaryFunc|map-range#1(keys)", "MAP-ORDER|main.summaryFunc|map-range#2(props)"])
mut("c14-maporder-unsorted", "C14", "cmd/gts/summary.go", "\t\tsort.Sort(byValue(props))\n", "", ["MAP-ORDER|main.summaryFunc|map-range#2(props)"])
mut("c14-maporder-silent-descending", "C14", "cmd/gts/summary.go", "\treturn pp[i].Key < pp[j].Key\n", "\treturn pp[j].Key > pp[i].Key\n", silent=True)

mut("c07-eofmask-reverted", "C07", "seqio/scanner.go", "func (s Scanner) Err() error {\n\treturn s.err\n}", "func (s Scanner) Err() error {\n\tif s.err == nil || dig(s.err) == io.EOF {\n\t\treturn nil\n\t}\n\treturn s.err\n}", ["EOF-MASK|seqio.Scanner.Err"], note="the repaired defect, reintroduced")
mut("c07-eofmask-errors-is-in-scan", "C07", "seqio/scanner.go", "\ts.res, s.err = s.p.Parse(s.s)\n\treturn s.err == nil\n", "\ts.res, s.err = s.p.Parse(s.s)\n\tif errors.Is(s.err, io.EOF) {\n\t\ts.err, s.end = nil, true\n\t\treturn false\n\t}\n\treturn s.err == nil\n", ["EOF-MASK|seqio.Scanner.Scan"], old2="import (\n", new2="import (\n\t\"errors\"\n")
mut("c07-eofmask-silent-exhausted-inline", "C07", "seqio/scanner.go", "\tif s.exhausted() {\n\t\ts.end = true\n\t\treturn false\n\t}\n", "\tif done := s.exhausted(); done {\n\t\ts.end = done\n\t\treturn false\n\t}\n", silent=True)

# ---------------------------------------------------------------- RANGE-PRECOND / INVERT on the empty collection
mut("c15-rangepre-region-reverted", "C15", "seqio/genbank.go", "\t\tvar loc gts.Location = gts.Between(head)\n\t\tif head < tail {\n\t\t\tloc = gts.Range(head, tail)\n\t\t}\n", "\t\tvar loc gts.Location = gts.Range(head, tail)\n", ["RANGE-PRECOND|seqio.GenBank.String|Range#1"], note="the repaired defect, reintroduced")
mut("c15-rangepre-region-guard-leq", "C15", "seqio/genbank.go", "\t\tif head < tail {\n\t\t\tloc = gts.Range(head, tail)\n", "\t\tif head <= tail {\n\t\t\tloc = gts.Range(head, tail)\n", ["RANGE-PRECOND|seqio.GenBank.String|Range#1"], note="<= lets the empty region through")
mut("c15-rangepre-silent-mirrored-guard", "C15", "seqio/genbank.go", "\t\tif head < tail {\n\t\t\tloc = gts.Range(head, tail)\n", "\t\tif tail > head {\n\t\t\tloc = gts.Range(head, tail)\n", silent=True)
mut("c15-rangepre-silent-negated-guard", "C15", "seqio/genbank.go", "\t\tif head < tail {\n\t\t\tloc = gts.Range(head, tail)\n\t\t}\n", "\t\tif !(head >= tail) {\n\t\t\tloc = gts.Range(head, tail)\n\t\t}\n", silent=True)
mut("c03-rangepre-reference-reverted", "C03", "seqio/reference.go", "\t\tif end <= start {\n\t\t\treturn fmt.Errorf(\"reference range %d to %d is not ascending\", start+1, end)\n\t\t}\n", "", ["RANGE-PRECOND|seqio.parseReferenceInfo|Range#1"], note="the repaired defect, reintroduced")
mut("c07-rangepre-reference-guard-after-reassign", "C07", "seqio/reference.go", "\t\tresult.SetValue(gts.Range(start, end))\n", "\t\tstart--\n\t\tstart++\n\t\tend--\n\t\tresult.SetValue(gts.Range(start, end))\n", ["RANGE-PRECOND|seqio.parseReferenceInfo|Range#1"], note="a bound changed after the guard: `5 to 5` passes the guard and reaches Range(4, 4)")
mut("c15-rangepre-search-hit-from-other-source", "C15", "cmd/gts/search.go", "\t\t\tfwd := match(seq, query)\n", "\t\t\tfwd := match(seq, query)\n\t\t\tfwd = append(fwd, gts.Segment{0, 0})\n", ["RANGE-PRECOND|main.searchFunc|Range#1"], note="a segment that is not a hit reaches Range")
mut("c15-rangepre-search-empty-query-guard-dropped", "C15", "sequence.go", "func Search(seq Sequence, query Sequence) []Segment {\n\tif Len(seq) == 0 || Len(query) == 0 {\n", "func Search(seq Sequence, query Sequence) []Segment {\n\tif Len(seq) == 0 {\n", ["RANGE-PRECOND|main.searchFunc|Range#1"], note="without the empty-query guard a hit may be empty")
mut("c09-invert-circular-empty-reverted", "C09", "region.go", "\tif len(ss) == 0 || ss[0][0] == 0 || ss[len(ss)-1][1] == n {", "\tif ss[0][0] == 0 || ss[len(ss)-1][1] == n {", ["INVERT|gts.InvertCircular"], note="the repaired defect, reintroduced")
mut("c09-invert-circular-silent-empty-early-return", "C09", "region.go", "\tif len(ss) == 0 || ss[0][0] == 0 || ss[len(ss)-1][1] == n {", "\tif len(ss) < 1 {\n\t\treturn rr\n\t}\n\tif ss[0][0] == 0 || ss[len(ss)-1][1] == n {", silent=True)

# ---------------------------------------------------------------- seed round 8
mut("c03-flag-read-before-parse", "C03", "cmd/gts/delete.go",
    "\terase := opt.Switch('e', \"erase\", \"remove features contained in the deleted regions\")\n\n\tif err := ctx.Parse(pos, opt); err != nil {\n\t\treturn err\n\t}\n",
    "\terase := opt.Switch('e', \"erase\", \"remove features contained in the deleted regions\")\n\teraseWanted := *erase\n\n\tif err := ctx.Parse(pos, opt); err != nil {\n\t\treturn err\n\t}\n\t_ = eraseWanted\n",
    ["FLAG-AFTER-PARSE|main.deleteFunc|erase"], note="an option value copied before the command line is parsed")
mut("c14-flag-silent-closure-before-parse", "C14", "cmd/gts/delete.go",
    "\terase := opt.Switch('e', \"erase\", \"remove features contained in the deleted regions\")\n\n\tif err := ctx.Parse(pos, opt); err != nil {\n\t\treturn err\n\t}\n",
    "\terase := opt.Switch('e', \"erase\", \"remove features contained in the deleted regions\")\n\twantErase := func() bool { return *erase }\n\n\tif err := ctx.Parse(pos, opt); err != nil {\n\t\treturn err\n\t}\n\t_ = wantErase\n",
    silent=True, note="a closure defined before Parse reads the option when it is called")
mut("c14-replay-reported-as-miss", "C14", "cmd/gts/io.go", "\tif d.outfile != os.Stdout {\n\t\tos.Remove(f.Name())\n\t}\n\n\treturn true, nil\n", "\tif d.outfile != os.Stdout {\n\t\tos.Remove(f.Name())\n\t\treturn false, nil\n\t}\n\n\treturn true, nil\n", ["REPLAY-HIT|main.ioDelegate.TryCache|replay"])
mut("c14-digest-before-read", "C14", "cmd/gts/infix.go", "\th.Reset()\n\tr := attach(h, f)\n\tscanner := seqio.NewAutoScanner(r)\n", "\th.Reset()\n\tr := attach(h, f)\n\thostSum := h.Sum(nil)\n\tscanner := seqio.NewAutoScanner(r)\n", ["DIGEST-AFTER-READ|main.infixFunc|attach#1"],
    old2="\t\treturn ctx.Raise(fmt.Errorf(\"host sequence file %q does not contain a sequence\", *hostPath))\n\t}\n\thostSum := h.Sum(nil)\n", new2="\t\treturn ctx.Raise(fmt.Errorf(\"host sequence file %q does not contain a sequence\", *hostPath))\n\t}\n")
mut("c01-locus-length-contig-first", "C01", "seqio/genbank.go", "\tlength := gb.Origin.Len()\n\tif length == 0 {\n\t\tlength = gb.Fields.Contig.Region.Len()\n\t}\n", "\tlength := gb.Fields.Contig.Region.Len()\n\tif length == 0 {\n\t\tlength = gb.Origin.Len()\n\t}\n", ["LOCUS-LENGTH|seqio.GenBank.String|LOCUS-length"])
mut("c01-locus-length-silent-leq", "C01", "seqio/genbank.go", "\tlength := gb.Origin.Len()\n\tif length == 0 {\n", "\tlength := gb.Origin.Len()\n\tif length <= 0 {\n", silent=True)
mut("c05-reverse-fill-skips-middle", "C05", "sequence.go", "\tp := make([]byte, Len(seq))\n\tcopy(p, seq.Bytes())\n\tflip.Bytes(p)\n", "\tq := seq.Bytes()\n\tp := make([]byte, len(q))\n\tfor i, j := 0, len(q)-1; i < j; i, j = i+1, j-1 {\n\t\tp[i], p[j] = q[j], q[i]\n\t}\n\t_ = flip.Bytes\n", ["REVERSE-BYTES|gts.Reverse|bytes"])
mut("c05-reverse-silent-fill-leq", "C05", "sequence.go", "\tp := make([]byte, Len(seq))\n\tcopy(p, seq.Bytes())\n\tflip.Bytes(p)\n", "\tq := seq.Bytes()\n\tp := make([]byte, len(q))\n\tfor i, j := 0, len(q)-1; i <= j; i, j = i+1, j-1 {\n\t\tp[i], p[j] = q[j], q[i]\n\t}\n\t_ = flip.Bytes\n", silent=True)
mut("c05-reverse-silent-swap-on-copy", "C05", "sequence.go", "\tflip.Bytes(p)\n\tseq = WithBytes(seq, p)\n", "\tfor i, j := 0, len(p)-1; i < j; i, j = i+1, j-1 {\n\t\tp[i], p[j] = p[j], p[i]\n\t}\n\t_ = flip.Bytes\n\tseq = WithBytes(seq, p)\n", silent=True)
mut("c05-reverse-silent-range-mirror", "C05", "sequence.go", "\tp := make([]byte, Len(seq))\n\tcopy(p, seq.Bytes())\n\tflip.Bytes(p)\n", "\tq := seq.Bytes()\n\tp := make([]byte, len(q))\n\tfor i := range p {\n\t\tp[i] = q[len(q)-1-i]\n\t}\n\t_ = flip.Bytes\n", silent=True)
mut("c05-reverse-range-mirror-off-by-one", "C05", "sequence.go", "\tp := make([]byte, Len(seq))\n\tcopy(p, seq.Bytes())\n\tflip.Bytes(p)\n", "\tq := seq.Bytes()\n\tp := make([]byte, len(q))\n\tfor i := range p {\n\t\tp[i] = q[(len(q)-i)%len(q)]\n\t}\n\t_ = flip.Bytes\n", ["REVERSE-BYTES|gts.Reverse|bytes"])
mut("c06-order-hoists-complement", "C06", "location.go", "\tdefault:\n\t\treturn Ordered(list)\n\t}\n}\n", "\tdefault:\n\t\tinner := make([]Location, 0, len(list))\n\t\tfor _, loc := range list {\n\t\t\tif c, ok := loc.(Complemented); ok {\n\t\t\t\tinner = append(inner, c.Location)\n\t\t\t}\n\t\t}\n\t\tif len(inner) == len(list) {\n\t\t\treturn Complemented{Ordered(inner)}\n\t\t}\n\t\treturn Ordered(list)\n\t}\n}\n", ["ORDER-VERBATIM|gts.Order|return#2"])
mut("c06-order-drops-last-part", "C06", "location.go", "\tdefault:\n\t\treturn Ordered(list)\n\t}\n}\n", "\tdefault:\n\t\treturn Ordered(list[:len(list)-1])\n\t}\n}\n", ["ORDER-VERBATIM|gts.Order|return#2"])
mut("c06-push-store-into-other-node", "C06", "location.go", "\t\tcase Ranged:\n\t\t\tif int(v) == u.Start {\n\t\t\t\tll.Data = u\n\t\t\t\treturn\n\t\t\t}\n\t\t}\n\n\tcase Ranged:\n", "\t\tcase Ranged:\n\t\t\tif int(v) == u.Start {\n\t\t\t\thead := ll\n\t\t\t\tif head.Next != nil {\n\t\t\t\t\thead = head.Next\n\t\t\t\t}\n\t\t\t\thead.Data = u\n\t\t\t\treturn\n\t\t\t}\n\t\t}\n\n\tcase Ranged:\n", ["PUSH-TARGET|gts.(*LocationList).Push|stores#4"])
mut("c12-push-unconditional-return", "C12", "location.go", "\t\tcase Ranged:\n\t\t\tif int(v) == u.Start {\n\t\t\t\tll.Data = u\n\t\t\t\treturn\n\t\t\t}\n\t\t}\n\n\tcase Ranged:\n", "\t\tcase Ranged:\n\t\t\tif int(v) == u.Start {\n\t\t\t\tll.Data = u\n\t\t\t}\n\t\t\treturn\n\t\t}\n\n\tcase Ranged:\n", ["PUSH-ABSORB|gts.(*LocationList).Push|Point+Ranged"])
mut("c11-neworigin-folds-case", "C11", "seqio/origin.go", "\t\t\toffset += copy(q[offset:], p[start:end])\n\t\t}\n\t\tq[offset] = '\\n'\n", "\t\t\tfor _, c := range p[start:end] {\n\t\t\t\tif 'A' <= c && c <= 'Z' {\n\t\t\t\t\tc += 'a' - 'A'\n\t\t\t\t}\n\t\t\t\tq[offset] = c\n\t\t\t\toffset++\n\t\t\t}\n\t\t}\n\t\tq[offset] = '\\n'\n", ["RESIDUE-VERBATIM|seqio.NewOrigin|store#3"])
mut("c16-neworigin-silent-bytewise-copy", "C16", "seqio/origin.go", "\t\t\toffset += copy(q[offset:], p[start:end])\n\t\t}\n\t\tq[offset] = '\\n'\n", "\t\t\tfor _, c := range p[start:end] {\n\t\t\t\tq[offset] = c\n\t\t\t\toffset++\n\t\t\t}\n\t\t}\n\t\tq[offset] = '\\n'\n", silent=True)
mut("c16-fast-path-error-is-final", "C16", "seqio/genbank_subparsers.go", "\t\t\tif validateOrigin(p, length, state.Position()) == nil {\n\t\t\t\tstate.Advance()\n", "\t\t\tif n := len(p); n == 0 || p[n-1] == '\\n' {\n\t\t\t\tif err := validateOrigin(p, length, state.Position()); err != nil {\n\t\t\t\t\treturn err\n\t\t\t\t}\n\t\t\t\tstate.Advance()\n", ["FAST-FALLBACK|seqio.makeGenbankOriginParser|fallback"])
mut("c16-fast-path-silent-err-variable", "C16", "seqio/genbank_subparsers.go", "\t\t\tif validateOrigin(p, length, state.Position()) == nil {\n", "\t\t\tif err := validateOrigin(p, length, state.Position()); err == nil {\n", silent=True)
mut("c18-search-content-prefilter", "C18", "sequence.go", "func bytesIndexAll(s, sep []byte) []int {\n", "func bytesIndexAll(s, sep []byte) []int {\n\tlast := len(s) - len(sep)\n\tif last < 0 || bytes.IndexByte(s[:last], sep[0]) < 0 {\n\t\treturn nil\n\t}\n", ["SEARCH-SHORTCUT|gts.bytesIndexAll|empty-return#1"])
mut("c18-search-silent-length-prefilter", "C18", "sequence.go", "func bytesIndexAll(s, sep []byte) []int {\n", "func bytesIndexAll(s, sep []byte) []int {\n\tlast := len(s) - len(sep)\n\tif last < 0 {\n\t\treturn nil\n\t}\n", silent=True)
mut("c19-overlap-empty-window-shortcut", "C19", "feature.go", "func Overlap(lower, upper int) Filter {\n", "func Overlap(lower, upper int) Filter {\n\tif upper <= lower {\n\t\treturn FalseFilter\n\t}\n", ["FILTER-DELEGATE|gts.Overlap"])
mut("c19-within-bounds-swapped", "C19", "feature.go", "\t\treturn LocationWithin(f.Loc, lower, upper)\n", "\t\treturn LocationWithin(f.Loc, upper, lower)\n", ["FILTER-DELEGATE|gts.Within"])
mut("c19-strand-both-uncounted", "C19", "location.go", "\t\tcase StrandReverse:\n\t\t\tr++\n\t\tdefault:\n\t\t\tf++\n\t\t\tr++\n\t\t}\n\t}\n\tswitch {\n\tcase r == 0:\n\t\treturn StrandForward\n\tcase f == 0:\n\t\treturn StrandReverse\n", "\t\tcase StrandReverse:\n\t\t\tr++\n\t\t}\n\t}\n\tswitch {\n\tcase f > 0 && r == 0:\n\t\treturn StrandForward\n\tcase r > 0 && f == 0:\n\t\treturn StrandReverse\n", ["STRAND-TALLY|gts.checkStrand"])
mut("c19-strand-silent-explicit-both-case", "C19", "location.go", "\t\tcase StrandReverse:\n\t\t\tr++\n\t\tdefault:\n\t\t\tf++\n\t\t\tr++\n\t\t}\n", "\t\tcase StrandReverse:\n\t\t\tr++\n\t\tcase StrandBoth:\n\t\t\tf += 1\n\t\t\tr += 1\n\t\t}\n", silent=True)
mut("c19-strand-silent-if-chain", "C19", "location.go", "\tswitch {\n\tcase r == 0:\n\t\treturn StrandForward\n\tcase f == 0:\n\t\treturn StrandReverse\n\tdefault:\n\t\treturn StrandBoth\n\t}\n}\n\nfunc CheckStrand", "\tif r == 0 {\n\t\treturn StrandForward\n\t}\n\tif f == 0 {\n\t\treturn StrandReverse\n\t}\n\treturn StrandBoth\n}\n\nfunc CheckStrand", silent=True)

mut("c14-raise-dropped-reverted", "C14", "cmd/gts/search.go", "\t\t\treturn ctx.Raise(fmt.Errorf(\"query sequence file %q does not contain a sequence\", *queryPath))\n", "\t\t\tctx.Raise(fmt.Errorf(\"query sequence file %q does not contain a sequence\", *queryPath))\n", ["RAISE-RETURNED|main.searchFunc|Raise#2"], note="the repaired defect, reintroduced")
mut("c14-raise-silent-through-variable", "C14", "cmd/gts/search.go", "\t\t\treturn ctx.Raise(fmt.Errorf(\"query sequence file %q does not contain a sequence\", *queryPath))\n", "\t\t\treturn (ctx.Raise(fmt.Errorf(\"query sequence file %q does not contain a sequence\", *queryPath)))\n", silent=True)

mut("c03-complete-wrappers-reverted", "C03", "location.go", "\tcase Complemented:\n\t\treturn Complemented{asComplete(v.Location)}\n\tdefault:\n\t\treturn v\n\t}\n}\n\n// PartialRange", "\tdefault:\n\t\treturn v\n\t}\n}\n\n// PartialRange", ["COMPLETE-WRAPPERS|gts.asComplete|kind=Complemented"], note="the repaired defect, reintroduced")
mut("c03-complete-wrappers-no-recursion", "C03", "location.go", "\tcase Complemented:\n\t\treturn Complemented{asComplete(v.Location)}\n", "\tcase Complemented:\n\t\treturn Complemented{v.Location}\n", ["COMPLETE-WRAPPERS|gts.asComplete|kind=Complemented"])
mut("c03-complete-wrappers-silent-local", "C03", "location.go", "\tcase Complemented:\n\t\treturn Complemented{asComplete(v.Location)}\n", "\tcase Complemented:\n\t\tinner := asComplete(v.Location)\n\t\treturn Complemented{inner}\n", silent=True)

mut("c06-idem-point-between-replaces", "C06", "location.go", "\t\tcase Between:\n\t\t\tif int(v+1) == int(u) {\n\t\t\t\treturn\n\t\t\t}\n\t\tcase Point:\n\t\t\tif v == u {\n\t\t\t\treturn\n\t\t\t}\n", "\t\tcase Between:\n\t\t\tif int(v+1) == int(u) {\n\t\t\t\treturn\n\t\t\t}\n\t\tcase Point:\n\t\t\tif v == u {\n\t\t\t\tll.Data = u\n\t\t\t\treturn\n\t\t\t}\n", silent=True, note="replacing a point by an equal point changes nothing")
mut("c06-idem-silent-guard-mirrored", "C06", "location.go", "\t\tcase Point:\n\t\t\tif int(v) == int(u) {\n\t\t\t\tll.Data = u\n\t\t\t\treturn\n\t\t\t}\n", "\t\tcase Point:\n\t\t\tif int(u) == int(v) {\n\t\t\t\tll.Data = u\n\t\t\t\treturn\n\t\t\t}\n", silent=True, note="the same guard spelled the other way round has the same fingerprint: still the known finding, nothing new")
mut("c06-idem-between-ranged-at-end", "C06", "location.go", "\t\tcase Ranged:\n\t\t\tif int(v) == u.Start {\n\t\t\t\tll.Data = u\n\t\t\t\treturn\n\t\t\t}\n\t\t}\n\n\tcase Point:\n", "\t\tcase Ranged:\n\t\t\tif int(v) == u.Start || int(v) == u.End {\n\t\t\t\tll.Data = u\n\t\t\t\treturn\n\t\t\t}\n\t\t}\n\n\tcase Point:\n", ["PUSH-IDEMPOTENT|gts.(*LocationList).Push|Between+Ranged|unreduced="], note="a site is also swallowed by a range that ends at it: more triples are left unreduced than the known finding lists")

mut("c19-filter-delegate-silent-local", "C19", "feature.go", "\t\treturn LocationOverlap(f.Loc, lower, upper)\n", "\t\tloc := f.Loc\n\t\treturn LocationOverlap(loc, lower, upper)\n", silent=True)
mut("c14-raise-silent-via-variable", "C14", "cmd/gts/search.go", "\t\t\treturn ctx.Raise(fmt.Errorf(\"query sequence file %q does not contain a sequence\", *queryPath))\n", "\t\t\tfailure := ctx.Raise(fmt.Errorf(\"query sequence file %q does not contain a sequence\", *queryPath))\n\t\t\treturn failure\n", silent=True)
mut("c14-raise-variable-not-returned", "C14", "cmd/gts/search.go", "\t\t\treturn ctx.Raise(fmt.Errorf(\"query sequence file %q does not contain a sequence\", *queryPath))\n", "\t\t\tfailure := ctx.Raise(fmt.Errorf(\"query sequence file %q does not contain a sequence\", *queryPath))\n\t\t\t_ = failure\n", ["RAISE-RETURNED|main.searchFunc|Raise#2"])

mut("c19-strand-complement-constant-reverted", "C19", "location.go", "\t\tswitch CheckStrand(v.Location) {\n\t\tcase StrandForward:\n\t\t\treturn StrandReverse\n\t\tcase StrandReverse:\n\t\t\treturn StrandForward\n\t\tdefault:\n\t\t\treturn StrandBoth\n\t\t}\n", "\t\treturn StrandReverse\n", ["STRAND-COMPLEMENT|gts.CheckStrand|Complemented"], note="the repaired defect, reintroduced")
mut("c19-strand-complement-both-as-reverse", "C19", "location.go", "\t\tcase StrandReverse:\n\t\t\treturn StrandForward\n\t\tdefault:\n\t\t\treturn StrandBoth\n\t\t}\n", "\t\tcase StrandReverse:\n\t\t\treturn StrandForward\n\t\tdefault:\n\t\t\treturn StrandReverse\n\t\t}\n", ["STRAND-COMPLEMENT|gts.CheckStrand|Complemented"])
mut("c19-strand-complement-silent-if-chain", "C19", "location.go", "\t\tswitch CheckStrand(v.Location) {\n\t\tcase StrandForward:\n\t\t\treturn StrandReverse\n\t\tcase StrandReverse:\n\t\t\treturn StrandForward\n\t\tdefault:\n\t\t\treturn StrandBoth\n\t\t}\n", "\t\tinner := CheckStrand(v.Location)\n\t\tif inner == StrandForward {\n\t\t\treturn StrandReverse\n\t\t}\n\t\tif inner == StrandReverse {\n\t\t\treturn StrandForward\n\t\t}\n\t\treturn inner\n", silent=True)

# ---------------------------------------------------------------- refactoring round 3
mut("c02-normalise-silent-tagless-switch", "C02", "location.go",
    "func (ranged Ranged) Shift(i, n int) Location {\n\tif n == 0 {\n\t\treturn ranged\n\t}\n\tif n < 0 {\n\t\treturn ranged.Expand(i, n)\n\t}\n",
    "func (ranged Ranged) Shift(i, n int) Location {\n\tswitch {\n\tcase n == 0:\n\t\treturn ranged\n\tcase n < 0:\n\t\treturn ranged.Expand(i, n)\n\t}\n", silent=True, note="a tagless switch is the if / else-if chain it abbreviates")
mut("c02-tagless-switch-identity-widened", "C02", "location.go",
    "func (ranged Ranged) Shift(i, n int) Location {\n\tif n == 0 {\n\t\treturn ranged\n\t}\n\tif n < 0 {\n\t\treturn ranged.Expand(i, n)\n\t}\n",
    "func (ranged Ranged) Shift(i, n int) Location {\n\tswitch {\n\tcase n == 0, i > ranged.End:\n\t\treturn ranged\n\tcase n < 0:\n\t\treturn ranged.Expand(i, n)\n\t}\n", ["IDENTITY-RETURN|gts.Ranged.Shift"], note="the identity shortcut taken under a second condition")
mut("c17-fastawrite-silent-builder", "C17", "seqio/fasta.go", "\ts := fmt.Sprintf(\">%s\\n%s\\n\", desc, data)\n\tn, err := io.WriteString(w, s)\n", "\tb := strings.Builder{}\n\tb.WriteByte('>')\n\tb.WriteString(desc)\n\tb.WriteByte('\\n')\n\tb.WriteString(data)\n\tb.WriteByte('\\n')\n\t_ = fmt.Sprintf\n\tn, err := io.WriteString(w, b.String())\n", silent=True)
mut("c17-fastawrite-builder-no-final-newline", "C17", "seqio/fasta.go", "\ts := fmt.Sprintf(\">%s\\n%s\\n\", desc, data)\n\tn, err := io.WriteString(w, s)\n", "\tb := strings.Builder{}\n\tb.WriteByte('>')\n\tb.WriteString(desc)\n\tb.WriteByte('\\n')\n\tb.WriteString(data)\n\t_ = fmt.Sprintf\n\tn, err := io.WriteString(w, b.String())\n", ["FASTA-WRITE|seqio.Fasta.WriteTo|format"])
mut("c13-int1-silent-written-out-equality", "C13", "cmd/cache/header.go", "\tif !bytes.Equal(rsum, h.RootSum) {", "\tif !sameSum(rsum, h.RootSum) {", silent=True,
    old2="// Validate ", new2="func sameSum(a, b []byte) bool {\n\tif len(a) != len(b) {\n\t\treturn false\n\t}\n\tfor i := range a {\n\t\tif a[i] != b[i] {\n\t\t\treturn false\n\t\t}\n\t}\n\treturn true\n}\n\n// Validate ")
mut("c13-int1-written-out-prefix-only", "C13", "cmd/cache/header.go", "\tif !bytes.Equal(rsum, h.RootSum) {", "\tif !sameSum(rsum, h.RootSum) {", ["INT-1|cache.Header.Validate|field=RootSum"],
    old2="// Validate ", new2="func sameSum(a, b []byte) bool {\n\tfor i := range a {\n\t\tif i < len(b) && a[i] != b[i] {\n\t\t\treturn false\n\t\t}\n\t}\n\treturn true\n}\n\n// Validate ", note="a comparison that ignores a length difference is not equality")
mut("c15-backfront-silent-helper", "C15", "cmd/gts/insert.go", "\t\trr := locate(host)\n\t\tindices := make([]int, len(rr))\n\t\tfor i, r := range rr {\n\t\t\tindices[i] = r.Head()\n\t\t}\n\t\tsort.Sort(sort.Reverse(sort.IntSlice(indices)))\n", "\t\tindices := descendingHeads(locate(host))\n", silent=True,
    old2="func insertFunc(", new2="func descendingHeads(rr gts.Regions) []int {\n\tindices := make([]int, len(rr))\n\tfor i, r := range rr {\n\t\tindices[i] = r.Head()\n\t}\n\tsort.Sort(sort.Reverse(sort.IntSlice(indices)))\n\treturn indices\n}\n\nfunc insertFunc(")
mut("c15-backfront-helper-ascending", "C15", "cmd/gts/insert.go", "\t\trr := locate(host)\n\t\tindices := make([]int, len(rr))\n\t\tfor i, r := range rr {\n\t\t\tindices[i] = r.Head()\n\t\t}\n\t\tsort.Sort(sort.Reverse(sort.IntSlice(indices)))\n", "\t\tindices := sortedHeads(locate(host))\n", ["BACK-TO-FRONT|main.insertFunc|edit-loop#1"],
    old2="func insertFunc(", new2="func sortedHeads(rr gts.Regions) []int {\n\tindices := make([]int, len(rr))\n\tfor i, r := range rr {\n\t\tindices[i] = r.Head()\n\t}\n\tsort.Ints(indices)\n\treturn indices\n}\n\nfunc insertFunc(", note="the rule sees through the helper: the list comes back ascending")
mut("c01-prefixall-silent-itoa", "C01", "seqio/genbank.go", "b.WriteString(fmt.Sprintf(\"REFERENCE   %d\", ref.Number))", "b.WriteString(\"REFERENCE   \" + strconv.Itoa(ref.Number))", silent=True)

mut("c15-uniquecuts-wrap-guard-reverted", "C15", "cmd/gts/split.go", "\t\t\t\tif len(heads) < 2 {", "\t\t\t\tif len(heads) < 1 {", ["UNIQUE-CUTS|main.split|wrap"], note="the repaired defect, reintroduced: one distinct cut reaches the wrap-around piece")
mut("c12-uniquecuts-wrap-guard-reverted", "C12", "cmd/gts/split.go", "\t\t\t\tif len(heads) < 2 {", "\t\t\t\tif len(heads) < 1 {", ["UNIQUE-CUTS|main.split|wrap"])
mut("c15-uniquecuts-wrap-silent-le", "C15", "cmd/gts/split.go", "\t\t\t\tif len(heads) < 2 {", "\t\t\t\tif len(heads) <= 1 {", silent=True)

mut("c03-pointvanish-reverted", "C03", "location.go", "\tif n < 0 && i <= p && p < i-n {\n\t\treturn Between(i)\n\t}", "\tif n < 0 && i == p {\n\t\treturn Between(i)\n\t}", ["POINT-VANISH|gts.Point.Expand"], note="the repaired defect, reintroduced")
mut("c03-pointvanish-closed-end", "C03", "location.go", "\tif n < 0 && i <= p && p < i-n {", "\tif n < 0 && i <= p && p <= i-n {", ["POINT-VANISH|gts.Point.Expand"], note="the first base behind the deleted stretch survives")
mut("c03-pointvanish-silent-rearranged", "C03", "location.go", "\tif n < 0 && i <= p && p < i-n {", "\tif n < 0 && p >= i && p+n < i {", silent=True, note="the same guard with the terms moved across the comparisons")

# ---------------------------------------------------------------- round-7 rules
mut("c19-lessquant-first-part-only", "C19", "location.go", "\tif ll, ok := b.(locationSlice); ok {\n\t\tfor _, l := range ll.slice() {\n\t\t\tif !LocationLess(a, l) {\n\t\t\t\treturn false\n\t\t\t}\n\t\t}\n\t\treturn true\n\t}", "\tif ll, ok := b.(locationSlice); ok {\n\t\tif parts := ll.slice(); len(parts) > 0 {\n\t\t\treturn LocationLess(a, parts[0])\n\t\t}\n\t\treturn true\n\t}", ["LESS-QUANT|gts.LocationLess|multipart-right"])
mut("c19-lessquant-left-forall", "C19", "location.go", "\t\t\tif LocationLess(l, b) {\n\t\t\t\treturn true\n\t\t\t}\n\t\t}\n\t\treturn false", "\t\t\tif !LocationLess(l, b) {\n\t\t\t\treturn false\n\t\t\t}\n\t\t}\n\t\treturn true", ["LESS-QUANT|gts.LocationLess|multipart-left"])
mut("c01-prefixfunc-skips-empty-lines", "C01", "seqio/strings.go", "\treturn strings.ReplaceAll(s, \"\\n\", \"\\n\"+prefix)\n", "\tlines := strings.Split(s, \"\\n\")\n\tfor i := 1; i < len(lines); i++ {\n\t\tif len(lines[i]) > 0 {\n\t\t\tlines[i] = prefix + lines[i]\n\t\t}\n\t}\n\treturn strings.Join(lines, \"\\n\")\n", ["PREFIX-FUNC|seqio.AddPrefix"])
mut("c01-prefixfunc-silent-replace-minus-one", "C01", "seqio/strings.go", "\treturn strings.ReplaceAll(s, \"\\n\", \"\\n\"+prefix)\n", "\treturn strings.Replace(s, \"\\n\", \"\\n\"+prefix, -1)\n", silent=True)
mut("c05-complementwrap-distributed", "C05", "location.go", "func (joined Joined) Complement() Location {\n\treturn Complemented{joined}\n}", "func (joined Joined) Complement() Location {\n\tif CheckStrand(joined) != StrandBoth {\n\t\treturn Complemented{joined}\n\t}\n\tll := make([]Location, len(joined))\n\tfor i, loc := range joined {\n\t\tll[i] = loc.Complement()\n\t}\n\treturn Join(ll...)\n}", ["COMPLEMENT-WRAP|gts.Joined.Complement"])
mut("c06-flattencases-complement", "C06", "location.go", "\t\tcase Ordered:\n\t\t\tlist = append(list, flattenLocations([]Location(loc))...)\n", "\t\tcase Ordered:\n\t\t\tlist = append(list, flattenLocations([]Location(loc))...)\n\t\tcase Complemented:\n\t\t\tif inner, ok := loc.Location.(Ordered); ok {\n\t\t\t\tfor _, part := range flattenLocations([]Location(inner)) {\n\t\t\t\t\tlist = append(list, part.Complement())\n\t\t\t\t}\n\t\t\t\tcontinue\n\t\t\t}\n\t\t\tlist = append(list, loc)\n", ["FLATTEN-CASES|gts.flattenLocations"])
mut("c06-peekadvance-legacy-marker-left", "C06", "location.go", "\tif err == nil && c == '>' {\n\t\tpartial3 = true\n\t\tstate.Advance()\n\t}", "\tif err == nil && c == '>' {\n\t\tpartial3 = true\n\t}", ["PEEK-ADVANCE|gts.parseRange|peek#3"])
mut("c06-peekadvance-silent-advance-first", "C06", "location.go", "\tif err == nil && c == '>' {\n\t\tpartial3 = true\n\t\tstate.Advance()\n\t}", "\tif err == nil && c == '>' {\n\t\tstate.Advance()\n\t\tpartial3 = true\n\t}", silent=True)
mut("c04-noearlyexit-rotate-empty-table", "C04", "sequence.go", "\tn %= Len(seq)\n\n\tvar ff FeatureSlice\n\tfor _, f := range seq.Features() {", "\tn %= Len(seq)\n\n\tif n == 0 || len(seq.Features()) == 0 {\n\t\treturn seq\n\t}\n\n\tvar ff FeatureSlice\n\tfor _, f := range seq.Features() {", ["NO-EARLY-EXIT|gts.Rotate"])
mut("c10-kindset-joined-shift-fast-path", "C10", "location.go", "func (joined Joined) Shift(i, n int) Location {\n\tlocs := make([]Location, len(joined))", "func (joined Joined) Shift(i, n int) Location {\n\tif last, ok := joined[len(joined)-1].(contiguousLocation); ok {\n\t\tif _, end := last.span(); end <= i {\n\t\t\treturn joined\n\t\t}\n\t}\n\tlocs := make([]Location, len(joined))", ["IDENTITY-RETURN|gts.Joined.Shift"])
mut("c10-kindset-joined-expand-raw-slice", "C10", "location.go", "\t\tlocs[j] = loc.Expand(i, n)\n\t}\n\treturn Join(locs...)\n}", "\t\tlocs[j] = loc.Expand(i, n)\n\t}\n\tif len(locs) > 1 {\n\t\treturn Joined(locs)\n\t}\n\treturn Join(locs...)\n}", ["KIND-SET|gts.Joined.Expand"])
mut("c12-mergeranged-whole-partial", "C12", "location.go", "if ((v.Partial.Partial3 && u.Partial.Partial5) || force) && v.End == u.Start {", "if ((v.Partial == Partial3 && u.Partial == Partial5) || force) && v.End == u.Start {", ["MERGE-RANGED|gts.(*LocationList).Push|Ranged+Ranged"])
mut("c12-mergeranged-one-marker", "C12", "location.go", "if ((v.Partial.Partial3 && u.Partial.Partial5) || force) && v.End == u.Start {", "if ((v.Partial.Partial3 || u.Partial.Partial5) || force) && v.End == u.Start {", ["MERGE-RANGED|gts.(*LocationList).Push|Ranged+Ranged"])
mut("c08-recordstate-extract-hoisted", "C08", "cmd/gts/extract.go", "\tfor scanner.Scan() {\n\t\tseq := scanner.Value()\n\n\t\trr := make([]gts.Region, 0)\n", "\trr := make([]gts.Region, 0)\n\tfor scanner.Scan() {\n\t\tseq := scanner.Value()\n\n", ["RECORD-STATE|main.extractFunc|rr"])
mut("c08-recordstate-silent-reset", "C08", "cmd/gts/extract.go", "\tfor scanner.Scan() {\n\t\tseq := scanner.Value()\n\n\t\trr := make([]gts.Region, 0)\n", "\tvar rr []gts.Region\n\tfor scanner.Scan() {\n\t\tseq := scanner.Value()\n\n\t\trr = make([]gts.Region, 0)\n", silent=True)
mut("c15-rotatehead-leftmost", "C15", "cmd/gts/rotate.go", "seq = gts.Rotate(seq, -rr[0].Head())", "seq = gts.Rotate(seq, -gts.Min(rr[0].Head(), rr[0].Tail()))", ["ROTATE-HEAD|main.rotateFunc|rotate#1"])
mut("c16-originlineend-last-line-only", "C16", "seqio/genbank_subparsers.go", "\t\t\tif len(bytes.TrimSpace(q[extent:])) != 0 {", "\t\t\tif i+60 >= length && len(bytes.TrimSpace(q[extent:])) != 0 {", ["ORIGIN-LINE-END|seqio.slowGenBankOriginParser|rest-of-line"])
mut("c16-originend-slow-branch", "C16", "seqio/genbank_subparsers.go", "\t\t\tgb.Origin = &Origin{p, false}\n\t\t\treturn expectNoMoreResidues(state)\n\t\t}\n\t}\n}", "\t\t\tgb.Origin = &Origin{p, false}\n\t\t\treturn nil\n\t\t}\n\t}\n}", ["ORIGIN-END"])
mut("c13-key10-seekable-stdin", "C13", "cmd/gts/io.go", "\tif d.infile == os.Stdin || !seekable(d.infile) {\n", "\tif !seekable(d.infile) {\n", ["KEY-10|main.ioDelegate.TryCache|hash"])
mut("c14-key12-fifo-not-spooled-reverted", "C14", "cmd/gts/io.go", "\tif d.infile == os.Stdin || !seekable(d.infile) {\n", "\tif d.infile == os.Stdin {\n", ["KEY-12|main.ioDelegate.TryCache|hash"], note="the repaired defect, reintroduced")
mut("c14-key12-probe-always-true", "C14", "cmd/gts/io.go", "\t_, err := f.Seek(0, io.SeekCurrent)\n\treturn err == nil\n", "\t_, err := f.Seek(0, io.SeekCurrent)\n\treturn err == nil || f != nil\n", ["KEY-12|main.ioDelegate.TryCache|hash"], note="a probe that does not return the outcome of the Seek is not a probe")

# ---------------------------------------------------------------- refactoring round 4
mut("c15-backfront-silent-sortslice-desc", "C15", "cmd/gts/infix.go", "\t\t\tsort.Sort(sort.Reverse(sort.IntSlice(indices)))\n", "\t\t\tsort.Slice(indices, func(a, b int) bool { return indices[a] > indices[b] })\n", silent=True)
mut("c15-backfront-sortslice-asc", "C15", "cmd/gts/infix.go", "\t\t\tsort.Sort(sort.Reverse(sort.IntSlice(indices)))\n", "\t\t\tsort.Slice(indices, func(a, b int) bool { return indices[a] < indices[b] })\n", ["BACK-TO-FRONT|main.infixFunc|edit-loop#1"])
mut("c14-maporder-silent-locals", "C14", "cmd/gts/summary.go", "\treturn pp[i].Key < pp[j].Key\n", "\ta, b := pp[i], pp[j]\n\treturn a.Key < b.Key\n", silent=True)
mut("c14-maporder-locals-caseless", "C14", "cmd/gts/summary.go", "\treturn pp[i].Key < pp[j].Key\n", "\ta, b := pp[i], pp[j]\n\treturn strings.ToLower(a.Key) < strings.ToLower(b.Key)\n", ["MAP-ORDER|main.summaryFunc|map-range#1(keys)"])
mut("c16-originparsed-silent-return-local", "C16", "seqio/origin.go", "func (o *Origin) Bytes() []byte {\n\tif !o.Parsed {", "func (o *Origin) Bytes() []byte {\n\tif o.Parsed {\n\t\treturn o.Buffer\n\t}\n\tif !o.Parsed {", silent=True,
    old2="\t\to.Buffer = q\n\t\to.Parsed = true\n\t}\n", new2="\t\to.Buffer = q\n\t\to.Parsed = true\n\t\treturn q\n\t}\n")
mut("c17-stateless-silent-separator-var", "C17", "seqio/fasta.go", "\tlines := bytes.Split(body, []byte{'\\n'})\n", "\t\tlines := bytes.Split(body, fastaLineFeed)\n", silent=True,
    old2="// FastaParser attempts to parse a single FASTA file entry.\n", new2="var fastaLineFeed = []byte{'\\n'}\n\n// FastaParser attempts to parse a single FASTA file entry.\n")
mut("c17-stateless-separator-var-written", "C17", "seqio/fasta.go", "\tlines := bytes.Split(body, []byte{'\\n'})\n", "\t\tfastaLineFeed[0] = '\\n'\n\t\tlines := bytes.Split(body, fastaLineFeed)\n", ["STATELESS|gts/seqio.FastaParser$1|fastaLineFeed"],
    old2="// FastaParser attempts to parse a single FASTA file entry.\n", new2="var fastaLineFeed = []byte{'\\n'}\n\n// FastaParser attempts to parse a single FASTA file entry.\n")
mut("c07-reqerr-silent-loop-condition", "C07", "seqio/scanner.go", "\tfor n := 1; ; n *= 2 {\n\t\tif err := s.s.Request(n); err != nil {\n\t\t\t// Everything that is left of the input is in the buffer now.\n\t\t\treturn len(bytes.TrimSpace(s.s.Buffer())) == 0\n\t\t}\n\t\tif len(bytes.TrimSpace(s.s.Buffer())) != 0 {\n\t\t\treturn false\n\t\t}\n\t}\n", "\tfor n := 1; s.s.Request(n) == nil; n *= 2 {\n\t\tif len(bytes.TrimSpace(s.s.Buffer())) != 0 {\n\t\t\treturn false\n\t\t}\n\t}\n\treturn len(bytes.TrimSpace(s.s.Buffer())) == 0\n", silent=True)

if __name__ == "__main__":
    here = os.path.dirname(os.path.abspath(__file__))
    ids = [m["id"] for m in M]
    assert len(ids) == len(set(ids)), "duplicate mutant id"
    json.dump(M, open(os.path.join(here, "mutants.json"), "w"), indent=1)
    print(len(M), "mutants")

#!/usr/bin/env python3
"""Self-test corpus: one broken instance per rule (DESIGN.md 7a), plus a few
behaviour-preserving variants that must stay silent. Each entry is an edit of
one file of /repo applied through a go/packages overlay by `gtsverif -tier
thorough`; nothing here is ever written into /repo. Regenerate mutants.json
with:  python3 selftest/gen_mutants.py"""
import json, os

M = []

def mut(id, prop, file, old, new, expect=None, silent=False, note="", old2="", new2=""):
    M.append(dict(id=id, property=prop, file=file, old=old, new=new, old2=old2, new2=new2, expect=expect or [], silent=silent, note=note))

# ---------------------------------------------------------------- C18
mut("c18-comp-swap-pair", "C18", "nucleotide.go",
    '[]byte("TGCAAYRMKVHDBtgcaayrmkvhdb"),\n\t)\n\tff := make',
    '[]byte("TGCAAYRKMVHDBtgcaayrmkvhdb"),\n\t)\n\tff := make',
    ["COMP|gts.Complement|byte=K", "COMP|gts.Complement|byte=M"], note="K/M complements swapped in upper case only")
mut("c18-trans-lower-a", "C18", "nucleotide.go",
    '[]byte("UGCAAYRMKVHDBugcaayrmkvhdb")', '[]byte("UGCAAYRMKVHDBtgcaayrmkvhdb")',
    ["TRANS|gts.Transcribe|byte=a"], note="lower-case a transcribed to t")
mut("c18-lookup-old", "C18", "nucleotide.go", "q[i] = new[j]", "q[i] = old[j]", ["LOOKUP|gts.replaceBytes|hit"])
mut("c18-class-m", "C18", "nucleotide.go", 'b.WriteString("[acm]")', 'b.WriteString("[ack]")', ["CLASSES|gts.Match|query=m"])
mut("c18-class-missing-case", "C18", "nucleotide.go", "\t\tcase 's':\n\t\t\tb.WriteString(\"[cgs]\")\n", "", ["CLASSES|gts.Match|query=s"])
mut("c18-literal-unescaped", "C18", "nucleotide.go", "b.WriteString(regexp.QuoteMeta(string([]byte{c})))", "b.WriteByte(c)", ["LITERAL|gts.Match|dynamic-write"])
mut("c18-fold-query", "C18", "nucleotide.go", "for _, c := range bytes.ToLower(query.Bytes()) {", "for _, c := range query.Bytes() {", ["FOLD|gts.Match|lower-query"])
mut("c18-lookup-one", "C18", "sequence.go", "return index.Lookup(sep, -1)", "return index.Lookup(sep, 1)", ["FOLD|gts.Search|all-hits"])
mut("c18-search-unsorted", "C18", "sequence.go", "\tsort.Sort(BySegment(segments))\n\treturn segments\n}\n", "\t_ = sort.Sort\n\treturn segments\n}\n", ["FOLD|gts.Search|sorted"])
mut("c18-search-fold-seq", "C18", "sequence.go", "s := bytes.ToLower(seq.Bytes())", "s := seq.Bytes()", ["FOLD|gts.Search|lower-seq"])
mut("c18-silent-const", "C18", "nucleotide.go",
    'func Complement(seq Sequence) Sequence {\n\tp := replaceBytes(\n\t\tseq.Bytes(),\n\t\t[]byte("ACGTURYKMBDHVacgturykmbdhv"),',
    'const compFrom = "ACGTURYKMBDHVacgturykmbdhv"\n\nfunc Complement(seq Sequence) Sequence {\n\tp := replaceBytes(\n\t\tseq.Bytes(),\n\t\t[]byte(compFrom),',
    silent=True, note="hoisting the alphabet into a named constant changes nothing")

# ---------------------------------------------------------------- C14
mut("c14-key1-delete-erase", "C14", "cmd/gts/delete.go", '\t\t\t{"erase", *erase},\n', '', ["KEY-1|main.deleteFunc|flag=erase"])
mut("c14-key1-query-comma", "C14", "cmd/gts/query.go", '\t\t\t{"comma", comma},\n', '', ["KEY-1|main.queryFunc|flag=separator"])
mut("c14-key1-extract-invert", "C14", "cmd/gts/extract.go", '\t\t\t{"invert", *invert},\n', '', ["KEY-1|main.extractFunc|flag=invert-region"])
mut("c14-key1-search-propstrs", "C14", "cmd/gts/search.go", '\t\t\t{"propstrs", *propstrs},\n', '', ["KEY-1|main.searchFunc|flag=qualifier"])
mut("c14-key1-select-strand", "C14", "cmd/gts/select.go", '\t\t\t{"strand", *strand},\n', '', ["KEY-1|main.selectFunc|flag=strand"])
mut("c14-key1-annotate-featin", "C14", "cmd/gts/annotate.go", '\t\t\t{"featin", encodeToString(featsum)},\n', '', expect=["KEY-1|main.annotateFunc|flag=feature_table"], old2="featsum := h.Sum(nil)\n", new2="featsum := h.Sum(nil)\n\t_ = featsum\n")
mut("c14-key1-define-location", "C14", "cmd/gts/define.go", '\t\t\t{"location", loc.String()},\n', '', ["KEY-1|main.defineFunc|flag=location"])
mut("c14-key1-new-unkeyed-switch", "C14", "cmd/gts/sort.go",
    '\treverse := opt.Switch(\'r\', "reverse", "reverse the sort order")\n',
    '\treverse := opt.Switch(\'r\', "reverse", "reverse the sort order")\n\tstable := opt.Switch(\'s\', "stable", "keep the input order of equal lengths")\n\t_ = stable\n',
    [], silent=True, note="declared but never read: not output-affecting")
mut("c14-key1-new-unkeyed-read", "C14", "cmd/gts/sort.go",
    '\tvar iface sort.Interface\n\tiface = byLength(seqs)\n\tif *reverse {',
    '\tvar iface sort.Interface\n\tiface = byLength(seqs)\n\tif *format == "none" {\n\t\tseqs = nil\n\t}\n\tif *nocache && *reverse {',
    ["KEY-1|main.sortFunc|flag=no-cache"], note="the no-cache switch read outside its guard role becomes an output-affecting option")
mut("c14-key2-clear-command", "C14", "cmd/gts/clear.go", '\t\t\t{"command", strings.Join(ctx.Name, "-")},\n', '\t\t\t{"command", strings.Join([]string{"gts"}, "-")},\n', ["KEY-2|main.clearFunc"])
mut("c14-key3-insert-path", "C14", "cmd/gts/insert.go", '{"guest", guestSum},', '{"guest", *guestPath},', expect=["KEY-3|main.insertFunc|input=guest"], old2="guestSum := h.Sum(nil)\n", new2="guestSum := h.Sum(nil)\n\t_ = guestSum\n")
mut("c14-key4-early-scanner", "C14", "cmd/gts/reverse.go", "\tif !*nocache {\n", "\tpeek := make([]byte, 1)\n\td.Read(peek)\n\tif !*nocache {\n", ["KEY-4|main.reverseFunc"])
mut("c14-key5-no-rewind", "C14", "cmd/gts/io.go",
    "\tdsum := h.Sum(nil)\n\n\tif _, err := d.infile.Seek(0, io.SeekStart); err != nil {\n\t\treturn false, err\n\t}\n",
    "\tdsum := h.Sum(nil)\n", ["KEY-5|main.ioDelegate.TryCache|rewind"])
mut("c14-key5-data-in-root", "C14", "cmd/gts/io.go",
    "\th.Reset()\n\th.Write(data)\n\tdsum := h.Sum(nil)", "\th.Write(data)\n\tdsum := h.Sum(nil)", ["KEY-5|main.ioDelegate.TryCache|data-digest"])
mut("c14-key5-swapped-key", "C14", "cmd/gts/io.go", "cache.CreateLevel(dir, h, rsum, dsum, flate.BestSpeed)", "cache.CreateLevel(dir, h, dsum, rsum, flate.BestSpeed)", ["KEY-5|main.ioDelegate.TryCache|same-key"])
mut("c14-key5-spool-no-rewind", "C14", "cmd/gts/io.go",
    "\t\tif _, err := f.Seek(0, io.SeekStart); err != nil {\n\t\t\td.Close()\n\t\t\treturn false, err\n\t\t}\n\n\t\td.infile = f",
    "\t\td.infile = f", ["KEY-5|main.ioDelegate.TryCache|spool-rewind"])
mut("c14-replay-on-error", "C14", "cmd/gts/io.go",
    "\t\td.cache = f\n\t\treturn false, nil\n\t}\n",
    "\t\td.cache = f\n\t\tif d.outfile == nil {\n\t\t\treturn false, nil\n\t\t}\n\t}\n", ["REPLAY|main.ioDelegate.TryCache|replay-valid"],
    note="falls through to the replay after a failed Open")
mut("c14-tee-short", "C14", "cmd/gts/io.go", "n, err := d.cache.Write(p)\n\t\tif err != nil {", "n, err := d.cache.Write(p[:len(p)/2])\n\t\tif err != nil {", ["TEE|main.ioDelegate.Write|same-bytes-cache"])
mut("c14-tee-dropped-error", "C14", "cmd/gts/io.go", "\t\tn, err := d.cache.Write(p)\n\t\tif err != nil {\n\t\t\treturn n, err\n\t\t}\n", "\t\td.cache.Write(p)\n", ["TEE|main.ioDelegate.Write|error-cache"])
mut("c14-commit-close-ignores", "C14", "cmd/gts/io.go", "err != nil || !d.commit {", "err != nil {", ["COMMIT|main.ioDelegate.Close|finalise"])
mut("c14-commit-before-err", "C14", "cmd/gts/rotate.go",
    "\tif err := scanner.Err(); err != nil {\n\t\treturn ctx.Raise(fmt.Errorf(\"encountered error in scanner: %v\", err))\n\t}\n\n\td.Commit()\n",
    "\td.Commit()\n\tif err := scanner.Err(); err != nil {\n\t\treturn ctx.Raise(fmt.Errorf(\"encountered error in scanner: %v\", err))\n\t}\n\n",
    ["COMMIT|main.rotateFunc|commit#1"])
mut("c14-commit-second-writer", "C14", "cmd/gts/io.go", "\t\td.cache = f\n\t\treturn false, nil\n", "\t\td.cache = f\n\t\td.commit = true\n\t\treturn false, nil\n", ["COMMIT|main.ioDelegate.Close|single-writer"])
mut("c14-commit-deferred", "C14", "cmd/gts/join.go", "\tdefer d.Close()\n", "\tdefer d.Close()\n\tdefer d.Commit()\n", ["COMMIT|main.joinFunc|deferred-commit"])
mut("c14-silent-reorder-tuples", "C14", "cmd/gts/delete.go",
    '\t\t\t{"locator", *locstr},\n\t\t\t{"erase", *erase},\n', '\t\t\t{"erase", *erase},\n\t\t\t{"locator", *locstr},\n', silent=True)
mut("c14-silent-payload-var", "C14", "cmd/gts/rotate.go",
    '\t\tdata := encodePayload([]tuple{\n\t\t\t{"command", strings.Join(ctx.Name, "-")},\n\t\t\t{"version", gts.Version.String()},\n\t\t\t{"locator", *locstr},\n\t\t\t{"filetype", filetype},\n\t\t})\n',
    '\t\ttt := []tuple{\n\t\t\t{"command", strings.Join(ctx.Name, "-")},\n\t\t\t{"version", gts.Version.String()},\n\t\t\t{"locator", *locstr},\n\t\t\t{"filetype", filetype},\n\t\t}\n\t\tdata := encodePayload(tt)\n',
    silent=True)

# ---------------------------------------------------------------- C13
mut("c13-int1-drop-bodysum", "C13", "cmd/cache/header.go",
    '\tif !bytes.Equal(bsum, h.BodySum) {\n\t\treturn errors.New("body hash sum mismatch")\n\t}\n', '\t_ = bsum\n',
    ["INT-1|cache.Header.Validate|field=BodySum"])
mut("c13-int1-wrong-polarity", "C13", "cmd/cache/header.go", "if !bytes.Equal(dsum, h.DataSum) {", "if bytes.Equal(dsum, h.DataSum) {",
    ["INT-1|cache.Header.Validate|nil-only-if-all-equal"])
mut("c13-int2-flip-acc", "C13", "cmd/cache/file.go", "if err := hd.Validate(rsum, dsum, bsum); ret == nil {", "if err := hd.Validate(rsum, dsum, bsum); ret != nil {",
    ["INT-2|cache.Open|err-Validate"])
mut("c13-int2-validate-args", "C13", "cmd/cache/file.go", "hd.Validate(rsum, dsum, bsum)", "hd.Validate(rsum, rsum, bsum)", ["INT-2|cache.Open|validate-arg=DataSum"])
mut("c13-int2-drop-copy-error", "C13", "cmd/cache/file.go", "\t_, ret := io.Copy(h, f)\n", "\tvar ret error\n\tio.Copy(h, f)\n", ["INT-2|cache.Open|err-io.Copy"])
mut("c13-int3-copyn", "C13", "cmd/cache/file.go", "_, ret := io.Copy(h, f)", "_, ret := io.CopyN(h, f, 4096)", ["INT-3|cache.Open"])
mut("c13-int3-no-reset", "C13", "cmd/cache/file.go", "\th.Reset()\n\t_, ret := io.Copy(h, f)", "\t_, ret := io.Copy(h, f)", ["INT-3|cache.Open|body-digest"])
mut("c13-int4-short-header", "C13", "cmd/cache/header.go",
    '\tif n != len(p) {\n\t\treturn Header{}, errors.New("could not read sufficient bytes in header")\n\t}\n', '\t_ = n\n', ["INT-4|cache.ReadHeader|short-read"])
mut("c13-int5-name-rsum-only", "C13", "cmd/cache/file.go",
    "func CreateLevel(path string, h hash.Hash, rsum, dsum []byte, level int) (*File, error) {\n\th.Reset()\n\th.Write(append(rsum, dsum...))",
    "func CreateLevel(path string, h hash.Hash, rsum, dsum []byte, level int) (*File, error) {\n\th.Reset()\n\th.Write(rsum)",
    ["INT-5|cache.CreateLevel|name-binds-key", "INT-5|cache|same-name"])
mut("c13-int6-header-before-hash", "C13", "cmd/cache/file.go",
    "\t\tf.h.Reset()\n\t\tif _, err := io.Copy(f.h, f.f); ret == nil {\n\t\t\tret = err\n\t\t}\n\n\t\tf.hd.BodySum = f.h.Sum(nil)\n\t\tif _, err := f.f.Seek(0, io.SeekStart); ret == nil {\n\t\t\tret = err\n\t\t}\n\n\t\tif _, err := f.hd.WriteTo(f.f); ret == nil {\n\t\t\tret = err\n\t\t}\n",
    "\t\tif _, err := f.f.Seek(0, io.SeekStart); ret == nil {\n\t\t\tret = err\n\t\t}\n\n\t\tif _, err := f.hd.WriteTo(f.f); ret == nil {\n\t\t\tret = err\n\t\t}\n\n\t\tf.h.Reset()\n\t\tif _, err := io.Copy(f.h, f.f); ret == nil {\n\t\t\tret = err\n\t\t}\n\n\t\tf.hd.BodySum = f.h.Sum(nil)\n",
    ["INT-6|cache.File.Close|order"])
mut("c13-int6-no-flush", "C13", "cmd/cache/file.go", "\t\tret := f.wr.Close()\n\n\t\tif _, err := f.f.Seek(int64(f.h.Size())*3, io.SeekStart); ret == nil {",
    "\t\tvar ret error\n\n\t\tif _, err := f.f.Seek(int64(f.h.Size())*3, io.SeekStart); ret == nil {", ["INT-6|cache.File.Close|order"])
mut("c13-int6-factor-open", "C13", "cmd/cache/file.go", "f.Seek(int64(size)*3, io.SeekStart)", "f.Seek(int64(size)*2, io.SeekStart)", ["INT-6|cache.Open|seek|factor"])
mut("c13-int6-writeto-order", "C13", "cmd/cache/header.go", "append(append(h.RootSum, h.DataSum...), h.BodySum...)", "append(append(h.DataSum, h.RootSum...), h.BodySum...)", ["INT-6|cache.Header.WriteTo|layout"])
mut("c13-int6-readheader-layout", "C13", "cmd/cache/header.go", "return Header{p[:i], p[i:j], p[j:]}, nil", "return Header{p[:i], p[j:], p[i:j]}, nil", ["INT-6|cache.ReadHeader|layout"])
mut("c13-int6-placeholder-late", "C13", "cmd/cache/file.go",
    "\t_, ret := f.Write(make([]byte, h.Size()*3))\n\n\thd := Header{rsum, dsum, nil}\n\trd := flate.NewReader(f)\n\twr, err := flate.NewWriter(f, level)\n",
    "\thd := Header{rsum, dsum, nil}\n\trd := flate.NewReader(f)\n\twr, err := flate.NewWriter(f, level)\n\t_, ret := f.Write(make([]byte, h.Size()*3))\n",
    ["INT-6|cache.CreateLevel|placeholder"])
mut("c13-int8-close-seek-dropped", "C13", "cmd/cache/file.go",
    "\t\tif _, err := f.f.Seek(0, io.SeekStart); ret == nil {\n\t\t\tret = err\n\t\t}\n", "\t\tf.f.Seek(0, io.SeekStart)\n", ["INT-8|cache.File.Close|err-os.File.Seek"])
mut("c13-int8-no-remove", "C13", "cmd/gts/io.go", "if err := d.cache.Close(); err != nil || !d.commit {", "if d.cache.Close(); !d.commit {", ["INT-8|main.ioDelegate.Close|remove-on-failure"])
mut("c13-int9-write-half", "C13", "cmd/cache/file.go", "return f.wr.Write(p)", "return f.wr.Write(p[:len(p)/2])", ["INT-9|cache.File.Write|passthrough"])
mut("c13-silent-readfull", "C13", "cmd/cache/header.go",
    '\tn, err := r.Read(p)\n\tif err != nil {\n\t\treturn Header{}, fmt.Errorf("while reading header: %v", err)\n\t}\n\tif n != len(p) {\n\t\treturn Header{}, errors.New("could not read sufficient bytes in header")\n\t}\n',
    '\tif _, err := io.ReadFull(r, p); err != nil {\n\t\treturn Header{}, fmt.Errorf("while reading header: %v %v", err, errors.New(""))\n\t}\n',
    silent=True, note="io.ReadFull is an accepted way to reject a short header")
mut("c13-silent-named-const", "C13", "cmd/cache/file.go", "f.Seek(int64(size)*3, io.SeekStart)", "f.Seek(int64(size)*headerFields, io.SeekStart)",
    silent=True, old2="// File represents a cache file.", new2="const headerFields = 3\n\n// File represents a cache file.")

if __name__ == "__main__":
    here = os.path.dirname(os.path.abspath(__file__))
    ids = [m["id"] for m in M]
    assert len(ids) == len(set(ids)), "duplicate mutant id"
    json.dump(M, open(os.path.join(here, "mutants.json"), "w"), indent=1)
    print(len(M), "mutants")

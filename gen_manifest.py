#!/usr/bin/env python3
"""Regenerates MANIFEST.json from the table below (single source of truth for
what is claimed and what is not applicable). Run after editing; commit both."""
import json, sys

NOT_BUILT = "engine not built yet in this round; will be claimed when its check exists (see DESIGN.md section 4)"

# id -> (engine, technique, design_ref, level text, level note)
CLAIMED = {
 "C16": ("tables", "cross-function agreement of layout constants (verbs, loop steps, bounds, loop-bound strictness, emptiness guard, separator set) + finite-quotient evaluation of the closed-form size functions over n mod L", "DESIGN.md 11/C16",
         "Static decision that the ORIGIN layout parameters (index width, group size, residues per line, bytes per line) agree across the six functions that embody them (LAYOUT), that every residue-index loop bound is the strict index < count on the writer, decoder and reader sides (LOOP-BOUND), that the decoder's emptiness guard is the smallest non-empty block (GUARD-MIN), that fast and slow validation accept the same separator bytes (SEPARATORS), and that toOriginLength / fromOriginLength / Origin.Len equal the layout's byte count and its inverse for every residue class of the length (LAYOUT-ARITH; exact because each function uses its parameter only through / and % by the layout modulus). Does not decide the decoded residues or full fast/slow path equivalence.",
         "The finite-quotient argument is checked syntactically (QuotientUses); the evaluator covers only straight-line integer arithmetic."),
 "C18": ("tables", "constant-table extraction + exhaustive oracle comparison; role-based AST dataflow (go/ast + go/types)", "DESIGN.md 4/C18",
         "Exhaustive static decision of the finite tables (256 byte values for complement/transcribe, all 16 IUPAC query letters for Match) against an IUPAC oracle in the checker, plus structural rules LOOKUP/WIRE/LITERAL/FOLD on the resolved program. Decides the table and wiring clauses of the property, not regexp or suffix-array semantics.",
         "Trusts bytes.IndexByte/ToLower, regexp, index/suffixarray, sort as documented; the translation helper is checked by roles (LOOKUP)."),
 "C01": ('tables',
         'writer/reader agreement of constant tables and of small closed-form functions extracted from the type-checked source (labels via AST reachability from GenBankParser, column widths, calendar tables, reference padding, keyword terminator) + finite-quotient evaluation of isLeapYear over year mod 400',
         'DESIGN.md 11/C01',
         'Static decision of five necessary writer/reader agreement clauses: every field label the writer can emit is one a reader sub-parser is keyed on (LABELS), all column prefixes / %-Ns widths / the continuation indent are the one depth the reader derives from the LOCUS line (WIDTH), the month and day tables plus the leap-year rule are the Gregorian calendar (CALENDAR, exhaustive), the blanks written after a REFERENCE number are the same function of the number as the blanks the reader consumes (PAD-AGREE), FlatFileSplit strips exactly the one period the writer appends (TRIM-ONE), every free-text value goes through AddPrefix so that continuation lines start at the field depth (PREFIX-ALL), the DBLINK reader accepts every line the writer can emit (DBLINK-AGREE), and the writer never emits an empty line - an abstract interpretation of GenBank.String over where the text ends (BLANK-LINE; the empty-feature-table defect was found this way and repaired). Does not decide equality of field values after a round trip.',
         'Labels are recognised as runs of >= 5 capitals at the head of a writer string constant; time.Format and fmt padding are trusted.'),
 "C02": ('conserve+effects+siblings',
         'structural conservation rules on the syntax tree with resolved objects (FMAP incl. uniform application, FILL), clone cross-checks of Shift/Expand (SIBLING/CLAMP/DELEGATE), Origin length (LEN), and the ownership/effect analysis over go/ssa restricted to Insert/Embed and the location methods they call (PURE)',
         'DESIGN.md 11/C02',
         'Static decision of necessary conditions of Insert/Embed: every host and guest feature reaches the result exactly once with its key and qualifiers and a location computed from its own, the coordinate transformation applied to every feature unconditionally (FMAP), every part of a multi-part location is transformed (FILL), the sibling implementations of Shift/Expand agree where they are clones, and neither operation nor anything it calls writes into its arguments (PURE). Does not decide the placement arithmetic.',
         'Trusts that WithFeatures installs the table it is given; library axiom table of the effect analysis; idioms outside the enumerated ones inside the anchors are reported undecided.'),
 "C03": ('conserve+orders+effects',
         'FMAP/FILL structural rules, dominance (MUST-PASS) on go/cfg, WINDOW / ERASE-ORDER / NEG-INDEX / RANGE-ELEM rules on the syntax tree, exact abstract interpretation of the comparison-only interval predicates over all orderings of their inputs, and the effect analysis restricted to Delete/Erase/Slice (PURE)',
         'DESIGN.md 11/C03',
         "Static decision that Delete and Slice carry every (surviving) feature over exactly once (FMAP), every part of a multi-part location is expanded (FILL), a slice is always marked linear (MUST-PASS), survival is decided by the library's interval predicates on the window bounds (WINDOW) - which equal the interval definitions for every ordering of their four inputs (E7-INTERVAL, 75 preorders) -, Erase filters on the argument's coordinates before it deletes (ERASE-ORDER), Slice shifts a bound by the length exactly when it is negative (NEG-INDEX), the reference clipping indexes only the collection it ranges over (RANGE-ELEM), and nothing writes into the arguments (PURE). Does not decide the coordinate arithmetic.",
         'The ordering enumeration is exact only because the predicates touch their inputs through comparisons and swaps alone; the evaluator aborts (undecided) on anything else.'),
 "C04": ('conserve+effects+siblings',
         'FMAP/FILL structural rules, MOD-NORMALISE idiom rule, MERGE-RANGED symbolic field resolution of the merged range in (*LocationList).Push, clone cross-check of Normalize against Shift, effect analysis restricted to Rotate (PURE)',
         'DESIGN.md 11/C04',
         'Static decision that Rotate carries every feature over exactly once with key and qualifiers, transforming every one (FMAP), every part of a multi-part location is normalised (FILL), the amount is reduced into [0, L) for every sign and magnitude (MOD-NORMALISE), the origin-spanning split moves the partial markers like the insertion split does (SIBLING), abutting pieces re-merge to exactly {v.Start, u.End, {v.Partial5, u.Partial3}} (MERGE-RANGED), the Ranged methods never rebuild a range from bare coordinates (PARTIAL-CARRY), the strand wrapper only delegates (DELEGATE-COMPLEMENT), interval ends are reduced with (End-1) % L + 1 (NORMALIZE-ARITH; Ambiguous.Normalize repaired), complemented members fuse in reading order (PUSH-COMPLEMENT), and nothing writes into the argument (PURE). Does not decide the modular arithmetic on coordinates.',
         'Same trusted base as C02.'),
 "C05": ('conserve+effects+tables',
         'FILL definite-assignment rule (incl. the two-pointer idiom, total iff l <= r), FMAP conservation rule, LOCATE-RC path rule on Segment.Locate, complement alphabet involution (exhaustive over 256 bytes), effect analysis restricted to Reverse/Complement (PURE)',
         'DESIGN.md 11/C05',
         "Static decision of 'no part of a multi-part location is lost' as definite assignment of the reversed slice in Joined/Ordered.Reverse, Regions.Complement/Locate and the Region() builders (FILL, REVERSE-MAP), that Reverse, Complement and Concat conserve every feature (FMAP), that a reverse segment is located as the reverse complement of [tail, head) on every return (LOCATE-RC), that Reverse of the simple types is the mirror map on linear forms (MIRROR-ARITH; known finding Between.Reverse, pinned by a test), that Complemented.Reverse only delegates and Ranged.Reverse carries the markers, that the complement table is an involution, and that nothing writes into the argument (PURE). Does not decide the mirroring arithmetic.",
         'Same trusted base as C02; the involution of the complement alphabet is decided under C18 too.'),
 "C07": ('traps',
         "trap-site obligations over the SSA-reachable parser code: the Go compiler's bounds-check-elimination report as the first discharge, then guard facts from the enclosing/preceding syntax, index-search post-conditions, an interprocedural non-negativity analysis, go/cfg typestate for the Request/Advance protocol and for the commit points, error-handling idioms, reviewed tables keyed by (function, kind, operand role) with site counts and of reachable explicit panics",
         'DESIGN.md 11/C07',
         'Static decision of panic-freedom of everything reachable from the parser entry points with respect to the input-dependent trap kinds: index and slice bounds the compiler cannot prove (IDX), negative counts into Repeat/make/Request (NN), an unchecked Request (REQ-ERR), Advance without a pending Request (REQ-ADV), reading a parse result without testing its error (RES), MustCompile/division by input (MUSTC), an explicit panic that is reachable and not reviewed (PANIC); a backtracking frame left open or closed twice (PUSH-POP; four leaks repaired); plus the commit discipline that turns a malformed field behind a recognised name into an error instead of a skipped line (COMMIT, COMMIT-BODY; ORIGIN and DBLINK repaired, CONTIG and REFERENCE reviewed as lenient). Does not decide termination or that inconsistent LOCUS/ORIGIN lengths are rejected.',
         "Trusts the compiler's prove pass, the documented post-conditions of IndexByte/Index and of (*pars.State).Request; reviewed table rows (layout and shape arguments) each with a one-line reason and a fixed count; two reviewed panics (Join/Order with no argument)."),
 "C09": ("orders", "abstract interpretation over the finite domain of order types (total preorders of the endpoints) of comparison-only code, including loops, slices and sorting with concrete indices", "DESIGN.md 4/C09",
         "Static decision of the partition property itself for every input with up to 3 segments: Minimize, InvertLinear and InvertCircular are evaluated by an abstract interpreter over order types (coordinates are symbolic atoms ranked by a total preorder; the code may only compare, copy and store them), once per ordering of the endpoints with 0 and n (18 948 orderings, flat, bare and nested region shapes), against the partition oracle; plus BySegment.Less is a strict weak order and Min/Max/Compare are correct (all 4683 / 3 orderings). Exact for all coordinate values; bounded in the number of segments.",
         "Exact because the functions touch coordinates only through comparisons, copies and stores (any arithmetic on a coordinate aborts the evaluation as undecided); sort.Sort is modelled as an insertion sort through the interpreted Less/Swap, which is what any correct sort yields for a strict weak order; bounded to 3 segments."),
 "C15": ('conserve+orders',
         'reaching-definitions provenance analysis on go/cfg with resolved callees (INPUT-COORD), loop-scope rule for edit chains (EDIT-CHAIN), full-equality rule for membership helpers (DEDUP-EXACT), order-type abstract interpretation of the region algebra (<= 2 segments)',
         'DESIGN.md 11/C15',
         "Static decision of necessary conditions for the six multi-site edit commands: every definition of the locator's argument that reaches the call is the record as scanned (INPUT-COORD), every record written starts its chain of edits from the scanned record, not from the previous record written (EDIT-CHAIN), sites are de-duplicated by full equality only (DEDUP-EXACT), every locator returns a fresh slice (LOCATOR-FRESH), and Minimize / InvertLinear / InvertCircular used by the commands are correct for up to 2 segments for every ordering of the endpoints. Order of application and piece boundaries are value-level and not decided.",
         'Edit operations are the exported sequence operations of package gts (also through function-valued locals); Copy/WithTopology/WithInfo preserve coordinates.'),
 "C19": ("orders+conserve+effects", "exact abstract interpretation over orderings (rangeCompare); finite automaton evaluation of the clause splitter (ESC-AUTOMATON); enumerated-idiom structural rules (FILTER, REGEXP-PRED, SOURCE-PREFIX, SELECTOR-SPLIT, STRAND-PRED); effect analysis restricted to FeatureSlice.Insert/Filter (PURE)", "DESIGN.md 11/C19",
         "Static, exhaustive decision that rangeCompare - the comparison every leaf of LocationLess bottoms out in - is a consistent three-way comparator for all 4683 orderings of six endpoints; that FeatureSlice.Filter keeps an element exactly on the true edge of the filter call and returns the kept elements unmodified in table order; that the clause splitter is the two-state backslash-escape automaton on all six transitions (the sticky-escape defect was found this way and repaired); that a clause is split at its first '=', qualifier values are matched with MatchString, the strand filters are equalities on CheckStrand, source features stay first; and that Insert/Filter leave their receiver alone. LocationLess's recursion and the binary search are not decided.",
         "Exact for the comparison-only fragment and for the automaton; the idiom rules fail closed on an unrecognised style."),
 "C11": ("effects", "interprocedural ownership/effect analysis over go/ssa: type-partitioned abstract objects (root, cell type), summaries (may-write, may-return, stores) iterated to a least fixpoint, class-hierarchy resolution of interface and function-value calls, library axiom table", "DESIGN.md 4/C11",
         "Static decision of the property itself up to the abstraction: for every operation in the derived table (110 functions today, incl. the 16 named by the property) no write executed by the operation or anything it calls - stores, append into spare capacity, copy, library mutators, writes through sub-slices - can land in memory reachable from its arguments. The analysis may report a write that cannot alias, but cannot miss one inside the repository's code.",
         "Library axiom table (pure packages, named mutators of their argument, receiver-only writers, higher-order pure functions); open-world callbacks behind Shiftable/Expandable are assumed not to write their receiver; reviewed exception (*Origin).Bytes (idempotent representation cache); no unsafe in the repository."),
 "C12": ('traps+conserve',
         'trap-site obligations (compiler BCE report + guard facts + reviewed shape table) on gts.Repair, and structural rules GROUP-KEY / GROUP-ALL / KEEP-ALL / FORCE-SOURCE / ONLY-LOC / MERGE-RANGED on the syntax tree',
         'DESIGN.md 15/C12',
         "Narrow static decision of clauses of the property: Repair never indexes or slices out of range (the genuine crash on tables with a joined location was found this way and repaired), features are grouped by key AND qualifiers, every feature is filed into a group and every group contributes to the result exactly once (nothing is dropped other than by merging), forced merging is reserved for source features, merged ranges take start and 5' marker from the left piece and end and 3' marker from the right, Concat offsets later pieces by the residues accumulated before them (CONCAT-OFFSET), and Repair works on a copy and assigns nothing but locations. Does not decide restoration, idempotence, or the covered residues.",
         "Six of the seven trap sites rest on the reviewed shape argument 'the index lists hold range keys of the copied table'; the one input-dependent bound (indices[:len(locs)]) is discharged by its guard."),
 "C13": ("integrity", "must-check / must-pass-through / ordering rules: typestate along go/cfg paths, error-handling idiom matching, sibling cross-check of Open vs CreateLevel, constant-factor agreement", "DESIGN.md 4/C13",
         "Static decision that cache.Open can return a nil error only after the header was read in full (INT-4), the body digest covers every byte after the header (INT-3), all three digests were compared with the right operands and no error dropped (INT-1/2), the file name binds both key digests identically in reader and writer (INT-5), the writer finalises the header last with a consistent layout (INT-6), failed finalisation removes the entry (INT-8) and replay happens only after a valid open (REPLAY). Decides the structural necessary conditions, not the byte-level enumeration of corruptions.",
         "Trusts sha1 collision resistance, compress/flate's round trip, bytes.Equal/io.Copy/os.File semantics and the file system; field and method names of cmd/cache are anchors."),
 "C14": ('cachekey',
         'flag-to-payload dependence analysis (position-ordered taint over go/ast+go/types), injectivity of the payload encoding by static type (KEY-6), typestate along go/cfg paths, error-handling idiom matching',
         'DESIGN.md 11/C14',
         'Static decision of the structural clauses of cache transparency over all 19 cached commands (which have no tests): every option read by a command is in the cache key (KEY-1..4), every payload value has a static type encoding/json encodes injectively (KEY-6), is the whole option and not a projection of it (KEY-8), no option is modified after it was first read (KEY-7), digest discipline and rewind in TryCache (KEY-5), replay only after a valid open (REPLAY), the tee writes the same bytes to cache and output (TEE), and a failed run cannot commit an entry (COMMIT). Does not decide byte equality of runs.',
         "Trusts encoding/json on the types KEY-6 accepts, hash.Hash.Write never failing, and go/cfg's model of control flow; commands are recognised as the functions of cmd/gts that call (*ioDelegate).TryCache."),
 "C06": ('conserve',
         'symbolic field resolution and a residue-interval model applied to every clause of (*LocationList).Push (MERGE-RANGED, PUSH-CASES, PUSH-ABSORB), and printer/parser sibling agreement of coordinate offsets, wrapper literals and partial markers (OFFSET-AGREE, WRAP-TOKENS, MARKER-AGREE) on the type-checked syntax tree',
         'DESIGN.md 15/C06',
         "Narrow static decision of structural necessary conditions: (a) reductions - every clause of Push that drops a location drops only a zero-length site or a point the guard places inside the kept location (PUSH-ABSORB; exact for the guards, which are single equalities of coordinates), clauses match concrete types only (PUSH-CASES), and the merge of abutting ranges is abutting-only, forced when asked, with exactly {v.Start, u.End, {v.Partial5, u.Partial3}} (MERGE-RANGED); (b) text - for each simple location type the constant the printer adds to a coordinate is the one the parser subtracts, the join(/order(/complement( literals, requested lengths and constructors agree, and '<' / '>' are printed and parsed under the same flags. Also: the Complemented+Complemented clause fuses in reading order (PUSH-COMPLEMENT), complement(...) admits the whole grammar (LOC-GRAMMAR), Join/Order leave their arguments alone (PURE). One known finding: Ranged+Point drops the point AFTER the range (pinned by TestLocationReduction). Does not decide parse-then-print equality over the recursive grammar, nested reductions, or the Complemented+Complemented clause.",
         'The residue model (Between [x,x), Point [x,x+1), Ranged [Start,End) non-empty) is the documented meaning of the types; pars.Int and the pars combinators are trusted.'),
 "C08": ('conserve',
         "structural rules on the type-checked syntax tree: prefix-walk idiom (WALK-PREFIX), mirroring idiom of every Modifier.Apply (MIRROR-APPLY), printer/parser agreement of the modifier grammar (MOD-PAIR), freshness of every Locator's result (LOCATOR-FRESH), precedence and split points of AsLocator (LOC-PRECEDENCE), LOCATE-RC, FILL/REVERSE-MAP on Regions",
         'DESIGN.md 15/C08',
         "Narrow static decision of structural necessary conditions: the offset walk of Regions.Resize consumes a prefix of the segments only (the genuine three-segment defect was found this way and repaired), every Apply treats reversed bounds as the mirror image of forward ones (the 'commutes with strand mirroring' clause, by construction), two-part modifiers print and parse the same pair of parts in the same order, every locator returns a slice allocated by the call (resizeLocator overwrites it), AsLocator tries modifier, then location, then selector and splits at the first '@', complement(...) in a bare locator admits the whole location grammar (LOC-GRAMMAR), a reverse segment is extracted as the reverse complement, and Regions.Complement/Locate/Resize fill every element. Does not decide the offset arithmetic of Apply / Segment.Resize or equality of extracted sequences.",
         'pars combinators trusted; WALK-PREFIX recognises three idioms (loop condition, else-break, index == position).'),
 "C10": ('conserve+effects+siblings',
         'MERGE-RANGED symbolic field resolution, NEG-INDEX and CONCAT-OFFSET structural rules, FMAP conservation over the five operations, clone cross-checks of Shift/Expand, effect analysis restricted to Insert/Embed/Delete/Slice/Concat (PURE)',
         'DESIGN.md 15/C10',
         'Narrow static decision of structural necessary conditions of the inverse laws: a join created by a split re-merges to exactly {v.Start, u.End, {v.Partial5, u.Partial3}} when the pieces abut (MERGE-RANGED), Slice treats bound 0 as 0 (NEG-INDEX), Concat moves the features of each later piece by the residues accumulated before that piece (CONCAT-OFFSET), all five operations carry every feature over exactly once (FMAP), the clone implementations of Shift/Expand agree, and no operation damages its input (PURE). Does not decide the boundary conventions of Shift/Expand for n >= 0 against n < 0 - the heart of the property - which are arithmetic on runtime coordinates.',
         'Same trusted base as C02.'),
 "C17": ('tables',
         'writer/reader framing agreement extracted from the type-checked source: format string and operands of Fasta.WriteTo, combinator shape and Map callback of FastaParser, description sources of FastaWriter.WriteSeq and GenBankFields.String',
         'DESIGN.md 15/C17',
         "Narrow static decision of structural necessary conditions: the writer emits '>' + description with every newline replaced + '\\n' + residues wrapped only by wrap.Force + '\\n' (FASTA-WRITE); the reader is '>' header-line body-up-to-next-'>', takes the description from the header line and the residues by splitting at '\\n', stripping a trailing '\\r' from every line and joining with nothing (FASTA-READ; the genuine CRLF defect was found this way and repaired); conversion hands the residues on unchanged and builds the description from Version[:region] Definition (FASTA-DESC). The ORIGIN layout rules of C16 are included because conversion decodes the ORIGIN block. Does not decide equality of the bytes read back, the behaviour of wrap.Force across lengths, or stream framing of N records.",
         'wrap.Force and the pars combinators are trusted as documented; a hand-written wrapper is reported undecided, not accepted.'),
}

# Round-4 additions: (technique addendum, claim addendum) per property. Every library property
# also runs STATELESS.
STATELESS_TECH = "; flow-insensitive alias/effect analysis on the syntax trees with parameter-write summaries to a fixpoint (STATELESS: no function of gts or gts/seqio writes package-level memory after initialisation)"
STATELESS_TEXT = " Also decides that the library keeps no state between calls (STATELESS), which every statement 'for all histories of calls' depends on."
LIB = {"C01", "C02", "C03", "C04", "C05", "C06", "C07", "C08", "C09", "C10", "C11", "C12", "C16", "C17", "C18", "C19"}
ADD = {
 "C01": ("; who-may-call rule on (*pars.State).Dump (REQ-BUF); WRAP-JOIN / QUAL-FORMAT writer-reader agreement rules; MAP-INIT", " Look-ahead in the parsers never goes through State.Dump, whose answer depends on where the reader's 4096-byte reads end (REQ-BUF). A value the writer wraps at blanks is joined with a blank by the reader, and one the reader keeps as a single line is written on one line (WRAP-JOIN; SOURCE and ORGANISM did not round-trip when longer than a line: repaired); the value-less qualifier form is written for toggle qualifiers only (QUAL-FORMAT)."),
 "C02": ("; NO-REORDER data-flow rule on the filled part slices; EDIT-CHAIN on gts insert/infix; IDENTITY-RETURN / KIND-SET tables over the coordinate methods", " The filled parts reach Join/Order unpermuted (NO-REORDER). The commands where the property is observed start every record from the scanned host (EDIT-CHAIN); a coordinate method returns its receiver only when n == 0 and builds results with the reviewed constructors only (IDENTITY-RETURN, KIND-SET)."),
 "C03": ("; who-may-call and kind-preservation rules on asComplete, NORMALISE-FIRST (a canonicalised parameter is not read by an earlier statement), SLICE-REGION must-pass rule on go/cfg; IDENTITY-RETURN / KIND-SET", " Only slicing strips partial markers and it keeps the kind of the location (COMPLETE-ONLY-SLICE, KIND-PRESERVE); nothing reads start/end before they are counted from the end (NORMALISE-FIRST); GenBankFields.Slice records the window on every path (SLICE-REGION). Expand returns its receiver only for n == 0 and builds only between-sites and ranges (IDENTITY-RETURN, KIND-SET)."),
 "C04": ("; NO-REORDER data-flow rule; NORMALISE-FIRST; IDENTITY-RETURN / KIND-SET; FMAP uniformity follows values derived from the element", " The normalised parts reach Join/Order in the order they were filled (NO-REORDER); the rotation amount is not read before it is reduced (NORMALISE-FIRST). Normalize is applied to every feature, not under a test computed from the feature (FMAP); Normalize never hands back its receiver (IDENTITY-RETURN)."),
 "C05": ("; NO-REORDER; CONCAT-OFFSET; IDENTITY-RETURN / KIND-SET", " The mirrored parts reach the constructor unpermuted (NO-REORDER). Reverse of a contiguous kind always recomputes, also for a whole-sequence range whose markers must swap (IDENTITY-RETURN); Locate's concatenation offsets later pieces by the residues accumulated so far (CONCAT-OFFSET)."),
 "C06": ("; PRINT-TOTAL shape rule on Ranged.String; PARSE-REJECT", " Ranged.String writes start, `..` and end on every path, the markers under their own flags (PRINT-TOTAL). The hand-written parsers reject nothing the printers can print: value-dependent rejections exist only in parseBetween (PARSE-REJECT)."),
 "C07": ("; OVERFLOW side condition of the non-negativity analysis (boundedness of input numbers in size arithmetic); ORIGIN-LINE-END / ORIGIN-END path rules; REQ-BUF; MAP-INIT (dominating initialisation of map-typed fields)", " Size arithmetic on numbers read from the input is dominated by an upper-bound guard (OVERFLOW; a LOCUS length near 2^63 panicked: repaired); a record with more residues than its LOCUS line declares is an error on the fast and the slow path (ORIGIN-LINE-END, ORIGIN-END; it was read short: repaired); no look-ahead through State.Dump (REQ-BUF). The clause 'inconsistent LOCUS/ORIGIN lengths are rejected' is now decided structurally in both directions. No element store into a map-typed record field that may still be nil (MAP-INIT)."),
 "C08": ("; DEDUP-EXACT; CONCAT-OFFSET; NO-EARLY-EXIT on Regions.Resize; LOC-WHOLE", " gts extract drops a region only when it equals an earlier one in full (DEDUP-EXACT). Regions.Resize has no exit before the offset walks (NO-EARLY-EXIT). A locator argument is taken as a bare location only when the location grammar consumes all of it (LOC-WHOLE)."),
 "C10": ("; who-may-call rule on asComplete; NORMALISE-FIRST; IDENTITY-RETURN / KIND-SET", " No edit other than slicing clears partial markers (COMPLETE-ONLY-SLICE)."),
 "C11": ("; SHALLOW-CACHE on the reviewed mutator (*Origin).Bytes", " The reviewed exception is narrowed: (*Origin).Bytes may rebind its receiver's fields but not store into the block they reference (SHALLOW-CACHE)."),
 "C12": ("; UNIQUE-CUTS and EMIT-ALL on gts split; KIND-SET, NO-EARLY-EXIT on Repair, FLUSH-ALL", " gts split cuts at distinct positions and writes every piece (UNIQUE-CUTS, EMIT-ALL), without which split | join | repair cannot restore the table. Repair has no shortcut exit before its grouping pass (NO-EARLY-EXIT); a fragment of one residue stays a (partial) range (KIND-SET); split/repair flush what they write (FLUSH-ALL)."),
 "C13": ("; KEY-5 of TryCache (the root digest is the digest of the rewound input)", " The key an entry is stored and looked up under is the digest of the input the command reads: TryCache hashes the rewound spool (KEY-5, also part of C14)."),
 "C14": ("; KEY-9 provenance of everything fed to the digest of a secondary input; KEY-10 path-sensitive typestate of the input descriptor in TryCache; KEY-11 (errors of the cache machinery never become TryCache's error)", " The digest of a secondary input is taken over the input as given, not over values parsed from it (KEY-9); the inherited standard input is never hashed in place (KEY-10). A failure of the cache machinery degrades to an uncached run (KEY-11)."),
 "C15": ("; STALE-VALUE (path-sensitive def-use staleness on go/cfg), EMIT-ALL, UNIQUE-CUTS; CONCAT-OFFSET; FLUSH-ALL (must-pass on go/cfg)", " No number/boolean computed from a variable is read after that variable was re-assigned (STALE-VALUE); a loop that writes one record per site writes one for every site, extract's documented filter being evaluated on the list it emits (EMIT-ALL); split cuts at distinct positions (UNIQUE-CUTS). Every record written is flushed before a successful return (FLUSH-ALL); extract's concatenation of multi-segment regions offsets features correctly (CONCAT-OFFSET)."),
 "C16": ("; exhaustive evaluation of the residue predicate over all 256 bytes (RESIDUE-CLASS); SHALLOW-CACHE; ORIGIN-LINE-END; INDEX-EXACT", " Both readers accept every printable residue byte and none of the layout bytes (RESIDUE-CLASS, all 256 values); decoding never writes into the shared block (SHALLOW-CACHE); the slow path tests the rest of each line as the fast path does (ORIGIN-LINE-END; repaired). Both readers compare the index columns byte for byte with the writer's text (INDEX-EXACT)."),
 "C17": ("; SLICE-REGION must-pass rule; SHALLOW-CACHE", " A slice records its window on every path, which the FASTA description is built from (SLICE-REGION)."),
 "C18": ("; FOLD-BYTEWISE: exhaustive evaluation of the case-folding loop over all 256 byte values", " The copies Search and Match look for hits in are folded byte for byte by a loop whose map is ASCII lower-casing for every byte value, so offsets found in the copy are offsets of the sequence (FOLD-BYTEWISE; bytes.ToLower shifted them behind an invalid UTF-8 byte: repaired)."),
 "C19": ("; QUANT-ALL quantifier-shape rule on LocationWithin/LocationOverlap; VALUES-ONLY provenance rule on the matched strings; NOT-OF-OR on gts select; LESS-UNWRAP", " Within is the conjunction and Overlap the disjunction of the same test over every part (QUANT-ALL); a qualifier clause is matched against values only (VALUES-ONLY; the unnamed clause also matched qualifier names: repaired); gts select -v complements the disjunction of all selectors (NOT-OF-OR). The function that orders the parts of a multi-part location unwraps complement itself (LESS-UNWRAP)."),
}

NOT_APPLICABLE = {
}

ALL = ["C%02d" % i for i in range(1, 20)]

def main():
    checks = []
    na = []
    for pid in ALL:
        if pid in CLAIMED:
            eng, tech, ref, text, note = CLAIMED[pid]
            if pid in ADD:
                tech, text = tech + ADD[pid][0], text + ADD[pid][1]
            if pid in LIB:
                tech, text = tech + STATELESS_TECH, text + STATELESS_TEXT
            checks.append({
                "property_id": pid,
                "quick_cmd": "./run.sh %s quick" % pid,
                "thorough_cmd": "./run.sh %s thorough" % pid,
                "evidence_file": "evidence/%s.json" % pid,
                "replay_cmd_template": "./run.sh replay {path}",
                "engine": eng,
                "level_claimed": {"category": "other", "text": text, "design_ref": ref},
                "level_note": note,
                "technique": "static analysis: " + tech,
            })
        elif pid in NOT_APPLICABLE:
            na.append({"property_id": pid, "reason": NOT_APPLICABLE[pid]})
        else:
            na.append({"property_id": pid, "reason": NOT_BUILT})
    engines = {}
    for pid, v in CLAIMED.items():
        engines.setdefault(v[0], []).append(pid)
    m = {
        "version": 1,
        "setup_cmd": "cd /verif/checker && GOFLAGS=-mod=mod GOPROXY=off GOSUMDB=off GOTOOLCHAIN=local go build -o ../bin/gtsverif .",
        "hooks": {
            "guard": "verif",
            "enable": "none: the checks are static and need no instrumentation; the build tag is declared and unused",
            "baseline_off_cmd": "cd /repo && go test -vet=off -count=1 ./...",
            "source_commits": [],
            "add_only": True,
        },
        "engines": [{"name": k, "path": "checker/engines/" + k, "serves_properties": sorted(v),
                     "kind_free_text": "static analysis over go/packages-loaded, type-checked source of /repo"} for k, v in sorted(engines.items())],
        "checks": checks,
        "notes": "Static analysis only (go/ast, go/types, go/cfg, go/ssa, call graph, compiler BCE report). Every check re-loads /repo's working tree on each run. Genuine defects found are listed in known_findings.json (status known/fixed).",
        "not_applicable": na,
    }
    json.dump(m, open("/verif/MANIFEST.json", "w"), indent=1)
    print("claimed:", [c["property_id"] for c in checks])
    print("not_applicable:", [n["property_id"] for n in na])

if __name__ == "__main__":
    main()

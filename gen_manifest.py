#!/usr/bin/env python3
"""Regenerates MANIFEST.json from the table below (single source of truth for
what is claimed and what is not applicable). Run after editing; commit both."""
import json, sys

NOT_BUILT = "engine not built yet in this round; will be claimed when its check exists (see DESIGN.md section 4)"

# id -> (engine, technique, design_ref, level text, level note)
CLAIMED = {
 "C18": ("tables", "constant-table extraction + exhaustive oracle comparison; role-based AST dataflow (go/ast + go/types)", "DESIGN.md 4/C18",
         "Exhaustive static decision of the finite tables (256 byte values for complement/transcribe, all 16 IUPAC query letters for Match) against an IUPAC oracle in the checker, plus structural rules LOOKUP/WIRE/LITERAL/FOLD on the resolved program. Decides the table and wiring clauses of the property, not regexp or suffix-array semantics.",
         "Trusts bytes.IndexByte/ToLower, regexp, index/suffixarray, sort as documented; the translation helper is checked by roles (LOOKUP)."),
 "C13": ("integrity", "must-check / must-pass-through / ordering rules: typestate along go/cfg paths, error-handling idiom matching, sibling cross-check of Open vs CreateLevel, constant-factor agreement", "DESIGN.md 4/C13",
         "Static decision that cache.Open can return a nil error only after the header was read in full (INT-4), the body digest covers every byte after the header (INT-3), all three digests were compared with the right operands and no error dropped (INT-1/2), the file name binds both key digests identically in reader and writer (INT-5), the writer finalises the header last with a consistent layout (INT-6), failed finalisation removes the entry (INT-8) and replay happens only after a valid open (REPLAY). Decides the structural necessary conditions, not the byte-level enumeration of corruptions.",
         "Trusts sha1 collision resistance, compress/flate's round trip, bytes.Equal/io.Copy/os.File semantics and the file system; field and method names of cmd/cache are anchors."),
 "C14": ("cachekey", "flag-to-payload dependence analysis (position-ordered taint over go/ast+go/types), typestate along go/cfg paths, error-handling idiom matching", "DESIGN.md 4/C14",
         "Static decision of the structural clauses of cache transparency over all 19 cached commands (which have no tests): every option read by a command is in the cache key (KEY-1..4), digest discipline and rewind in TryCache (KEY-5), replay only after a valid open (REPLAY), the tee writes the same bytes to cache and output (TEE), and a failed run cannot commit an entry (COMMIT). Does not decide byte equality of runs.",
         "Trusts encoding/json to encode distinct option values distinctly, hash.Hash.Write never failing, and go/cfg's model of control flow; commands are recognised as the functions of cmd/gts that call (*ioDelegate).TryCache."),
}

NOT_APPLICABLE = {
 "C06": "round-trip and denotation equalities over a recursive value domain; the only structural part (keyword tables) is settled by any single test; join reduction needs the meaning of each Push path (symbolic execution, a different technique family)",
 "C08": "segment-walking and offset arithmetic over runtime lengths; no clause whose truth is in the shape of the code",
 "C10": "inverse laws between the n>=0 and n<0 boundary conventions of Shift/Expand at runtime alignments: pure arithmetic over runtime coordinates",
 "C12": "regrouping/merging of runtime values; its only shape clause (no panic) needs relational index reasoning between three collections that no sound local rule discharges",
 "C17": "equality of runtime strings across lengths and line endings; the reader is width-agnostic so no writer/reader table exists to cross-check",
}

ALL = ["C%02d" % i for i in range(1, 20)]

def main():
    checks = []
    na = []
    for pid in ALL:
        if pid in CLAIMED:
            eng, tech, ref, text, note = CLAIMED[pid]
            checks.append({
                "property_id": pid,
                "quick_cmd": "./run.sh %s quick" % pid,
                "thorough_cmd": "./run.sh %s thorough" % pid,
                "evidence_file": "evidence/%s.json" % pid,
                "replay_cmd_template": "./run.sh replay {path}",
                "engine": eng,
                "level_claimed": {"category": "other", "text": text, "design_ref": ref},
                "level_note": note,
                "technique": "static analysis: " + tech,
            })
        elif pid in NOT_APPLICABLE:
            na.append({"property_id": pid, "reason": NOT_APPLICABLE[pid]})
        else:
            na.append({"property_id": pid, "reason": NOT_BUILT})
    engines = {}
    for pid, v in CLAIMED.items():
        engines.setdefault(v[0], []).append(pid)
    m = {
        "version": 1,
        "setup_cmd": "cd /verif/checker && GOFLAGS=-mod=mod GOPROXY=off GOSUMDB=off GOTOOLCHAIN=local go build -o ../bin/gtsverif .",
        "hooks": {
            "guard": "verif",
            "enable": "none: the checks are static and need no instrumentation; the build tag is declared and unused",
            "baseline_off_cmd": "cd /repo && go test -vet=off -count=1 ./...",
            "source_commits": [],
            "add_only": True,
        },
        "engines": [{"name": k, "path": "checker/engines/" + k, "serves_properties": sorted(v),
                     "kind_free_text": "static analysis over go/packages-loaded, type-checked source of /repo"} for k, v in sorted(engines.items())],
        "checks": checks,
        "notes": "Static analysis only (go/ast, go/types, go/cfg, go/ssa, call graph, compiler BCE report). Every check re-loads /repo's working tree on each run. Genuine defects found are listed in known_findings.json (status known/fixed).",
        "not_applicable": na,
    }
    json.dump(m, open("/verif/MANIFEST.json", "w"), indent=1)
    print("claimed:", [c["property_id"] for c in checks])
    print("not_applicable:", [n["property_id"] for n in na])

if __name__ == "__main__":
    main()

package core

import (
	"go/ast"
	"go/token"
	"go/types"
)

// Assign is one syntactic definition of a local variable.
type Assign struct {
	Obj  types.Object
	RHS  ast.Expr // nil when not 1:1 (tuple from a call: see Call/Index)
	Call *ast.CallExpr
	Idx  int // position in a tuple assignment from Call
	Pos  token.Pos
	Node ast.Node
}

// Assigns collects every definition/assignment of local identifiers under body
// (`:=`, `=`, `var`, range clauses are reported with RHS == the ranged expr and
// Idx 0 for key / 1 for value and Node the RangeStmt).
func Assigns(info *types.Info, body ast.Node) map[types.Object][]Assign {
	out := map[types.Object][]Assign{}
	add := func(id *ast.Ident, a Assign) {
		var o types.Object
		if d := info.Defs[id]; d != nil {
			o = d
		} else {
			o = info.Uses[id]
		}
		if o == nil {
			return
		}
		a.Obj = o
		out[o] = append(out[o], a)
	}
	ast.Inspect(body, func(n ast.Node) bool {
		switch s := n.(type) {
		case *ast.AssignStmt:
			if len(s.Lhs) == len(s.Rhs) {
				for i, l := range s.Lhs {
					if id, ok := l.(*ast.Ident); ok && id.Name != "_" {
						add(id, Assign{RHS: s.Rhs[i], Pos: s.Pos(), Node: s})
					}
				}
			} else if len(s.Rhs) == 1 {
				call, _ := ast.Unparen(s.Rhs[0]).(*ast.CallExpr)
				for i, l := range s.Lhs {
					if id, ok := l.(*ast.Ident); ok && id.Name != "_" {
						add(id, Assign{Call: call, Idx: i, Pos: s.Pos(), Node: s, RHS: nil})
					}
				}
			}
		case *ast.ValueSpec:
			for i, id := range s.Names {
				if id.Name == "_" {
					continue
				}
				if len(s.Values) == len(s.Names) {
					add(id, Assign{RHS: s.Values[i], Pos: s.Pos(), Node: s})
				} else if len(s.Values) == 1 {
					call, _ := ast.Unparen(s.Values[0]).(*ast.CallExpr)
					add(id, Assign{Call: call, Idx: i, Pos: s.Pos(), Node: s})
				} else {
					add(id, Assign{Pos: s.Pos(), Node: s})
				}
			}
		case *ast.RangeStmt:
			if id, ok := s.Key.(*ast.Ident); ok && id.Name != "_" {
				add(id, Assign{RHS: s.X, Idx: 0, Pos: s.Pos(), Node: s})
			}
			if id, ok := s.Value.(*ast.Ident); ok && id.Name != "_" {
				add(id, Assign{RHS: s.X, Idx: 1, Pos: s.Pos(), Node: s})
			}
		case *ast.IncDecStmt:
			if id, ok := s.X.(*ast.Ident); ok {
				add(id, Assign{Pos: s.Pos(), Node: s})
			}
		}
		return true
	})
	return out
}

// Origin follows single-definition local variables back to the expression that
// defines them. It stops (returning the identifier) at parameters, multiply
// assigned variables, tuple results and range variables.
func Origin(info *types.Info, asg map[types.Object][]Assign, e ast.Expr) ast.Expr {
	for i := 0; i < 32; i++ {
		e = ast.Unparen(e)
		id, ok := e.(*ast.Ident)
		if !ok {
			return e
		}
		o := info.Uses[id]
		if o == nil {
			o = info.Defs[id]
		}
		as := asg[o]
		if len(as) != 1 || as[0].RHS == nil {
			return e
		}
		if _, isRange := as[0].Node.(*ast.RangeStmt); isRange {
			return e
		}
		e = as[0].RHS
	}
	return e
}

// ParamIndex returns the index of obj among fd's parameters (receiver = -1,
// not a parameter = -2).
func ParamIndex(info *types.Info, fd *ast.FuncDecl, obj types.Object) int {
	if obj == nil {
		return -2
	}
	if fd.Recv != nil {
		for _, f := range fd.Recv.List {
			for _, n := range f.Names {
				if info.Defs[n] == obj {
					return -1
				}
			}
		}
	}
	i := 0
	for _, f := range fd.Type.Params.List {
		if len(f.Names) == 0 {
			i++
			continue
		}
		for _, n := range f.Names {
			if info.Defs[n] == obj {
				return i
			}
			i++
		}
	}
	return -2
}

// OriginBefore is Origin for straight-line code: a multiply assigned variable
// resolves to its last definition that textually precedes the use, provided no
// definition of it lies inside a loop that also contains the use.
func OriginBefore(info *types.Info, asg map[types.Object][]Assign, e ast.Expr) ast.Expr {
	for i := 0; i < 32; i++ {
		e = ast.Unparen(e)
		id, ok := e.(*ast.Ident)
		if !ok {
			return e
		}
		o := info.Uses[id]
		if o == nil {
			return e
		}
		var best *Assign
		for k := range asg[o] {
			a := &asg[o][k]
			if a.Pos < id.Pos() && (best == nil || a.Pos > best.Pos) {
				best = a
			}
		}
		if best == nil || best.RHS == nil {
			return e
		}
		if _, isRange := best.Node.(*ast.RangeStmt); isRange {
			return e
		}
		e = best.RHS
	}
	return e
}

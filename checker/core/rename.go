package core

import (
	"fmt"
	"go/ast"
	"go/token"
	"go/types"
	"sort"
	"strings"

	"golang.org/x/tools/go/packages"
)

// Rename-back. Rules name their anchors ("seqio.toOriginLength",
// "gts.flattenRegion"): an unexported function that a maintainer renames is the
// same function under another name, and nothing it does has changed. Before
// anything else the loader therefore compares the unexported functions and
// methods of the four repository packages with the table recorded when the rules
// were written (baseline_sigs.go: name -> signature). A recorded name that is
// gone, together with exactly one new name of the same receiver and the same
// signature, is a rename: every identifier that resolves to the new function is
// spelled with the recorded name again in a source overlay (offsets within the
// line shift, lines do not), and the program is type-checked once more. If the
// candidate is not unique nothing is renamed and the anchor stays unresolved
// (fail closed). A rename can never make a check pass that would otherwise
// fail on the function's body: rules read the body, the name only finds it.

// funcKey is "Recv.name" or "name".
func funcKey(fd *ast.FuncDecl) string {
	if r := RecvName(fd); r != "" {
		return r + "." + fd.Name.Name
	}
	return fd.Name.Name
}

func sigString(pk *packages.Package, fd *ast.FuncDecl) string {
	fn, _ := pk.TypesInfo.Defs[fd.Name].(*types.Func)
	if fn == nil {
		return "?"
	}
	sig := fn.Type().(*types.Signature)
	q := func(p *types.Package) string { return p.Name() }
	var b strings.Builder
	b.WriteString("(")
	for i := 0; i < sig.Params().Len(); i++ {
		if i > 0 {
			b.WriteString(", ")
		}
		if sig.Variadic() && i == sig.Params().Len()-1 {
			b.WriteString("...")
		}
		b.WriteString(types.TypeString(sig.Params().At(i).Type(), q))
	}
	b.WriteString(") (")
	for i := 0; i < sig.Results().Len(); i++ {
		if i > 0 {
			b.WriteString(", ")
		}
		b.WriteString(types.TypeString(sig.Results().At(i).Type(), q))
	}
	b.WriteString(")")
	return b.String()
}

// UnexportedSigs lists "pkgpath key" -> signature for the unexported functions
// and methods of the repository packages (used to regenerate baseline_sigs.go).
func UnexportedSigs(pkgs map[string]*packages.Package) map[string]string {
	out := map[string]string{}
	for _, path := range []string{PkgGts, PkgSeqio, PkgCache, PkgMain} {
		pk := pkgs[path]
		if pk == nil {
			continue
		}
		for _, f := range pk.Syntax {
			for _, d := range f.Decls {
				if fd, ok := d.(*ast.FuncDecl); ok && !fd.Name.IsExported() && fd.Name.Name != "init" && fd.Name.Name != "main" && fd.Name.Name != "_" {
					out[path+" "+funcKey(fd)] = sigString(pk, fd)
				}
			}
		}
	}
	return out
}

// RenameOverlay returns the overlay that undoes renames of recorded unexported
// functions, and a description of each.
func RenameOverlay(pkgs map[string]*packages.Package, fset *token.FileSet, read func(string) ([]byte, error)) (map[string][]byte, []string) {
	out := map[string][]byte{}
	var notes []string
	for _, path := range []string{PkgGts, PkgSeqio, PkgCache, PkgMain} {
		pk := pkgs[path]
		if pk == nil || pk.TypesInfo == nil || len(pk.Syntax) != len(pk.CompiledGoFiles) {
			continue
		}
		present := map[string]*ast.FuncDecl{}
		for _, f := range pk.Syntax {
			for _, d := range f.Decls {
				if fd, ok := d.(*ast.FuncDecl); ok && !fd.Name.IsExported() && fd.Name.Name != "init" && fd.Name.Name != "main" && fd.Name.Name != "_" {
					present[funcKey(fd)] = fd
				}
			}
		}
		var missing []string
		for k := range baselineSigs {
			if strings.HasPrefix(k, path+" ") {
				if key := k[len(path)+1:]; present[key] == nil {
					missing = append(missing, key)
				}
			}
		}
		sort.Strings(missing)
		recvOf := func(key string) string {
			if i := strings.LastIndexByte(key, '.'); i >= 0 {
				return key[:i]
			}
			return ""
		}
		claimed := map[string][]string{} // new key -> recorded names that could be it
		pick := map[string]string{}      // recorded name -> new key
		for _, m := range missing {
			var cands []string
			for key, fd := range present {
				if _, known := baselineSigs[path+" "+key]; known {
					continue
				}
				if recvOf(key) == recvOf(m) && sigString(pk, fd) == baselineSigs[path+" "+m] {
					cands = append(cands, key)
				}
			}
			if len(cands) == 1 {
				pick[m] = cands[0]
				claimed[cands[0]] = append(claimed[cands[0]], m)
			}
		}
		type edit struct {
			off, n int
			text   string
		}
		edits := map[string][]edit{}
		for m, key := range pick {
			if len(claimed[key]) != 1 {
				continue
			}
			fd := present[key]
			obj := pk.TypesInfo.Defs[fd.Name]
			if obj == nil {
				continue
			}
			newName := m[strings.LastIndexByte(m, '.')+1:]
			for i, f := range pk.Syntax {
				name := pk.CompiledGoFiles[i]
				ast.Inspect(f, func(n ast.Node) bool {
					if id, ok := n.(*ast.Ident); ok && (pk.TypesInfo.Uses[id] == obj || pk.TypesInfo.Defs[id] == obj) {
						pos := fset.Position(id.Pos())
						if pos.Filename == name {
							edits[name] = append(edits[name], edit{pos.Offset, len(id.Name), newName})
						}
					}
					return true
				})
			}
			notes = append(notes, fmt.Sprintf("%s.%s is the recorded %s under a new name", Short(path), key, m))
		}
		for name, es := range edits {
			src, err := read(name)
			if err != nil {
				continue
			}
			sort.Slice(es, func(a, b int) bool { return es[a].off > es[b].off })
			ok := true
			for _, e := range es {
				if e.off < 0 || e.off+e.n > len(src) {
					ok = false
					break
				}
				src = append(append(append([]byte(nil), src[:e.off]...), e.text...), src[e.off+e.n:]...)
			}
			if ok {
				out[name] = src
			}
		}
	}
	sort.Strings(notes)
	return out, notes
}

// DeadHelperOverlay blanks out unexported functions and methods that are not in
// the recorded table and that nothing in their package refers to any more -
// typically a freshly extracted helper every call of which has just been
// inlined. Left in place, such a function is a caller-less entry into the code
// it calls: its unconstrained parameters spoil interprocedural facts (every
// binding of a callee's parameter is non-negative, bounded ...). Removing dead
// code changes no behaviour. Line numbers are kept (the declaration is replaced
// by as many line breaks as it had).
func DeadHelperOverlay(pkgs map[string]*packages.Package, fset *token.FileSet, read func(string) ([]byte, error)) (map[string][]byte, []string) {
	out := map[string][]byte{}
	var notes []string
	for _, path := range []string{PkgGts, PkgSeqio, PkgCache, PkgMain} {
		pk := pkgs[path]
		if pk == nil || pk.TypesInfo == nil || len(pk.Syntax) != len(pk.CompiledGoFiles) {
			continue
		}
		used := map[types.Object]bool{}
		for _, f := range pk.Syntax {
			ast.Inspect(f, func(n ast.Node) bool {
				if id, ok := n.(*ast.Ident); ok {
					if o := pk.TypesInfo.Uses[id]; o != nil {
						used[o] = true
					}
				}
				return true
			})
		}
		for i, f := range pk.Syntax {
			name := pk.CompiledGoFiles[i]
			var dead []*ast.FuncDecl
			for _, d := range f.Decls {
				fd, ok := d.(*ast.FuncDecl)
				if !ok || fd.Name.IsExported() || fd.Name.Name == "init" || fd.Name.Name == "main" || fd.Name.Name == "_" {
					continue
				}
				if _, recorded := baselineSigs[path+" "+funcKey(fd)]; recorded {
					continue
				}
				obj := pk.TypesInfo.Defs[fd.Name]
				if obj == nil || used[obj] {
					continue
				}
				if fd.Recv != nil {
					continue // a method may satisfy an interface without being named anywhere
				}
				dead = append(dead, fd)
			}
			if len(dead) == 0 {
				continue
			}
			src, err := read(name)
			if err != nil {
				continue
			}
			src = append([]byte(nil), src...)
			for _, fd := range dead {
				start := fd.Pos()
				if fd.Doc != nil {
					start = fd.Doc.Pos()
				}
				a, b := fset.Position(start), fset.Position(fd.End())
				if a.Filename != name || a.Offset < 0 || b.Offset > len(src) || a.Offset > b.Offset {
					continue
				}
				for k := a.Offset; k < b.Offset; k++ {
					if src[k] != '\n' {
						src[k] = ' '
					}
				}
				notes = append(notes, fmt.Sprintf("%s.%s is new and no longer referenced: removed", Short(path), funcKey(fd)))
			}
			out[name] = src
		}
	}
	sort.Strings(notes)
	return out, notes
}

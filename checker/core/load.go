// Package core holds what every engine shares: loading the type-checked
// program from /repo's working tree, resolving named constructs, and the
// obligation/report vocabulary.
package core

import (
	"fmt"
	"go/ast"
	"go/token"
	"go/types"
	"os"
	"path/filepath"
	"sort"
	"strings"

	"golang.org/x/tools/go/packages"
	"golang.org/x/tools/go/ssa"
	"golang.org/x/tools/go/ssa/ssautil"
)

// Mod is the module path of the repository under analysis.
const Mod = "github.com/go-gts/gts"

// Package paths of the four packages every check needs.
const (
	PkgGts   = Mod
	PkgSeqio = Mod + "/seqio"
	PkgCache = Mod + "/cmd/cache"
	PkgMain  = Mod + "/cmd/gts"
)

// Prog is the loaded program.
type Prog struct {
	Repo    string
	Fset    *token.FileSet
	All     []*packages.Package          // root packages (the repo's)
	Pkgs    map[string]*packages.Package // every package in the import closure, by path
	Overlay map[string][]byte
	Env     []string
	Inlined []string // what the helper inliner did (inline.go)
	Pre     *Prog    // the same program before helper inlining (nil if nothing was inlined): a rule that recognises a call may look here

	SSA     *ssa.Program
	SSAPkgs map[string]*ssa.Package
}

// LoadOpts selects how the tree is loaded.
type LoadOpts struct {
	Repo      string
	Overlay   map[string][]byte // absolute path -> contents (mutants for the self-test)
	Env       []string          // extra environment (GOOS/GOARCH for the thorough tier)
	AllSyntax bool              // also parse dependencies (needed for SSA)
	noInline  bool              // internal: this is the reload after helper inlining
	noRename  bool              // internal: this is the reload after rename-back (rename.go)
}

// Load type-checks ./... of the repository. It fails closed: zero packages,
// any type error, or a missing anchor package is an error.
func Load(o LoadOpts) (*Prog, error) {
	p, err := loadRaw(o)
	if err != nil {
		return nil, err
	}
	for path, pk := range p.Pkgs {
		if strings.HasPrefix(path, Mod) {
			normalize(pk)
		}
	}
	if p.Pre != nil {
		for path, pk := range p.Pre.Pkgs {
			if strings.HasPrefix(path, Mod) {
				normalize(pk)
			}
		}
	}
	return p, nil
}

// LoadPlain loads the tree as it is: no rename-back, no inlining, no normalisation.
func LoadPlain(repo string) (*Prog, error) {
	return loadRaw(LoadOpts{Repo: repo, noInline: true, noRename: true})
}

// loadRaw loads and type-checks without normalising the syntax trees.
func loadRaw(o LoadOpts) (*Prog, error) {
	mode := packages.LoadSyntax
	if o.AllSyntax {
		mode = packages.LoadAllSyntax
	}
	env := append(os.Environ(), "GOFLAGS=-mod=mod", "GOPROXY=off", "GOSUMDB=off", "GOTOOLCHAIN=local", "GOWORK=off")
	env = append(env, o.Env...)
	fset := token.NewFileSet()
	cfg := &packages.Config{Mode: mode, Dir: o.Repo, Fset: fset, Env: env, Overlay: o.Overlay, Tests: false}
	roots, err := packages.Load(cfg, "./...")
	if err != nil {
		return nil, fmt.Errorf("load: %v", err)
	}
	if len(roots) == 0 {
		return nil, fmt.Errorf("load: zero packages under %s", o.Repo)
	}
	p := &Prog{Repo: o.Repo, Fset: fset, All: roots, Pkgs: map[string]*packages.Package{}, Overlay: o.Overlay, Env: env}
	var errs []string
	packages.Visit(roots, nil, func(pk *packages.Package) {
		p.Pkgs[pk.PkgPath] = pk
		if strings.HasPrefix(pk.PkgPath, Mod) {
			for _, e := range pk.Errors {
				errs = append(errs, e.Error())
			}
		}
	})
	if len(errs) > 0 {
		sort.Strings(errs)
		return nil, fmt.Errorf("load: type errors in the repository: %s", strings.Join(errs, "; "))
	}
	// rename-back (rename.go): a recorded unexported function under a new name gets its recorded name again
	if !o.noRename && !o.noInline {
		if ov, notes := RenameOverlay(p.Pkgs, fset, readThrough(cfg.Overlay)); len(ov) > 0 {
			merged := map[string][]byte{}
			for k, v := range cfg.Overlay {
				merged[k] = v
			}
			for k, v := range ov {
				merged[k] = v
			}
			o2 := o
			o2.Overlay, o2.noRename = merged, true
			if p2, err := loadRaw(o2); err == nil {
				p2.Inlined = append(notes, p2.Inlined...)
				return p2, nil
			} else {
				p.Inlined = append(p.Inlined, "rename-back dropped: "+err.Error())
			}
		}
	}
	// helper inlining (inline.go): calls of unexported helpers that are not in the reviewed table are
	// replaced by their bodies in an overlay and the program is loaded again, at most three times.
	if !o.noInline {
		for round := 0; round < 3; round++ {
			ov, n := InlineOverlay(p.Pkgs, fset, readThrough(cfg.Overlay))
			if n == 0 || len(ov) == 0 {
				break
			}
			merged := map[string][]byte{}
			for k, v := range cfg.Overlay {
				merged[k] = v
			}
			for k, v := range ov {
				merged[k] = v
			}
			o2 := o
			o2.Overlay, o2.noInline = merged, true
			p2, err := loadRaw(o2)
			if err != nil {
				// the rewritten sources do not type-check: keep the program as it is
				p.Inlined = append(p.Inlined, "dropped: "+err.Error())
				break
			}
			fset, cfg.Overlay = p2.Fset, merged
			inl := append(p.Inlined, fmt.Sprintf("round %d: %d call(s) inlined in %d file(s)", round+1, n, len(ov)))
			pre := p.Pre
			if pre == nil {
				// the inliner rewrites the syntax trees it reads in place: load the un-inlined program afresh
				o3 := o
				o3.noInline, o3.noRename = true, true
				if p3, err := loadRaw(o3); err == nil {
					pre = p3
				}
			}
			p = p2
			p.Inlined = inl
			p.Pre = pre
		}
	}
	// helpers that became unreferenced through inlining are dead code: remove them (rename.go)
	if !o.noInline && len(p.Inlined) > 0 {
		if ov, notes := DeadHelperOverlay(p.Pkgs, p.Fset, readThrough(cfg.Overlay)); len(ov) > 0 {
			merged := map[string][]byte{}
			for k, v := range cfg.Overlay {
				merged[k] = v
			}
			for k, v := range ov {
				merged[k] = v
			}
			o4 := o
			o4.Overlay, o4.noInline, o4.noRename = merged, true, true
			if p4, err := loadRaw(o4); err == nil {
				p4.Inlined = append(p.Inlined, notes...)
				p4.Pre = p.Pre
				p = p4
			} else {
				p.Inlined = append(p.Inlined, "dead-helper removal dropped: "+err.Error())
			}
		}
	}
	for _, need := range []string{PkgGts, PkgSeqio, PkgCache, PkgMain} {
		pk := p.Pkgs[need]
		if pk == nil || pk.Types == nil || len(pk.Syntax) == 0 {
			return nil, fmt.Errorf("load: anchor package %s missing", need)
		}
	}
	return p, nil
}

// BuildSSA builds go/ssa for the whole import closure (needs AllSyntax).
func (p *Prog) BuildSSA() {
	if p.SSA != nil {
		return
	}
	prog, _ := ssautil.AllPackages(p.All, ssa.InstantiateGenerics)
	prog.Build()
	p.SSA = prog
	p.SSAPkgs = map[string]*ssa.Package{}
	for _, sp := range prog.AllPackages() {
		p.SSAPkgs[sp.Pkg.Path()] = sp
	}
}

// Pkg returns a repo package by path (nil if absent).
func (p *Prog) Pkg(path string) *packages.Package { return p.Pkgs[path] }

// Short renders a package path relative to the module ("gts", "gts/seqio" ...).
func Short(pkgPath string) string {
	if pkgPath == Mod {
		return "gts"
	}
	if strings.HasPrefix(pkgPath, Mod+"/") {
		return "gts/" + strings.TrimPrefix(pkgPath, Mod+"/")
	}
	return pkgPath
}

// Pos renders a position relative to the repository root.
func (p *Prog) Pos(pos token.Pos) string {
	if !pos.IsValid() {
		return "-"
	}
	ps := p.Fset.Position(pos)
	rel, err := filepath.Rel(p.Repo, ps.Filename)
	if err != nil || strings.HasPrefix(rel, "..") {
		rel = ps.Filename
	}
	return fmt.Sprintf("%s:%d", rel, ps.Line)
}

// FuncDecl finds a function declaration by "Name" or "Recv.Name" (the receiver
// named without '*').
func (p *Prog) FuncDecl(pkgPath, name string) *ast.FuncDecl {
	pk := p.Pkgs[pkgPath]
	if pk == nil {
		return nil
	}
	recv, fn := "", name
	if i := strings.IndexByte(name, '.'); i >= 0 {
		recv, fn = name[:i], name[i+1:]
	}
	for _, f := range pk.Syntax {
		for _, d := range f.Decls {
			fd, ok := d.(*ast.FuncDecl)
			if !ok || fd.Name.Name != fn {
				continue
			}
			if RecvName(fd) == recv {
				return fd
			}
		}
	}
	return nil
}

// RecvName returns the receiver's type name ("" for a plain function).
func RecvName(fd *ast.FuncDecl) string {
	if fd.Recv == nil || len(fd.Recv.List) == 0 {
		return ""
	}
	t := fd.Recv.List[0].Type
	for {
		switch u := t.(type) {
		case *ast.StarExpr:
			t = u.X
			continue
		case *ast.ParenExpr:
			t = u.X
			continue
		case *ast.IndexExpr:
			t = u.X
			continue
		case *ast.Ident:
			return u.Name
		}
		return ""
	}
}

// DeclName is the "Recv.Name"/"Name" key of a declaration.
func DeclName(fd *ast.FuncDecl) string {
	if r := RecvName(fd); r != "" {
		return r + "." + fd.Name.Name
	}
	return fd.Name.Name
}

// FuncDecls lists every function declaration of a package.
func (p *Prog) FuncDecls(pkgPath string) []*ast.FuncDecl {
	pk := p.Pkgs[pkgPath]
	if pk == nil {
		return nil
	}
	var out []*ast.FuncDecl
	for _, f := range pk.Syntax {
		for _, d := range f.Decls {
			if fd, ok := d.(*ast.FuncDecl); ok {
				out = append(out, fd)
			}
		}
	}
	return out
}

// Info returns the types.Info of a repo package.
func (p *Prog) Info(pkgPath string) *types.Info {
	if pk := p.Pkgs[pkgPath]; pk != nil {
		return pk.TypesInfo
	}
	return nil
}

// Callee resolves the static callee of a call (function or method object),
// or nil for dynamic calls, conversions and builtins.
func Callee(info *types.Info, call *ast.CallExpr) *types.Func {
	fun := ast.Unparen(call.Fun)
	switch f := fun.(type) {
	case *ast.Ident:
		if fn, ok := info.Uses[f].(*types.Func); ok {
			return fn
		}
	case *ast.SelectorExpr:
		if sel := info.Selections[f]; sel != nil {
			if fn, ok := sel.Obj().(*types.Func); ok {
				return fn
			}
			return nil
		}
		if fn, ok := info.Uses[f.Sel].(*types.Func); ok {
			return fn
		}
	case *ast.IndexExpr:
		if id, ok := f.X.(*ast.Ident); ok {
			if fn, ok := info.Uses[id].(*types.Func); ok {
				return fn
			}
		}
	}
	return nil
}

// FuncID renders a *types.Func as "pkgpath.Name" or "pkgpath.(Recv).Name"
// with '*' dropped; interface methods as "pkgpath.Iface.Name".
func FuncID(fn *types.Func) string {
	if fn == nil {
		return ""
	}
	sig, _ := fn.Type().(*types.Signature)
	pkg := ""
	if fn.Pkg() != nil {
		pkg = fn.Pkg().Path()
	}
	if sig != nil && sig.Recv() != nil {
		t := sig.Recv().Type()
		if pt, ok := t.(*types.Pointer); ok {
			t = pt.Elem()
		}
		if nt, ok := t.(*types.Named); ok {
			if nt.Obj().Pkg() != nil {
				pkg = nt.Obj().Pkg().Path()
			}
			return pkg + "." + nt.Obj().Name() + "." + fn.Name()
		}
		return pkg + ".?." + fn.Name()
	}
	return pkg + "." + fn.Name()
}

// IsCallTo reports whether call statically resolves to one of ids (FuncID form).
func IsCallTo(info *types.Info, call *ast.CallExpr, ids ...string) bool {
	id := FuncID(Callee(info, call))
	if id == "" {
		return false
	}
	for _, w := range ids {
		if id == w {
			return true
		}
	}
	return false
}

// IsBuiltin reports whether call is a call of the named builtin.
func IsBuiltin(info *types.Info, call *ast.CallExpr, name string) bool {
	id, ok := ast.Unparen(call.Fun).(*ast.Ident)
	if !ok {
		return false
	}
	b, ok := info.Uses[id].(*types.Builtin)
	return ok && b.Name() == name
}

// IsConversion reports whether call is a type conversion.
func IsConversion(info *types.Info, call *ast.CallExpr) bool {
	tv, ok := info.Types[call.Fun]
	return ok && tv.IsType()
}

// CommandFunc resolves the function registered for a CLI command
// (flags.Register("name", help, F) in cmd/gts) to its declaration. The command
// name is what users type; the identifier of F is free to change.
func (p *Prog) CommandFunc(cmd string) *ast.FuncDecl {
	pk := p.Pkgs[PkgMain]
	if pk == nil {
		return nil
	}
	var out *ast.FuncDecl
	for _, f := range pk.Syntax {
		ast.Inspect(f, func(n ast.Node) bool {
			c, ok := n.(*ast.CallExpr)
			if !ok || len(c.Args) != 3 {
				return true
			}
			sel, ok := c.Fun.(*ast.SelectorExpr)
			if !ok || sel.Sel.Name != "Register" {
				return true
			}
			if s, ok := ConstString(pk.TypesInfo, c.Args[0]); !ok || s != cmd {
				return true
			}
			if id, ok := ast.Unparen(c.Args[2]).(*ast.Ident); ok {
				if fn, ok := pk.TypesInfo.Uses[id].(*types.Func); ok {
					out = p.FuncDecl(PkgMain, fn.Name())
				}
			}
			return true
		})
	}
	return out
}

package core

import (
	"go/ast"
	"go/constant"
	"go/token"
	"go/types"
)

// ConstString folds expr to a string constant (named constants included).
func ConstString(info *types.Info, e ast.Expr) (string, bool) {
	tv, ok := info.Types[e]
	if !ok || tv.Value == nil || tv.Value.Kind() != constant.String {
		return "", false
	}
	return constant.StringVal(tv.Value), true
}

// ConstInt folds expr to an integer constant.
func ConstInt(info *types.Info, e ast.Expr) (int64, bool) {
	tv, ok := info.Types[e]
	if !ok || tv.Value == nil {
		return 0, false
	}
	v := constant.ToInt(tv.Value)
	if v.Kind() != constant.Int {
		return 0, false
	}
	n, exact := constant.Int64Val(v)
	return n, exact
}

// BytesOfConst folds `[]byte("const")`, a string constant, or a package-level
// variable initialised with one of those, to its bytes.
func (p *Prog) BytesOfConst(info *types.Info, e ast.Expr) (string, bool) {
	e = ast.Unparen(e)
	if s, ok := ConstString(info, e); ok {
		return s, true
	}
	switch x := e.(type) {
	case *ast.CallExpr:
		if IsConversion(info, x) && len(x.Args) == 1 {
			return p.BytesOfConst(info, x.Args[0])
		}
	case *ast.CompositeLit:
		// []byte{'\n'}: a literal of byte constants
		if tv, ok := info.Types[x]; ok && tv.Type != nil {
			if sl, ok := tv.Type.Underlying().(*types.Slice); ok {
				if b, ok := sl.Elem().Underlying().(*types.Basic); ok && b.Kind() == types.Uint8 {
					var out []byte
					for _, el := range x.Elts {
						if _, isKV := el.(*ast.KeyValueExpr); isKV {
							return "", false
						}
						k, isConst := ConstInt(info, el)
						if !isConst || k < 0 || k > 255 {
							return "", false
						}
						out = append(out, byte(k))
					}
					return string(out), true
				}
			}
		}
	case *ast.Ident:
		if v, ok := info.Uses[x].(*types.Var); ok && v.Pkg() != nil && v.Parent() == v.Pkg().Scope() {
			if init, ii := p.PkgVarInit(v); init != nil {
				return p.BytesOfConst(ii, init)
			}
		}
	}
	return "", false
}

// PkgVarInit finds the initialiser expression of a package-level variable.
func (p *Prog) PkgVarInit(v *types.Var) (ast.Expr, *types.Info) {
	pk := p.Pkgs[v.Pkg().Path()]
	if pk == nil {
		return nil, nil
	}
	for _, f := range pk.Syntax {
		for _, d := range f.Decls {
			gd, ok := d.(*ast.GenDecl)
			if !ok || gd.Tok != token.VAR {
				continue
			}
			for _, s := range gd.Specs {
				vs := s.(*ast.ValueSpec)
				for i, n := range vs.Names {
					if pk.TypesInfo.Defs[n] == v && i < len(vs.Values) && len(vs.Values) == len(vs.Names) {
						return vs.Values[i], pk.TypesInfo
					}
				}
			}
		}
	}
	return nil, nil
}

// Calls collects every call expression under n (closures included).
func Calls(n ast.Node) []*ast.CallExpr {
	var out []*ast.CallExpr
	ast.Inspect(n, func(m ast.Node) bool {
		if c, ok := m.(*ast.CallExpr); ok {
			out = append(out, c)
		}
		return true
	})
	return out
}

// ObjOf returns the object an identifier expression denotes (nil otherwise).
func ObjOf(info *types.Info, e ast.Expr) types.Object {
	if id, ok := ast.Unparen(e).(*ast.Ident); ok {
		if o := info.Uses[id]; o != nil {
			return o
		}
		return info.Defs[id]
	}
	return nil
}

// UsesObj reports whether obj is mentioned anywhere under n.
func UsesObj(info *types.Info, n ast.Node, obj types.Object) bool {
	found := false
	ast.Inspect(n, func(m ast.Node) bool {
		if id, ok := m.(*ast.Ident); ok && (info.Uses[id] == obj || info.Defs[id] == obj) {
			found = true
		}
		return !found
	})
	return found
}

// NamedOf strips pointers and returns the named type's "pkgpath.Name".
func NamedOf(t types.Type) string {
	if t == nil {
		return ""
	}
	if pt, ok := t.Underlying().(*types.Pointer); ok {
		t = pt.Elem()
	}
	if pt, ok := t.(*types.Pointer); ok {
		t = pt.Elem()
	}
	if nt, ok := t.(*types.Named); ok {
		if nt.Obj().Pkg() == nil {
			return nt.Obj().Name()
		}
		return nt.Obj().Pkg().Path() + "." + nt.Obj().Name()
	}
	return t.String()
}

package core

import (
	"encoding/json"
	"fmt"
	"os"
	"path/filepath"
	"sort"
	"strings"
)

// Status of an obligation.
const (
	OK        = "discharged"
	Violation = "violation"
	Undecided = "undecided"
	Info      = "info" // counted, never fails
)

// Ob is one obligation: a rule applied to one resolved construct.
type Ob struct {
	Rule   string   `json:"rule"`
	Key    string   `json:"key"` // rule + resolved construct; never a line number
	Pos    string   `json:"pos"` // file:line today (diagnostic only)
	Status string   `json:"status"`
	Detail string   `json:"detail"`
	Path   []string `json:"path,omitempty"`
}

// Report accumulates what one property check covered.
type Report struct {
	Property    string
	Obs         []Ob
	Floors      map[string]int // rule -> minimum number of instances confirmed by hand
	Analysed    map[string]bool
	Rules       map[string]string // rule -> text of the rule
	Assumptions []string
	NotDecided  []string
	Extra       map[string]interface{}
	Exhaustive  bool
}

// NewReport makes an empty report.
func NewReport(prop string) *Report {
	return &Report{Property: prop, Floors: map[string]int{}, Analysed: map[string]bool{}, Rules: map[string]string{}, Extra: map[string]interface{}{}}
}

func (r *Report) add(rule, key, pos, status, detail string, path []string) {
	key = strings.ReplaceAll(key, " ", "_") // keys are single tokens in the -list output and in known_findings.json
	r.Obs = append(r.Obs, Ob{Rule: rule, Key: rule + "|" + key, Pos: pos, Status: status, Detail: detail, Path: path})
}

// Ok records a discharged obligation.
func (r *Report) Ok(rule, key, pos, detail string) { r.add(rule, key, pos, OK, detail, nil) }

// Bad records a violation.
func (r *Report) Bad(rule, key, pos, detail string, path ...string) {
	r.add(rule, key, pos, Violation, detail, path)
}

// Und records an instance the rule could not classify (fails closed).
func (r *Report) Und(rule, key, pos, detail string) { r.add(rule, key, pos, Undecided, detail, nil) }

// Note records an informational instance.
func (r *Report) Note(rule, key, pos, detail string) { r.add(rule, key, pos, Info, detail, nil) }

// Rule registers the text of a rule and its floor.
func (r *Report) Rule(rule, text string, floor int) {
	r.Rules[rule] = text
	r.Floors[rule] = floor
}

// Fn records a function as analysed.
func (r *Report) Fn(name string) { r.Analysed[name] = true }

// Counts returns instances per rule (info excluded).
func (r *Report) Counts() map[string]int {
	c := map[string]int{}
	for _, o := range r.Obs {
		if o.Status != Info {
			c[o.Rule]++
		}
	}
	return c
}

// CheckFloors turns a rule that matched fewer instances than its floor into a
// violation, so no rule can pass vacuously.
func (r *Report) CheckFloors() {
	c := r.Counts()
	var rules []string
	for rule := range r.Floors {
		rules = append(rules, rule)
	}
	sort.Strings(rules)
	for _, rule := range rules {
		if c[rule] < r.Floors[rule] {
			r.Bad("FLOOR", rule, "-", fmt.Sprintf("rule %s matched %d instance(s), fewer than the %d confirmed by hand: the rule no longer sees its anchors", rule, c[rule], r.Floors[rule]))
		}
	}
}

// Finding is one entry of known_findings.json.
type Finding struct {
	Property string `json:"property"`
	Key      string `json:"key"`
	Status   string `json:"status"` // "known" | "fixed"
	Commit   string `json:"commit,omitempty"`
	What     string `json:"what"`
}

// Findings is the committed file.
type Findings struct {
	Findings []Finding `json:"findings"`
}

// LoadFindings reads the committed known-findings file (never written at run time).
func LoadFindings(path string) (*Findings, error) {
	b, err := os.ReadFile(path)
	if err != nil {
		return nil, err
	}
	var f Findings
	if err := json.Unmarshal(b, &f); err != nil {
		return nil, err
	}
	return &f, nil
}

// Outcome of a finished check.
type Outcome struct {
	Violations []Ob
	Known      []Ob
	KnownWhat  map[string]string
}

// Decide splits failing obligations into unlisted violations and known findings.
func (r *Report) Decide(kf *Findings) Outcome {
	known := map[string]string{}
	if kf != nil {
		for _, f := range kf.Findings {
			if f.Property == r.Property && f.Status == "known" {
				known[f.Key] = f.What
			}
		}
	}
	out := Outcome{KnownWhat: known}
	for _, o := range r.Obs {
		if o.Status != Violation && o.Status != Undecided {
			continue
		}
		if _, ok := known[o.Key]; ok && o.Status == Violation {
			out.Known = append(out.Known, o)
		} else {
			out.Violations = append(out.Violations, o)
		}
	}
	return out
}

// Evidence is the schema-shaped evidence file.
type Evidence struct {
	PropertyID  string                 `json:"property_id"`
	Tier        string                 `json:"tier"`
	Seed        int                    `json:"seed"`
	Level       string                 `json:"level"`
	Coverage    map[string]interface{} `json:"coverage"`
	Assumptions []string               `json:"assumptions"`
	WallS       float64                `json:"wall_s"`
	Violations  int                    `json:"violations"`
}

// WriteEvidence writes /verif/evidence/<id>.json.
func (r *Report) WriteEvidence(dir, tier string, seed int, wall float64, out Outcome, extra map[string]interface{}) error {
	r.Assumptions = append(r.Assumptions, "go/packages + go/types resolve identifiers, callees and constants exactly as the Go compiler does for this build configuration; the repository uses no unsafe, cgo or reflection-based writes")
	counts := r.Counts()
	discharged := 0
	distinct := map[string]bool{}
	for _, o := range r.Obs {
		if o.Status == OK {
			discharged++
		}
		if o.Status != Info {
			distinct[o.Key] = true
		}
	}
	var samples []interface{}
	perRule := map[string]int{}
	for _, o := range r.Obs {
		if o.Status == Info {
			continue
		}
		if perRule[o.Rule] < 4 || o.Status != OK {
			perRule[o.Rule]++
			samples = append(samples, o)
		}
	}
	var fns []string
	for f := range r.Analysed {
		fns = append(fns, f)
	}
	sort.Strings(fns)
	var ruleText []string
	var ruleNames []string
	for k := range r.Rules {
		ruleNames = append(ruleNames, k)
	}
	sort.Strings(ruleNames)
	for _, k := range ruleNames {
		ruleText = append(ruleText, k+": "+r.Rules[k])
	}
	total := len(r.Obs)
	for _, o := range r.Obs {
		if o.Status == Info {
			total--
		}
	}
	cov := map[string]interface{}{
		"obligations":         total,
		"discharged":          discharged,
		"evaluations":         total,
		"distinct_nontrivial": len(distinct),
		"rule":                "static rules over /repo's type-checked source; an obligation is one rule applied to one resolved construct (distinct = distinct rule+construct keys). " + strings.Join(ruleText, " || "),
		"explanation":         "Decided statically (no gts code executed). " + strings.Join(ruleText, " || ") + " || NOT decided by this check: " + strings.Join(r.NotDecided, "; "),
		"samples":             samples,
		"per_rule_instances":  counts,
		"per_rule_floors":     r.Floors,
		"functions_analysed":  fns,
		"known_findings":      len(out.Known),
		"checker_cmd":         "bin/gtsverif -property " + r.Property + " -tier " + tier,
		"trusted_base":        r.Assumptions,
		"exhaustive":          r.Exhaustive,
	}
	for k, v := range r.Extra {
		cov[k] = v
	}
	for k, v := range extra {
		cov[k] = v
	}
	ev := Evidence{PropertyID: r.Property, Tier: tier, Seed: seed, Level: "other", Coverage: cov, Assumptions: r.Assumptions, WallS: wall, Violations: len(out.Violations)}
	if ev.Assumptions == nil {
		ev.Assumptions = []string{}
	}
	b, err := json.MarshalIndent(ev, "", " ")
	if err != nil {
		return err
	}
	if err := os.MkdirAll(dir, 0o755); err != nil {
		return err
	}
	return os.WriteFile(filepath.Join(dir, r.Property+".json"), append(b, '\n'), 0o644)
}

package core

import (
	"go/ast"
	"go/token"
	"go/types"

	"golang.org/x/tools/go/ast/astutil"
	"golang.org/x/tools/go/packages"
)

// normalize rewrites the type-checked syntax trees of a repo package into a
// canonical spelling, in place, so that no rule depends on which of two
// equivalent spellings the source uses:
//
//	c OP x        ->  x OP' c      for a comparison with a constant on the left
//	                               and a non-constant on the right
//	x = x OP e    ->  x OP= e      (also  x = e + x  ->  x += e  for + and *)
//	x += 1        ->  x++          (and x -= 1 -> x--), x an identifier
//	(x)           ->  x            around operands that need no parentheses
//	v := E; return v -> return E   when v is used nowhere else
//
// Only operands are exchanged and operator tokens changed; every node keeps
// its identity, so types.Info stays valid. Both rewrites preserve meaning for
// every Go program (comparison operands are evaluated left to right, but a
// constant has no effect to order; `x = x OP e` evaluates x and e once each,
// exactly like `x OP= e`, when x is an identifier).
func normalize(pk *packages.Package) {
	info := pk.TypesInfo
	if info == nil {
		return
	}
	isConst := func(e ast.Expr) bool {
		tv, ok := info.Types[e]
		return ok && tv.Value != nil
	}
	mirror := map[token.Token]token.Token{token.LSS: token.GTR, token.GTR: token.LSS, token.LEQ: token.GEQ, token.GEQ: token.LEQ, token.EQL: token.EQL, token.NEQ: token.NEQ}
	sameIdent := func(a, b ast.Expr) bool {
		x, ok1 := ast.Unparen(a).(*ast.Ident)
		y, ok2 := ast.Unparen(b).(*ast.Ident)
		if !ok1 || !ok2 {
			return false
		}
		ox, oy := info.Uses[x], info.Uses[y]
		if ox == nil {
			ox = info.Defs[x]
		}
		if oy == nil {
			oy = info.Defs[y]
		}
		_, isVar := ox.(*types.Var)
		return ox != nil && ox == oy && isVar
	}
	opAssign := map[token.Token]token.Token{token.ADD: token.ADD_ASSIGN, token.SUB: token.SUB_ASSIGN, token.MUL: token.MUL_ASSIGN, token.QUO: token.QUO_ASSIGN, token.REM: token.REM_ASSIGN}
	for _, f := range pk.Syntax {
		ast.Inspect(f, func(n ast.Node) bool {
			switch x := n.(type) {
			case *ast.BinaryExpr:
				if m, ok := mirror[x.Op]; ok && isConst(x.X) && !isConst(x.Y) {
					x.X, x.Y = x.Y, x.X
					x.Op = m
				}
			case *ast.AssignStmt:
				if x.Tok != token.ASSIGN || len(x.Lhs) != 1 || len(x.Rhs) != 1 {
					return true
				}
				be, ok := ast.Unparen(x.Rhs[0]).(*ast.BinaryExpr)
				if !ok {
					return true
				}
				tok, ok := opAssign[be.Op]
				if !ok {
					return true
				}
				// numeric only: string concatenation keeps its spelling (x = x + s is also x += s, but leave it)
				if b, isB := info.TypeOf(x.Lhs[0]).Underlying().(*types.Basic); !isB || b.Info()&types.IsNumeric == 0 {
					return true
				}
				switch {
				case sameIdent(x.Lhs[0], be.X):
					x.Tok, x.Rhs = tok, []ast.Expr{ast.Unparen(be.Y)}
				case (be.Op == token.ADD || be.Op == token.MUL) && sameIdent(x.Lhs[0], be.Y):
					x.Tok, x.Rhs = tok, []ast.Expr{ast.Unparen(be.X)}
				}
			}
			return true
		})
		// (x) -> x for operands that need no parentheses
		astutil.Apply(f, nil, func(c *astutil.Cursor) bool {
			pe, ok := c.Node().(*ast.ParenExpr)
			if !ok {
				return true
			}
			switch pe.X.(type) {
			case *ast.Ident, *ast.BasicLit, *ast.SelectorExpr, *ast.CallExpr, *ast.IndexExpr, *ast.ParenExpr, *ast.CompositeLit:
				if tv, has := info.Types[pe]; has {
					info.Types[pe.X] = tv
				}
				c.Replace(pe.X)
			}
			return true
		})
		// v := E; return v  ->  return E   (v used nowhere else)
		uses := map[types.Object]int{}
		ast.Inspect(f, func(n ast.Node) bool {
			if id, ok := n.(*ast.Ident); ok {
				if o := info.Uses[id]; o != nil {
					uses[o]++
				}
			}
			return true
		})
		ast.Inspect(f, func(n ast.Node) bool {
			blk, ok := n.(*ast.BlockStmt)
			if !ok {
				return true
			}
			for i := 0; i+1 < len(blk.List); i++ {
				ret, ok := blk.List[i+1].(*ast.ReturnStmt)
				if !ok || len(ret.Results) != 1 {
					continue
				}
				rid, ok := ret.Results[0].(*ast.Ident)
				if !ok {
					continue
				}
				var def *ast.Ident
				var val ast.Expr
				switch d := blk.List[i].(type) {
				case *ast.AssignStmt:
					if d.Tok == token.DEFINE && len(d.Lhs) == 1 && len(d.Rhs) == 1 {
						def, _ = d.Lhs[0].(*ast.Ident)
						val = d.Rhs[0]
					}
				case *ast.DeclStmt:
					if gd, ok := d.Decl.(*ast.GenDecl); ok && gd.Tok == token.VAR && len(gd.Specs) == 1 {
						if vs := gd.Specs[0].(*ast.ValueSpec); len(vs.Names) == 1 && len(vs.Values) == 1 {
							def, val = vs.Names[0], vs.Values[0]
						}
					}
				}
				if def == nil || val == nil {
					continue
				}
				o := info.Defs[def]
				if o == nil || info.Uses[rid] != o || uses[o] != 1 {
					continue
				}
				ret.Results[0] = val
				blk.List = append(blk.List[:i], blk.List[i+1:]...)
			}
			return true
		})
		// x += 1 -> x++ (a statement is replaced, so this needs a cursor)
		astutil.Apply(f, func(c *astutil.Cursor) bool {
			as, ok := c.Node().(*ast.AssignStmt)
			if !ok || len(as.Lhs) != 1 || len(as.Rhs) != 1 || (as.Tok != token.ADD_ASSIGN && as.Tok != token.SUB_ASSIGN) {
				return true
			}
			if _, isID := ast.Unparen(as.Lhs[0]).(*ast.Ident); !isID {
				return true
			}
			tv, ok := info.Types[as.Rhs[0]]
			if !ok || tv.Value == nil || tv.Value.ExactString() != "1" {
				return true
			}
			if b, isB := info.TypeOf(as.Lhs[0]).Underlying().(*types.Basic); !isB || b.Info()&types.IsInteger == 0 {
				return true
			}
			tok := token.INC
			if as.Tok == token.SUB_ASSIGN {
				tok = token.DEC
			}
			c.Replace(&ast.IncDecStmt{X: as.Lhs[0], TokPos: as.TokPos, Tok: tok})
			return true
		}, nil)
	}
}

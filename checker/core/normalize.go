package core

import (
	"go/ast"
	"go/token"
	"go/types"

	"golang.org/x/tools/go/ast/astutil"
	"golang.org/x/tools/go/packages"
)

// normalize rewrites the type-checked syntax trees of a repo package into a
// canonical spelling, in place, so that no rule depends on which of two
// equivalent spellings the source uses:
//
//	c OP x        ->  x OP' c      for a comparison with a constant on the left
//	                               and a non-constant on the right
//	x = x OP e    ->  x OP= e      (also  x = e + x  ->  x += e  for + and *)
//	x += 1        ->  x++          (and x -= 1 -> x--), x an identifier
//	(x)           ->  x            around operands that need no parentheses
//	v := E; return v -> return E   when v is used nowhere else
//	c := E; if c {   -> if E {      when c is used nowhere else and E is free of calls
//	a, b := x, y     -> a := x; b := y   (new variables, call-free operands)
//	for i := 0; i < len(xs); i++ {   ->  for i := range xs {   (xs a local slice the body leaves alone)
//	for i := range xs { v := xs[i]; ...  ->  for i, v := range xs { ...
//	var x = E        -> x := E        (one name, one value, no declared type)
//	switch { case A: X; case B: Y; default: Z }  ->  if A { X } else if B { Y } else { Z }
//
// Only operands are exchanged and operator tokens changed; every node keeps
// its identity, so types.Info stays valid. Both rewrites preserve meaning for
// every Go program (comparison operands are evaluated left to right, but a
// constant has no effect to order; `x = x OP e` evaluates x and e once each,
// exactly like `x OP= e`, when x is an identifier).
func normalize(pk *packages.Package) {
	info := pk.TypesInfo
	if info == nil {
		return
	}
	isConst := func(e ast.Expr) bool {
		tv, ok := info.Types[e]
		return ok && tv.Value != nil
	}
	mirror := map[token.Token]token.Token{token.LSS: token.GTR, token.GTR: token.LSS, token.LEQ: token.GEQ, token.GEQ: token.LEQ, token.EQL: token.EQL, token.NEQ: token.NEQ}
	sameIdent := func(a, b ast.Expr) bool {
		x, ok1 := ast.Unparen(a).(*ast.Ident)
		y, ok2 := ast.Unparen(b).(*ast.Ident)
		if !ok1 || !ok2 {
			return false
		}
		ox, oy := info.Uses[x], info.Uses[y]
		if ox == nil {
			ox = info.Defs[x]
		}
		if oy == nil {
			oy = info.Defs[y]
		}
		_, isVar := ox.(*types.Var)
		return ox != nil && ox == oy && isVar
	}
	opAssign := map[token.Token]token.Token{token.ADD: token.ADD_ASSIGN, token.SUB: token.SUB_ASSIGN, token.MUL: token.MUL_ASSIGN, token.QUO: token.QUO_ASSIGN, token.REM: token.REM_ASSIGN}
	// negation normal form and guard-clause form (before everything else, so that the later
	// passes see the canonical conditions)
	for _, f := range pk.Syntax {
		switchForm(f)
		guardForm(info, f)
	}
	for _, f := range pk.Syntax {
		ast.Inspect(f, func(n ast.Node) bool {
			switch x := n.(type) {
			case *ast.BinaryExpr:
				if m, ok := mirror[x.Op]; ok && isConst(x.X) && !isConst(x.Y) {
					x.X, x.Y = x.Y, x.X
					x.Op = m
				}
			case *ast.AssignStmt:
				if x.Tok != token.ASSIGN || len(x.Lhs) != 1 || len(x.Rhs) != 1 {
					return true
				}
				be, ok := ast.Unparen(x.Rhs[0]).(*ast.BinaryExpr)
				if !ok {
					return true
				}
				tok, ok := opAssign[be.Op]
				if !ok {
					return true
				}
				// numeric only: string concatenation keeps its spelling (x = x + s is also x += s, but leave it)
				if b, isB := info.TypeOf(x.Lhs[0]).Underlying().(*types.Basic); !isB || b.Info()&types.IsNumeric == 0 {
					return true
				}
				switch {
				case sameIdent(x.Lhs[0], be.X):
					x.Tok, x.Rhs = tok, []ast.Expr{ast.Unparen(be.Y)}
				case (be.Op == token.ADD || be.Op == token.MUL) && sameIdent(x.Lhs[0], be.Y):
					x.Tok, x.Rhs = tok, []ast.Expr{ast.Unparen(be.X)}
				}
			}
			return true
		})
		// (x) -> x for operands that need no parentheses
		astutil.Apply(f, nil, func(c *astutil.Cursor) bool {
			pe, ok := c.Node().(*ast.ParenExpr)
			if !ok {
				return true
			}
			switch pe.X.(type) {
			case *ast.Ident, *ast.BasicLit, *ast.SelectorExpr, *ast.CallExpr, *ast.IndexExpr, *ast.ParenExpr, *ast.CompositeLit:
				if tv, has := info.Types[pe]; has {
					info.Types[pe.X] = tv
				}
				c.Replace(pe.X)
			}
			return true
		})
		pureExpr := func(e ast.Expr) bool {
			ok := true
			ast.Inspect(e, func(n ast.Node) bool {
				switch x := n.(type) {
				case *ast.CallExpr:
					if tv, has := info.Types[x.Fun]; has && tv.IsType() {
						return true // conversion
					}
					if id, isID := x.Fun.(*ast.Ident); isID {
						if _, isB := info.Uses[id].(*types.Builtin); isB && (id.Name == "len" || id.Name == "cap") {
							return true
						}
					}
					ok = false
				case *ast.UnaryExpr:
					if x.Op == token.ARROW {
						ok = false
					}
				case *ast.FuncLit:
					ok = false
				}
				return ok
			})
			return ok
		}
		mentionsName := func(e ast.Expr, name string) bool {
			found := false
			ast.Inspect(e, func(n ast.Node) bool {
				if id, ok := n.(*ast.Ident); ok && id.Name == name {
					found = true
				}
				return !found
			})
			return found
		}
		// a, b := x, y  ->  a := x; b := y   (all new; a later operand does not mention an earlier
		// name; evaluation order is unchanged and a new variable cannot be read by a later operand)
		splitList := func(list []ast.Stmt) []ast.Stmt {
			var out []ast.Stmt
			for _, st := range list {
				as, ok := st.(*ast.AssignStmt)
				if ok && as.Tok == token.DEFINE && len(as.Lhs) >= 2 && len(as.Lhs) == len(as.Rhs) {
					okSplit := true
					for i, l := range as.Lhs {
						id, isID := l.(*ast.Ident)
						if !isID || id.Name == "_" || info.Defs[id] == nil {
							okSplit = false
							break
						}
						for j := i + 1; j < len(as.Rhs); j++ {
							if mentionsName(as.Rhs[j], id.Name) {
								okSplit = false
							}
						}
					}
					if okSplit {
						for i := range as.Lhs {
							out = append(out, &ast.AssignStmt{Lhs: []ast.Expr{as.Lhs[i]}, TokPos: as.TokPos, Tok: token.DEFINE, Rhs: []ast.Expr{as.Rhs[i]}})
						}
						continue
					}
				}
				out = append(out, st)
			}
			return out
		}
		// var x = e  (one name, one value, no declared type)  ->  x := e
		varForm := func(list []ast.Stmt) []ast.Stmt {
			for i, st := range list {
				ds, ok := st.(*ast.DeclStmt)
				if !ok {
					continue
				}
				gd, ok := ds.Decl.(*ast.GenDecl)
				if !ok || gd.Tok != token.VAR || len(gd.Specs) != 1 {
					continue
				}
				vs, ok := gd.Specs[0].(*ast.ValueSpec)
				if !ok || vs.Type != nil || len(vs.Names) != 1 || len(vs.Values) != 1 || vs.Names[0].Name == "_" {
					continue
				}
				list[i] = &ast.AssignStmt{Lhs: []ast.Expr{vs.Names[0]}, TokPos: vs.Names[0].End(), Tok: token.DEFINE, Rhs: []ast.Expr{vs.Values[0]}}
			}
			return list
		}
		ast.Inspect(f, func(n ast.Node) bool {
			switch x := n.(type) {
			case *ast.BlockStmt:
				x.List = splitList(varForm(x.List))
			case *ast.CaseClause:
				x.Body = splitList(varForm(x.Body))
			}
			return true
		})
		// for i := 0; i < len(xs); i++ { ... }  ->  for i := range xs { ... }
		// (xs a local slice or array variable that the body neither assigns nor takes the address of,
		// i not assigned in the body, no function literal in the body: the bound is then the same on
		// every iteration and both loops visit 0..len(xs)-1 in order)
		astutil.Apply(f, func(c *astutil.Cursor) bool {
			fs, ok := c.Node().(*ast.ForStmt)
			if !ok || fs.Init == nil || fs.Cond == nil || fs.Post == nil {
				return true
			}
			init, ok := fs.Init.(*ast.AssignStmt)
			if !ok || init.Tok != token.DEFINE || len(init.Lhs) != 1 || len(init.Rhs) != 1 {
				return true
			}
			iv, ok := init.Lhs[0].(*ast.Ident)
			if tv, has := info.Types[init.Rhs[0]]; !ok || !has || tv.Value == nil || tv.Value.ExactString() != "0" || info.Defs[iv] == nil {
				return true
			}
			iobj := info.Defs[iv]
			if b, isB := iobj.Type().Underlying().(*types.Basic); !isB || b.Kind() != types.Int {
				return true
			}
			cond, ok := fs.Cond.(*ast.BinaryExpr)
			if !ok || cond.Op != token.LSS {
				return true
			}
			ci, ok := cond.X.(*ast.Ident)
			if !ok || info.Uses[ci] != iobj {
				return true
			}
			lc, ok := cond.Y.(*ast.CallExpr)
			if !ok || len(lc.Args) != 1 {
				return true
			}
			if id, isID := lc.Fun.(*ast.Ident); !isID || id.Name != "len" {
				return true
			} else if _, isB := info.Uses[id].(*types.Builtin); !isB {
				return true
			}
			xs, ok := lc.Args[0].(*ast.Ident)
			if !ok {
				return true
			}
			xobj, ok := info.Uses[xs].(*types.Var)
			if !ok || xobj.IsField() || (xobj.Pkg() != nil && xobj.Parent() == xobj.Pkg().Scope()) {
				return true
			}
			switch xobj.Type().Underlying().(type) {
			case *types.Slice, *types.Array:
			default:
				return true
			}
			switch post := fs.Post.(type) {
			case *ast.IncDecStmt:
				if id, isID := post.X.(*ast.Ident); !isID || post.Tok != token.INC || info.Uses[id] != iobj {
					return true
				}
			default:
				return true
			}
			clean := true
			ast.Inspect(fs.Body, func(m ast.Node) bool {
				touched := func(e ast.Expr) bool {
					id, ok := ast.Unparen(e).(*ast.Ident)
					return ok && (info.Uses[id] == iobj || info.Uses[id] == types.Object(xobj))
				}
				switch y := m.(type) {
				case *ast.AssignStmt:
					for _, l := range y.Lhs {
						if touched(l) {
							clean = false
						}
					}
				case *ast.IncDecStmt:
					if touched(y.X) {
						clean = false
					}
				case *ast.UnaryExpr:
					if y.Op == token.AND && touched(y.X) {
						clean = false
					}
				case *ast.RangeStmt:
					if (y.Key != nil && touched(y.Key)) || (y.Value != nil && touched(y.Value)) {
						clean = false
					}
				case *ast.FuncLit:
					clean = false
				}
				return clean
			})
			if !clean {
				return true
			}
			c.Replace(&ast.RangeStmt{For: fs.For, Key: iv, TokPos: init.TokPos, Tok: token.DEFINE, Range: init.TokPos, X: xs, Body: fs.Body})
			return true
		}, nil)
		// for i := range xs { v := xs[i]; ... }  ->  for i, v := range xs { ... }
		ast.Inspect(f, func(n ast.Node) bool {
			rs, ok := n.(*ast.RangeStmt)
			if !ok || rs.Tok != token.DEFINE || rs.Key == nil || rs.Value != nil || len(rs.Body.List) == 0 {
				return true
			}
			k, okK := rs.Key.(*ast.Ident)
			xs, okX := rs.X.(*ast.Ident)
			as, okA := rs.Body.List[0].(*ast.AssignStmt)
			if !okK || !okX || !okA || as.Tok != token.DEFINE || len(as.Lhs) != 1 || len(as.Rhs) != 1 {
				return true
			}
			v, okV := as.Lhs[0].(*ast.Ident)
			ix, okI := as.Rhs[0].(*ast.IndexExpr)
			if !okV || !okI || v.Name == "_" {
				return true
			}
			ixX, ok1 := ix.X.(*ast.Ident)
			ixI, ok2 := ix.Index.(*ast.Ident)
			if !ok1 || !ok2 || info.Uses[ixX] == nil || info.Uses[ixX] != info.Uses[xs] || info.Uses[ixI] != info.Defs[k] {
				return true
			}
			// xs must not be assigned inside the loop
			assigned := false
			ast.Inspect(rs.Body, func(m ast.Node) bool {
				if a, ok := m.(*ast.AssignStmt); ok {
					for _, l := range a.Lhs {
						if id, ok := l.(*ast.Ident); ok && info.Uses[id] == info.Uses[xs] && info.Uses[id] != nil {
							assigned = true
						}
					}
				}
				return true
			})
			if assigned {
				return true
			}
			if _, isSlice := info.TypeOf(xs).Underlying().(*types.Slice); !isSlice {
				return true
			}
			rs.Value = v
			rs.Body.List = rs.Body.List[1:]
			return true
		})
		// v := E; S(v)  ->  S(E)   (v used only there, once; E pure; S an if-condition, a return or an assignment)
		useCount := map[types.Object]int{}
		ast.Inspect(f, func(n ast.Node) bool {
			if id, ok := n.(*ast.Ident); ok {
				if o := info.Uses[id]; o != nil {
					useCount[o]++
				}
			}
			return true
		})
		inlineList := func(list []ast.Stmt) []ast.Stmt {
			for i := 0; i+1 < len(list); i++ {
				as, ok := list[i].(*ast.AssignStmt)
				if !ok || as.Tok != token.DEFINE || len(as.Lhs) != 1 || len(as.Rhs) != 1 || !pureExpr(as.Rhs[0]) {
					continue
				}
				v, ok := as.Lhs[0].(*ast.Ident)
				if !ok || info.Defs[v] == nil || useCount[info.Defs[v]] != 1 {
					continue
				}
				obj := info.Defs[v]
				// only boolean conditions are inlined here (returns are handled below)
				is, ok := list[i+1].(*ast.IfStmt)
				if !ok || is.Init != nil {
					continue
				}
				replaced := false
				switch c := is.Cond.(type) {
				case *ast.Ident:
					if info.Uses[c] == obj {
						is.Cond = as.Rhs[0]
						replaced = true
					}
				case *ast.UnaryExpr:
					if id, ok := c.X.(*ast.Ident); ok && c.Op == token.NOT && info.Uses[id] == obj {
						c.X = &ast.ParenExpr{X: as.Rhs[0]}
						info.Types[c.X] = info.Types[as.Rhs[0]]
						replaced = true
					}
				}
				if replaced {
					list = append(list[:i], list[i+1:]...)
					i--
				}
			}
			return list
		}
		ast.Inspect(f, func(n ast.Node) bool {
			switch x := n.(type) {
			case *ast.BlockStmt:
				x.List = inlineList(x.List)
			case *ast.CaseClause:
				x.Body = inlineList(x.Body)
			}
			return true
		})
		// if v := E; v {  /  if v := E; !v {   ->  if E {  /  if !(E) {    (v used only there, E free of calls)
		ast.Inspect(f, func(n ast.Node) bool {
			is, ok := n.(*ast.IfStmt)
			if !ok || is.Init == nil {
				return true
			}
			as, ok := is.Init.(*ast.AssignStmt)
			if !ok || as.Tok != token.DEFINE || len(as.Lhs) != 1 || len(as.Rhs) != 1 || !pureExpr(as.Rhs[0]) {
				return true
			}
			v, ok := as.Lhs[0].(*ast.Ident)
			if !ok || info.Defs[v] == nil || useCount[info.Defs[v]] != 1 {
				return true
			}
			obj := info.Defs[v]
			switch c := is.Cond.(type) {
			case *ast.Ident:
				if info.Uses[c] == obj {
					is.Cond, is.Init = as.Rhs[0], nil
				}
			case *ast.UnaryExpr:
				if id, ok := c.X.(*ast.Ident); ok && c.Op == token.NOT && info.Uses[id] == obj {
					c.X = &ast.ParenExpr{X: as.Rhs[0]}
					info.Types[c.X] = info.Types[as.Rhs[0]]
					is.Init = nil
				}
			}
			return true
		})
		// the substitutions above may have produced `!(A && B)`: put it into negation normal form too
		guardForm(info, f)
		// v := E; return v  ->  return E   (v used nowhere else)
		uses := map[types.Object]int{}
		ast.Inspect(f, func(n ast.Node) bool {
			if id, ok := n.(*ast.Ident); ok {
				if o := info.Uses[id]; o != nil {
					uses[o]++
				}
			}
			return true
		})
		ast.Inspect(f, func(n ast.Node) bool {
			blk, ok := n.(*ast.BlockStmt)
			if !ok {
				return true
			}
			for i := 0; i+1 < len(blk.List); i++ {
				ret, ok := blk.List[i+1].(*ast.ReturnStmt)
				if !ok || len(ret.Results) != 1 {
					continue
				}
				rid, ok := ret.Results[0].(*ast.Ident)
				if !ok {
					continue
				}
				var def *ast.Ident
				var val ast.Expr
				switch d := blk.List[i].(type) {
				case *ast.AssignStmt:
					if d.Tok == token.DEFINE && len(d.Lhs) == 1 && len(d.Rhs) == 1 {
						def, _ = d.Lhs[0].(*ast.Ident)
						val = d.Rhs[0]
					}
				case *ast.DeclStmt:
					if gd, ok := d.Decl.(*ast.GenDecl); ok && gd.Tok == token.VAR && len(gd.Specs) == 1 {
						if vs := gd.Specs[0].(*ast.ValueSpec); len(vs.Names) == 1 && len(vs.Values) == 1 {
							def, val = vs.Names[0], vs.Values[0]
						}
					}
				}
				if def == nil || val == nil {
					continue
				}
				o := info.Defs[def]
				if o == nil || info.Uses[rid] != o || uses[o] != 1 {
					continue
				}
				ret.Results[0] = val
				blk.List = append(blk.List[:i], blk.List[i+1:]...)
			}
			return true
		})
		// x += 1 -> x++ (a statement is replaced, so this needs a cursor)
		astutil.Apply(f, func(c *astutil.Cursor) bool {
			as, ok := c.Node().(*ast.AssignStmt)
			if !ok || len(as.Lhs) != 1 || len(as.Rhs) != 1 || (as.Tok != token.ADD_ASSIGN && as.Tok != token.SUB_ASSIGN) {
				return true
			}
			if _, isID := ast.Unparen(as.Lhs[0]).(*ast.Ident); !isID {
				return true
			}
			tv, ok := info.Types[as.Rhs[0]]
			if !ok || tv.Value == nil || tv.Value.ExactString() != "1" {
				return true
			}
			if b, isB := info.TypeOf(as.Lhs[0]).Underlying().(*types.Basic); !isB || b.Info()&types.IsInteger == 0 {
				return true
			}
			tok := token.INC
			if as.Tok == token.SUB_ASSIGN {
				tok = token.DEC
			}
			c.Replace(&ast.IncDecStmt{X: as.Lhs[0], TokPos: as.TokPos, Tok: tok})
			return true
		}, nil)
	}
}

// negate returns the negation of the boolean expression e in negation normal
// form: !(A && B) = !A || !B, !(A || B) = !A && !B, !!A = A, !(a == b) = a != b,
// and for integer or string operands !(a < b) = a >= b (not for floats: NaN).
// Operand order, and with it evaluation order and short-circuiting, is kept.
func negate(info *types.Info, e ast.Expr) ast.Expr {
	switch x := e.(type) {
	case *ast.ParenExpr:
		return negate(info, x.X)
	case *ast.UnaryExpr:
		if x.Op == token.NOT {
			return ast.Unparen(x.X)
		}
	case *ast.BinaryExpr:
		switch x.Op {
		case token.LAND, token.LOR:
			x.X, x.Y = negate(info, x.X), negate(info, x.Y)
			if x.Op == token.LAND {
				x.Op = token.LOR
			} else {
				x.Op = token.LAND
			}
			return x
		case token.EQL:
			x.Op = token.NEQ
			return x
		case token.NEQ:
			x.Op = token.EQL
			return x
		case token.LSS, token.LEQ, token.GTR, token.GEQ:
			ordered := func(e ast.Expr) bool {
				tv, ok := info.Types[e]
				if !ok || tv.Type == nil {
					return false
				}
				b, ok := tv.Type.Underlying().(*types.Basic)
				return ok && b.Info()&(types.IsInteger|types.IsString) != 0
			}
			if ordered(x.X) && ordered(x.Y) {
				x.Op = map[token.Token]token.Token{token.LSS: token.GEQ, token.LEQ: token.GTR, token.GTR: token.LEQ, token.GEQ: token.LSS}[x.Op]
				return x
			}
		}
	}
	ne := &ast.UnaryExpr{OpPos: e.Pos(), Op: token.NOT, X: e}
	if _, isBin := e.(*ast.BinaryExpr); isBin {
		ne.X = &ast.ParenExpr{Lparen: e.Pos(), X: e, Rparen: e.End()}
		info.Types[ne.X] = info.Types[e]
	}
	info.Types[ne] = info.Types[e]
	return ne
}

// guardForm rewrites, in every file: `!(...)` over &&, ||, ! and comparisons
// into negation normal form; and a loop body `if C { continue }; rest...`
// (no init, no else, the body only the unlabelled continue, and more
// statements following) into `if !C { rest... }`. Both spellings run the same
// statements in the same order for every input.
func guardForm(info *types.Info, f *ast.File) {
	// negation normal form
	astutil.Apply(f, nil, func(c *astutil.Cursor) bool {
		u, ok := c.Node().(*ast.UnaryExpr)
		if !ok || u.Op != token.NOT {
			return true
		}
		switch inner := ast.Unparen(u.X).(type) {
		case *ast.UnaryExpr:
			if inner.Op == token.NOT {
				c.Replace(negate(info, u.X))
			}
		case *ast.BinaryExpr:
			switch inner.Op {
			case token.LAND, token.LOR, token.EQL, token.NEQ, token.LSS, token.LEQ, token.GTR, token.GEQ:
				n := negate(info, u.X)
				if _, still := n.(*ast.UnaryExpr); !still {
					if be, isBin := n.(*ast.BinaryExpr); isBin {
						if _, inBin := c.Parent().(*ast.BinaryExpr); inBin {
							p := &ast.ParenExpr{Lparen: be.Pos(), X: be, Rparen: be.End()}
							info.Types[p] = info.Types[be]
							c.Replace(p)
							return true
						}
					}
					c.Replace(n)
				}
			}
		}
		return true
	})
	// guard clause with continue
	var fix func(list []ast.Stmt) []ast.Stmt
	fix = func(list []ast.Stmt) []ast.Stmt {
		for i := 0; i+1 < len(list); i++ {
			is, ok := list[i].(*ast.IfStmt)
			if !ok || is.Init != nil || is.Else != nil || len(is.Body.List) != 1 {
				continue
			}
			br, ok := is.Body.List[0].(*ast.BranchStmt)
			if !ok || br.Tok != token.CONTINUE || br.Label != nil {
				continue
			}
			rest := fix(append([]ast.Stmt(nil), list[i+1:]...))
			// declarations in the rest would change scope if something after the loop body used them: nothing can
			is.Cond = negate(info, is.Cond)
			is.Body = &ast.BlockStmt{Lbrace: is.Body.Lbrace, List: rest, Rbrace: is.Body.Rbrace}
			return append(list[:i:i], is)
		}
		return list
	}
	ast.Inspect(f, func(n ast.Node) bool {
		switch x := n.(type) {
		case *ast.ForStmt:
			x.Body.List = fix(x.Body.List)
		case *ast.RangeStmt:
			x.Body.List = fix(x.Body.List)
		}
		return true
	})
}

// switchForm rewrites a tagless switch without init, fallthrough or break into
// the if / else-if chain it abbreviates (conditions are tried top to bottom, the
// default clause last wherever it is written). Conditions and bodies are the
// original nodes, so types.Info stays valid.
func switchForm(f *ast.File) {
	astutil.Apply(f, nil, func(c *astutil.Cursor) bool {
		sw, ok := c.Node().(*ast.SwitchStmt)
		if !ok || sw.Tag != nil || sw.Init != nil || len(sw.Body.List) == 0 {
			return true
		}
		if _, labelled := c.Parent().(*ast.LabeledStmt); labelled {
			return true
		}
		plain := true
		var deflt *ast.CaseClause
		var clauses []*ast.CaseClause
		for _, cc := range sw.Body.List {
			cl := cc.(*ast.CaseClause)
			if cl.List == nil {
				deflt = cl
			} else {
				clauses = append(clauses, cl)
			}
			for _, st := range cl.Body {
				ast.Inspect(st, func(n ast.Node) bool {
					switch y := n.(type) {
					case *ast.BranchStmt:
						if y.Tok == token.FALLTHROUGH || (y.Tok == token.BREAK && y.Label == nil) {
							plain = false
						}
					case *ast.ForStmt, *ast.RangeStmt, *ast.SwitchStmt, *ast.TypeSwitchStmt, *ast.SelectStmt, *ast.FuncLit:
						return false // an unlabelled break in there belongs to that statement
					}
					return plain
				})
			}
		}
		if !plain || len(clauses) == 0 {
			return true
		}
		cond := func(cl *ast.CaseClause) ast.Expr {
			e := cl.List[0]
			for _, o := range cl.List[1:] {
				e = &ast.BinaryExpr{X: e, OpPos: o.Pos(), Op: token.LOR, Y: o}
			}
			return e
		}
		if len(clauses) > 0 {
			for _, cl := range clauses {
				if len(cl.List) > 1 {
					return true // `case A, B:` would need a synthetic || node without type information
				}
			}
		}
		var chain, last *ast.IfStmt
		for _, cl := range clauses {
			is := &ast.IfStmt{If: cl.Case, Cond: cond(cl), Body: &ast.BlockStmt{Lbrace: cl.Colon, List: cl.Body, Rbrace: cl.End()}}
			if chain == nil {
				chain = is
			} else {
				last.Else = is
			}
			last = is
		}
		if deflt != nil {
			last.Else = &ast.BlockStmt{Lbrace: deflt.Colon, List: deflt.Body, Rbrace: deflt.End()}
		}
		c.Replace(chain)
		return true
	})
}

package core

import (
	"bytes"
	"fmt"
	"go/ast"
	"go/constant"
	"go/printer"
	"go/token"
	"go/types"
	"os"
	"reflect"
	"sort"
	"strings"

	"golang.org/x/tools/go/packages"
)

// Helper inlining. Rules that recognise an idiom inside an anchor function are
// blind to code that a maintainer moved into a freshly extracted helper
// ("extract function" is the most common refactoring there is). Instead of
// teaching every rule to follow calls, the loader rewrites the SOURCE before
// the rules see it: a call of an unexported package-level function that is not
// in the table of reviewed helpers (the unexported functions that existed when
// the rules were written, and that rules may name as anchors) is replaced by
// the function's body, with its parameters bound to the arguments. The
// rewritten files are handed to go/packages as an overlay and type-checked
// again, so every later stage works on an ordinary, consistent program.
//
// The transformation is applied only where it is obviously meaning-preserving:
//
//   - the callee is a plain function of the same package (no method, not
//     variadic, no named results, not recursive) whose body has no return
//     other than its last statement and no defer/go/label/function literal;
//   - the call is a whole statement: `xs = f(args)`, `xs := f(args)`,
//     `return f(args)`, or `f(args)` alone;
//   - a parameter is replaced by its argument only when the argument is a
//     local variable of the caller with exactly the parameter's type that is
//     never address-taken nor captured, and either the callee never assigns
//     the parameter or the call has the in-out shape `x, y = f(x, y)` with
//     `return x, y` (which turns back into plain updates of x and y);
//     every other parameter is bound once, in order, to a fresh typed local
//     (`var p_inlN T = arg`), exactly as a call binds it;
//   - variables defined by `:=` from the call are declared with the callee's
//     result types before the body; all locals of the callee get fresh names;
//   - no package-level name the body uses is shadowed in the caller.
//
// Only the text of the functions that contain such a call changes: the
// overlay is the original file with those declarations replaced by their
// printed form, followed by a `//line` directive, so positions everywhere else
// stay exact. If anything does not fit the call is left alone; if a rewritten
// package does not type-check the loader drops the overlay. Inlining can never
// make a check fail; it can only let a rule see more.

// reviewedHelpers: "pkgpath.name" of the unexported package-level functions the
// rules were written against. They stay calls.
var reviewedHelpers = map[string]bool{}

const (
	reviewedGts   = "allLocator asComplete bytesIndexAll lowerBytes checkStrand filterLocator flattenLocations flattenRegion insert invertSegments locationDelimiter locationLocator mapHeadHead mapHeadTail mapTailTail multipleLocationParser parseAmbiguous parseBetween parseComplement parseJoin parseOrder parseRange qualifierFilter rangeCompare rangeOverlap rangeWithin relativeLocator replaceBytes resizeLocator selectorFilter shiftSelector toQualifier tryExpand tryLocation tryShift trySlice"
	reviewedSeqio = "checkDate detectWriter dig expectNoMoreResidues featureKeylineParser fromOriginLength genbankAccessionParser genbankCommentParser genbankContigParser genbankDBLinkPairParser genbankDBLinkParser genbankDefinitionParser genbankExtraFieldParser genbankFeatureParser genbankFieldBodyParser genbankFieldFormatter genbankFieldLineParser genbankFieldNameParser genbankGenericFieldParser genbankGenericSubfieldParser genbankKeywordsParser genbankReferenceParser genbankReferenceSubfieldParser genbankSourceParser genbankSubfieldNameParser genbankVersionParser isLeapYear literalQualifierParser literalQualifierValueParser makeGenbankOriginParser parseReferenceInfo qualifierNameParser quotedQualifierParser searchString slowGenBankOriginParser toOriginLength tryAllParsers validateOrigin"
	reviewedCache = "makeSum"
	reviewedMain  = "annotateFunc asPicker attach seekable cacheListFunc cachePathFunc cachePurgeFunc clearFunc complementFunc containsRegion defineFunc deleteFunc encodePayload encodeToString extractFunc formatCSV gtsCacheDir infixFunc insertFunc joinFunc lengthFunc mustAtoi newHash newIODelegate pickAfter pickAll pickAny pickBefore pickBetween pickFunc pickOne queryFunc repairFunc reverseFunc rotateFunc searchFunc selectFunc sortFunc splitFunc summaryFunc"
)

func init() {
	for pkg, names := range map[string]string{PkgGts: reviewedGts, PkgSeqio: reviewedSeqio, PkgMain: reviewedMain, PkgCache: reviewedCache} {
		for _, n := range strings.Fields(names) {
			reviewedHelpers[pkg+"."+n] = true
		}
	}
}

type inliner struct {
	pk       *packages.Package
	info     *types.Info
	fresh    int
	count    int
	escaping map[types.Object]bool                // locals of the declaration being rewritten that are address-taken or captured
	declared map[string]bool                      // names declared inside the declaration being rewritten
	retSig   map[*ast.ReturnStmt]*types.Signature // the function each return statement of the declaration leaves
}

// InlineOverlay computes rewritten sources (absolute file name -> content) for
// the repository packages. read returns the current text of a file (the
// self-test overlay, or the file on disk).
func InlineOverlay(pkgs map[string]*packages.Package, fset *token.FileSet, read func(string) ([]byte, error)) (map[string][]byte, int) {
	out := map[string][]byte{}
	total := 0
	for _, path := range []string{PkgGts, PkgSeqio, PkgCache, PkgMain} {
		pk := pkgs[path]
		if pk == nil || pk.TypesInfo == nil || len(pk.Syntax) != len(pk.CompiledGoFiles) {
			continue
		}
		in := &inliner{pk: pk, info: pk.TypesInfo}
		for i, f := range pk.Syntax {
			var touched []ast.Decl
			for _, d := range f.Decls {
				before := in.count
				in.decl(d)
				if in.count != before {
					touched = append(touched, d)
				}
			}
			if len(touched) == 0 {
				continue
			}
			name := pk.CompiledGoFiles[i]
			src, err := read(name)
			if err != nil {
				continue
			}
			// splice from the end so that earlier offsets stay valid
			sort.Slice(touched, func(a, b int) bool { return touched[a].Pos() > touched[b].Pos() })
			ok := true
			for _, d := range touched {
				start, end := fset.Position(d.Pos()), fset.Position(d.End())
				if start.Filename != name || start.Offset < 0 || end.Offset > len(src) || start.Offset > end.Offset {
					ok = false
					break
				}
				switch x := d.(type) {
				case *ast.FuncDecl:
					x.Doc = nil
				case *ast.GenDecl:
					x.Doc = nil
				}
				var buf bytes.Buffer
				cfg := printer.Config{Mode: printer.UseSpaces | printer.TabIndent, Tabwidth: 8}
				if err := cfg.Fprint(&buf, fset, d); err != nil {
					ok = false
					break
				}
				rep := append(buf.Bytes(), []byte(fmt.Sprintf("\n//line %s:%d:1", name, end.Line+1))...)
				// the directive line must be followed by the rest of the original line end: the text after
				// d.End() starts with the newline that ended the declaration's last line
				src = append(append(append([]byte(nil), src[:start.Offset]...), rep...), src[end.Offset:]...)
			}
			if ok {
				out[name] = src
				if dir := os.Getenv("GTSVERIF_DUMP_INLINE"); dir != "" {
					os.WriteFile(dir+"/"+strings.ReplaceAll(strings.TrimPrefix(name, "/"), "/", "_"), src, 0o644)
				}
			}
		}
		total += in.count
	}
	return out, total
}

// decl rewrites the call statements inside one top-level declaration.
func (in *inliner) decl(d ast.Decl) {
	in.escaping = map[types.Object]bool{}
	in.declared = map[string]bool{}
	captured := map[types.Object]bool{}
	writes := map[types.Object]int{} // assignments other than the definition
	ast.Inspect(d, func(n ast.Node) bool {
		switch x := n.(type) {
		case *ast.Ident:
			if o := in.info.Defs[x]; o != nil && !(o.Pkg() != nil && o.Parent() == o.Pkg().Scope()) {
				in.declared[x.Name] = true // (the declaration's own package-level name shadows nothing)
			}
		case *ast.UnaryExpr:
			if x.Op == token.AND {
				if id, ok := ast.Unparen(x.X).(*ast.Ident); ok {
					if o := in.info.Uses[id]; o != nil {
						in.escaping[o] = true
					}
				}
			}
		case *ast.FuncLit:
			// everything a literal mentions may be read or written whenever the literal runs
			ast.Inspect(x.Body, func(m ast.Node) bool {
				if id, ok := m.(*ast.Ident); ok {
					if o := in.info.Uses[id]; o != nil {
						captured[o] = true
					}
				}
				return true
			})
		case *ast.AssignStmt:
			for _, l := range x.Lhs {
				if id, ok := ast.Unparen(l).(*ast.Ident); ok {
					if o := in.info.Uses[id]; o != nil {
						writes[o]++
					}
				}
			}
		case *ast.IncDecStmt:
			if id, ok := ast.Unparen(x.X).(*ast.Ident); ok {
				if o := in.info.Uses[id]; o != nil {
					writes[o]++
				}
			}
		case *ast.RangeStmt:
			if x.Tok == token.ASSIGN {
				for _, e := range []ast.Expr{x.Key, x.Value} {
					if id, ok := e.(*ast.Ident); ok && e != nil {
						if o := in.info.Uses[id]; o != nil {
							writes[o]++
						}
					}
				}
			}
		}
		return true
	})
	// ... unless nothing ever writes the variable after its definition: then it has one value for good
	for o := range captured {
		if writes[o] > 0 {
			in.escaping[o] = true
		}
	}
	in.retSig = map[*ast.ReturnStmt]*types.Signature{}
	var walk func(n ast.Node, sig *types.Signature)
	walk = func(n ast.Node, sig *types.Signature) {
		ast.Inspect(n, func(m ast.Node) bool {
			switch x := m.(type) {
			case *ast.FuncLit:
				if m == n {
					return true
				}
				ls, _ := in.info.TypeOf(x).(*types.Signature)
				walk(x.Body, ls)
				return false
			case *ast.ReturnStmt:
				in.retSig[x] = sig
			}
			return true
		})
	}
	if fd, ok := d.(*ast.FuncDecl); ok && fd.Body != nil {
		if fn, ok := in.info.Defs[fd.Name].(*types.Func); ok {
			walk(fd.Body, fn.Type().(*types.Signature))
		}
	} else {
		walk(d, nil)
	}
	var fix func(list []ast.Stmt) []ast.Stmt
	fix = func(list []ast.Stmt) []ast.Stmt {
		var out []ast.Stmt
		for _, st := range list {
			if rep := in.stmt(st); rep != nil {
				out = append(out, rep...)
				continue
			}
			out = append(out, st)
		}
		return out
	}
	ast.Inspect(d, func(n ast.Node) bool {
		switch x := n.(type) {
		case *ast.BlockStmt:
			x.List = fix(x.List)
		case *ast.CaseClause:
			x.Body = fix(x.Body)
		case *ast.CommClause:
			x.Body = fix(x.Body)
		}
		return true
	})
}

// helperOf returns the declaration to inline for call, or nil.
func (in *inliner) helperOf(call *ast.CallExpr, early bool) (*ast.FuncDecl, *types.Signature) {
	var id *ast.Ident
	var recvArg ast.Expr
	switch f := ast.Unparen(call.Fun).(type) {
	case *ast.Ident:
		id = f
	case *ast.SelectorExpr:
		if sel := in.info.Selections[f]; sel != nil && sel.Kind() == types.MethodVal {
			id, recvArg = f.Sel, f.X
		}
	}
	if id == nil {
		return nil, nil
	}
	fn, ok := in.info.Uses[id].(*types.Func)
	if !ok || fn.Pkg() == nil || fn.Pkg() != in.pk.Types || fn.Exported() {
		return nil, nil
	}
	sig := fn.Type().(*types.Signature)
	if (sig.Recv() != nil) != (recvArg != nil) || sig.Variadic() || call.Ellipsis != token.NoPos {
		return nil, nil
	}
	if sig.Recv() == nil {
		if reviewedHelpers[fn.Pkg().Path()+"."+fn.Name()] || fn.Name() == "init" || fn.Name() == "main" {
			return nil, nil
		}
	} else {
		// a method: of a named type of this package (no interface method, no embedding promotion), not
		// recorded in the baseline, and called on an operand of exactly the receiver's type
		if types.IsInterface(sig.Recv().Type()) || len(in.info.Selections[ast.Unparen(call.Fun).(*ast.SelectorExpr)].Index()) != 1 {
			return nil, nil
		}
		if tv, ok := in.info.Types[recvArg]; !ok || !types.Identical(tv.Type, sig.Recv().Type()) {
			return nil, nil
		}
	}
	var fd *ast.FuncDecl
	for _, f := range in.pk.Syntax {
		for _, d := range f.Decls {
			if x, ok := d.(*ast.FuncDecl); ok && in.info.Defs[x.Name] == fn {
				fd = x
			}
		}
	}
	if fd == nil || fd.Body == nil || fd.Type.TypeParams != nil {
		return nil, nil
	}
	if sig.Recv() != nil {
		if _, recorded := baselineSigs[fn.Pkg().Path()+" "+funcKey(fd)]; recorded {
			return nil, nil
		}
		if fd.Recv == nil || len(fd.Recv.List) != 1 || len(fd.Recv.List[0].Names) != 1 || fd.Recv.List[0].Names[0].Name == "_" {
			return nil, nil
		}
	}
	if fd.Type.Results != nil {
		for _, r := range fd.Type.Results.List {
			if len(r.Names) > 0 {
				return nil, nil
			}
		}
	}
	for _, p := range fd.Type.Params.List {
		if len(p.Names) == 0 {
			return nil, nil
		}
		for _, n := range p.Names {
			if n.Name == "_" {
				return nil, nil
			}
		}
	}
	body := fd.Body.List
	good := true
	for i, st := range body {
		last := i == len(body)-1
		ast.Inspect(st, func(n ast.Node) bool {
			switch x := n.(type) {
			case *ast.ReturnStmt:
				if !(last && ast.Stmt(x) == st) && !early {
					good = false
				}
				if len(x.Results) != sig.Results().Len() {
					good = false // `return f()` spreading a tuple
				}
			case *ast.DeferStmt, *ast.GoStmt, *ast.LabeledStmt, *ast.FuncLit, *ast.SelectStmt:
				good = false
			case *ast.BranchStmt:
				if x.Label != nil || x.Tok == token.GOTO {
					good = false
				}
			case *ast.CallExpr:
				if cid, isID := ast.Unparen(x.Fun).(*ast.Ident); isID && in.info.Uses[cid] == fn {
					good = false // recursive
				}
				if se, isSel := ast.Unparen(x.Fun).(*ast.SelectorExpr); isSel && in.info.Uses[se.Sel] == fn {
					good = false // recursive
				}
			case *ast.Ident:
				// a package-level or universe name the body uses must not be shadowed in the caller
				if o := in.info.Uses[x]; o != nil && o.Parent() != nil && (o.Parent() == types.Universe || (o.Pkg() != nil && o.Parent() == o.Pkg().Scope())) {
					if in.declared[x.Name] {
						good = false
					}
				}
			}
			return good
		})
	}
	if !good {
		return nil, nil
	}
	if n := sig.Results().Len(); n > 0 && !early {
		if len(body) == 0 {
			return nil, nil
		}
		rs, isRet := body[len(body)-1].(*ast.ReturnStmt)
		if !isRet || len(rs.Results) != n {
			return nil, nil
		}
	}
	return fd, sig
}

func (in *inliner) simpleArg(e ast.Expr, want types.Type) types.Object {
	id, ok := ast.Unparen(e).(*ast.Ident)
	if !ok {
		return nil
	}
	v, ok := in.info.Uses[id].(*types.Var)
	if !ok || v.IsField() || v.Pkg() == nil || v.Parent() == v.Pkg().Scope() {
		return nil
	}
	if want != nil && !types.Identical(v.Type(), want) {
		return nil
	}
	if in.escaping[v] {
		return nil
	}
	return v
}

func mentionsObj(info *types.Info, e ast.Node, o types.Object) bool {
	found := false
	ast.Inspect(e, func(n ast.Node) bool {
		if id, ok := n.(*ast.Ident); ok && (info.Uses[id] == o || info.Defs[id] == o) {
			found = true
		}
		return !found
	})
	return found
}

// stmt returns the replacement of st when st is an inlinable call statement.
func (in *inliner) stmt(st ast.Stmt) []ast.Stmt {
	if out := in.earlyStmt(st); out != nil {
		return out
	}
	var call *ast.CallExpr
	var lhs []ast.Expr
	tok := token.ILLEGAL
	isReturn := false
	switch x := st.(type) {
	case *ast.ExprStmt:
		call, _ = x.X.(*ast.CallExpr)
	case *ast.ReturnStmt:
		if len(x.Results) == 1 {
			call, _ = x.Results[0].(*ast.CallExpr)
			isReturn = true
		}
	case *ast.AssignStmt:
		if len(x.Rhs) == 1 && (x.Tok == token.ASSIGN || x.Tok == token.DEFINE) {
			call, _ = x.Rhs[0].(*ast.CallExpr)
			lhs, tok = x.Lhs, x.Tok
		}
	}
	if call == nil {
		return nil
	}
	fd, sig := in.helperOf(call, false)
	if fd == nil {
		return nil
	}
	params, ptypes, ptyps, args := in.formals(fd, sig, call)
	if len(params) != len(args) {
		return nil
	}
	var rtypes []ast.Expr
	if fd.Type.Results != nil {
		for _, r := range fd.Type.Results.List {
			rtypes = append(rtypes, r.Type)
		}
	}
	body := fd.Body.List
	var results []ast.Expr
	if n := len(body); n > 0 {
		if rs, ok := body[n-1].(*ast.ReturnStmt); ok {
			results = rs.Results
			body = body[:n-1]
		}
	}
	if (lhs != nil && len(lhs) != len(results)) || (isReturn && len(results) == 0) {
		return nil
	}
	if lhs != nil {
		for _, l := range lhs {
			if _, ok := ast.Unparen(l).(*ast.Ident); !ok {
				// a field or element on the left is evaluated before the call: keep the call
				return nil
			}
		}
	}
	// which parameters does the body assign (or take the address of)?
	assigned := map[types.Object]bool{}
	for _, s := range body {
		ast.Inspect(s, func(n ast.Node) bool {
			mark := func(e ast.Expr) {
				if e == nil {
					return
				}
				if id, ok := ast.Unparen(e).(*ast.Ident); ok {
					if o := in.info.Uses[id]; o != nil {
						assigned[o] = true
					}
				}
			}
			switch x := n.(type) {
			case *ast.AssignStmt:
				for _, l := range x.Lhs {
					mark(l)
				}
			case *ast.IncDecStmt:
				mark(x.X)
			case *ast.UnaryExpr:
				if x.Op == token.AND {
					mark(x.X)
				}
			case *ast.RangeStmt:
				if x.Tok == token.ASSIGN {
					mark(x.Key)
					mark(x.Value)
				}
			}
			return true
		})
	}
	subst := map[types.Object]ast.Expr{}
	rename := map[types.Object]string{}
	outvar := map[int]types.Object{} // result position -> parameter that became the variable defined there
	var pre []ast.Stmt
	// in-out parameters: `x, y = f(x, y)` with `return x, y`
	inout := map[int]types.Object{}
	if lhs != nil && tok == token.ASSIGN {
		for i, p := range params {
			po := in.info.Defs[p]
			ao := in.simpleArg(args[i], ptyps[i])
			if ao == nil {
				continue
			}
			for k, r := range results {
				rid, isID := ast.Unparen(r).(*ast.Ident)
				lid, isL := ast.Unparen(lhs[k]).(*ast.Ident)
				if !isID || !isL || in.info.Uses[rid] != po || in.info.Uses[lid] != ao {
					continue
				}
				clean := true
				for j, a := range args {
					if j != i && mentionsObj(in.info, a, ao) {
						clean = false
					}
				}
				for k2, r2 := range results {
					if k2 != k && mentionsObj(in.info, r2, po) {
						clean = false
					}
				}
				for k2, l2 := range lhs {
					if k2 != k && mentionsObj(in.info, l2, ao) {
						clean = false
					}
				}
				if clean {
					inout[i] = ao
				}
			}
		}
	}
	for i, p := range params {
		po := in.info.Defs[p]
		arg := args[i]
		if ao, ok := inout[i]; ok && ao != nil {
			subst[po] = ast.Unparen(arg)
			continue
		}
		if ao := in.simpleArg(arg, ptyps[i]); ao != nil && !assigned[po] {
			clash := false
			for _, io := range inout {
				if io == ao {
					clash = true // the body updates that variable through the in-out parameter
				}
			}
			// a variable the statement itself assigns must not be read late either
			for _, l := range lhs {
				if mentionsObj(in.info, l, ao) {
					clash = true
				}
			}
			if !clash {
				subst[po] = ast.Unparen(arg)
				continue
			}
		}
		sameType := false
		if tv, ok := in.info.Types[arg]; ok && tv.Type != nil && tv.Value == nil && types.Identical(tv.Type, ptyps[i]) {
			sameType = true
		}
		// out-parameter of a `:=` call: `a, b := f(x.A, x.B)` with `return a', b'` where a' is the
		// parameter bound to x.A: the parameter becomes the variable the statement defines
		if tok == token.DEFINE && sameType {
			bound := false
			for k, r := range results {
				rid, isID := ast.Unparen(r).(*ast.Ident)
				lid, _ := ast.Unparen(lhs[k]).(*ast.Ident)
				if !isID || lid == nil || lid.Name == "_" || in.info.Uses[rid] != po || in.info.Defs[lid] == nil {
					continue
				}
				clean := true
				for k2, r2 := range results {
					if k2 != k && mentionsObj(in.info, r2, po) {
						clean = false
					}
				}
				for _, a := range args {
					ast.Inspect(a, func(n ast.Node) bool {
						if id, ok := n.(*ast.Ident); ok && id.Name == lid.Name {
							clean = false
						}
						return clean
					})
				}
				if clean && outvar[k] == nil {
					outvar[k] = po
					rename[po] = lid.Name
					pre = append(pre, &ast.AssignStmt{Lhs: []ast.Expr{ast.NewIdent(lid.Name)}, Tok: token.DEFINE, Rhs: []ast.Expr{arg}})
					bound = true
					break
				}
			}
			if bound {
				continue
			}
		}
		in.fresh++
		name := fmt.Sprintf("%s_inl%d", p.Name, in.fresh)
		rename[po] = name
		if sameType {
			pre = append(pre, &ast.AssignStmt{Lhs: []ast.Expr{ast.NewIdent(name)}, Tok: token.DEFINE, Rhs: []ast.Expr{arg}})
		} else {
			pre = append(pre, &ast.DeclStmt{Decl: &ast.GenDecl{Tok: token.VAR, Specs: []ast.Spec{&ast.ValueSpec{
				Names: []*ast.Ident{ast.NewIdent(name)}, Type: (&cloner{in: in}).node(ptypes[i]).(ast.Expr), Values: []ast.Expr{arg}}}}})
		}
	}
	// a result that is a local of the callee defined at the top level of its body becomes the very
	// variable the `:=` statement defines (`xs := f()` with `xs' := ...; sort(xs'); return xs'`): what the
	// body does to it is then done to the caller's variable by name, not to an alias of it
	if tok == token.DEFINE {
		for k, r := range results {
			rid, isID := ast.Unparen(r).(*ast.Ident)
			lid, _ := ast.Unparen(lhs[k]).(*ast.Ident)
			if !isID || lid == nil || lid.Name == "_" || in.info.Defs[lid] == nil || outvar[k] != nil {
				continue
			}
			lo, isVar := in.info.Uses[rid].(*types.Var)
			if !isVar || k >= sig.Results().Len() || !types.Identical(lo.Type(), sig.Results().At(k).Type()) {
				continue
			}
			if _, taken := rename[lo]; taken || subst[lo] != nil {
				continue
			}
			// defined by a top-level statement of the body
			topLevel := false
			for _, st := range body {
				switch d := st.(type) {
				case *ast.AssignStmt:
					if d.Tok == token.DEFINE {
						for _, l := range d.Lhs {
							if id, ok := l.(*ast.Ident); ok && in.info.Defs[id] == types.Object(lo) {
								topLevel = true
							}
						}
					}
				case *ast.DeclStmt:
					if gd, ok := d.Decl.(*ast.GenDecl); ok {
						for _, sp := range gd.Specs {
							if vs, ok := sp.(*ast.ValueSpec); ok {
								for _, id := range vs.Names {
									if in.info.Defs[id] == types.Object(lo) {
										topLevel = true
									}
								}
							}
						}
					}
				}
			}
			// the caller's name must not be in use inside the body or its arguments
			clash := false
			for _, st := range body {
				ast.Inspect(st, func(n ast.Node) bool {
					if id, ok := n.(*ast.Ident); ok && id.Name == lid.Name && in.info.Uses[id] != types.Object(lo) && in.info.Defs[id] != types.Object(lo) {
						clash = true
					}
					return !clash
				})
			}
			for _, a := range args {
				ast.Inspect(a, func(n ast.Node) bool {
					if id, ok := n.(*ast.Ident); ok && id.Name == lid.Name {
						clash = true
					}
					return !clash
				})
			}
			used := false
			for k2, r2 := range results {
				if k2 != k && mentionsObj(in.info, r2, lo) {
					used = true
				}
			}
			if topLevel && !clash && !used {
				rename[lo] = lid.Name
				outvar[k] = lo
			}
		}
	}
	// locals declared in the body get fresh names
	for _, s := range body {
		ast.Inspect(s, func(n ast.Node) bool {
			if id, ok := n.(*ast.Ident); ok && id.Name != "_" {
				if o := in.info.Defs[id]; o != nil {
					if _, isVar := o.(*types.Var); isVar {
						if _, done := rename[o]; !done {
							in.fresh++
							rename[o] = fmt.Sprintf("%s_inl%d", id.Name, in.fresh)
						}
					}
				}
			}
			return true
		})
	}
	cl := &cloner{in: in, subst: subst, rename: rename}
	var out []ast.Stmt
	// variables the statement defines: when every result expression has exactly the declared result
	// type, `lhs := results` after the body means the same; otherwise they are declared first, with
	// the callee's result types
	exact := tok == token.DEFINE
	for k, r := range results {
		if tv, ok := in.info.Types[r]; !ok || tv.Type == nil || k >= sig.Results().Len() || !types.Identical(tv.Type, sig.Results().At(k).Type()) {
			exact = false
		}
	}
	if tok == token.DEFINE && !exact {
		for k, l := range lhs {
			lid := ast.Unparen(l).(*ast.Ident)
			if lid.Name == "_" || in.info.Defs[lid] == nil || outvar[k] != nil {
				continue // blank, an existing variable re-assigned by :=, or defined by its out-parameter
			}
			var rt ast.Expr
			if len(rtypes) == len(lhs) {
				rt = rtypes[k]
			} else if len(rtypes) == 1 {
				rt = rtypes[0] // `a, b T`-style result lists are expanded below
			}
			if fd.Type.Results != nil && len(fd.Type.Results.List) != len(lhs) {
				// grouped result types: expand
				var flat []ast.Expr
				for _, r := range fd.Type.Results.List {
					n := len(r.Names)
					if n == 0 {
						n = 1
					}
					for j := 0; j < n; j++ {
						flat = append(flat, r.Type)
					}
				}
				if len(flat) == len(lhs) {
					rt = flat[k]
				}
			}
			if rt == nil {
				return nil
			}
			out = append(out, &ast.DeclStmt{Decl: &ast.GenDecl{Tok: token.VAR, Specs: []ast.Spec{&ast.ValueSpec{
				Names: []*ast.Ident{ast.NewIdent(lid.Name)}, Type: (&cloner{in: in}).node(rt).(ast.Expr)}}}})
		}
	}
	out = append(out, pre...)
	for _, s := range body {
		out = append(out, cl.node(s).(ast.Stmt))
	}
	var rs []ast.Expr
	for _, r := range results {
		rs = append(rs, cl.node(r).(ast.Expr))
	}
	switch {
	case isReturn:
		out = append(out, &ast.ReturnStmt{Results: rs})
	case lhs != nil:
		var l2, r2 []ast.Expr
		for k := range lhs {
			skip := false
			for i, io := range inout {
				_ = i
				if lid := ast.Unparen(lhs[k]).(*ast.Ident); in.info.Uses[lid] == io {
					if rid, ok := ast.Unparen(results[k]).(*ast.Ident); ok {
						if po := in.info.Uses[rid]; po != nil && subst[po] != nil {
							skip = true // handed back into the variable it was substituted by
						}
					}
				}
			}
			if skip || outvar[k] != nil {
				continue
			}
			l2 = append(l2, (&cloner{in: in}).node(lhs[k]).(ast.Expr))
			r2 = append(r2, rs[k])
		}
		if len(l2) > 0 {
			t := token.ASSIGN
			if exact {
				// `:=` needs a new variable on the left; the new ones may all have been bound already
				for k := range lhs {
					if lid, ok := ast.Unparen(lhs[k]).(*ast.Ident); ok && outvar[k] == nil && lid.Name != "_" && in.info.Defs[lid] != nil {
						t = token.DEFINE
					}
				}
			}
			out = append(out, &ast.AssignStmt{Lhs: l2, Tok: t, Rhs: r2})
		}
	default:
		for _, r := range rs {
			hasCall := false
			ast.Inspect(r, func(n ast.Node) bool {
				if _, ok := n.(*ast.CallExpr); ok {
					hasCall = true
				}
				return !hasCall
			})
			if hasCall {
				out = append(out, &ast.AssignStmt{Lhs: []ast.Expr{ast.NewIdent("_")}, Tok: token.ASSIGN, Rhs: []ast.Expr{r}})
			}
		}
	}
	if len(out) == 0 {
		out = []ast.Stmt{&ast.EmptyStmt{}}
	}
	in.count++
	return out
}

// formals lists the callee's formal parameters (the receiver first, for a method)
// with their type expressions and types, and the matching actual arguments.
func (in *inliner) formals(fd *ast.FuncDecl, sig *types.Signature, call *ast.CallExpr) (params []*ast.Ident, ptypes []ast.Expr, ptyps []types.Type, args []ast.Expr) {
	if sig.Recv() != nil {
		params = append(params, fd.Recv.List[0].Names[0])
		ptypes = append(ptypes, fd.Recv.List[0].Type)
		ptyps = append(ptyps, sig.Recv().Type())
		args = append(args, ast.Unparen(call.Fun).(*ast.SelectorExpr).X)
	}
	k := 0
	for _, p := range fd.Type.Params.List {
		for _, n := range p.Names {
			params = append(params, n)
			ptypes = append(ptypes, p.Type)
			ptyps = append(ptyps, sig.Params().At(k).Type())
			k++
		}
	}
	args = append(args, call.Args...)
	return
}

// hasEarlyReturn reports whether the body returns anywhere but in its last statement.
func hasEarlyReturn(fd *ast.FuncDecl) bool {
	early := false
	for i, st := range fd.Body.List {
		last := i == len(fd.Body.List)-1
		ast.Inspect(st, func(n ast.Node) bool {
			if r, ok := n.(*ast.ReturnStmt); ok && !(last && ast.Stmt(r) == st) {
				early = true
			}
			return !early
		})
	}
	return early
}

// bindSimple binds the callee's parameters for the early-return forms: a
// parameter the body never assigns, whose argument is a plain local of the same
// type, is replaced by it; every other parameter is bound once, in order, to a
// fresh local. All locals of the body get fresh names.
func (in *inliner) bindSimple(fd *ast.FuncDecl, sig *types.Signature, call *ast.CallExpr) (subst map[types.Object]ast.Expr, rename map[types.Object]string, pre []ast.Stmt, ok bool) {
	params, ptypes, ptyps, args := in.formals(fd, sig, call)
	if len(params) != len(args) {
		return nil, nil, nil, false
	}
	assigned := map[types.Object]bool{}
	ast.Inspect(fd.Body, func(n ast.Node) bool {
		mark := func(e ast.Expr) {
			if e == nil {
				return
			}
			if id, ok := ast.Unparen(e).(*ast.Ident); ok {
				if o := in.info.Uses[id]; o != nil {
					assigned[o] = true
				}
			}
		}
		switch x := n.(type) {
		case *ast.AssignStmt:
			for _, l := range x.Lhs {
				mark(l)
			}
		case *ast.IncDecStmt:
			mark(x.X)
		case *ast.UnaryExpr:
			if x.Op == token.AND {
				mark(x.X)
			}
		case *ast.RangeStmt:
			if x.Tok == token.ASSIGN {
				mark(x.Key)
				mark(x.Value)
			}
		}
		return true
	})
	subst, rename = map[types.Object]ast.Expr{}, map[types.Object]string{}
	for i, p := range params {
		po := in.info.Defs[p]
		if ao := in.simpleArg(args[i], ptyps[i]); ao != nil && !assigned[po] {
			// the caller's variable must not be assigned while the body runs: it is not, the body is
			// the callee's code and cannot name a caller's local
			subst[po] = ast.Unparen(args[i])
			continue
		}
		in.fresh++
		name := fmt.Sprintf("%s_inl%d", p.Name, in.fresh)
		rename[po] = name
		if tv, has := in.info.Types[args[i]]; has && tv.Type != nil && tv.Value == nil && types.Identical(tv.Type, ptyps[i]) {
			pre = append(pre, &ast.AssignStmt{Lhs: []ast.Expr{ast.NewIdent(name)}, Tok: token.DEFINE, Rhs: []ast.Expr{args[i]}})
		} else {
			pre = append(pre, &ast.DeclStmt{Decl: &ast.GenDecl{Tok: token.VAR, Specs: []ast.Spec{&ast.ValueSpec{
				Names: []*ast.Ident{ast.NewIdent(name)}, Type: (&cloner{in: in}).node(ptypes[i]).(ast.Expr), Values: []ast.Expr{args[i]}}}}})
		}
		// a bound parameter the body never reads would not compile
		used := false
		ast.Inspect(fd.Body, func(n ast.Node) bool {
			if id, ok := n.(*ast.Ident); ok && in.info.Uses[id] == po {
				used = true
			}
			return !used
		})
		if !used {
			pre = append(pre, &ast.AssignStmt{Lhs: []ast.Expr{ast.NewIdent("_")}, Tok: token.ASSIGN, Rhs: []ast.Expr{ast.NewIdent(name)}})
		}
	}
	ast.Inspect(fd.Body, func(n ast.Node) bool {
		if id, ok := n.(*ast.Ident); ok && id.Name != "_" {
			if o := in.info.Defs[id]; o != nil {
				if _, isVar := o.(*types.Var); isVar {
					if _, done := rename[o]; !done {
						in.fresh++
						rename[o] = fmt.Sprintf("%s_inl%d", id.Name, in.fresh)
					}
				}
			}
		}
		return true
	})
	return subst, rename, pre, true
}

// earlyStmt inlines a helper whose body returns early, in the two call shapes
// where every `return` of the helper has an exact counterpart in the caller:
//
//	return h(args)                       the helper's returns become the caller's
//	                                     (result types identical one by one);
//	if [xs := ] h(args)[; COND] { S }    (no else, S ends in a return): a return of
//	                                     the helper under which COND is statically
//	                                     true becomes S with xs bound to the returned
//	                                     values; one under which COND is statically
//	                                     false must be the helper's last statement
//	                                     and falls through to the statement after the
//	                                     `if`. If COND cannot be evaluated for some
//	                                     return, nothing is inlined.
//
// COND is evaluated over: the constants true/false/nil, `x == nil`, `x != nil`,
// !, &&, ||, where a returned value is known non-nil if it is a call of
// errors.New, fmt.Errorf or pars.NewError, or a variable returned inside an
// `if v != nil { ... }` of the helper.
func (in *inliner) earlyStmt(st ast.Stmt) []ast.Stmt {
	switch x := st.(type) {
	case *ast.ReturnStmt:
		if len(x.Results) != 1 {
			return nil
		}
		call, ok := x.Results[0].(*ast.CallExpr)
		if !ok {
			return nil
		}
		fd, sig := in.helperOf(call, true)
		if fd == nil || !hasEarlyReturn(fd) {
			return nil
		}
		outer := in.retSig[x]
		if outer == nil || outer.Results().Len() != sig.Results().Len() || sig.Results().Len() == 0 {
			return nil
		}
		for k := 0; k < sig.Results().Len(); k++ {
			if !types.Identical(outer.Results().At(k).Type(), sig.Results().At(k).Type()) {
				return nil
			}
		}
		for k := 0; k < outer.Results().Len(); k++ {
			if outer.Results().At(k).Name() != "" {
				return nil // named results of the caller: a return assigns them first
			}
		}
		if !terminates(fd.Body.List) {
			return nil
		}
		subst, rename, pre, ok := in.bindSimple(fd, sig, call)
		if !ok {
			return nil
		}
		cl := &cloner{in: in, subst: subst, rename: rename}
		out := pre
		for _, s := range fd.Body.List {
			out = append(out, cl.node(s).(ast.Stmt))
		}
		in.count++
		return out
	case *ast.IfStmt:
		return in.earlyIf(x)
	}
	return nil
}

// terminates: the list ends in a return or a panic call.
func terminates(list []ast.Stmt) bool {
	if len(list) == 0 {
		return false
	}
	hasBreak := func(n ast.Node) bool {
		found := false
		ast.Inspect(n, func(m ast.Node) bool {
			switch y := m.(type) {
			case *ast.BranchStmt:
				if y.Tok == token.BREAK || y.Tok == token.GOTO || y.Tok == token.FALLTHROUGH {
					found = true
				}
			case *ast.ForStmt, *ast.RangeStmt, *ast.SelectStmt, *ast.FuncLit:
				return false // a break in there leaves that statement, not ours
			}
			return !found
		})
		return found
	}
	switch x := list[len(list)-1].(type) {
	case *ast.ReturnStmt:
		return true
	case *ast.ExprStmt:
		if c, ok := x.X.(*ast.CallExpr); ok {
			if id, ok := c.Fun.(*ast.Ident); ok && id.Name == "panic" {
				return true
			}
		}
	case *ast.BlockStmt:
		return terminates(x.List)
	case *ast.IfStmt:
		if x.Else == nil || !terminates(x.Body.List) {
			return false
		}
		switch e := x.Else.(type) {
		case *ast.BlockStmt:
			return terminates(e.List)
		case *ast.IfStmt:
			return terminates([]ast.Stmt{e})
		}
	case *ast.SwitchStmt, *ast.TypeSwitchStmt:
		// every clause ends the function and there is a default: control cannot come out below
		var body *ast.BlockStmt
		if sw, ok := x.(*ast.SwitchStmt); ok {
			body = sw.Body
		} else {
			body = x.(*ast.TypeSwitchStmt).Body
		}
		if hasBreak(body) {
			return false
		}
		hasDefault := false
		for _, cc := range body.List {
			cl := cc.(*ast.CaseClause)
			if cl.List == nil {
				hasDefault = true
			}
			if !terminates(cl.Body) {
				return false
			}
		}
		return hasDefault
	}
	return false
}

func (in *inliner) earlyIf(is *ast.IfStmt) []ast.Stmt {
	if is.Else != nil || !terminates(is.Body.List) {
		return nil
	}
	var call *ast.CallExpr
	var vars []*ast.Ident // the variables the if statement defines from the call (nil: the call is the condition)
	cond := is.Cond
	switch init := is.Init.(type) {
	case nil:
		c := ast.Unparen(cond)
		neg := false
		if u, ok := c.(*ast.UnaryExpr); ok && u.Op == token.NOT {
			neg, c = true, ast.Unparen(u.X)
		}
		call, _ = c.(*ast.CallExpr)
		if call == nil {
			return nil
		}
		v := ast.NewIdent("\x00result")
		vars = []*ast.Ident{v}
		cond = v
		if neg {
			cond = &ast.UnaryExpr{Op: token.NOT, X: v}
		}
	case *ast.AssignStmt:
		if init.Tok != token.DEFINE || len(init.Rhs) != 1 {
			return nil
		}
		call, _ = init.Rhs[0].(*ast.CallExpr)
		for _, l := range init.Lhs {
			id, ok := l.(*ast.Ident)
			if !ok {
				return nil
			}
			vars = append(vars, id)
		}
	default:
		return nil
	}
	if call == nil {
		return nil
	}
	fd, sig := in.helperOf(call, true)
	if fd == nil || sig.Results().Len() != len(vars) || len(fd.Body.List) == 0 {
		return nil
	}
	// the body of S must not branch out of a loop of the caller (it would bind to a loop of the helper)
	bad := false
	ast.Inspect(is.Body, func(n ast.Node) bool {
		switch n.(type) {
		case *ast.BranchStmt, *ast.FuncLit, *ast.LabeledStmt:
			bad = true
		}
		return !bad
	})
	if bad {
		return nil
	}
	idx := func(e ast.Expr) int {
		id, ok := ast.Unparen(e).(*ast.Ident)
		if !ok {
			return -1
		}
		for k, v := range vars {
			if v == id || (in.info.Defs[v] != nil && in.info.Uses[id] == in.info.Defs[v]) {
				return k
			}
		}
		return -1
	}
	// nonNil(e, path): the returned expression is known not to be nil
	parents := Parents(fd.Body)
	nonNil := func(e ast.Expr, at ast.Node) (known, val bool) {
		e = ast.Unparen(e)
		if id, ok := e.(*ast.Ident); ok {
			if _, isNil := in.info.Uses[id].(*types.Nil); isNil {
				return true, false
			}
			o := in.info.Uses[id]
			for n := parents[at]; n != nil; n = parents[n] {
				ifs, ok := n.(*ast.IfStmt)
				if !ok {
					continue
				}
				// inside the then-branch of `if o != nil`, with no assignment to o in that branch
				inThen := false
				for m := at; m != nil; m = parents[m] {
					if m == ast.Node(ifs.Body) {
						inThen = true
					}
				}
				be, isBin := ast.Unparen(ifs.Cond).(*ast.BinaryExpr)
				if !inThen || !isBin || be.Op != token.NEQ {
					continue
				}
				xid, ok1 := ast.Unparen(be.X).(*ast.Ident)
				yid, ok2 := ast.Unparen(be.Y).(*ast.Ident)
				if !ok1 || !ok2 || in.info.Uses[xid] != o {
					continue
				}
				if _, isNil := in.info.Uses[yid].(*types.Nil); !isNil {
					continue
				}
				reassigned := false
				ast.Inspect(ifs.Body, func(m ast.Node) bool {
					if as, ok := m.(*ast.AssignStmt); ok {
						for _, l := range as.Lhs {
							if lid, ok := ast.Unparen(l).(*ast.Ident); ok && (in.info.Uses[lid] == o || in.info.Defs[lid] == o) {
								reassigned = true
							}
						}
					}
					return true
				})
				if !reassigned {
					return true, true
				}
			}
			return false, false
		}
		if c, ok := e.(*ast.CallExpr); ok {
			switch FuncID(Callee(in.info, c)) {
			case "errors.New", "fmt.Errorf", "github.com/go-pars/pars.NewError":
				return true, true
			}
		}
		return false, false
	}
	var eval func(c ast.Expr, rs []ast.Expr, at ast.Node) (known, val bool)
	eval = func(c ast.Expr, rs []ast.Expr, at ast.Node) (bool, bool) {
		c = ast.Unparen(c)
		switch x := c.(type) {
		case *ast.Ident:
			if k := idx(x); k >= 0 {
				if tv, ok := in.info.Types[rs[k]]; ok && tv.Value != nil && tv.Value.Kind() == constant.Bool {
					return true, constant.BoolVal(tv.Value)
				}
				return false, false
			}
			if tv, ok := in.info.Types[x]; ok && tv.Value != nil && tv.Value.Kind() == constant.Bool {
				return true, constant.BoolVal(tv.Value)
			}
		case *ast.UnaryExpr:
			if x.Op == token.NOT {
				k, v := eval(x.X, rs, at)
				return k, !v
			}
		case *ast.BinaryExpr:
			switch x.Op {
			case token.LAND, token.LOR:
				k1, v1 := eval(x.X, rs, at)
				k2, v2 := eval(x.Y, rs, at)
				if x.Op == token.LAND {
					if (k1 && !v1) || (k2 && !v2 && k1) {
						return true, false
					}
					return k1 && k2, v1 && v2
				}
				if (k1 && v1) || (k2 && v2 && k1) {
					return true, true
				}
				return k1 && k2, v1 || v2
			case token.EQL, token.NEQ:
				k := idx(x.X)
				yid, ok := ast.Unparen(x.Y).(*ast.Ident)
				if k < 0 || !ok {
					return false, false
				}
				if _, isNil := in.info.Uses[yid].(*types.Nil); !isNil {
					return false, false
				}
				known, nn := nonNil(rs[k], at)
				if !known {
					return false, false
				}
				return true, nn == (x.Op == token.NEQ)
			}
		}
		return false, false
	}
	subst, rename, pre, ok := in.bindSimple(fd, sig, call)
	if !ok {
		return nil
	}
	// how often S mentions each variable
	useCount := make([]int, len(vars))
	ast.Inspect(is.Body, func(n ast.Node) bool {
		if id, ok := n.(*ast.Ident); ok {
			if k := idx(id); k >= 0 {
				useCount[k]++
			}
		}
		return true
	})
	// S is a single return whose operands are free of calls: a variable used once may be replaced
	// by the returned expression without changing the order of effects
	plainS := false
	if len(is.Body.List) == 1 {
		if rs, ok := is.Body.List[0].(*ast.ReturnStmt); ok {
			plainS = true
			for _, e := range rs.Results {
				ast.Inspect(e, func(n ast.Node) bool {
					if _, isCall := n.(*ast.CallExpr); isCall {
						plainS = false
					}
					return plainS
				})
			}
		}
	}
	body := fd.Body.List
	lastRet, _ := body[len(body)-1].(*ast.ReturnStmt)
	cl := &cloner{in: in, subst: subst, rename: rename}
	fail := false
	dropTail := false
	var resultTypes []ast.Expr
	if fd.Type.Results != nil {
		for _, r := range fd.Type.Results.List {
			n := len(r.Names)
			if n == 0 {
				n = 1
			}
			for j := 0; j < n; j++ {
				resultTypes = append(resultTypes, r.Type)
			}
		}
	}
	// replacement of one return statement of the helper
	replace := func(r *ast.ReturnStmt) ast.Stmt {
		known, val := eval(cond, r.Results, r)
		if !known {
			fail = true
			return nil
		}
		if !val {
			if r != lastRet {
				fail = true
				return nil
			}
			// falls through to the statement after the `if`; the returned expressions must be free of calls
			for _, e := range r.Results {
				ast.Inspect(e, func(n ast.Node) bool {
					if _, isCall := n.(*ast.CallExpr); isCall {
						fail = true
					}
					return !fail
				})
			}
			dropTail = true
			return &ast.EmptyStmt{}
		}
		// S with the variables bound to the returned values
		sub2 := map[types.Object]ast.Expr{}
		var binds []ast.Stmt
		for k, v := range vars {
			e := cl.node(r.Results[k]).(ast.Expr)
			simple := false
			switch y := ast.Unparen(r.Results[k]).(type) {
			case *ast.Ident, *ast.BasicLit:
				simple = true
				_ = y
			}
			hasCall := false
			ast.Inspect(r.Results[k], func(n ast.Node) bool {
				if _, isCall := n.(*ast.CallExpr); isCall {
					hasCall = true
				}
				return !hasCall
			})
			vo := in.info.Defs[v]
			switch {
			case vo == nil && v.Name != "_":
				// the call was the condition itself: nothing to bind, but keep a call's effects
				if hasCall {
					binds = append(binds, &ast.AssignStmt{Lhs: []ast.Expr{ast.NewIdent("_")}, Tok: token.ASSIGN, Rhs: []ast.Expr{e}})
				}
			case v.Name == "_" || useCount[k] == 0:
				if hasCall {
					binds = append(binds, &ast.AssignStmt{Lhs: []ast.Expr{ast.NewIdent("_")}, Tok: token.ASSIGN, Rhs: []ast.Expr{e}})
				}
			case simple || (useCount[k] == 1 && plainS && len(binds) == 0):
				sub2[vo] = e
			default:
				if k >= len(resultTypes) {
					fail = true
					return nil
				}
				binds = append(binds, &ast.DeclStmt{Decl: &ast.GenDecl{Tok: token.VAR, Specs: []ast.Spec{&ast.ValueSpec{
					Names: []*ast.Ident{ast.NewIdent(v.Name)}, Type: (&cloner{in: in}).node(resultTypes[k]).(ast.Expr), Values: []ast.Expr{e}}}}})
			}
		}
		// sub2 values are already cloned: substitute them as they are
		c2 := &cloner{in: in, subst: nil, rename: nil, ready: sub2}
		var list []ast.Stmt
		list = append(list, binds...)
		for _, s := range is.Body.List {
			list = append(list, c2.node(s).(ast.Stmt))
		}
		if len(list) == 1 {
			return list[0]
		}
		return &ast.BlockStmt{List: list}
	}
	// clone the body, replacing returns
	var out []ast.Stmt
	out = append(out, pre...)
	cl.onReturn = replace
	for _, s := range body {
		ns := cl.node(s).(ast.Stmt)
		if fail {
			return nil
		}
		if _, empty := ns.(*ast.EmptyStmt); empty {
			continue
		}
		out = append(out, ns)
	}
	if fail {
		return nil
	}
	if !dropTail && !terminates(body) {
		return nil
	}
	if len(out) == 0 {
		out = []ast.Stmt{&ast.EmptyStmt{}}
	}
	in.count++
	return out
}

// cloner deep-copies syntax, replacing identifiers and dropping positions.
type cloner struct {
	in       *inliner
	subst    map[types.Object]ast.Expr
	rename   map[types.Object]string
	ready    map[types.Object]ast.Expr      // replacements that are already clones (used as they are)
	onReturn func(*ast.ReturnStmt) ast.Stmt // early-return inlining: what a return of the helper becomes
}

func (c *cloner) node(n ast.Node) ast.Node {
	if n == nil {
		return nil
	}
	if rs, ok := n.(*ast.ReturnStmt); ok && c.onReturn != nil {
		if st := c.onReturn(rs); st != nil {
			return st
		}
		return &ast.EmptyStmt{}
	}
	if id, ok := n.(*ast.Ident); ok {
		o := c.in.info.Uses[id]
		if o == nil {
			o = c.in.info.Defs[id]
		}
		if o != nil {
			if e, ok := c.ready[o]; ok {
				return e
			}
			if e, ok := c.subst[o]; ok {
				return (&cloner{in: c.in}).node(e)
			}
			if name, ok := c.rename[o]; ok {
				return ast.NewIdent(name)
			}
		}
		return ast.NewIdent(id.Name)
	}
	v := reflect.ValueOf(n)
	if v.Kind() != reflect.Ptr || v.IsNil() {
		return n
	}
	cp := reflect.New(v.Elem().Type())
	c.copyStruct(cp.Elem(), v.Elem())
	return cp.Interface().(ast.Node)
}

var (
	posType    = reflect.TypeOf(token.NoPos)
	objType    = reflect.TypeOf((*ast.Object)(nil))
	scopeType  = reflect.TypeOf((*ast.Scope)(nil))
	commentTyp = reflect.TypeOf((*ast.CommentGroup)(nil))
)

func (c *cloner) copyStruct(dst, src reflect.Value) {
	for i := 0; i < src.NumField(); i++ {
		f := src.Field(i)
		d := dst.Field(i)
		if !d.CanSet() {
			continue
		}
		switch {
		case f.Type() == posType:
			// positions are dropped (the printer lays the clone out afresh) except where a valid
			// position carries meaning: `f(xs...)`, `type A = B`, `<-chan T`
			switch src.Type().Field(i).Name {
			case "Ellipsis", "Assign", "Arrow", "Begin":
				d.Set(f)
			}
		case f.Type() == objType || f.Type() == scopeType || f.Type() == commentTyp:
			// left nil
		case f.Kind() == reflect.Interface || f.Kind() == reflect.Ptr:
			if f.IsNil() {
				continue
			}
			if n, ok := f.Interface().(ast.Node); ok {
				d.Set(reflect.ValueOf(c.node(n)))
			} else {
				d.Set(f)
			}
		case f.Kind() == reflect.Slice:
			if f.IsNil() {
				continue
			}
			ns := reflect.MakeSlice(f.Type(), f.Len(), f.Len())
			for k := 0; k < f.Len(); k++ {
				e := f.Index(k)
				if (e.Kind() == reflect.Interface || e.Kind() == reflect.Ptr) && !e.IsNil() {
					if n, ok := e.Interface().(ast.Node); ok {
						ns.Index(k).Set(reflect.ValueOf(c.node(n)))
						continue
					}
				}
				ns.Index(k).Set(e)
			}
			d.Set(ns)
		default:
			d.Set(f)
		}
	}
}

// readThrough returns a reader for file contents that prefers the given overlay.
func readThrough(overlay map[string][]byte) func(string) ([]byte, error) {
	return func(name string) ([]byte, error) {
		if b, ok := overlay[name]; ok {
			return b, nil
		}
		return os.ReadFile(name)
	}
}

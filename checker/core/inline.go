package core

import (
	"bytes"
	"fmt"
	"go/ast"
	"go/printer"
	"go/token"
	"go/types"
	"os"
	"reflect"
	"sort"
	"strings"

	"golang.org/x/tools/go/packages"
)

// Helper inlining. Rules that recognise an idiom inside an anchor function are
// blind to code that a maintainer moved into a freshly extracted helper
// ("extract function" is the most common refactoring there is). Instead of
// teaching every rule to follow calls, the loader rewrites the SOURCE before
// the rules see it: a call of an unexported package-level function that is not
// in the table of reviewed helpers (the unexported functions that existed when
// the rules were written, and that rules may name as anchors) is replaced by
// the function's body, with its parameters bound to the arguments. The
// rewritten files are handed to go/packages as an overlay and type-checked
// again, so every later stage works on an ordinary, consistent program.
//
// The transformation is applied only where it is obviously meaning-preserving:
//
//   - the callee is a plain function of the same package (no method, not
//     variadic, no named results, not recursive) whose body has no return
//     other than its last statement and no defer/go/label/function literal;
//   - the call is a whole statement: `xs = f(args)`, `xs := f(args)`,
//     `return f(args)`, or `f(args)` alone;
//   - a parameter is replaced by its argument only when the argument is a
//     local variable of the caller with exactly the parameter's type that is
//     never address-taken nor captured, and either the callee never assigns
//     the parameter or the call has the in-out shape `x, y = f(x, y)` with
//     `return x, y` (which turns back into plain updates of x and y);
//     every other parameter is bound once, in order, to a fresh typed local
//     (`var p_inlN T = arg`), exactly as a call binds it;
//   - variables defined by `:=` from the call are declared with the callee's
//     result types before the body; all locals of the callee get fresh names;
//   - no package-level name the body uses is shadowed in the caller.
//
// Only the text of the functions that contain such a call changes: the
// overlay is the original file with those declarations replaced by their
// printed form, followed by a `//line` directive, so positions everywhere else
// stay exact. If anything does not fit the call is left alone; if a rewritten
// package does not type-check the loader drops the overlay. Inlining can never
// make a check fail; it can only let a rule see more.

// reviewedHelpers: "pkgpath.name" of the unexported package-level functions the
// rules were written against. They stay calls.
var reviewedHelpers = map[string]bool{}

const (
	reviewedGts   = "allLocator asComplete bytesIndexAll checkStrand filterLocator flattenLocations flattenRegion insert invertSegments locationDelimiter locationLocator mapHeadHead mapHeadTail mapTailTail multipleLocationParser parseAmbiguous parseBetween parseComplement parseJoin parseOrder parseRange qualifierFilter rangeCompare rangeOverlap rangeWithin relativeLocator replaceBytes resizeLocator selectorFilter shiftSelector toQualifier tryExpand tryLocation tryShift trySlice"
	reviewedSeqio = "checkDate detectWriter dig expectNoMoreResidues featureKeylineParser fromOriginLength genbankAccessionParser genbankCommentParser genbankContigParser genbankDBLinkPairParser genbankDBLinkParser genbankDefinitionParser genbankExtraFieldParser genbankFeatureParser genbankFieldBodyParser genbankFieldFormatter genbankFieldLineParser genbankFieldNameParser genbankGenericFieldParser genbankGenericSubfieldParser genbankKeywordsParser genbankReferenceParser genbankReferenceSubfieldParser genbankSourceParser genbankSubfieldNameParser genbankVersionParser isLeapYear literalQualifierParser literalQualifierValueParser makeGenbankOriginParser parseReferenceInfo qualifierNameParser quotedQualifierParser searchString slowGenBankOriginParser toOriginLength tryAllParsers validateOrigin"
	reviewedCache = "makeSum"
	reviewedMain  = "annotateFunc asPicker attach cacheListFunc cachePathFunc cachePurgeFunc clearFunc complementFunc containsRegion defineFunc deleteFunc encodePayload encodeToString extractFunc formatCSV gtsCacheDir infixFunc insertFunc joinFunc lengthFunc mustAtoi newHash newIODelegate pickAfter pickAll pickAny pickBefore pickBetween pickFunc pickOne queryFunc repairFunc reverseFunc rotateFunc searchFunc selectFunc sortFunc splitFunc summaryFunc"
)

func init() {
	for pkg, names := range map[string]string{PkgGts: reviewedGts, PkgSeqio: reviewedSeqio, PkgMain: reviewedMain, PkgCache: reviewedCache} {
		for _, n := range strings.Fields(names) {
			reviewedHelpers[pkg+"."+n] = true
		}
	}
}

type inliner struct {
	pk       *packages.Package
	info     *types.Info
	fresh    int
	count    int
	escaping map[types.Object]bool // locals of the declaration being rewritten that are address-taken or captured
	declared map[string]bool       // names declared inside the declaration being rewritten
}

// InlineOverlay computes rewritten sources (absolute file name -> content) for
// the repository packages. read returns the current text of a file (the
// self-test overlay, or the file on disk).
func InlineOverlay(pkgs map[string]*packages.Package, fset *token.FileSet, read func(string) ([]byte, error)) (map[string][]byte, int) {
	out := map[string][]byte{}
	total := 0
	for _, path := range []string{PkgGts, PkgSeqio, PkgCache, PkgMain} {
		pk := pkgs[path]
		if pk == nil || pk.TypesInfo == nil || len(pk.Syntax) != len(pk.CompiledGoFiles) {
			continue
		}
		in := &inliner{pk: pk, info: pk.TypesInfo}
		for i, f := range pk.Syntax {
			var touched []ast.Decl
			for _, d := range f.Decls {
				before := in.count
				in.decl(d)
				if in.count != before {
					touched = append(touched, d)
				}
			}
			if len(touched) == 0 {
				continue
			}
			name := pk.CompiledGoFiles[i]
			src, err := read(name)
			if err != nil {
				continue
			}
			// splice from the end so that earlier offsets stay valid
			sort.Slice(touched, func(a, b int) bool { return touched[a].Pos() > touched[b].Pos() })
			ok := true
			for _, d := range touched {
				start, end := fset.Position(d.Pos()), fset.Position(d.End())
				if start.Filename != name || start.Offset < 0 || end.Offset > len(src) || start.Offset > end.Offset {
					ok = false
					break
				}
				switch x := d.(type) {
				case *ast.FuncDecl:
					x.Doc = nil
				case *ast.GenDecl:
					x.Doc = nil
				}
				var buf bytes.Buffer
				cfg := printer.Config{Mode: printer.UseSpaces | printer.TabIndent, Tabwidth: 8}
				if err := cfg.Fprint(&buf, fset, d); err != nil {
					ok = false
					break
				}
				rep := append(buf.Bytes(), []byte(fmt.Sprintf("\n//line %s:%d:1", name, end.Line+1))...)
				// the directive line must be followed by the rest of the original line end: the text after
				// d.End() starts with the newline that ended the declaration's last line
				src = append(append(append([]byte(nil), src[:start.Offset]...), rep...), src[end.Offset:]...)
			}
			if ok {
				out[name] = src
			}
		}
		total += in.count
	}
	return out, total
}

// decl rewrites the call statements inside one top-level declaration.
func (in *inliner) decl(d ast.Decl) {
	in.escaping = map[types.Object]bool{}
	in.declared = map[string]bool{}
	ast.Inspect(d, func(n ast.Node) bool {
		switch x := n.(type) {
		case *ast.Ident:
			if o := in.info.Defs[x]; o != nil {
				in.declared[x.Name] = true
			}
		case *ast.UnaryExpr:
			if x.Op == token.AND {
				if id, ok := ast.Unparen(x.X).(*ast.Ident); ok {
					if o := in.info.Uses[id]; o != nil {
						in.escaping[o] = true
					}
				}
			}
		case *ast.FuncLit:
			// everything a literal mentions may be read or written whenever the literal runs
			ast.Inspect(x.Body, func(m ast.Node) bool {
				if id, ok := m.(*ast.Ident); ok {
					if o := in.info.Uses[id]; o != nil {
						in.escaping[o] = true
					}
				}
				return true
			})
		}
		return true
	})
	var fix func(list []ast.Stmt) []ast.Stmt
	fix = func(list []ast.Stmt) []ast.Stmt {
		var out []ast.Stmt
		for _, st := range list {
			if rep := in.stmt(st); rep != nil {
				out = append(out, rep...)
				continue
			}
			out = append(out, st)
		}
		return out
	}
	ast.Inspect(d, func(n ast.Node) bool {
		switch x := n.(type) {
		case *ast.BlockStmt:
			x.List = fix(x.List)
		case *ast.CaseClause:
			x.Body = fix(x.Body)
		case *ast.CommClause:
			x.Body = fix(x.Body)
		}
		return true
	})
}

// helperOf returns the declaration to inline for call, or nil.
func (in *inliner) helperOf(call *ast.CallExpr) (*ast.FuncDecl, *types.Signature) {
	id, ok := ast.Unparen(call.Fun).(*ast.Ident)
	if !ok {
		return nil, nil
	}
	fn, ok := in.info.Uses[id].(*types.Func)
	if !ok || fn.Pkg() == nil || fn.Pkg() != in.pk.Types || fn.Exported() {
		return nil, nil
	}
	if reviewedHelpers[fn.Pkg().Path()+"."+fn.Name()] || fn.Name() == "init" || fn.Name() == "main" {
		return nil, nil
	}
	sig := fn.Type().(*types.Signature)
	if sig.Recv() != nil || sig.Variadic() || call.Ellipsis != token.NoPos {
		return nil, nil
	}
	var fd *ast.FuncDecl
	for _, f := range in.pk.Syntax {
		for _, d := range f.Decls {
			if x, ok := d.(*ast.FuncDecl); ok && in.info.Defs[x.Name] == fn {
				fd = x
			}
		}
	}
	if fd == nil || fd.Body == nil || fd.Type.TypeParams != nil {
		return nil, nil
	}
	if fd.Type.Results != nil {
		for _, r := range fd.Type.Results.List {
			if len(r.Names) > 0 {
				return nil, nil
			}
		}
	}
	for _, p := range fd.Type.Params.List {
		if len(p.Names) == 0 {
			return nil, nil
		}
		for _, n := range p.Names {
			if n.Name == "_" {
				return nil, nil
			}
		}
	}
	body := fd.Body.List
	good := true
	for i, st := range body {
		last := i == len(body)-1
		ast.Inspect(st, func(n ast.Node) bool {
			switch x := n.(type) {
			case *ast.ReturnStmt:
				if !(last && ast.Stmt(x) == st) {
					good = false
				}
			case *ast.DeferStmt, *ast.GoStmt, *ast.LabeledStmt, *ast.FuncLit, *ast.SelectStmt:
				good = false
			case *ast.BranchStmt:
				if x.Label != nil || x.Tok == token.GOTO {
					good = false
				}
			case *ast.CallExpr:
				if cid, isID := ast.Unparen(x.Fun).(*ast.Ident); isID && in.info.Uses[cid] == fn {
					good = false // recursive
				}
			case *ast.Ident:
				// a package-level or universe name the body uses must not be shadowed in the caller
				if o := in.info.Uses[x]; o != nil && o.Parent() != nil && (o.Parent() == types.Universe || (o.Pkg() != nil && o.Parent() == o.Pkg().Scope())) {
					if in.declared[x.Name] {
						good = false
					}
				}
			}
			return good
		})
	}
	if !good {
		return nil, nil
	}
	if n := sig.Results().Len(); n > 0 {
		if len(body) == 0 {
			return nil, nil
		}
		rs, isRet := body[len(body)-1].(*ast.ReturnStmt)
		if !isRet || len(rs.Results) != n {
			return nil, nil
		}
	}
	return fd, sig
}

func (in *inliner) simpleArg(e ast.Expr, want types.Type) types.Object {
	id, ok := ast.Unparen(e).(*ast.Ident)
	if !ok {
		return nil
	}
	v, ok := in.info.Uses[id].(*types.Var)
	if !ok || v.IsField() || v.Pkg() == nil || v.Parent() == v.Pkg().Scope() {
		return nil
	}
	if want != nil && !types.Identical(v.Type(), want) {
		return nil
	}
	if in.escaping[v] {
		return nil
	}
	return v
}

func mentionsObj(info *types.Info, e ast.Node, o types.Object) bool {
	found := false
	ast.Inspect(e, func(n ast.Node) bool {
		if id, ok := n.(*ast.Ident); ok && (info.Uses[id] == o || info.Defs[id] == o) {
			found = true
		}
		return !found
	})
	return found
}

// stmt returns the replacement of st when st is an inlinable call statement.
func (in *inliner) stmt(st ast.Stmt) []ast.Stmt {
	var call *ast.CallExpr
	var lhs []ast.Expr
	tok := token.ILLEGAL
	isReturn := false
	switch x := st.(type) {
	case *ast.ExprStmt:
		call, _ = x.X.(*ast.CallExpr)
	case *ast.ReturnStmt:
		if len(x.Results) == 1 {
			call, _ = x.Results[0].(*ast.CallExpr)
			isReturn = true
		}
	case *ast.AssignStmt:
		if len(x.Rhs) == 1 && (x.Tok == token.ASSIGN || x.Tok == token.DEFINE) {
			call, _ = x.Rhs[0].(*ast.CallExpr)
			lhs, tok = x.Lhs, x.Tok
		}
	}
	if call == nil {
		return nil
	}
	fd, sig := in.helperOf(call)
	if fd == nil {
		return nil
	}
	var params []*ast.Ident
	var ptypes []ast.Expr
	for _, p := range fd.Type.Params.List {
		for _, n := range p.Names {
			params = append(params, n)
			ptypes = append(ptypes, p.Type)
		}
	}
	if len(params) != len(call.Args) {
		return nil
	}
	var rtypes []ast.Expr
	if fd.Type.Results != nil {
		for _, r := range fd.Type.Results.List {
			rtypes = append(rtypes, r.Type)
		}
	}
	body := fd.Body.List
	var results []ast.Expr
	if n := len(body); n > 0 {
		if rs, ok := body[n-1].(*ast.ReturnStmt); ok {
			results = rs.Results
			body = body[:n-1]
		}
	}
	if (lhs != nil && len(lhs) != len(results)) || (isReturn && len(results) == 0) {
		return nil
	}
	if lhs != nil {
		for _, l := range lhs {
			if _, ok := ast.Unparen(l).(*ast.Ident); !ok {
				// a field or element on the left is evaluated before the call: keep the call
				return nil
			}
		}
	}
	// which parameters does the body assign (or take the address of)?
	assigned := map[types.Object]bool{}
	for _, s := range body {
		ast.Inspect(s, func(n ast.Node) bool {
			mark := func(e ast.Expr) {
				if e == nil {
					return
				}
				if id, ok := ast.Unparen(e).(*ast.Ident); ok {
					if o := in.info.Uses[id]; o != nil {
						assigned[o] = true
					}
				}
			}
			switch x := n.(type) {
			case *ast.AssignStmt:
				for _, l := range x.Lhs {
					mark(l)
				}
			case *ast.IncDecStmt:
				mark(x.X)
			case *ast.UnaryExpr:
				if x.Op == token.AND {
					mark(x.X)
				}
			case *ast.RangeStmt:
				if x.Tok == token.ASSIGN {
					mark(x.Key)
					mark(x.Value)
				}
			}
			return true
		})
	}
	subst := map[types.Object]ast.Expr{}
	rename := map[types.Object]string{}
	outvar := map[int]types.Object{} // result position -> parameter that became the variable defined there
	var pre []ast.Stmt
	// in-out parameters: `x, y = f(x, y)` with `return x, y`
	inout := map[int]types.Object{}
	if lhs != nil && tok == token.ASSIGN {
		for i, p := range params {
			po := in.info.Defs[p]
			ao := in.simpleArg(call.Args[i], sig.Params().At(i).Type())
			if ao == nil {
				continue
			}
			for k, r := range results {
				rid, isID := ast.Unparen(r).(*ast.Ident)
				lid, isL := ast.Unparen(lhs[k]).(*ast.Ident)
				if !isID || !isL || in.info.Uses[rid] != po || in.info.Uses[lid] != ao {
					continue
				}
				clean := true
				for j, a := range call.Args {
					if j != i && mentionsObj(in.info, a, ao) {
						clean = false
					}
				}
				for k2, r2 := range results {
					if k2 != k && mentionsObj(in.info, r2, po) {
						clean = false
					}
				}
				for k2, l2 := range lhs {
					if k2 != k && mentionsObj(in.info, l2, ao) {
						clean = false
					}
				}
				if clean {
					inout[i] = ao
				}
			}
		}
	}
	for i, p := range params {
		po := in.info.Defs[p]
		arg := call.Args[i]
		if ao, ok := inout[i]; ok && ao != nil {
			subst[po] = ast.Unparen(arg)
			continue
		}
		if ao := in.simpleArg(arg, sig.Params().At(i).Type()); ao != nil && !assigned[po] {
			clash := false
			for _, io := range inout {
				if io == ao {
					clash = true // the body updates that variable through the in-out parameter
				}
			}
			// a variable the statement itself assigns must not be read late either
			for _, l := range lhs {
				if mentionsObj(in.info, l, ao) {
					clash = true
				}
			}
			if !clash {
				subst[po] = ast.Unparen(arg)
				continue
			}
		}
		sameType := false
		if tv, ok := in.info.Types[arg]; ok && tv.Type != nil && tv.Value == nil && types.Identical(tv.Type, sig.Params().At(i).Type()) {
			sameType = true
		}
		// out-parameter of a `:=` call: `a, b := f(x.A, x.B)` with `return a', b'` where a' is the
		// parameter bound to x.A: the parameter becomes the variable the statement defines
		if tok == token.DEFINE && sameType {
			bound := false
			for k, r := range results {
				rid, isID := ast.Unparen(r).(*ast.Ident)
				lid, _ := ast.Unparen(lhs[k]).(*ast.Ident)
				if !isID || lid == nil || lid.Name == "_" || in.info.Uses[rid] != po || in.info.Defs[lid] == nil {
					continue
				}
				clean := true
				for k2, r2 := range results {
					if k2 != k && mentionsObj(in.info, r2, po) {
						clean = false
					}
				}
				for _, a := range call.Args {
					ast.Inspect(a, func(n ast.Node) bool {
						if id, ok := n.(*ast.Ident); ok && id.Name == lid.Name {
							clean = false
						}
						return clean
					})
				}
				if clean && outvar[k] == nil {
					outvar[k] = po
					rename[po] = lid.Name
					pre = append(pre, &ast.AssignStmt{Lhs: []ast.Expr{ast.NewIdent(lid.Name)}, Tok: token.DEFINE, Rhs: []ast.Expr{arg}})
					bound = true
					break
				}
			}
			if bound {
				continue
			}
		}
		in.fresh++
		name := fmt.Sprintf("%s_inl%d", p.Name, in.fresh)
		rename[po] = name
		if sameType {
			pre = append(pre, &ast.AssignStmt{Lhs: []ast.Expr{ast.NewIdent(name)}, Tok: token.DEFINE, Rhs: []ast.Expr{arg}})
		} else {
			pre = append(pre, &ast.DeclStmt{Decl: &ast.GenDecl{Tok: token.VAR, Specs: []ast.Spec{&ast.ValueSpec{
				Names: []*ast.Ident{ast.NewIdent(name)}, Type: (&cloner{in: in}).node(ptypes[i]).(ast.Expr), Values: []ast.Expr{arg}}}}})
		}
	}
	// locals declared in the body get fresh names
	for _, s := range body {
		ast.Inspect(s, func(n ast.Node) bool {
			if id, ok := n.(*ast.Ident); ok && id.Name != "_" {
				if o := in.info.Defs[id]; o != nil {
					if _, isVar := o.(*types.Var); isVar {
						if _, done := rename[o]; !done {
							in.fresh++
							rename[o] = fmt.Sprintf("%s_inl%d", id.Name, in.fresh)
						}
					}
				}
			}
			return true
		})
	}
	cl := &cloner{in: in, subst: subst, rename: rename}
	var out []ast.Stmt
	// variables the statement defines: when every result expression has exactly the declared result
	// type, `lhs := results` after the body means the same; otherwise they are declared first, with
	// the callee's result types
	exact := tok == token.DEFINE
	for k, r := range results {
		if tv, ok := in.info.Types[r]; !ok || tv.Type == nil || k >= sig.Results().Len() || !types.Identical(tv.Type, sig.Results().At(k).Type()) {
			exact = false
		}
	}
	if tok == token.DEFINE && !exact {
		for k, l := range lhs {
			lid := ast.Unparen(l).(*ast.Ident)
			if lid.Name == "_" || in.info.Defs[lid] == nil || outvar[k] != nil {
				continue // blank, an existing variable re-assigned by :=, or defined by its out-parameter
			}
			var rt ast.Expr
			if len(rtypes) == len(lhs) {
				rt = rtypes[k]
			} else if len(rtypes) == 1 {
				rt = rtypes[0] // `a, b T`-style result lists are expanded below
			}
			if fd.Type.Results != nil && len(fd.Type.Results.List) != len(lhs) {
				// grouped result types: expand
				var flat []ast.Expr
				for _, r := range fd.Type.Results.List {
					n := len(r.Names)
					if n == 0 {
						n = 1
					}
					for j := 0; j < n; j++ {
						flat = append(flat, r.Type)
					}
				}
				if len(flat) == len(lhs) {
					rt = flat[k]
				}
			}
			if rt == nil {
				return nil
			}
			out = append(out, &ast.DeclStmt{Decl: &ast.GenDecl{Tok: token.VAR, Specs: []ast.Spec{&ast.ValueSpec{
				Names: []*ast.Ident{ast.NewIdent(lid.Name)}, Type: (&cloner{in: in}).node(rt).(ast.Expr)}}}})
		}
	}
	out = append(out, pre...)
	for _, s := range body {
		out = append(out, cl.node(s).(ast.Stmt))
	}
	var rs []ast.Expr
	for _, r := range results {
		rs = append(rs, cl.node(r).(ast.Expr))
	}
	switch {
	case isReturn:
		out = append(out, &ast.ReturnStmt{Results: rs})
	case lhs != nil:
		var l2, r2 []ast.Expr
		for k := range lhs {
			skip := false
			for i, io := range inout {
				_ = i
				if lid := ast.Unparen(lhs[k]).(*ast.Ident); in.info.Uses[lid] == io {
					if rid, ok := ast.Unparen(results[k]).(*ast.Ident); ok {
						if po := in.info.Uses[rid]; po != nil && subst[po] != nil {
							skip = true // handed back into the variable it was substituted by
						}
					}
				}
			}
			if skip || outvar[k] != nil {
				continue
			}
			l2 = append(l2, (&cloner{in: in}).node(lhs[k]).(ast.Expr))
			r2 = append(r2, rs[k])
		}
		if len(l2) > 0 {
			t := token.ASSIGN
			if exact {
				t = token.DEFINE
			}
			out = append(out, &ast.AssignStmt{Lhs: l2, Tok: t, Rhs: r2})
		}
	default:
		for _, r := range rs {
			hasCall := false
			ast.Inspect(r, func(n ast.Node) bool {
				if _, ok := n.(*ast.CallExpr); ok {
					hasCall = true
				}
				return !hasCall
			})
			if hasCall {
				out = append(out, &ast.AssignStmt{Lhs: []ast.Expr{ast.NewIdent("_")}, Tok: token.ASSIGN, Rhs: []ast.Expr{r}})
			}
		}
	}
	if len(out) == 0 {
		out = []ast.Stmt{&ast.EmptyStmt{}}
	}
	in.count++
	return out
}

// cloner deep-copies syntax, replacing identifiers and dropping positions.
type cloner struct {
	in     *inliner
	subst  map[types.Object]ast.Expr
	rename map[types.Object]string
}

func (c *cloner) node(n ast.Node) ast.Node {
	if n == nil {
		return nil
	}
	if id, ok := n.(*ast.Ident); ok {
		o := c.in.info.Uses[id]
		if o == nil {
			o = c.in.info.Defs[id]
		}
		if o != nil {
			if e, ok := c.subst[o]; ok {
				return (&cloner{in: c.in}).node(e)
			}
			if name, ok := c.rename[o]; ok {
				return ast.NewIdent(name)
			}
		}
		return ast.NewIdent(id.Name)
	}
	v := reflect.ValueOf(n)
	if v.Kind() != reflect.Ptr || v.IsNil() {
		return n
	}
	cp := reflect.New(v.Elem().Type())
	c.copyStruct(cp.Elem(), v.Elem())
	return cp.Interface().(ast.Node)
}

var (
	posType    = reflect.TypeOf(token.NoPos)
	objType    = reflect.TypeOf((*ast.Object)(nil))
	scopeType  = reflect.TypeOf((*ast.Scope)(nil))
	commentTyp = reflect.TypeOf((*ast.CommentGroup)(nil))
)

func (c *cloner) copyStruct(dst, src reflect.Value) {
	for i := 0; i < src.NumField(); i++ {
		f := src.Field(i)
		d := dst.Field(i)
		if !d.CanSet() {
			continue
		}
		switch {
		case f.Type() == posType:
			// positions are dropped (the printer lays the clone out afresh) except where a valid
			// position carries meaning: `f(xs...)`, `type A = B`, `<-chan T`
			switch src.Type().Field(i).Name {
			case "Ellipsis", "Assign", "Arrow", "Begin":
				d.Set(f)
			}
		case f.Type() == objType || f.Type() == scopeType || f.Type() == commentTyp:
			// left nil
		case f.Kind() == reflect.Interface || f.Kind() == reflect.Ptr:
			if f.IsNil() {
				continue
			}
			if n, ok := f.Interface().(ast.Node); ok {
				d.Set(reflect.ValueOf(c.node(n)))
			} else {
				d.Set(f)
			}
		case f.Kind() == reflect.Slice:
			if f.IsNil() {
				continue
			}
			ns := reflect.MakeSlice(f.Type(), f.Len(), f.Len())
			for k := 0; k < f.Len(); k++ {
				e := f.Index(k)
				if (e.Kind() == reflect.Interface || e.Kind() == reflect.Ptr) && !e.IsNil() {
					if n, ok := e.Interface().(ast.Node); ok {
						ns.Index(k).Set(reflect.ValueOf(c.node(n)))
						continue
					}
				}
				ns.Index(k).Set(e)
			}
			d.Set(ns)
		default:
			d.Set(f)
		}
	}
}

// readThrough returns a reader for file contents that prefers the given overlay.
func readThrough(overlay map[string][]byte) func(string) ([]byte, error) {
	return func(name string) ([]byte, error) {
		if b, ok := overlay[name]; ok {
			return b, nil
		}
		return os.ReadFile(name)
	}
}

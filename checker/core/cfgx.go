package core

import (
	"go/ast"
	"go/token"
	"go/types"
	"sort"

	"golang.org/x/tools/go/cfg"
)

// Flow is the control-flow graph of one function body with resolved callees.
type Flow struct {
	G    *cfg.CFG
	Info *types.Info
	Body *ast.BlockStmt
}

// Loc addresses one node of the graph.
type Loc struct {
	B *cfg.Block
	I int
}

// Valid reports whether the location was found.
func (l Loc) Valid() bool { return l.B != nil }

// NewFlow builds the CFG of body. panic, os.Exit and log.Fatal* do not return.
func NewFlow(info *types.Info, body *ast.BlockStmt) *Flow {
	mayReturn := func(c *ast.CallExpr) bool {
		if IsBuiltin(info, c, "panic") {
			return false
		}
		switch FuncID(Callee(info, c)) {
		case "os.Exit", "log.Fatal", "log.Fatalf", "log.Fatalln", "runtime.Goexit":
			return false
		}
		return true
	}
	return &Flow{G: cfg.New(body, mayReturn), Info: info, Body: body}
}

// Entry is the location "before the first node".
func (f *Flow) Entry() Loc { return Loc{f.G.Blocks[0], -1} }

// Find returns the CFG node that contains n (function literals are opaque).
func (f *Flow) Find(n ast.Node) Loc {
	for _, b := range f.G.Blocks {
		if !b.Live {
			continue
		}
		for i, m := range b.Nodes {
			if m.Pos() <= n.Pos() && n.End() <= m.End() && !insideFuncLit(m, n) {
				return Loc{b, i}
			}
		}
	}
	return Loc{}
}

func insideFuncLit(root, n ast.Node) bool {
	in := false
	ast.Inspect(root, func(m ast.Node) bool {
		if fl, ok := m.(*ast.FuncLit); ok {
			if fl.Body.Pos() <= n.Pos() && n.End() <= fl.Body.End() {
				in = true
			}
			return false
		}
		return !in
	})
	return in
}

// NodeCalls lists the calls evaluated by one CFG node in completion order
// (inner calls first); function literal bodies are skipped. A DeferStmt's call
// is not evaluated here (its arguments are) and is reported by Deferred.
func NodeCalls(n ast.Node) []*ast.CallExpr {
	var out []*ast.CallExpr
	var deferred *ast.CallExpr
	if d, ok := n.(*ast.DeferStmt); ok {
		deferred = d.Call
	}
	if g, ok := n.(*ast.GoStmt); ok {
		deferred = g.Call
	}
	ast.Inspect(n, func(m ast.Node) bool {
		switch x := m.(type) {
		case *ast.FuncLit:
			return false
		case *ast.CallExpr:
			if x != deferred {
				out = append(out, x)
			}
		}
		return true
	})
	sort.SliceStable(out, func(i, j int) bool { return out[i].End() < out[j].End() })
	return out
}

// Stepper drives a path exploration. S is the (small, comparable) path state.
type Stepper[S comparable] struct {
	// Node is applied to every CFG node in path order; cut=true abandons the path.
	Node func(s S, n ast.Node) (next S, cut bool)
	// Edge is applied when a two-way branch is taken on condition cond.
	Edge func(s S, cond ast.Expr, taken bool) S
	// Exit is called when the path reaches a block without successors
	// (return, panic, or falling off the end); last is that block's last node.
	Exit func(s S, b *cfg.Block, last ast.Node)
}

// Scan explores every path that starts just after `from`, memoising on
// (block, state), so it terminates on loops.
func Scan[S comparable](f *Flow, from Loc, init S, st Stepper[S]) {
	type key struct {
		b int32
		s S
	}
	seen := map[key]bool{}
	var walk func(b *cfg.Block, i int, s S)
	walk = func(b *cfg.Block, i int, s S) {
		for ; i < len(b.Nodes); i++ {
			var cut bool
			s, cut = st.Node(s, b.Nodes[i])
			if cut {
				return
			}
		}
		if len(b.Succs) == 0 {
			if st.Exit != nil {
				var last ast.Node
				if len(b.Nodes) > 0 {
					last = b.Nodes[len(b.Nodes)-1]
				}
				st.Exit(s, b, last)
			}
			return
		}
		for k, nb := range b.Succs {
			ns := s
			if len(b.Succs) == 2 && st.Edge != nil && len(b.Nodes) > 0 {
				if e, ok := b.Nodes[len(b.Nodes)-1].(ast.Expr); ok {
					ns = st.Edge(s, e, k == 0)
				}
			}
			kk := key{nb.Index, ns}
			if seen[kk] {
				continue
			}
			seen[kk] = true
			walk(nb, 0, ns)
		}
	}
	walk(from.B, from.I+1, init)
}

// Dominates reports whether every path from the entry to b passes through a.
func (f *Flow) Dominates(a, b Loc) bool {
	if !a.Valid() || !b.Valid() {
		return false
	}
	if a == b {
		return true
	}
	reached := false
	Scan(f, f.Entry(), 0, Stepper[int]{
		Node: func(s int, n ast.Node) (int, bool) {
			l := f.Find(n)
			if l == a {
				return s, true
			}
			if l == b {
				reached = true
				return s, true
			}
			return s, false
		},
	})
	return !reached
}

// MustPass checks that every path from `from` to a function exit passes a node
// for which hit returns true. It returns the exits reached without it.
func (f *Flow) MustPass(from Loc, hit func(n ast.Node) bool) []ast.Node {
	var bad []ast.Node
	Scan(f, from, 0, Stepper[int]{
		Node: func(s int, n ast.Node) (int, bool) { return s, hit(n) },
		Exit: func(s int, b *cfg.Block, last ast.Node) {
			if last == nil {
				last = f.Body
			}
			bad = append(bad, last)
		},
	})
	return bad
}

// Returns lists the return statements of body (function literals excluded).
func Returns(body ast.Node) []*ast.ReturnStmt {
	var out []*ast.ReturnStmt
	ast.Inspect(body, func(n ast.Node) bool {
		switch x := n.(type) {
		case *ast.FuncLit:
			return false
		case *ast.ReturnStmt:
			out = append(out, x)
		}
		return true
	})
	return out
}

// IsNil reports whether e is the predeclared nil.
func IsNil(info *types.Info, e ast.Expr) bool {
	id, ok := ast.Unparen(e).(*ast.Ident)
	if !ok {
		return false
	}
	_, isNil := info.Uses[id].(*types.Nil)
	return isNil
}

// PosLess orders nodes by source position.
func PosLess(a, b token.Pos) bool { return a < b }

// Facts decomposes a branch condition into the atomic facts that hold on the
// taken edge: on the false edge of `A || B` both are false, on the true edge of
// `A && B` both are true, `!A` flips. go/cfg keeps a short-circuit condition as
// one node, so path rules must use this to read edges.
func Facts(cond ast.Expr, taken bool, emit func(atom ast.Expr, val bool)) {
	cond = ast.Unparen(cond)
	switch x := cond.(type) {
	case *ast.UnaryExpr:
		if x.Op == token.NOT {
			Facts(x.X, !taken, emit)
			return
		}
	case *ast.BinaryExpr:
		if x.Op == token.LOR {
			if !taken {
				Facts(x.X, false, emit)
				Facts(x.Y, false, emit)
			}
			return
		}
		if x.Op == token.LAND {
			if taken {
				Facts(x.X, true, emit)
				Facts(x.Y, true, emit)
			}
			return
		}
	}
	emit(cond, taken)
}

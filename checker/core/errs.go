package core

import (
	"go/ast"
	"go/token"
	"go/types"

	"golang.org/x/tools/go/cfg"
)

// Parents maps every node under root to its parent.
func Parents(root ast.Node) map[ast.Node]ast.Node {
	m := map[ast.Node]ast.Node{}
	var stack []ast.Node
	ast.Inspect(root, func(n ast.Node) bool {
		if n == nil {
			stack = stack[:len(stack)-1]
			return true
		}
		if len(stack) > 0 {
			m[n] = stack[len(stack)-1]
		}
		stack = append(stack, n)
		return true
	})
	return m
}

// EnclosingStmt returns the innermost statement containing n.
func EnclosingStmt(par map[ast.Node]ast.Node, n ast.Node) ast.Stmt {
	for m := n; m != nil; m = par[m] {
		if s, ok := m.(ast.Stmt); ok {
			return s
		}
	}
	return nil
}

// ErrUse says how the error result of one call is consumed. The idioms are the
// ones enumerated in DESIGN.md (E3, INT-2): anything else is "unchecked".
type ErrUse struct {
	Kind string // returned | if-return | if-other | accumulate | define-acc | dropped | unchecked | no-error
	Err  types.Object
	Acc  types.Object
	If   *ast.IfStmt
	Why  string
}

func isErrorType(t types.Type) bool {
	return t != nil && types.Identical(t, types.Universe.Lookup("error").Type())
}

func errNeqNil(info *types.Info, cond ast.Expr, e types.Object) bool {
	cond = ast.Unparen(cond)
	if be, ok := cond.(*ast.BinaryExpr); ok {
		if be.Op == token.LOR {
			return errNeqNil(info, be.X, e) || errNeqNil(info, be.Y, e)
		}
		if be.Op == token.NEQ && ObjOf(info, be.X) == e && IsNil(info, be.Y) {
			return true
		}
	}
	return false
}

func eqNil(info *types.Info, cond ast.Expr) types.Object {
	if be, ok := ast.Unparen(cond).(*ast.BinaryExpr); ok && be.Op == token.EQL && IsNil(info, be.Y) {
		return ObjOf(info, be.X)
	}
	return nil
}

// lastResultNonNil: the block ends in a return whose last result is not the constant nil.
func lastResultNonNil(info *types.Info, b *ast.BlockStmt) bool {
	if len(b.List) == 0 {
		return false
	}
	rs, ok := b.List[len(b.List)-1].(*ast.ReturnStmt)
	if !ok || len(rs.Results) == 0 {
		return false
	}
	return !IsNil(info, rs.Results[len(rs.Results)-1])
}

// ClassifyErr classifies the handling of call's error result inside body.
func ClassifyErr(info *types.Info, body *ast.BlockStmt, call *ast.CallExpr) ErrUse {
	tv := info.Types[call]
	var errIdx = -1
	n := 1
	switch t := tv.Type.(type) {
	case *types.Tuple:
		n = t.Len()
		if n > 0 && isErrorType(t.At(n-1).Type()) {
			errIdx = n - 1
		}
	default:
		if isErrorType(tv.Type) {
			errIdx = 0
		}
	}
	if errIdx < 0 {
		return ErrUse{Kind: "no-error"}
	}
	par := Parents(body)
	st := EnclosingStmt(par, call)
	switch s := st.(type) {
	case *ast.ReturnStmt:
		for _, r := range s.Results {
			if ast.Unparen(r) == ast.Expr(call) {
				return ErrUse{Kind: "returned"}
			}
		}
		return ErrUse{Kind: "unchecked", Why: "call nested inside a return expression"}
	case *ast.ExprStmt, *ast.DeferStmt, *ast.GoStmt:
		return ErrUse{Kind: "dropped", Why: "result discarded"}
	case *ast.AssignStmt:
		if len(s.Rhs) != 1 || ast.Unparen(s.Rhs[0]) != ast.Expr(call) || len(s.Lhs) != n {
			return ErrUse{Kind: "unchecked", Why: "call is not the sole right-hand side"}
		}
		id, ok := s.Lhs[errIdx].(*ast.Ident)
		if !ok {
			return ErrUse{Kind: "unchecked", Why: "error stored in a non-variable"}
		}
		if id.Name == "_" {
			return ErrUse{Kind: "dropped", Why: "error assigned to _"}
		}
		e := info.Defs[id]
		if e == nil {
			e = info.Uses[id]
		}
		// Init of an if statement?
		if is, ok := par[s].(*ast.IfStmt); ok && is.Init == ast.Stmt(s) {
			if errNeqNil(info, is.Cond, e) {
				if lastResultNonNil(info, is.Body) {
					return ErrUse{Kind: "if-return", Err: e, If: is}
				}
				return ErrUse{Kind: "if-other", Err: e, If: is}
			}
			if acc := eqNil(info, is.Cond); acc != nil && acc != e {
				if len(is.Body.List) == 1 {
					if as, ok := is.Body.List[0].(*ast.AssignStmt); ok && as.Tok == token.ASSIGN && len(as.Lhs) == 1 && len(as.Rhs) == 1 &&
						ObjOf(info, as.Lhs[0]) == acc && ObjOf(info, as.Rhs[0]) == e {
						if why := accDiscipline(info, body, call, acc); why != "" {
							return ErrUse{Kind: "unchecked", Err: e, Acc: acc, Why: why}
						}
						return ErrUse{Kind: "accumulate", Err: e, Acc: acc, If: is}
					}
				}
			}
			return ErrUse{Kind: "unchecked", Err: e, If: is, Why: "the if statement neither tests this error against nil nor accumulates it under `acc == nil`"}
		}
		// next statement `if e != nil { return ..., non-nil }`
		if blk, ok := par[s].(*ast.BlockStmt); ok {
			for i, x := range blk.List {
				if x == ast.Stmt(s) && i+1 < len(blk.List) {
					if is, ok := blk.List[i+1].(*ast.IfStmt); ok && is.Init == nil && errNeqNil(info, is.Cond, e) {
						if lastResultNonNil(info, is.Body) {
							return ErrUse{Kind: "if-return", Err: e, If: is}
						}
						return ErrUse{Kind: "if-other", Err: e, If: is}
					}
					// `if e == nil { success...; return }`: the success path is the body, the failure path goes on
					if is, ok := blk.List[i+1].(*ast.IfStmt); ok && is.Init == nil && is.Else == nil && eqNil(info, is.Cond) == e && len(is.Body.List) > 0 {
						if _, isRet := is.Body.List[len(is.Body.List)-1].(*ast.ReturnStmt); isRet {
							return ErrUse{Kind: "if-nil-success", Err: e, If: is}
						}
					}
					if is, ok := blk.List[i+1].(*ast.IfStmt); ok && is.Init == nil {
						if acc := eqNil(info, is.Cond); acc != nil && acc != e && len(is.Body.List) == 1 {
							if as, ok := is.Body.List[0].(*ast.AssignStmt); ok && as.Tok == token.ASSIGN && len(as.Lhs) == 1 && len(as.Rhs) == 1 &&
								ObjOf(info, as.Lhs[0]) == acc && ObjOf(info, as.Rhs[0]) == e {
								if why := accDiscipline(info, body, call, acc); why != "" {
									return ErrUse{Kind: "unchecked", Err: e, Acc: acc, Why: why}
								}
								return ErrUse{Kind: "accumulate", Err: e, Acc: acc, If: is}
							}
						}
					}
				}
			}
		}
		// the error variable itself is the accumulator
		if why := accDiscipline(info, body, call, e); why == "" {
			return ErrUse{Kind: "define-acc", Err: e, Acc: e}
		} else {
			return ErrUse{Kind: "unchecked", Err: e, Why: "not tested right after the call, and not a first-error-wins accumulator: " + why}
		}
	}
	return ErrUse{Kind: "unchecked", Why: "unrecognised statement form"}
}

// accDiscipline verifies first-error-wins for acc after call: every return
// reachable from the call returns acc as its last result, and every later
// assignment to acc sits directly inside `if ...; acc == nil { acc = x }`.
func accDiscipline(info *types.Info, body *ast.BlockStmt, call *ast.CallExpr, acc types.Object) string {
	f := NewFlow(info, body)
	loc := f.Find(call)
	if !loc.Valid() {
		return "call not found in the control-flow graph"
	}
	why := ""
	Scan(f, loc, 0, Stepper[int]{
		Node: func(s int, n ast.Node) (int, bool) { return s, false },
		Exit: func(s int, b *cfg.Block, last ast.Node) {
			rs, ok := last.(*ast.ReturnStmt)
			if !ok {
				return
			}
			if len(rs.Results) == 0 || ObjOf(info, rs.Results[len(rs.Results)-1]) != acc {
				why = "a return reachable after the call does not return the accumulated error"
			}
		},
	})
	if why != "" {
		return why
	}
	par := Parents(body)
	ast.Inspect(body, func(n ast.Node) bool {
		as, ok := n.(*ast.AssignStmt)
		if !ok || as.Pos() <= call.End() {
			return true
		}
		for _, l := range as.Lhs {
			if ObjOf(info, l) != acc {
				continue
			}
			guarded := false
			if blk, ok := par[as].(*ast.BlockStmt); ok {
				if is, ok := par[blk].(*ast.IfStmt); ok && is.Body == blk && eqNil(info, is.Cond) == acc {
					guarded = true
				}
			}
			if !guarded {
				// or: every path from the call to the assignment has established acc == nil (an early
				// `if acc != nil { return acc }` in front of it) and not assigned acc since
				reachedUnknown := false
				Scan(f, loc, 0, Stepper[int]{
					Node: func(s int, n ast.Node) (int, bool) {
						if n == ast.Node(as) {
							if s == 0 {
								reachedUnknown = true
							}
							return s, true
						}
						if a2, ok := n.(*ast.AssignStmt); ok {
							for _, l2 := range a2.Lhs {
								if ObjOf(info, l2) == acc {
									return 0, false
								}
							}
						}
						return s, false
					},
					Edge: func(s int, cond ast.Expr, taken bool) int {
						Facts(cond, taken, func(atom ast.Expr, val bool) {
							be, ok := ast.Unparen(atom).(*ast.BinaryExpr)
							if !ok || ObjOf(info, be.X) != acc || !IsNil(info, be.Y) {
								return
							}
							if (be.Op == token.EQL && val) || (be.Op == token.NEQ && !val) {
								s = 1
							}
						})
						return s
					},
				})
				guarded = !reachedUnknown
			}
			if !guarded {
				why = "a later assignment overwrites the accumulated error without an `acc == nil` guard"
			}
		}
		return true
	})
	return why
}

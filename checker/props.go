package main

import (
	"gtsverif/core"
	"gtsverif/engines/cachekey"
	"gtsverif/engines/conserve"
	"gtsverif/engines/effects"
	"gtsverif/engines/globals"
	"gtsverif/engines/integrity"
	"gtsverif/engines/orders"
	"gtsverif/engines/siblings"
	"gtsverif/engines/tables"
	"gtsverif/engines/traps"
)

// stateless lists the properties about library behaviour: each of them is stated for every history of
// calls, so each depends on the library keeping no state between calls (rule STATELESS).
var stateless = map[string]bool{"C01": true, "C02": true, "C03": true, "C04": true, "C05": true, "C06": true, "C07": true, "C08": true,
	"C09": true, "C10": true, "C11": true, "C12": true, "C16": true, "C17": true, "C18": true, "C19": true}

func init() {
	register("C18", false, func(p *core.Prog, r *core.Report, tier string) {
		tables.C18(p, r)
		tables.SearchShortcut(p, r)
	})
	register("C01", false, func(p *core.Prog, r *core.Report, tier string) {
		tables.C01(p, r)
		tables.PadAgree(p, r)
		tables.TrimOne(p, r)
		tables.PrefixAll(p, r)
		tables.DBLinkAgree(p, r)
		tables.BlankLine(p, r)
		tables.WrapJoin(p, r)
		tables.QualFormat(p, r)
		tables.LocusSep(p, r)
		tables.LocusLength(p, r)
		conserve.PrefixFunc(p, r)
		tables.C16(p, r) // the ORIGIN block is part of the record: its layout rules are necessary for "same residues"
		conserve.MapInit(p, r)
		traps.NoDump(p, r)
		traps.RangePrecond(p, r) // closure: a record an edit produced (an empty slice) must be writable at all
	})
	register("C16", false, func(p *core.Prog, r *core.Report, tier string) {
		tables.C16(p, r)
		tables.ResidueClass(p, r)
		tables.IndexExact(p, r)
		tables.ResidueVerbatim(p, r)
		tables.FastFallback(p, r)
		traps.OriginLength(p, r, true)
		globals.ShallowCache(p, r)
	})
	register("C02", true, func(p *core.Prog, r *core.Report, tier string) {
		effects.PureOps(9, "Insert", "Embed", "(FeatureSlice).Insert", "*.Shift", "*.Expand")(p, r)
		conserve.C02(p, r)
		r.Rule("EDIT-CHAIN", "in gts insert / gts infix (where C02 is observed) every record written starts its chain of edits from the scanned record, not from the previous record written", 2)
		conserve.EditChain(p, r, []string{"insert", "infix"})
		conserve.BackToFront(p, r, []string{"insert", "infix"}, 2)
		conserve.NoReorder(p, r, "Shift", "Expand")
		conserve.LocationMethodRules(p, r, "Shift", "Expand")
		conserve.DelegateComplemented(p, r, "Shift", "Expand")
		conserve.PartialCarry(p, r, "Shift", "Expand")
		siblings.Shift(p, r)
		siblings.Expand(p, r)
		tables.OriginLen(p, r)
		tables.LenDelegate(p, r)
		cachekey.DigestAfterRead(p, r) // gts infix / insert: the host or guest digest is what ties a cached result to that file
		conserve.MergeRanged(p, r) // Shift and Expand re-join the parts of every Joined: the join must not merge what merely overlaps
	})
	register("C03", true, func(p *core.Prog, r *core.Report, tier string) {
		effects.PureOps(11, "Delete", "Erase", "Slice", "(FeatureSlice).Filter", "(GenBankFields).Slice", "*.Shift", "*.Expand")(p, r)
		conserve.C03(p, r)
		conserve.AsCompleteRules(p, r)
		conserve.CompleteWrappers(p, r)
		orders.RegionAlgebra(p, r, 2) // gts delete removes what Minimize makes of the located regions
		cachekey.FlagAfterParse(p, r) // gts delete --erase: the switch must be read after the command line has been parsed
		traps.RangePrecond(p, r) // (GenBankFields).Slice re-reads the REFERENCE ranges: slicing must not die on them
		conserve.PointVanish(p, r)
		conserve.QuantAll(p, r)
		orders.RangePred(p, r)
		conserve.NormaliseFirst(p, r, 3, core.PkgGts, core.PkgSeqio, core.PkgMain)
		conserve.SliceRegion(p, r)
		conserve.LocationMethodRules(p, r, "Expand")
		conserve.DelegateComplemented(p, r, "Expand")
		conserve.Window(p, r)
		conserve.EraseOrder(p, r)
		conserve.NegIndex(p, r)
		conserve.WrapCond(p, r)
		r.Rule("RANGE-ELEM", "inside a loop over a collection A the loop's index is used to index A itself or a collection allocated with len(A), never another collection (gts.Slice, gts.Delete, seqio.GenBankFields.Slice)", 6)
		conserve.RangeElem(p, r, [][2]string{{core.PkgGts, "Slice"}, {core.PkgGts, "Delete"}, {core.PkgSeqio, "GenBankFields.Slice"}})
		orders.Intervals(p, r)
		siblings.Expand(p, r)
	})
	register("C09", false, func(p *core.Prog, r *core.Report, tier string) {
		orders.SegmentOrder(p, r)
		if tier == "thorough" {
			orders.RegionAlgebraParallel(p, r, 4) // 2.2 million orderings of up to four segments, all cores
		} else {
			orders.RegionAlgebra(p, r, 3)
		}
		r.Exhaustive = true
		r.NotDecided = append(r.NotDecided, "the merge loop of Minimize", "abutment handling", "gap enumeration of invertSegments", "the circular merge of InvertCircular")
		r.Assumptions = append(r.Assumptions, "sort.Sort sorts correctly when given a strict weak order")
	})
	register("C19", true, func(p *core.Prog, r *core.Report, tier string) {
		effects.PureOps(2, "(FeatureSlice).Insert", "(FeatureSlice).Filter")(p, r)
		conserve.EscAutomaton(p, r)
		orders.Compare3(p, r)
		orders.RangePred(p, r)
		conserve.FilterRule(p, r)
		conserve.QuantAll(p, r)
		conserve.NotOfOr(p, r)
		conserve.LessUnwrap(p, r)
		conserve.LessQuant(p, r)
		conserve.QualifierRules(p, r)
		conserve.ValuesOnly(p, r)
		conserve.SelectorRules(p, r)
		conserve.FilterDelegate(p, r)
		conserve.StrandTally(p, r)
		conserve.StrandComplement(p, r)
		r.NotDecided = append(r.NotDecided, "selector grammar and regexp semantics", "the tie-break and the recursive cases of LocationLess", "boolean-algebra laws of And/Or/Not", "the binary search of FeatureSlice.Insert")
	})
	register("C04", true, func(p *core.Prog, r *core.Report, tier string) {
		effects.PureOps(8, "Rotate", "(FeatureSlice).Insert", "*.Shift", "*.Normalize")(p, r)
		conserve.C04(p, r)
		conserve.NoEarlyExit(p, r, core.PkgGts, "Rotate", "last", "the residues are re-spliced and the feature table is rebuilt")
		conserve.NoReorder(p, r, "Normalize", "Shift", "Expand")
		conserve.LocationMethodRules(p, r, "Normalize", "Shift", "Expand")
		conserve.NormaliseFirst(p, r, 3, core.PkgGts, core.PkgSeqio, core.PkgMain)
		conserve.DelegateComplemented(p, r, "Shift", "Expand", "Normalize")
		conserve.NormalizeArith(p, r)
		conserve.PartialCarry(p, r, "Normalize", "Shift", "Expand")
		conserve.PushComplement(p, r)
		conserve.ModNormalise(p, r)
		conserve.MergeRanged(p, r)
		siblings.Normalize(p, r)
	})
	register("C05", true, func(p *core.Prog, r *core.Report, tier string) {
		effects.PureOps(10, "Reverse", "Complement", "Transcribe", "*.Reverse", "*.Complement")(p, r)
		conserve.C05(p, r)
		conserve.ConcatOffset(p, r) // Region.Locate concatenates the slices of a multi-part location
		conserve.NoReorder(p, r, "Reverse")
		conserve.LocationMethodRules(p, r, "Reverse")
		conserve.LocateRC(p, r)
		conserve.ReverseBytes(p, r)
		conserve.RegionDelegate(p, r)
		conserve.MirrorArith(p, r)
		conserve.ComplementWrap(p, r)
		conserve.DelegateComplemented(p, r, "Reverse")
		conserve.PartialCarry(p, r, "Reverse")
		siblings.Reverse(p, r)
		tables.Alphabet(p, r)
	})
	register("C10", true, func(p *core.Prog, r *core.Report, tier string) {
		effects.PureOps(12, "Insert", "Embed", "Delete", "Slice", "Concat", "(FeatureSlice).Insert", "*.Shift", "*.Expand")(p, r)
		conserve.C10(p, r)
		conserve.QuantAll(p, r) // Slice picks the features of a piece with Overlap: a part it overlooks is cut out of the feature
		conserve.AsCompleteRules(p, r)
		conserve.LocationMethodRules(p, r, "Shift", "Expand")
		conserve.NormaliseFirst(p, r, 3, core.PkgGts, core.PkgSeqio, core.PkgMain)
		conserve.DelegateComplemented(p, r, "Shift", "Expand")
		siblings.Shift(p, r)
		siblings.Expand(p, r)
	})
	register("C08", false, func(p *core.Prog, r *core.Report, tier string) {
		conserve.C08(p, r)
		conserve.ConcatOffset(p, r) // Regions.Locate concatenates the slices of the segments
		conserve.NoEarlyExit(p, r, core.PkgGts, "Regions.Resize", "for", "the walks that carry the offsets across the segments")
		conserve.LocWhole(p, r)
		conserve.RegionDelegate(p, r)
		conserve.RecordState(p, r, []string{"extract"}, 1)
		r.Rule("DEDUP-EXACT", "a membership helper of package main (shape func([]T, T) bool) decides membership by reflect.DeepEqual or == of the element and the candidate, nothing coarser (gts extract drops repeated regions with it: two different regions must both be extracted)", 0)
		conserve.DedupExact(p, r)
	})
	register("C17", false, func(p *core.Prog, r *core.Report, tier string) {
		tables.C17(p, r)
		conserve.SliceRegion(p, r)
		globals.ShallowCache(p, r)
		cachekey.Keys(p, r) // -F fasta must give FASTA on a warm cache too: the format option belongs to the key
		tables.C16(p, r) // conversion to FASTA decodes the ORIGIN block: its layout rules are necessary for "keeps residues"
	})
	register("C06", true, func(p *core.Prog, r *core.Report, tier string) {
		effects.PureOps(2, "Join", "Order")(p, r)
		conserve.PushRules(p, r)
		conserve.PushComplement(p, r)
		conserve.OrderVerbatim(p, r)
		conserve.PushIdempotent(p, r)
		conserve.PrintParse(p, r)
		conserve.PrintTotal(p, r)
		conserve.ParseReject(p, r)
		conserve.LocGrammar(p, r)
		conserve.FlattenCases(p, r)
		conserve.PeekAdvance(p, r)
	})
	register("C15", false, func(p *core.Prog, r *core.Report, tier string) {
		conserve.C15(p, r)
		cachekey.FlagAfterParse(p, r)
		conserve.WrapCond(p, r) // split slices between consecutive cuts: the piece in front of a cut at the first base is empty
		traps.RangePrecond(p, r) // split / extract write empty pieces (a cut at the first base, a zero-width site)
		conserve.ConcatOffset(p, r) // extract locates multi-segment regions by concatenating their slices
		multi := []string{"delete", "insert", "infix", "split", "rotate", "extract"}
		conserve.StaleGuard(p, r, multi)
		conserve.EmitAll(p, r, multi, 4)
		conserve.UniqueCuts(p, r)
		conserve.FlushAll(p, r, multi, 6)
		conserve.BackToFront(p, r, multi, 3)
		conserve.RecordState(p, r, multi, 2)
		conserve.RotateHead(p, r)
		conserve.WalkPrefix(p, r) // modified locators on joined features go through Regions.Resize
		conserve.LocatorFresh(p, r)
		orders.SegmentOrder(p, r)
		orders.RegionAlgebra(p, r, 2)
	})
	register("C07", true, func(p *core.Prog, r *core.Report, tier string) {
		traps.C07(p, r)
		traps.CommitHonour(p, r)
		traps.EOFMask(p, r)
		traps.RangePrecond(p, r)
		conserve.PeekAdvance(p, r)
		traps.NoDump(p, r)
		traps.OriginLength(p, r, true)
		conserve.MapInit(p, r)
	})
	register("C11", true, func(p *core.Prog, r *core.Report, tier string) {
		effects.C11(p, r)
		globals.ShallowCache(p, r)
		conserve.LocatorFresh(p, r) // a locator is applied to record after record: what it returns must not be shared between calls
		tables.ResidueVerbatim(p, r) // (*Origin).Bytes flips a shared *Origin to "re-encode on demand": harmless only while re-encoding is exact
	})
	register("C13", false, func(p *core.Prog, r *core.Report, tier string) {
		integrity.C13(p, r)
		// the keys an entry is stored and looked up under: an entry "for a different argument digest" can
		// only be told apart if different argument lists have different digests
		cachekey.PayloadEncode(p, r)
		cachekey.HashStrong(p, r)
		cachekey.Key10(p, r) // the input is hashed from the offset it is read from: otherwise the root digest is that of another byte string
	})
	register("C14", false, func(p *core.Prog, r *core.Report, tier string) { cachekey.C14(p, r) })
}

func init() {
	register("C12", true, func(p *core.Prog, r *core.Report, tier string) {
		traps.RepairNoPanic(p, r)
		conserve.RepairRules(p, r)
		conserve.WrapCond(p, r) // the empty piece in front of a cut at the first base is Slice(seq, 0, 0)
		conserve.PushRules(p, r) // Repair pushes every location of a class through the list: what Push drops, Repair loses
		conserve.ConcatOffset(p, r)
		conserve.UniqueCuts(p, r)
		conserve.EmitAll(p, r, []string{"split"}, 1)
		conserve.LocationMethodRules(p, r, "Expand")
		conserve.NoEarlyExit(p, r, core.PkgGts, "Repair", "last", "the pass that groups the features and merges their locations")
		conserve.FlushAll(p, r, []string{"split", "repair"}, 2)
		conserve.Window(p, r) // the pieces Repair re-assembles are cut by Slice: its feature window is part of the round trip
		r.NotDecided = append(r.NotDecided, "that a cut feature is restored to its original location", "idempotence", "which abutting fragments Push merges (partial3 meets partial5)", "that the residues covered by each class are unchanged")
	})
}





package main

import (
	"gtsverif/core"
	"gtsverif/engines/cachekey"
	"gtsverif/engines/integrity"
	"gtsverif/engines/tables"
)

func init() {
	register("C18", false, func(p *core.Prog, r *core.Report, tier string) { tables.C18(p, r) })
	register("C13", false, func(p *core.Prog, r *core.Report, tier string) { integrity.C13(p, r) })
	register("C14", false, func(p *core.Prog, r *core.Report, tier string) { cachekey.C14(p, r) })
}

// gtsverif decides the properties of /verif/properties.jsonl for go-gts/gts by
// static analysis of /repo's current working tree. See /verif/DESIGN.md.
package main

import (
	"encoding/json"
	"flag"
	"fmt"
	"os"
	"os/exec"
	"path/filepath"
	"runtime/debug"
	"sort"
	"strconv"
	"strings"
	"time"

	"gtsverif/core"
	"gtsverif/engines/globals"
)

type propCheck struct {
	NeedSSA bool
	Run     func(p *core.Prog, r *core.Report, tier string)
}

var registry = map[string]propCheck{}

func register(id string, ssa bool, run func(p *core.Prog, r *core.Report, tier string)) {
	registry[id] = propCheck{ssa, run}
}

type replayFile struct {
	Property string  `json:"property"`
	Ob       core.Ob `json:"obligation"`
	Hint     string  `json:"hint"`
}

func main() {
	prop := flag.String("property", "", "property id (C01..C19)")
	tier := flag.String("tier", "quick", "quick|thorough")
	repo := flag.String("repo", "/repo", "repository under analysis")
	verif := flag.String("verif", "/verif", "verification directory")
	replay := flag.String("replay", "", "replay file: re-decide just that obligation")
	overlay := flag.String("overlay", "", "JSON map abs-path -> replacement file path (self-test mutants)")
	list := flag.Bool("list", false, "print every obligation")
	noEvidence := flag.Bool("no-evidence", false, "do not write evidence/replay files (self-test children)")
	flag.Parse()

	var only string
	if *replay != "" {
		b, err := os.ReadFile(*replay)
		if err != nil {
			fmt.Println("replay:", err)
			os.Exit(2)
		}
		var rf replayFile
		if err := json.Unmarshal(b, &rf); err != nil {
			fmt.Println("replay:", err)
			os.Exit(2)
		}
		*prop, only = rf.Property, rf.Ob.Key
		*noEvidence = true
	}
	pc, ok := registry[*prop]
	if !ok {
		var ids []string
		for k := range registry {
			ids = append(ids, k)
		}
		sort.Strings(ids)
		fmt.Printf("unknown property %q; have %v\n", *prop, ids)
		os.Exit(2)
	}
	seed, _ := strconv.Atoi(os.Getenv("VERIF_SEED"))
	t0 := time.Now()
	rep := core.NewReport(*prop)

	code := func() (code int) {
		defer func() {
			if e := recover(); e != nil {
				// a panic in the checker fails closed
				rep.Und("CHECKER", "panic", "-", fmt.Sprintf("checker panicked: %v\n%s", e, debug.Stack()))
			}
		}()
		opts := core.LoadOpts{Repo: *repo, AllSyntax: pc.NeedSSA}
		if *overlay != "" {
			b, err := os.ReadFile(*overlay)
			if err != nil {
				panic(err)
			}
			var m map[string]string
			if err := json.Unmarshal(b, &m); err != nil {
				panic(err)
			}
			opts.Overlay = map[string][]byte{}
			for k, v := range m {
				c, err := os.ReadFile(v)
				if err != nil {
					panic(err)
				}
				opts.Overlay[k] = c
			}
		}
		p, err := core.Load(opts)
		if err != nil {
			rep.Und("LOAD", "load", "-", err.Error())
			return
		}
		rep.Extra["packages_loaded"] = len(p.All)
		if pc.NeedSSA {
			p.BuildSSA()
		}
		pc.Run(p, rep, *tier)
		if stateless[*prop] {
			globals.Stateless(p, rep)
			globals.Lints(p, rep)
		}
		return
	}
	code()
	rep.CheckFloors()

	kf, err := core.LoadFindings(filepath.Join(*verif, "known_findings.json"))
	if err != nil {
		fmt.Println("known_findings.json:", err)
		os.Exit(2)
	}
	out := rep.Decide(kf)

	// thorough tier: the same rules under the other build configurations, and
	// the checker's own self-test on recorded one-instance-broken variants.
	extraEv := map[string]interface{}{}
	selfOK := true
	if *tier == "thorough" && len(out.Violations) == 0 && *overlay == "" && only == "" {
		self, _ := os.Executable()
		cfgs := map[string]string{}
		for _, env := range [][]string{{"GOARCH=386"}, {"GOOS=windows"}, {"GOOS=darwin"}} {
			keys := childKeys(self, *repo, *verif, *prop, env)
			var extra []string
			for k := range keys {
				if _, isKnown := out.KnownWhat[k]; !isKnown {
					extra = append(extra, k)
				}
			}
			sort.Strings(extra)
			name := strings.Join(env, ",")
			if len(extra) == 0 {
				cfgs[name] = "same verdict as the host configuration"
			} else {
				cfgs[name] = "reports " + strings.Join(extra, " ")
				for _, k := range extra {
					rep.Bad("CONFIG", name+"|"+k, "-", "under build configuration "+name+" the check reports "+k)
				}
			}
		}
		extraEv["build_configurations"] = cfgs
		results, ok := runSelfTest(self, *repo, *verif, *prop, nil)
		selfOK = ok
		extraEv["selftest"] = results
		caught := 0
		for _, r := range results {
			if r.Status == "caught" || r.Status == "silent-ok" {
				caught++
			}
			fmt.Printf("SELFTEST %-40s %s %s\n", r.ID, r.Status, r.Detail)
		}
		extraEv["selftest_summary"] = fmt.Sprintf("%d of %d recorded variants gave the expected verdict", caught, len(results))
		out = rep.Decide(kf)
	}

	if *list {
		for _, o := range rep.Obs {
			fmt.Printf("%-10s %-11s %s  %s  -- %s\n", o.Rule, o.Status, o.Key, o.Pos, o.Detail)
		}
	}
	if only != "" {
		for _, o := range out.Violations {
			if o.Key == only {
				fmt.Printf("VIOLATION property=%s replay=%s\n  %s %s: %s\n", *prop, *replay, o.Key, o.Pos, o.Detail)
				os.Exit(1)
			}
		}
		fmt.Printf("replay: obligation %s no longer fails\n", only)
		os.Exit(0)
	}

	counts := rep.Counts()
	var rules []string
	for k := range counts {
		rules = append(rules, k)
	}
	sort.Strings(rules)
	fmt.Printf("gtsverif property=%s tier=%s packages=%v functions=%d\n", *prop, *tier, rep.Extra["packages_loaded"], len(rep.Analysed))
	for _, k := range rules {
		fmt.Printf("  rule %-10s instances=%d floor=%d\n", k, counts[k], rep.Floors[k])
	}
	for _, o := range out.Known {
		fmt.Printf("KNOWN-FINDING: property=%s %s (%s): %s\n", *prop, o.Key, o.Pos, out.KnownWhat[o.Key])
	}
	replayDir := filepath.Join(*verif, "evidence", "replay")
	if !*noEvidence {
		os.MkdirAll(replayDir, 0o755)
		old, _ := filepath.Glob(filepath.Join(replayDir, *prop+"-*.json"))
		for _, f := range old {
			os.Remove(f)
		}
	}
	for i, o := range out.Violations {
		path := filepath.Join(replayDir, fmt.Sprintf("%s-%d.json", *prop, i+1))
		if !*noEvidence {
			b, _ := json.MarshalIndent(replayFile{*prop, o, "re-decide with: ./run.sh replay " + path}, "", " ")
			os.WriteFile(path, append(b, '\n'), 0o644)
		}
		fmt.Printf("VIOLATION property=%s replay=%s\n", *prop, path)
		fmt.Printf("  [%s] %s at %s: %s\n", o.Status, o.Key, o.Pos, o.Detail)
		for _, s := range o.Path {
			fmt.Printf("      via %s\n", s)
		}
	}
	wall := time.Since(t0).Seconds()
	if !*noEvidence {
		if err := rep.WriteEvidence(filepath.Join(*verif, "evidence"), *tier, seed, wall, out, extraEv); err != nil {
			fmt.Println("evidence:", err)
			os.Exit(2)
		}
	}
	if len(out.Violations) > 0 {
		os.Exit(1)
	}
	if !selfOK {
		fmt.Println("SELFTEST-FAILED: the checker did not give the expected verdict on its own recorded variants; its verdict on the tree is not to be believed")
		os.Exit(2)
	}
	fmt.Printf("OK property=%s obligations=%d known=%d wall=%.1fs\n", *prop, len(rep.Obs), len(out.Known), wall)
}

// childKeys runs the property in a child process under extra environment and
// returns the keys it reports as violation/undecided.
func childKeys(self, repo, verif, prop string, env []string) map[string]bool {
	cmd := exec.Command(self, "-repo", repo, "-verif", verif, "-property", prop, "-tier", "quick", "-no-evidence", "-list")
	cmd.Env = append(os.Environ(), env...)
	b, _ := cmd.CombinedOutput()
	m := map[string]bool{}
	for _, line := range strings.Split(string(b), "\n") {
		f := strings.Fields(line)
		if len(f) >= 3 && (f[1] == "violation" || f[1] == "undecided") {
			m[f[2]] = true
		}
	}
	return m
}

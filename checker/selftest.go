package main

import (
	"encoding/json"
	"fmt"
	"os"
	"os/exec"
	"path/filepath"
	"sort"
	"strings"
	"sync"
)

// Mutant is one recorded edit of the self-test corpus: a variant of /repo with
// exactly one rule instance broken. It is applied through a go/packages overlay
// (nothing is written under /repo or /verif) and must be reported by the rule.
type Mutant struct {
	ID       string   `json:"id"`
	Property string   `json:"property"`
	File     string   `json:"file"` // relative to the repository root
	Old      string   `json:"old"`  // must occur exactly once in the file
	New      string   `json:"new"`
	Old2     string   `json:"old2,omitempty"` // optional second edit in the same file
	New2     string   `json:"new2,omitempty"`
	File3    string   `json:"file3,omitempty"` // optional: one edit (every occurrence) in a second file, e.g. the other callers of a renamed helper
	Old3     string   `json:"old3,omitempty"`
	New3     string   `json:"new3,omitempty"`
	Expect   []string `json:"expect"` // substrings of obligation keys that must be reported
	Silent   bool     `json:"silent"` // behaviour-preserving variant: nothing may be reported
	Note     string   `json:"note"`
}

type mutantResult struct {
	ID       string   `json:"id"`
	Status   string   `json:"status"` // caught | missed | inapplicable | silent-ok | false-alarm | broken
	Reported []string `json:"reported,omitempty"`
	Detail   string   `json:"detail,omitempty"`
}

func loadMutants(verif, prop string) ([]Mutant, error) {
	b, err := os.ReadFile(filepath.Join(verif, "selftest", "mutants.json"))
	if err != nil {
		return nil, err
	}
	var all []Mutant
	if err := json.Unmarshal(b, &all); err != nil {
		return nil, err
	}
	var out []Mutant
	for _, m := range all {
		if m.Property == prop {
			// development aid: GTSVERIF_ONLY=<substring> runs only the matching variants
			if only := os.Getenv("GTSVERIF_ONLY"); only != "" && !strings.Contains(m.ID, only) {
				continue
			}
			out = append(out, m)
		}
	}
	return out, nil
}

// runSelfTest applies every mutant of prop in a child process and checks the
// verdicts. It returns results and whether the checker can be believed.
func runSelfTest(self, repo, verif, prop string, extraEnv []string) ([]mutantResult, bool) {
	muts, err := loadMutants(verif, prop)
	if err != nil {
		return []mutantResult{{ID: "-", Status: "broken", Detail: err.Error()}}, false
	}
	tmp, err := os.MkdirTemp("", "gtsverif-selftest-")
	if err != nil {
		return []mutantResult{{ID: "-", Status: "broken", Detail: err.Error()}}, false
	}
	defer os.RemoveAll(tmp)
	results := make([]mutantResult, len(muts))
	sem := make(chan struct{}, 6)
	var wg sync.WaitGroup
	for i, m := range muts {
		wg.Add(1)
		go func(i int, m Mutant) {
			defer wg.Done()
			sem <- struct{}{}
			defer func() { <-sem }()
			results[i] = runMutant(self, repo, verif, tmp, i, m, extraEnv)
		}(i, m)
	}
	wg.Wait()
	ok := true
	for _, r := range results {
		if r.Status == "missed" || r.Status == "false-alarm" || r.Status == "broken" {
			ok = false
		}
	}
	return results, ok
}

func runMutant(self, repo, verif, tmp string, i int, m Mutant, extraEnv []string) mutantResult {
	abs := filepath.Join(repo, m.File)
	src, err := os.ReadFile(abs)
	if err != nil {
		return mutantResult{ID: m.ID, Status: "inapplicable", Detail: err.Error()}
	}
	if strings.Count(string(src), m.Old) != 1 {
		return mutantResult{ID: m.ID, Status: "inapplicable", Detail: fmt.Sprintf("anchor text occurs %d times in %s (tree differs from the one the corpus was recorded on)", strings.Count(string(src), m.Old), m.File)}
	}
	mut := strings.Replace(string(src), m.Old, m.New, 1)
	if m.Old2 != "" {
		if strings.Count(mut, m.Old2) != 1 {
			return mutantResult{ID: m.ID, Status: "inapplicable", Detail: "second anchor text not found exactly once"}
		}
		mut = strings.Replace(mut, m.Old2, m.New2, 1)
	}
	mf := filepath.Join(tmp, fmt.Sprintf("m%d.go", i))
	if err := os.WriteFile(mf, []byte(mut), 0o644); err != nil {
		return mutantResult{ID: m.ID, Status: "broken", Detail: err.Error()}
	}
	ov := filepath.Join(tmp, fmt.Sprintf("m%d.json", i))
	files := map[string]string{abs: mf}
	if m.File3 != "" {
		abs3 := filepath.Join(repo, m.File3)
		src3, err := os.ReadFile(abs3)
		if err != nil || !strings.Contains(string(src3), m.Old3) {
			return mutantResult{ID: m.ID, Status: "inapplicable", Detail: "anchor text of the second file not found"}
		}
		mf3 := filepath.Join(tmp, fmt.Sprintf("m%d_3.go", i))
		if err := os.WriteFile(mf3, []byte(strings.ReplaceAll(string(src3), m.Old3, m.New3)), 0o644); err != nil {
			return mutantResult{ID: m.ID, Status: "broken", Detail: err.Error()}
		}
		files[abs3] = mf3
	}
	b, _ := json.Marshal(files)
	os.WriteFile(ov, b, 0o644)
	cmd := exec.Command(self, "-repo", repo, "-verif", verif, "-property", m.Property, "-tier", "quick", "-overlay", ov, "-no-evidence", "-list")
	cmd.Env = append(os.Environ(), extraEnv...)
	out, _ := cmd.CombinedOutput()
	var reported []string
	loadFail := false
	for _, line := range strings.Split(string(out), "\n") {
		f := strings.Fields(line)
		if len(f) >= 3 && (f[1] == "violation" || f[1] == "undecided") {
			reported = append(reported, f[2])
			if strings.HasPrefix(f[2], "LOAD|") {
				loadFail = true
			}
		}
	}
	sort.Strings(reported)
	if loadFail {
		return mutantResult{ID: m.ID, Status: "broken", Reported: reported, Detail: "mutant does not type-check: " + firstLines(string(out), 3)}
	}
	// known findings are listed as violations in -list output too; drop those the pristine tree has
	if m.Silent {
		base := baselineKeys(self, repo, verif, m.Property, extraEnv)
		var extra []string
		for _, k := range reported {
			if !base[k] {
				extra = append(extra, k)
			}
		}
		if len(extra) > 0 {
			return mutantResult{ID: m.ID, Status: "false-alarm", Reported: extra, Detail: "behaviour-preserving variant was reported"}
		}
		return mutantResult{ID: m.ID, Status: "silent-ok"}
	}
	for _, want := range m.Expect {
		found := false
		for _, k := range reported {
			if strings.Contains(k, want) {
				found = true
			}
		}
		if !found {
			return mutantResult{ID: m.ID, Status: "missed", Reported: reported, Detail: "expected a report containing " + want}
		}
	}
	return mutantResult{ID: m.ID, Status: "caught", Reported: reported}
}

var (
	baseOnce sync.Map
)

func baselineKeys(self, repo, verif, prop string, extraEnv []string) map[string]bool {
	if v, ok := baseOnce.Load(prop); ok {
		return v.(map[string]bool)
	}
	cmd := exec.Command(self, "-repo", repo, "-verif", verif, "-property", prop, "-tier", "quick", "-no-evidence", "-list")
	cmd.Env = append(os.Environ(), extraEnv...)
	out, _ := cmd.CombinedOutput()
	m := map[string]bool{}
	for _, line := range strings.Split(string(out), "\n") {
		f := strings.Fields(line)
		if len(f) >= 3 && (f[1] == "violation" || f[1] == "undecided") {
			m[f[2]] = true
		}
	}
	baseOnce.Store(prop, m)
	return m
}

func firstLines(s string, n int) string {
	ls := strings.Split(s, "\n")
	if len(ls) > n {
		ls = ls[:n]
	}
	return strings.Join(ls, " | ")
}

package conserve

import (
	"fmt"
	"go/ast"
	"go/token"
	"go/types"

	"gtsverif/core"
)

// Window decides WINDOW: every survival decision of Slice/Erase is made by the
// library's interval predicates applied to the very window bounds.
func Window(p *core.Prog, r *core.Report) {
	r.Rule("WINDOW", "what survives a slice or an erase is decided by the library's own interval predicates on the window bounds: gts.Slice filters features with Overlap(start, end) on its (normalised) bounds, gts.Erase with Not(Within(offset, offset+length)) or-ed with the source key, and GenBankFields.Slice keeps a reference range exactly when gts.LocationOverlap(range, start, end) holds", 3)
	// gts.Slice
	info := p.Info(core.PkgGts)
	if fd := p.FuncDecl(core.PkgGts, "Slice"); fd == nil || fd.Body == nil {
		r.Und("WINDOW", "gts.Slice|anchor", "-", "anchor-unresolved")
	} else {
		r.Fn("gts.Slice")
		ok := false
		var pos token.Pos = fd.Pos()
		for _, c := range core.Calls(fd.Body) {
			if !core.IsCallTo(info, c, core.PkgGts+".Overlap") || len(c.Args) != 2 {
				continue
			}
			pos = c.Pos()
			if core.ParamIndex(info, fd, core.ObjOf(info, c.Args[0])) == 1 && core.ParamIndex(info, fd, core.ObjOf(info, c.Args[1])) == 2 {
				// and it is the argument of the Filter applied to the sequence's features
				par := core.Parents(fd.Body)
				if fc, isCall := par[c].(*ast.CallExpr); isCall && core.IsCallTo(info, fc, core.PkgGts+".FeatureSlice.Filter") {
					ok = true
				}
			}
		}
		if ok {
			r.Ok("WINDOW", "gts.Slice|features", p.Pos(pos), "features are kept by Filter(Overlap(start, end)) on the slice bounds")
		} else {
			r.Bad("WINDOW", "gts.Slice|features", p.Pos(pos), "features of a slice are not selected by Overlap(start, end) on the slice's own bounds")
		}
	}
	// gts.Erase
	if fd := p.FuncDecl(core.PkgGts, "Erase"); fd == nil || fd.Body == nil {
		r.Und("WINDOW", "gts.Erase|anchor", "-", "anchor-unresolved")
	} else {
		r.Fn("gts.Erase")
		ok := false
		for _, c := range core.Calls(fd.Body) {
			if !core.IsCallTo(info, c, core.PkgGts+".Within") || len(c.Args) != 2 {
				continue
			}
			lo := core.ParamIndex(info, fd, core.ObjOf(info, c.Args[0])) == 1
			hi := false
			if be, isBin := ast.Unparen(c.Args[1]).(*ast.BinaryExpr); isBin && be.Op == token.ADD {
				a, b := core.ParamIndex(info, fd, core.ObjOf(info, be.X)), core.ParamIndex(info, fd, core.ObjOf(info, be.Y))
				hi = (a == 1 && b == 2) || (a == 2 && b == 1)
			}
			par := core.Parents(fd.Body)
			neg := false
			if nc, isCall := par[c].(*ast.CallExpr); isCall && core.IsCallTo(info, nc, core.PkgGts+".Not") {
				if oc, isCall := par[nc].(*ast.CallExpr); isCall && core.IsCallTo(info, oc, core.PkgGts+".Or") {
					neg = true
				}
			}
			if lo && hi && neg {
				ok = true
			}
		}
		if ok {
			r.Ok("WINDOW", "gts.Erase|features", p.Pos(fd.Pos()), "features are dropped exactly when Within(offset, offset+length), source features excepted")
		} else {
			r.Bad("WINDOW", "gts.Erase|features", p.Pos(fd.Pos()), "Erase does not drop features by Or(source, Not(Within(offset, offset+length)))")
		}
	}
	// seqio.GenBankFields.Slice
	sinfo := p.Info(core.PkgSeqio)
	if fd := p.FuncDecl(core.PkgSeqio, "GenBankFields.Slice"); fd == nil || fd.Body == nil {
		r.Und("WINDOW", "seqio.GenBankFields.Slice|anchor", "-", "anchor-unresolved")
	} else {
		r.Fn("seqio.GenBankFields.Slice")
		n := 0
		ast.Inspect(fd.Body, func(m ast.Node) bool {
			is, ok := m.(*ast.IfStmt)
			if !ok || len(is.Body.List) != 1 {
				return true
			}
			as, ok := is.Body.List[0].(*ast.AssignStmt)
			if !ok || len(as.Rhs) != 1 {
				return true
			}
			app, ok := ast.Unparen(as.Rhs[0]).(*ast.CallExpr)
			if !ok || !core.IsBuiltin(sinfo, app, "append") || len(app.Args) != 2 {
				return true
			}
			if core.NamedOf(sinfo.Types[app.Args[1]].Type) != core.PkgGts+".Ranged" {
				return true
			}
			n++
			key := fmt.Sprintf("seqio.GenBankFields.Slice|reference-range#%d", n)
			kept := core.ObjOf(sinfo, app.Args[1])
			c, isCall := ast.Unparen(is.Cond).(*ast.CallExpr)
			good := isCall && core.IsCallTo(sinfo, c, core.PkgGts+".LocationOverlap") && len(c.Args) == 3 &&
				core.ObjOf(sinfo, c.Args[0]) == kept && kept != nil &&
				core.ParamIndex(sinfo, fd, core.ObjOf(sinfo, c.Args[1])) == 0 && core.ParamIndex(sinfo, fd, core.ObjOf(sinfo, c.Args[2])) == 1
			if good {
				r.Ok("WINDOW", key, p.Pos(is.Pos()), "a reference range is kept exactly when LocationOverlap(range, start, end)")
			} else {
				r.Bad("WINDOW", key, p.Pos(is.Pos()), "a reference range is kept on a condition other than gts.LocationOverlap(range, start, end): ranges that only abut the window survive (clipped to empty or inverted ranges) or overlapping ones are dropped")
			}
			return true
		})
		if n == 0 {
			r.Und("WINDOW", "seqio.GenBankFields.Slice|reference-range", p.Pos(fd.Pos()), "no conditional append of a reference range found")
		}
	}
	_ = types.Typ
}

// ModNormalise decides MOD-NORMALISE on gts.Rotate: the rotation amount is
// reduced into [0, L) by one of the recognised idioms before it is used.
func ModNormalise(p *core.Prog, r *core.Report) {
	r.Rule("MOD-NORMALISE", "gts.Rotate reduces its amount into [0, L) before use by a recognised idiom: a loop adding L while n < 0 followed by n %= L, or ((n % L) + L) % L", 1)
	info := p.Info(core.PkgGts)
	fd := p.FuncDecl(core.PkgGts, "Rotate")
	if fd == nil || fd.Body == nil {
		r.Und("MOD-NORMALISE", "gts.Rotate|anchor", "-", "anchor-unresolved")
		return
	}
	r.Fn("gts.Rotate")
	var nObj types.Object
	k := 0
	for _, f := range fd.Type.Params.List {
		for _, nm := range f.Names {
			if k == 1 {
				nObj = info.Defs[nm]
			}
			k++
		}
	}
	isLenSeq := func(e ast.Expr) bool {
		c, ok := ast.Unparen(core.Origin(info, core.Assigns(info, fd.Body), e)).(*ast.CallExpr)
		if !ok {
			return false
		}
		if core.IsCallTo(info, c, core.PkgGts+".Len") && len(c.Args) == 1 && core.ParamIndex(info, fd, core.ObjOf(info, c.Args[0])) == 0 {
			return true
		}
		return false
	}
	loopOK, modOK, combined := false, false, false
	var modPos, loopPos token.Pos
	ast.Inspect(fd.Body, func(m ast.Node) bool {
		switch x := m.(type) {
		case *ast.ForStmt:
			// for ... n < 0 ... { n += L }
			condOK := false
			ast.Inspect(x.Cond, func(c ast.Node) bool {
				if be, ok := c.(*ast.BinaryExpr); ok && be.Op == token.LSS && core.ObjOf(info, be.X) == nObj {
					if z, ok := core.ConstInt(info, be.Y); ok && z == 0 {
						condOK = true
					}
				}
				return true
			})
			if condOK && len(x.Body.List) == 1 {
				if as, ok := x.Body.List[0].(*ast.AssignStmt); ok && as.Tok == token.ADD_ASSIGN && core.ObjOf(info, as.Lhs[0]) == nObj && isLenSeq(as.Rhs[0]) {
					loopOK, loopPos = true, x.Pos()
				}
			}
		case *ast.AssignStmt:
			if len(x.Lhs) == 1 && core.ObjOf(info, x.Lhs[0]) == nObj {
				if x.Tok == token.REM_ASSIGN && isLenSeq(x.Rhs[0]) {
					modOK, modPos = true, x.Pos()
				}
				if x.Tok == token.ASSIGN {
					// ((n % L) + L) % L
					if o, ok := ast.Unparen(x.Rhs[0]).(*ast.BinaryExpr); ok && o.Op == token.REM && isLenSeq(o.Y) {
						if in, ok := ast.Unparen(o.X).(*ast.BinaryExpr); ok && in.Op == token.ADD {
							for _, pr := range [][2]ast.Expr{{in.X, in.Y}, {in.Y, in.X}} {
								if rm, ok := ast.Unparen(pr[0]).(*ast.BinaryExpr); ok && rm.Op == token.REM && core.ObjOf(info, rm.X) == nObj && isLenSeq(rm.Y) && isLenSeq(pr[1]) {
									combined = true
								}
							}
						}
					}
				}
			}
		}
		return true
	})
	switch {
	case combined, loopOK && modOK && loopPos < modPos:
		r.Ok("MOD-NORMALISE", "gts.Rotate", p.Pos(fd.Pos()), "the amount is reduced into [0, L) for every sign and magnitude")
	default:
		r.Bad("MOD-NORMALISE", "gts.Rotate", p.Pos(fd.Pos()), fmt.Sprintf("the rotation amount is not reduced into [0, L) by a recognised idiom (negative loop: %v, modulo: %v): amounts below -L or above L leave it negative or too large, locations are clipped and the byte slicing panics", loopOK, modOK))
	}
}

// Qualifier rules for C19.
func QualifierRules(p *core.Prog, r *core.Report) {
	r.Rule("REGEXP-PRED", "inside gts.Qualifier every decision on the compiled expression is `re.MatchString(value)` used directly as a condition (an unanchored search for a match, including an empty match)", 2)
	r.Rule("SOURCE-PREFIX", "FeatureSlice.Insert first skips the whole leading block of source features with a loop `for i < len(ff) && ff[i].Key == \"source\" { i++ }` and searches for the position only behind it", 1)
	info := p.Info(core.PkgGts)
	if fd := p.FuncDecl(core.PkgGts, "Qualifier"); fd == nil || fd.Body == nil {
		r.Und("REGEXP-PRED", "gts.Qualifier|anchor", "-", "anchor-unresolved")
	} else {
		r.Fn("gts.Qualifier")
		var re types.Object
		for o, as := range core.Assigns(info, fd.Body) {
			for _, a := range as {
				if a.Call != nil && core.IsCallTo(info, a.Call, "regexp.Compile", "regexp.MustCompile") && a.Idx == 0 {
					re = o
				}
			}
		}
		if re == nil {
			r.Und("REGEXP-PRED", "gts.Qualifier|compile", p.Pos(fd.Pos()), "no regexp.Compile result found")
		} else {
			par := core.Parents(fd.Body)
			n := 0
			for _, c := range core.Calls(fd.Body) {
				sel, ok := ast.Unparen(c.Fun).(*ast.SelectorExpr)
				if !ok || core.ObjOf(info, sel.X) != re {
					continue
				}
				n++
				key := fmt.Sprintf("gts.Qualifier|use#%d", n)
				is, isCond := par[c].(*ast.IfStmt)
				if core.IsCallTo(info, c, "regexp.Regexp.MatchString") && isCond && is.Cond == ast.Expr(c) {
					r.Ok("REGEXP-PRED", key, p.Pos(c.Pos()), "decided by re.MatchString used directly as the condition")
				} else {
					r.Bad("REGEXP-PRED", key, p.Pos(c.Pos()), "a qualifier clause is not decided by re.MatchString(value) directly: a different regexp method (or a comparison of its result) changes which values match, e.g. treats an empty match as no match")
				}
			}
			if n == 0 {
				r.Bad("REGEXP-PRED", "gts.Qualifier|unused", p.Pos(fd.Pos()), "the compiled expression is never consulted")
			}
		}
	}
	if fd := p.FuncDecl(core.PkgGts, "FeatureSlice.Insert"); fd == nil || fd.Body == nil {
		r.Und("SOURCE-PREFIX", "gts.FeatureSlice.Insert|anchor", "-", "anchor-unresolved")
	} else {
		r.Fn("gts.FeatureSlice.Insert")
		recv := info.Defs[fd.Recv.List[0].Names[0]]
		ok := false
		ast.Inspect(fd.Body, func(m ast.Node) bool {
			fs, isFor := m.(*ast.ForStmt)
			if !isFor || fs.Cond == nil {
				return true
			}
			be, isBin := ast.Unparen(fs.Cond).(*ast.BinaryExpr)
			if !isBin || be.Op != token.LAND {
				return true
			}
			bound, isB := ast.Unparen(be.X).(*ast.BinaryExpr)
			key, isK := ast.Unparen(be.Y).(*ast.BinaryExpr)
			if !isB || !isK || bound.Op != token.LSS || key.Op != token.EQL {
				return true
			}
			i := core.ObjOf(info, bound.X)
			lc, isLen := ast.Unparen(bound.Y).(*ast.CallExpr)
			if i == nil || !isLen || !core.IsBuiltin(info, lc, "len") || core.ObjOf(info, lc.Args[0]) != recv {
				return true
			}
			s, isStr := core.ConstString(info, key.Y)
			sel, isSel := ast.Unparen(key.X).(*ast.SelectorExpr)
			if !isStr || s != "source" || !isSel || sel.Sel.Name != "Key" {
				return true
			}
			ix, isIx := ast.Unparen(sel.X).(*ast.IndexExpr)
			if !isIx || core.ObjOf(info, ix.X) != recv || core.ObjOf(info, ix.Index) != i {
				return true
			}
			// body or post increments i
			inc := false
			check := func(st ast.Stmt) {
				if id, isInc := st.(*ast.IncDecStmt); isInc && id.Tok == token.INC && core.ObjOf(info, id.X) == i {
					inc = true
				}
			}
			if fs.Post != nil {
				check(fs.Post)
			}
			for _, st := range fs.Body.List {
				check(st)
			}
			if inc {
				ok = true
			}
			return true
		})
		if ok {
			r.Ok("SOURCE-PREFIX", "gts.FeatureSlice.Insert", p.Pos(fd.Pos()), "the whole leading source block is skipped before the position is searched")
		} else {
			r.Bad("SOURCE-PREFIX", "gts.FeatureSlice.Insert", p.Pos(fd.Pos()), "Insert does not skip every leading source feature: with two or more source features a non-source feature can be placed in front of a source")
		}
	}
}

// SelectorRules: SELECTOR-SPLIT and STRAND-PRED for C19.
func SelectorRules(p *core.Prog, r *core.Report) {
	r.Rule("SELECTOR-SPLIT", "a selector clause is split into name and regexp at its FIRST `=` (IndexByte/Index/SplitN(...,2)/Cut), so the regexp may itself contain `=`", 1)
	r.Rule("STRAND-PRED", "ForwardStrand and ReverseStrand accept exactly CheckStrand(loc) == StrandForward resp. StrandReverse (the strand has three values; mixed-strand locations are neither)", 2)
	info := p.Info(core.PkgGts)
	fd := p.FuncDecl(core.PkgGts, "toQualifier")
	if fd == nil {
		// the helper may have been folded into its only caller: the clause is then split there
		fd = p.FuncDecl(core.PkgGts, "Selector")
	}
	if fd == nil || fd.Body == nil {
		r.Und("SELECTOR-SPLIT", "gts.toQualifier|anchor", "-", "anchor-unresolved")
	} else {
		r.Fn("gts.toQualifier")
		verdict, pos := "", fd.Pos()
		for _, c := range core.Calls(fd.Body) {
			switch core.FuncID(core.Callee(info, c)) {
			case "strings.IndexByte", "strings.Index", "strings.IndexRune", "strings.Cut":
				if verdict == "" {
					verdict, pos = "ok", c.Pos()
				}
			case "strings.SplitN":
				if n, ok := core.ConstInt(info, c.Args[2]); ok && n == 2 {
					if verdict == "" {
						verdict, pos = "ok", c.Pos()
					}
				} else {
					verdict, pos = "bad", c.Pos()
				}
			case "strings.Split", "strings.LastIndex", "strings.LastIndexByte", "strings.Fields", "strings.SplitAfter":
				verdict, pos = "bad", c.Pos()
			}
		}
		switch verdict {
		case "ok":
			r.Ok("SELECTOR-SPLIT", "gts.toQualifier", p.Pos(pos), "split at the first `=`")
		case "bad":
			r.Bad("SELECTOR-SPLIT", "gts.toQualifier", p.Pos(pos), "the clause is not split at its first `=`: a regexp that contains `=` is cut short (or the name swallows part of it)")
		default:
			r.Und("SELECTOR-SPLIT", "gts.toQualifier", p.Pos(pos), "no recognised split of the clause")
		}
	}
	for _, w := range []struct{ fn, want string }{{"ForwardStrand", "StrandForward"}, {"ReverseStrand", "StrandReverse"}} {
		fd := p.FuncDecl(core.PkgGts, w.fn)
		if fd == nil || fd.Body == nil {
			r.Und("STRAND-PRED", "gts."+w.fn+"|anchor", "-", "anchor-unresolved")
			continue
		}
		r.Fn("gts." + w.fn)
		good := false
		if len(fd.Body.List) == 1 {
			if rs, ok := fd.Body.List[0].(*ast.ReturnStmt); ok && len(rs.Results) == 1 {
				if be, ok := ast.Unparen(rs.Results[0]).(*ast.BinaryExpr); ok && be.Op == token.EQL {
					for _, pr := range [][2]ast.Expr{{be.X, be.Y}, {be.Y, be.X}} {
						c, isCall := ast.Unparen(pr[0]).(*ast.CallExpr)
						k, isConst := core.ObjOf(info, pr[1]).(*types.Const)
						if isCall && core.IsCallTo(info, c, core.PkgGts+".CheckStrand") && isConst && k.Name() == w.want {
							good = true
						}
					}
				}
			}
		}
		if good {
			r.Ok("STRAND-PRED", "gts."+w.fn, p.Pos(fd.Pos()), "CheckStrand(loc) == "+w.want)
		} else {
			r.Bad("STRAND-PRED", "gts."+w.fn, p.Pos(fd.Pos()), "the strand filter is not `CheckStrand(f.Loc) == "+w.want+"`: mixed-strand (join of plain and complemented parts) locations are classified with one of the pure strands")
		}
	}
}

package conserve

import (
	"go/ast"
	"go/types"
	"strings"

	"gtsverif/core"
)

// DelegateComplemented decides DELEGATE-COMPLEMENT: the coordinate methods of
// Complemented are pure wrappers: the result is Complemented{inner.M(own
// parameters)} and nothing else - no case analysis on the inner location, no
// adjustment of its fields.
func DelegateComplemented(p *core.Prog, r *core.Report, methods ...string) {
	r.Rule("DELEGATE-COMPLEMENT", "each coordinate method M of gts.Complemented returns exactly Complemented{receiver.Location.M(own parameters in order)} (through single-definition locals at most): the strand wrapper neither inspects nor adjusts what the inner location computes", len(methods))
	info := p.Info(core.PkgGts)
	for _, m := range methods {
		fn := "gts.Complemented." + m
		fd := p.FuncDecl(core.PkgGts, "Complemented."+m)
		if fd == nil || fd.Body == nil {
			r.Und("DELEGATE-COMPLEMENT", fn+"|anchor", "-", "anchor-unresolved")
			continue
		}
		r.Fn(fn)
		recv := fd.Recv.List[0].Names[0].Name
		var params []string
		for _, f := range fd.Type.Params.List {
			for _, nm := range f.Names {
				params = append(params, nm.Name)
			}
		}
		want := recv + ".Location." + m + "(" + strings.Join(params, ", ") + ")"
		rets := core.Returns(fd.Body)
		if len(rets) != 1 || len(rets[0].Results) != 1 {
			r.Bad("DELEGATE-COMPLEMENT", fn, p.Pos(fd.Pos()), "the method has more than one return: the wrapper distinguishes cases the inner location should decide")
			continue
		}
		// no statement other than single-definition locals and the return
		extra := ""
		for _, st := range fd.Body.List {
			switch x := st.(type) {
			case *ast.ReturnStmt:
			case *ast.AssignStmt:
				if x.Tok.String() != ":=" {
					extra = "assigns to an existing variable or field"
				}
			default:
				extra = "contains a statement other than a local definition and the return"
			}
		}
		if extra != "" {
			r.Bad("DELEGATE-COMPLEMENT", fn, p.Pos(fd.Pos()), "the wrapper "+extra+": it adjusts what the inner location computed")
			continue
		}
		s := newSym(p, info, fd.Body)
		got := map[string]string{}
		e := rets[0].Results[0]
		if core.NamedOf(info.TypeOf(e)) != core.PkgGts+".Complemented" || structOf(info.TypeOf(e)) == nil {
			r.Bad("DELEGATE-COMPLEMENT", fn, p.Pos(e.Pos()), "the result is not a Complemented value")
			continue
		}
		if !s.fields(e, "", got) {
			r.Und("DELEGATE-COMPLEMENT", fn, p.Pos(e.Pos()), "result not resolvable: "+s.why)
			continue
		}
		if got["Location"] != want {
			r.Bad("DELEGATE-COMPLEMENT", fn, p.Pos(e.Pos()), "the wrapped location is `"+got["Location"]+"`, must be `"+want+"`")
			continue
		}
		r.Ok("DELEGATE-COMPLEMENT", fn, p.Pos(e.Pos()), "Complemented{"+want+"}")
	}
	_ = types.Typ
}

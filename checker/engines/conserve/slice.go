package conserve

import (
	"fmt"
	"go/ast"
	"go/token"
	"go/types"

	"gtsverif/core"
)

// EraseOrder decides ERASE-ORDER: gts.Erase decides which features to drop on
// the coordinates of its argument, before anything is deleted: the Filter is
// applied to the features of the parameter as passed, and Delete receives the
// sequence carrying the filtered table.
func EraseOrder(p *core.Prog, r *core.Report) {
	r.Rule("ERASE-ORDER", "gts.Erase applies its Within filter to the features of the sequence as passed (no edit operation on any path before the Filter) and hands Delete the sequence that carries the filtered table", 1)
	info := p.Info(core.PkgGts)
	fd := p.FuncDecl(core.PkgGts, "Erase")
	if fd == nil || fd.Body == nil {
		r.Und("ERASE-ORDER", "gts.Erase|anchor", "-", "anchor-unresolved")
		return
	}
	r.Fn("gts.Erase")
	key := "gts.Erase"
	for _, st := range fd.Body.List {
		switch st.(type) {
		case *ast.AssignStmt, *ast.ReturnStmt, *ast.DeclStmt:
		default:
			r.Und("ERASE-ORDER", key, p.Pos(st.Pos()), "Erase is no longer straight-line code")
			return
		}
	}
	asg := core.Assigns(info, fd.Body)
	var filter, del *ast.CallExpr
	for _, c := range core.Calls(fd.Body) {
		if core.IsCallTo(info, c, core.PkgGts+".FeatureSlice.Filter") && filter == nil {
			filter = c
		}
		if (core.IsCallTo(info, c, core.PkgGts+".Delete")) && del == nil {
			del = c
		}
	}
	if filter == nil || del == nil {
		r.Bad("ERASE-ORDER", key, p.Pos(fd.Pos()), "Erase does not filter the features and then delegate to Delete")
		return
	}
	if del.Pos() < filter.Pos() {
		r.Bad("ERASE-ORDER", key, p.Pos(del.Pos()), "Delete runs before the Within filter: the filter then sees locations already shifted into the shortened sequence, so features are dropped (or kept) by the wrong coordinates")
		return
	}
	// the Filter's receiver: features of the parameter, with no assignment to it before
	sel, _ := ast.Unparen(filter.Fun).(*ast.SelectorExpr)
	recv, isF := isFeaturesCall(info, sel.X)
	if !isF {
		if o := core.OriginBefore(info, asg, sel.X); o != nil {
			recv, isF = isFeaturesCall(info, o)
		}
	}
	root := rootIdent(recv)
	if !isF || root == nil || core.ParamIndex(info, fd, core.ObjOf(info, root)) != 0 {
		r.Bad("ERASE-ORDER", key, p.Pos(filter.Pos()), "the Within filter is not applied to the features of Erase's own argument")
		return
	}
	for _, a := range asg[core.ObjOf(info, root)] {
		if a.Pos < filter.Pos() && a.Node != nil {
			if _, isParam := a.Node.(*ast.Field); isParam {
				continue
			}
			if a.RHS != nil || a.Call != nil {
				r.Bad("ERASE-ORDER", key, p.Pos(a.Pos), "the argument is reassigned before the Within filter looks at its features")
				return
			}
		}
	}
	// Delete's first argument carries the filtered table
	arg := core.OriginBefore(info, asg, del.Args[0])
	wc, ok := ast.Unparen(arg).(*ast.CallExpr)
	carries := false
	if ok && core.IsCallTo(info, wc, core.PkgGts+".WithFeatures") && len(wc.Args) == 2 {
		t := core.OriginBefore(info, asg, wc.Args[1])
		if t == ast.Expr(filter) || ast.Unparen(t) == ast.Expr(filter) {
			carries = true
		}
	}
	if !carries {
		r.Bad("ERASE-ORDER", key, p.Pos(del.Pos()), "the sequence handed to Delete does not carry the filtered feature table")
		return
	}
	r.Ok("ERASE-ORDER", key, p.Pos(filter.Pos()), "filter on the argument's coordinates, then Delete(WithFeatures(seq, filtered))")
}

// NegIndex decides NEG-INDEX on gts.Slice: each bound is shifted by the
// sequence length exactly when it is negative.
func NegIndex(p *core.Prog, r *core.Report) {
	r.Rule("NEG-INDEX", "gts.Slice adds Len(seq) to start and to end exactly when the bound is negative (guard equivalent to `bound < 0`, body `bound += Len(seq)`), so 0 stays 0", 2)
	info := p.Info(core.PkgGts)
	fd := p.FuncDecl(core.PkgGts, "Slice")
	if fd == nil || fd.Body == nil {
		r.Und("NEG-INDEX", "gts.Slice|anchor", "-", "anchor-unresolved")
		return
	}
	r.Fn("gts.Slice")
	asg := core.Assigns(info, fd.Body)
	isLen := func(e ast.Expr) bool {
		c, ok := ast.Unparen(core.Origin(info, asg, e)).(*ast.CallExpr)
		return ok && core.IsCallTo(info, c, core.PkgGts+".Len") && len(c.Args) == 1 && core.ParamIndex(info, fd, core.ObjOf(info, c.Args[0])) == 0
	}
	names := []string{"", "start", "end"}
	for pi := 1; pi <= 2; pi++ {
		key := "gts.Slice|" + names[pi]
		found, good := false, false
		var pos token.Pos = fd.Pos()
		for _, st := range fd.Body.List {
			is, ok := st.(*ast.IfStmt)
			if !ok || len(is.Body.List) != 1 || is.Else != nil {
				continue
			}
			as, ok := is.Body.List[0].(*ast.AssignStmt)
			if !ok || as.Tok != token.ADD_ASSIGN || len(as.Lhs) != 1 || core.ParamIndex(info, fd, core.ObjOf(info, as.Lhs[0])) != pi {
				continue
			}
			found, pos = true, is.Pos()
			if !isLen(as.Rhs[0]) {
				continue
			}
			be, ok := ast.Unparen(is.Cond).(*ast.BinaryExpr)
			if !ok {
				continue
			}
			x, y, op := be.X, be.Y, be.Op
			if core.ParamIndex(info, fd, core.ObjOf(info, y)) == pi { // c OP p  ->  p OP' c
				x, y = y, x
				switch op {
				case token.GTR:
					op = token.LSS
				case token.GEQ:
					op = token.LEQ
				default:
					op = token.ILLEGAL
				}
			}
			c, isC := core.ConstInt(info, y)
			if core.ParamIndex(info, fd, core.ObjOf(info, x)) == pi && isC && (op == token.LSS && c == 0 || op == token.LEQ && c == -1) {
				good = true
			}
		}
		switch {
		case !found:
			r.Bad("NEG-INDEX", key, p.Pos(pos), "no `if "+names[pi]+" < 0 { "+names[pi]+" += Len(seq) }` normalisation")
		case !good:
			r.Bad("NEG-INDEX", key, p.Pos(pos), "the bound is shifted by the sequence length on a condition other than `"+names[pi]+" < 0`: a bound of 0 (or a positive one) is moved, or a negative one is not")
		default:
			r.Ok("NEG-INDEX", key, p.Pos(pos), "shifted by Len(seq) exactly when negative")
		}
	}
}

// RangeElem decides RANGE-ELEM for the listed functions: inside a loop over a
// collection A, the loop's index is used to index A itself or a collection
// allocated with len(A), never another collection.
func RangeElem(p *core.Prog, r *core.Report, fns [][2]string) {
	for _, pn := range fns {
		info := p.Info(pn[0])
		fd := p.FuncDecl(pn[0], pn[1])
		name := core.Short(pn[0]) + "." + pn[1]
		if fd == nil || fd.Body == nil {
			r.Und("RANGE-ELEM", name+"|anchor", "-", "anchor-unresolved")
			continue
		}
		r.Fn(name)
		asg := core.Assigns(info, fd.Body)
		nLoop := 0
		ast.Inspect(fd.Body, func(n ast.Node) bool {
			rs, ok := n.(*ast.RangeStmt)
			if !ok || rs.Key == nil {
				return true
			}
			idx := core.ObjOf(info, rs.Key)
			if idx == nil {
				return true
			}
			switch info.TypeOf(rs.X).Underlying().(type) {
			case *types.Slice, *types.Array:
			default:
				return true
			}
			nLoop++
			key := fmt.Sprintf("%s|range#%d(%s)", name, nLoop, types.ExprString(rs.X))
			ranged := types.ExprString(rs.X)
			bad := ""
			var badPos token.Pos
			ast.Inspect(rs.Body, func(m ast.Node) bool {
				ix, ok := m.(*ast.IndexExpr)
				if !ok || core.ObjOf(info, ix.Index) != idx {
					return true
				}
				if types.ExprString(ix.X) == ranged {
					return true
				}
				// a collection made with len(ranged)
				o := core.ObjOf(info, ix.X)
				same := false
				if o != nil {
					for _, a := range asg[o] {
						c, ok := ast.Unparen(a.RHS).(*ast.CallExpr)
						if a.RHS == nil || !ok || !core.IsBuiltin(info, c, "make") || len(c.Args) < 2 {
							continue
						}
						lc, ok := ast.Unparen(c.Args[1]).(*ast.CallExpr)
						if ok && core.IsBuiltin(info, lc, "len") && types.ExprString(lc.Args[0]) == ranged {
							same = true
						}
					}
					// or the ranged collection is itself a reslice/copy of it
					if e := core.Origin(info, asg, rs.X); e != nil && types.ExprString(e) == types.ExprString(ix.X) {
						same = true
					}
				}
				if !same {
					bad = "`" + types.ExprString(ix) + "` indexes " + types.ExprString(ix.X) + " with the position of an element of " + ranged + ": the two collections are not tied to the same length or order"
					badPos = ix.Pos()
				}
				return true
			})
			if bad != "" {
				r.Bad("RANGE-ELEM", key, p.Pos(badPos), bad)
			} else {
				r.Ok("RANGE-ELEM", key, p.Pos(rs.Pos()), "the index is used only on the ranged collection or one allocated with its length")
			}
			return true
		})
	}
}

// LocateRC decides LOCATE-RC on Segment.Locate: a reverse segment (tail <
// head) yields the reverse complement of the slice [tail, head) on every
// return, a forward one the slice [head, tail).
func LocateRC(p *core.Prog, r *core.Report) {
	r.Rule("LOCATE-RC", "every return of gts.Segment.Locate is decided by the strand test on the unpacked ends: under tail < head it returns Reverse(Complement(x)) or Complement(Reverse(x)) with x = Slice(seq, tail, head), otherwise Slice(seq, head, tail); no return escapes the test", 2)
	info := p.Info(core.PkgGts)
	fd := p.FuncDecl(core.PkgGts, "Segment.Locate")
	if fd == nil || fd.Body == nil {
		r.Und("LOCATE-RC", "gts.Segment.Locate|anchor", "-", "anchor-unresolved")
		return
	}
	r.Fn("gts.Segment.Locate")
	asg := core.Assigns(info, fd.Body)
	// head, tail := Unpack(s)
	var head, tail types.Object
	for o, as := range asg {
		for _, a := range as {
			if a.Call != nil && core.IsCallTo(info, a.Call, core.PkgGts+".Unpack") && len(a.Call.Args) == 1 && core.ParamIndex(info, fd, core.ObjOf(info, a.Call.Args[0])) == -1 && len(as) == 1 {
				if a.Idx == 0 {
					head = o
				} else {
					tail = o
				}
			}
		}
	}
	if head == nil || tail == nil {
		r.Und("LOCATE-RC", "gts.Segment.Locate", p.Pos(fd.Pos()), "cannot find `head, tail := Unpack(receiver)`")
		return
	}
	par := core.Parents(fd.Body)
	isSlice := func(e ast.Expr, lo, hi types.Object) bool {
		c, ok := ast.Unparen(core.OriginBefore(info, asg, e)).(*ast.CallExpr)
		return ok && core.IsCallTo(info, c, core.PkgGts+".Slice") && len(c.Args) == 3 &&
			core.ParamIndex(info, fd, core.ObjOf(info, c.Args[0])) == 0 && core.ObjOf(info, c.Args[1]) == lo && core.ObjOf(info, c.Args[2]) == hi
	}
	n := 0
	for _, ret := range core.Returns(fd.Body) {
		n++
		key := fmt.Sprintf("gts.Segment.Locate|return#%d", n)
		if len(ret.Results) != 1 {
			r.Und("LOCATE-RC", key, p.Pos(ret.Pos()), "unexpected return shape")
			continue
		}
		// strand of this return: +1 reverse (tail < head known true), -1 forward (known false), 0 unknown
		strand := 0
		child := ast.Node(ret)
		for m := par[child]; m != nil; child, m = m, par[m] {
			is, ok := m.(*ast.IfStmt)
			if !ok {
				// an earlier sibling `if tail < head { ...return }` makes the rest forward
				if blk, ok := m.(*ast.BlockStmt); ok {
					for _, st := range blk.List {
						if st.End() > child.Pos() {
							break
						}
						if g, ok := st.(*ast.IfStmt); ok && g.Else == nil && len(g.Body.List) > 0 {
							if _, isRet := g.Body.List[len(g.Body.List)-1].(*ast.ReturnStmt); isRet {
								core.Facts(g.Cond, false, func(atom ast.Expr, val bool) {
									if s := strandAtom(info, atom, head, tail); s != 0 {
										if !val {
											s = -s
										}
										strand = s
									}
								})
							}
						}
					}
				}
				continue
			}
			taken := child == ast.Node(is.Body)
			core.Facts(is.Cond, taken, func(atom ast.Expr, val bool) {
				if s := strandAtom(info, atom, head, tail); s != 0 {
					if !val {
						s = -s
					}
					strand = s
				}
			})
		}
		e := ast.Unparen(ret.Results[0])
		switch strand {
		case 1:
			ok := false
			if c1, isC := e.(*ast.CallExpr); isC && len(c1.Args) == 1 {
				if c2, isC := ast.Unparen(c1.Args[0]).(*ast.CallExpr); isC && len(c2.Args) == 1 {
					rc := core.IsCallTo(info, c1, core.PkgGts+".Reverse") && core.IsCallTo(info, c2, core.PkgGts+".Complement")
					cr := core.IsCallTo(info, c1, core.PkgGts+".Complement") && core.IsCallTo(info, c2, core.PkgGts+".Reverse")
					if (rc || cr) && isSlice(c2.Args[0], tail, head) {
						ok = true
					}
				}
			}
			if ok {
				r.Ok("LOCATE-RC", key, p.Pos(ret.Pos()), "reverse segment: reverse complement of Slice(seq, tail, head)")
			} else {
				r.Bad("LOCATE-RC", key, p.Pos(ret.Pos()), "under tail < head this return does not yield Reverse(Complement(Slice(seq, tail, head))): a reverse-strand site comes back on the wrong strand or in the wrong orientation")
			}
		case -1:
			if isSlice(e, head, tail) {
				r.Ok("LOCATE-RC", key, p.Pos(ret.Pos()), "forward segment: Slice(seq, head, tail)")
			} else {
				r.Bad("LOCATE-RC", key, p.Pos(ret.Pos()), "a forward segment does not return Slice(seq, head, tail)")
			}
		default:
			r.Bad("LOCATE-RC", key, p.Pos(ret.Pos()), "this return is not decided by the strand test tail < head")
		}
	}
}

// strandAtom: +1 when atom states tail < head, -1 when it states the opposite
// non-strictly (head <= tail), 0 otherwise.
func strandAtom(info *types.Info, atom ast.Expr, head, tail types.Object) int {
	be, ok := ast.Unparen(atom).(*ast.BinaryExpr)
	if !ok {
		return 0
	}
	x, y := core.ObjOf(info, be.X), core.ObjOf(info, be.Y)
	switch {
	case be.Op == token.LSS && x == tail && y == head, be.Op == token.GTR && x == head && y == tail:
		return 1
	case be.Op == token.LEQ && x == head && y == tail, be.Op == token.GEQ && x == tail && y == head:
		return -1
	}
	return 0
}

// ConcatOffset decides CONCAT-OFFSET: the features of every later piece are
// moved by the number of residues already accumulated, measured before the
// piece's own residues are appended.
func ConcatOffset(p *core.Prog, r *core.Report) {
	r.Rule("CONCAT-OFFSET", "in gts.Concat the features of each piece after the first are rewritten with Expand(0, len(acc)) (or Shift(0, len(acc))) where acc is the byte accumulator that starts as a copy of the first piece's bytes and receives the piece's bytes with append only after the piece's feature loop", 1)
	info := p.Info(core.PkgGts)
	fd := p.FuncDecl(core.PkgGts, "Concat")
	if fd == nil || fd.Body == nil {
		r.Und("CONCAT-OFFSET", "gts.Concat|anchor", "-", "anchor-unresolved")
		return
	}
	r.Fn("gts.Concat")
	key := "gts.Concat"
	var outer *ast.RangeStmt
	var inner *ast.RangeStmt
	ast.Inspect(fd.Body, func(n ast.Node) bool {
		rs, ok := n.(*ast.RangeStmt)
		if !ok {
			return true
		}
		if _, isF := isFeaturesCall(info, rs.X); isF {
			if outer != nil && inner == nil && outer.Pos() < rs.Pos() && rs.End() <= outer.End() {
				inner = rs
			}
			return true
		}
		if outer == nil {
			if sl, ok := info.TypeOf(rs.X).Underlying().(*types.Slice); ok && core.NamedOf(sl.Elem()) == core.PkgGts+".Sequence" {
				outer = rs
			}
		}
		return true
	})
	if outer == nil || inner == nil {
		r.Und("CONCAT-OFFSET", key, p.Pos(fd.Pos()), "cannot find the loop over the later pieces and its feature loop")
		return
	}
	piece := core.ObjOf(info, outer.Value)
	// the accumulator: acc = append(acc, piece.Bytes()...) at the top level of the outer loop
	var acc types.Object
	var appendPos token.Pos
	for _, st := range outer.Body.List {
		as, ok := st.(*ast.AssignStmt)
		if !ok || len(as.Lhs) != 1 || len(as.Rhs) != 1 {
			continue
		}
		c, ok := ast.Unparen(as.Rhs[0]).(*ast.CallExpr)
		if !ok || !core.IsBuiltin(info, c, "append") || len(c.Args) != 2 || !c.Ellipsis.IsValid() {
			continue
		}
		bc, ok := ast.Unparen(c.Args[1]).(*ast.CallExpr)
		if !ok || len(bc.Args) != 0 {
			continue
		}
		sel, ok := bc.Fun.(*ast.SelectorExpr)
		if !ok || sel.Sel.Name != "Bytes" || core.ObjOf(info, sel.X) != piece {
			continue
		}
		if o := core.ObjOf(info, as.Lhs[0]); o != nil && o == core.ObjOf(info, c.Args[0]) {
			acc, appendPos = o, as.Pos()
		}
	}
	if acc == nil {
		r.Bad("CONCAT-OFFSET", key, p.Pos(outer.Pos()), "no byte accumulator receives each piece's bytes at the top level of the loop over the pieces")
		return
	}
	if appendPos < inner.End() {
		r.Bad("CONCAT-OFFSET", key, p.Pos(appendPos), "the piece's residues are appended before its features are moved: the offset then includes the piece itself and every feature lands one piece too far")
		return
	}
	// the transform inside the inner loop
	var tr *ast.CallExpr
	for _, c := range core.Calls(inner.Body) {
		if fn := core.Callee(info, c); fn != nil && (fn.Name() == "Expand" || fn.Name() == "Shift") && len(c.Args) == 2 {
			tr = c
		}
	}
	if tr == nil {
		r.Bad("CONCAT-OFFSET", key, p.Pos(inner.Pos()), "the features of a later piece are not moved at all")
		return
	}
	z, isZ := core.ConstInt(info, tr.Args[0])
	off := tr.Args[1]
	if id, ok := ast.Unparen(off).(*ast.Ident); ok {
		// a local holding the offset: its single definition inside the loop over the pieces, before the append
		if as := core.Assigns(info, outer.Body)[core.ObjOf(info, id)]; len(as) == 1 && as[0].RHS != nil && as[0].Pos < appendPos {
			off = as[0].RHS
		}
	}
	lc, isL := ast.Unparen(off).(*ast.CallExpr)
	if !isZ || z != 0 || !isL || !core.IsBuiltin(info, lc, "len") || core.ObjOf(info, lc.Args[0]) != acc {
		r.Bad("CONCAT-OFFSET", key, p.Pos(tr.Pos()), "the features of a later piece are moved by `"+types.ExprString(tr.Args[1])+"` from `"+types.ExprString(tr.Args[0])+"`, not by len of the accumulated residues from 0")
		return
	}
	// acc starts as a copy of the head's bytes
	asg := core.Assigns(info, fd.Body)
	startOK := false
	for _, a := range asg[acc] {
		if a.RHS == nil || a.Pos >= outer.Pos() {
			continue
		}
		found := false
		ast.Inspect(a.RHS, func(n ast.Node) bool {
			if c, ok := n.(*ast.CallExpr); ok && len(c.Args) == 0 {
				if sel, ok := c.Fun.(*ast.SelectorExpr); ok && sel.Sel.Name == "Bytes" {
					if ix, ok := core.OriginBefore(info, asg, sel.X).(*ast.IndexExpr); ok {
						if k, ok := core.ConstInt(info, ix.Index); ok && k == 0 {
							found = true
						}
					}
				}
			}
			return true
		})
		startOK = startOK || found
	}
	if !startOK {
		r.Bad("CONCAT-OFFSET", key, p.Pos(outer.Pos()), "the accumulator does not start as the residues of the first piece")
		return
	}
	r.Ok("CONCAT-OFFSET", key, p.Pos(tr.Pos()), "Expand(0, len(acc)) before acc = append(acc, piece.Bytes()...)")
}

// WrapCond decides WRAP-COND on gts.Slice: the wrap-around branch (the one
// that rotates and re-slices) is taken exactly when end < start, so that an
// empty window start == end stays empty.
func WrapCond(p *core.Prog, r *core.Report) {
	r.Rule("WRAP-COND", "the branch of gts.Slice that rotates the sequence and slices again is guarded by exactly `end < start` (strict): an empty window [s, s) is not a wrap-around window", 1)
	info := p.Info(core.PkgGts)
	fd := p.FuncDecl(core.PkgGts, "Slice")
	if fd == nil || fd.Body == nil {
		r.Und("WRAP-COND", "gts.Slice|anchor", "-", "anchor-unresolved")
		return
	}
	r.Fn("gts.Slice")
	var guard *ast.IfStmt
	for _, st := range fd.Body.List {
		is, ok := st.(*ast.IfStmt)
		if !ok {
			continue
		}
		for _, c := range core.Calls(is.Body) {
			if core.IsCallTo(info, c, core.PkgGts+".Rotate") || core.IsCallTo(info, c, core.PkgGts+".Slice") {
				guard = is
			}
		}
	}
	if guard == nil {
		r.Bad("WRAP-COND", "gts.Slice", p.Pos(fd.Pos()), "no wrap-around branch (a window with end < start is not handled)")
		return
	}
	be, ok := ast.Unparen(guard.Cond).(*ast.BinaryExpr)
	good := false
	if ok {
		x, y := core.ParamIndex(info, fd, core.ObjOf(info, be.X)), core.ParamIndex(info, fd, core.ObjOf(info, be.Y))
		good = be.Op == token.LSS && x == 2 && y == 1 || be.Op == token.GTR && x == 1 && y == 2
	}
	if good {
		r.Ok("WRAP-COND", "gts.Slice", p.Pos(guard.Pos()), "wraps exactly when end < start")
	} else {
		r.Bad("WRAP-COND", "gts.Slice", p.Pos(guard.Pos()), "the wrap-around branch is guarded by `"+types.ExprString(guard.Cond)+"`, not by `end < start`: an empty window is turned into the whole rotated sequence (or a reversed window is not wrapped)")
	}
}

package conserve

import (
	"fmt"
	"go/ast"
	"go/token"
	"go/types"
	"strings"

	"gtsverif/core"
)

// EmitAll decides EMIT-ALL over the multi-site commands: inside the loop over
// the scanned records, a loop that writes one record per site writes one for
// every site. Such a loop has no continue/break, and its WriteSeq is guarded
// by nothing but its own error check - except for `gts extract`, whose
// documented filter "every located region shorter than the record; the only
// region always" is recognised in exactly that form, evaluated on the list
// that is being emitted.
func EmitAll(p *core.Prog, r *core.Report, cmds []string, floor int) {
	r.Rule("EMIT-ALL", "in a multi-site command a loop over sites that contains WriteSeq writes a record in every iteration: it has no continue/break and the WriteSeq is not under a condition, except the reviewed filter of extract, `len(L) == 1 || site.Len() != gts.Len(record)` with L the very list the loop ranges over (split: every piece between two cuts is written, so the pieces concatenate back; extract: nothing but whole-record regions is left out)", floor)
	info := p.Info(core.PkgMain)
	for _, cmd := range cmds {
		fd := p.CommandFunc(cmd)
		if fd == nil || fd.Body == nil {
			r.Und("EMIT-ALL", "main."+cmd+"|anchor", "-", "anchor-unresolved")
			continue
		}
		name := "main." + cmd
		r.Fn(name)
		par := core.Parents(fd.Body)
		k := 0
		ast.Inspect(fd.Body, func(nd ast.Node) bool {
			rs, ok := nd.(*ast.RangeStmt)
			if !ok {
				return true
			}
			// WriteSeq calls directly in this loop (not in a nested loop)
			var writes []*ast.CallExpr
			ast.Inspect(rs.Body, func(m ast.Node) bool {
				switch x := m.(type) {
				case *ast.RangeStmt, *ast.ForStmt, *ast.FuncLit:
					return m == ast.Node(rs.Body)
				case *ast.CallExpr:
					if fn := core.Callee(info, x); fn != nil && fn.Name() == "WriteSeq" {
						writes = append(writes, x)
					}
				}
				return true
			})
			if len(writes) == 0 {
				return true
			}
			k++
			key := fmt.Sprintf("%s|emit-loop#%d", name, k)
			pos := p.Pos(rs.Pos())
			// continue / break that belong to this loop
			var esc ast.Node
			ast.Inspect(rs.Body, func(m ast.Node) bool {
				switch x := m.(type) {
				case *ast.RangeStmt, *ast.ForStmt, *ast.FuncLit, *ast.SwitchStmt, *ast.TypeSwitchStmt, *ast.SelectStmt:
					if _, isLoop := m.(*ast.SwitchStmt); isLoop {
						// a break inside a switch leaves the switch; continue still leaves the iteration
						ast.Inspect(m, func(q ast.Node) bool {
							if b, ok := q.(*ast.BranchStmt); ok && b.Tok == token.CONTINUE && esc == nil {
								esc = b
							}
							return true
						})
					}
					return false
				case *ast.BranchStmt:
					if (x.Tok == token.CONTINUE || x.Tok == token.BREAK) && esc == nil {
						esc = x
					}
				}
				return true
			})
			if esc != nil {
				r.Bad("EMIT-ALL", key, p.Pos(esc.Pos()), "the loop that writes one record per site leaves an iteration early: the site it skips produces no output (for split: the pieces no longer concatenate back to the input)")
				return true
			}
			for _, w := range writes {
				// conditions between the call and the loop body, other than the call's own error check
				var guards []ast.Expr
				for m := par[ast.Node(w)]; m != nil && m != ast.Node(rs.Body); m = par[m] {
					is, ok := m.(*ast.IfStmt)
					if !ok {
						continue
					}
					if is.Init != nil && is.Init.Pos() <= w.Pos() && w.End() <= is.Init.End() {
						continue // `if _, err := writer.WriteSeq(x); err != nil`
					}
					if is.Cond.Pos() <= w.Pos() && w.End() <= is.Cond.End() {
						continue
					}
					guards = append(guards, is.Cond)
				}
				if len(guards) == 0 {
					r.Ok("EMIT-ALL", key, pos, "every iteration writes its record")
					continue
				}
				if len(guards) == 1 && extractFilter(info, core.Assigns(info, fd.Body), guards[0], rs) {
					r.Ok("EMIT-ALL", key, pos, "reviewed filter: the only region, or any region that is not the whole record, evaluated on the list being emitted")
					continue
				}
				r.Bad("EMIT-ALL", key, p.Pos(guards[0].Pos()), "the record of a site is written only under `"+types.ExprString(guards[0])+"`: sites for which it fails produce no output")
			}
			return true
		})
	}
}

// extractFilter recognises `len(L) == 1 || e.Len() != gts.Len(seq)` (operands in
// either order) where L is the variable the loop ranges over and e its element.
func extractFilter(info *types.Info, asg map[types.Object][]core.Assign, cond ast.Expr, rs *ast.RangeStmt) bool {
	be, ok := ast.Unparen(cond).(*ast.BinaryExpr)
	if !ok || be.Op != token.LOR {
		return false
	}
	isOnly := func(e ast.Expr) bool {
		b, ok := ast.Unparen(e).(*ast.BinaryExpr)
		if !ok || b.Op != token.EQL {
			return false
		}
		c, ok := ast.Unparen(b.X).(*ast.CallExpr)
		if !ok || !core.IsBuiltin(info, c, "len") || len(c.Args) != 1 {
			return false
		}
		if core.ObjOf(info, c.Args[0]) == nil || core.ObjOf(info, c.Args[0]) != core.ObjOf(info, rs.X) {
			return false
		}
		n, isC := core.ConstInt(info, b.Y)
		return isC && n == 1
	}
	notWhole := func(e ast.Expr) bool {
		b, ok := ast.Unparen(e).(*ast.BinaryExpr)
		if !ok || b.Op != token.NEQ {
			return false
		}
		x, y := ast.Unparen(b.X), ast.Unparen(b.Y)
		isElemLen := func(e ast.Expr) bool {
			c, ok := e.(*ast.CallExpr)
			if !ok || len(c.Args) != 0 {
				return false
			}
			se, ok := c.Fun.(*ast.SelectorExpr)
			return ok && se.Sel.Name == "Len" && rs.Value != nil && core.ObjOf(info, se.X) == core.ObjOf(info, rs.Value)
		}
		isSeqLen := func(e ast.Expr) bool {
			// a local holding the record's length (STALE-VALUE decides that it is still current)
			c, ok := ast.Unparen(core.Origin(info, asg, e)).(*ast.CallExpr)
			return ok && strings.HasSuffix(core.FuncID(core.Callee(info, c)), core.PkgGts+".Len") && len(c.Args) == 1
		}
		return (isElemLen(x) && isSeqLen(y)) || (isElemLen(y) && isSeqLen(x))
	}
	return (isOnly(be.X) && notWhole(be.Y)) || (isOnly(be.Y) && notWhole(be.X))
}

// UniqueCuts decides UNIQUE-CUTS on `gts split`: the cut positions handed to
// Slice are pairwise distinct. Two equal cuts ask for the empty piece
// Slice(seq, h, h), which collapses every feature spanning h to a site and
// cannot be written as GenBank.
func UniqueCuts(p *core.Prog, r *core.Report) {
	r.Rule("UNIQUE-CUTS", "in gts split the sorted list of cut positions is filled from the keys of a map (one entry per distinct position), or is de-duplicated by an adjacent-equal test after sorting: no two consecutive cuts are equal, so no empty piece is requested", 1)
	info := p.Info(core.PkgMain)
	fd := p.CommandFunc("split")
	key := "main.split|cuts"
	if fd == nil || fd.Body == nil {
		r.Und("UNIQUE-CUTS", key, "-", "anchor-unresolved")
		return
	}
	r.Fn("main.split")
	// the slice passed to sort.Ints
	var sorted types.Object
	var sortPos token.Pos
	for _, c := range core.Calls(fd.Body) {
		if core.IsCallTo(info, c, "sort.Ints") && len(c.Args) == 1 {
			sorted = core.ObjOf(info, c.Args[0])
			sortPos = c.Pos()
		}
	}
	if sorted == nil {
		r.Und("UNIQUE-CUTS", key, p.Pos(fd.Pos()), "no sorted list of cut positions found (sort.Ints)")
		return
	}
	// every store into it must sit in a range loop over a map, storing the key
	stores, fromKeys, other := 0, 0, token.NoPos
	par := core.Parents(fd.Body)
	ast.Inspect(fd.Body, func(n ast.Node) bool {
		as, ok := n.(*ast.AssignStmt)
		if !ok {
			return true
		}
		for i, l := range as.Lhs {
			var target types.Object
			var val ast.Expr
			if ix, ok := ast.Unparen(l).(*ast.IndexExpr); ok {
				target = core.ObjOf(info, ix.X)
				if i < len(as.Rhs) {
					val = as.Rhs[i]
				}
			} else if core.ObjOf(info, l) == sorted && len(as.Rhs) == 1 {
				if c, ok := ast.Unparen(as.Rhs[0]).(*ast.CallExpr); ok && core.IsBuiltin(info, c, "append") && len(c.Args) == 2 && core.ObjOf(info, c.Args[0]) == sorted {
					target, val = sorted, c.Args[1]
				}
			}
			if target != sorted || val == nil {
				continue
			}
			stores++
			ok := false
			for m := par[ast.Node(as)]; m != nil; m = par[m] {
				if rs, isR := m.(*ast.RangeStmt); isR {
					if tv, has := info.Types[rs.X]; has && tv.Type != nil {
						if _, isMap := tv.Type.Underlying().(*types.Map); isMap && rs.Key != nil && core.ObjOf(info, rs.Key) == core.ObjOf(info, val) {
							ok = true
						}
					}
					break
				}
			}
			if ok {
				fromKeys++
			} else if other == token.NoPos {
				other = as.Pos()
			}
		}
		return true
	})
	switch {
	case stores == 0:
		r.Und("UNIQUE-CUTS", key, p.Pos(sortPos), "nothing is stored into the sorted list")
	case other != token.NoPos && !adjacentDedup(info, fd, sorted, sortPos):
		r.Bad("UNIQUE-CUTS", key, p.Pos(other), "a cut position is stored once per located region, not once per distinct position, and nothing removes the repeats after sorting: two regions with the same head make split ask for the empty piece Slice(seq, h, h)")
	default:
		r.Ok("UNIQUE-CUTS", key, p.Pos(sortPos), "one cut per distinct position")
	}
	// the wrap-around piece of a circular record runs from the last cut to the first one: with a single
	// distinct cut the two are the same position, Slice(seq, h, h) is an empty piece (and the GenBank
	// writer panics on it) where the record re-origined at h is due. Reading the last element of the
	// sorted list as a piece boundary must be dominated by a test that there are at least two cuts.
	var wrap ast.Node
	ast.Inspect(fd.Body, func(n ast.Node) bool {
		ix, ok := n.(*ast.IndexExpr)
		if !ok || wrap != nil || core.ObjOf(info, ix.X) != sorted || ix.Pos() < sortPos {
			return true
		}
		be, ok := ast.Unparen(ix.Index).(*ast.BinaryExpr)
		if !ok || be.Op != token.SUB {
			return true
		}
		lc, isLen := ast.Unparen(be.X).(*ast.CallExpr)
		one, isOne := core.ConstInt(info, be.Y)
		if isLen && isOne && one == 1 && core.IsBuiltin(info, lc, "len") && len(lc.Args) == 1 && core.ObjOf(info, lc.Args[0]) == sorted {
			wrap = ix
		}
		return true
	})
	wkey := "main.split|wrap"
	if wrap == nil {
		r.Note("UNIQUE-CUTS", wkey, p.Pos(sortPos), "the last cut is not read as a piece boundary")
		return
	}
	fl := core.NewFlow(info, fd.Body)
	lenAtom := func(e ast.Expr) (op token.Token, k int64, ok bool) {
		be, isB := ast.Unparen(e).(*ast.BinaryExpr)
		if !isB {
			return 0, 0, false
		}
		lc, isLen := ast.Unparen(be.X).(*ast.CallExpr)
		c, isC := core.ConstInt(info, be.Y)
		if !isLen || !isC || !core.IsBuiltin(info, lc, "len") || len(lc.Args) != 1 || core.ObjOf(info, lc.Args[0]) != sorted {
			return 0, 0, false
		}
		return be.Op, c, true
	}
	reachedUnguarded := false
	pendingCond := ""
	// state bit 0: at least two cuts established on this path; bit 1: "pendingCond implies two cuts"
	core.Scan(fl, fl.Entry(), 0, core.Stepper[int]{
		Node: func(st int, n ast.Node) (int, bool) {
			hit := false
			ast.Inspect(n, func(m ast.Node) bool {
				if m == wrap {
					hit = true
				}
				return !hit
			})
			if hit {
				if st&1 == 0 {
					reachedUnguarded = true
				}
				return st, true
			}
			if as, ok := n.(*ast.AssignStmt); ok {
				for _, l := range as.Lhs {
					if core.ObjOf(info, l) == sorted {
						return 0, false // the list is rebuilt: what was known about its length is gone
					}
				}
			}
			return st, false
		},
		Edge: func(st int, cond ast.Expr, taken bool) int {
			// `if C && len(cuts) < 2 { ...leave... }`: on the false edge either C is false or there are two cuts;
			// remembered as "C implies two cuts" (bit 1, with C's text) and resolved when C is later found true
			if be, ok := ast.Unparen(cond).(*ast.BinaryExpr); ok && be.Op == token.LAND && !taken {
				for _, pr := range [][2]ast.Expr{{be.X, be.Y}, {be.Y, be.X}} {
					if op, k, ok := lenAtom(pr[1]); ok && ((op == token.LSS && k == 2) || (op == token.LEQ && k == 1) || (op == token.EQL && k == 1 && false)) {
						pendingCond = types.ExprString(ast.Unparen(pr[0]))
						st |= 2
					}
				}
			}
			if st&2 != 0 && taken && types.ExprString(ast.Unparen(cond)) == pendingCond {
				st |= 1
			}
			core.Facts(cond, taken, func(atom ast.Expr, val bool) {
				if st&2 != 0 && val && types.ExprString(ast.Unparen(atom)) == pendingCond {
					st |= 1
				}
				op, k, ok := lenAtom(atom)
				if !ok {
					return
				}
				two := false
				switch op {
				case token.EQL:
					two = !val && k == 1 && false // len != 1 alone allows 0: not enough
				case token.GTR:
					two = val && k >= 1
				case token.GEQ:
					two = val && k >= 2
				case token.LSS:
					two = !val && k >= 2
				case token.LEQ:
					two = !val && k >= 1
				}
				if two {
					st |= 1
				}
			})
			return st
		},
	})
	if reachedUnguarded {
		r.Bad("UNIQUE-CUTS", wkey, p.Pos(wrap.Pos()), "the last cut is read as the start of the wrap-around piece on a path where nothing establishes that there are two distinct cuts: two regions that share their head on a circular record (a gene and its CDS) give the single cut h, the piece Slice(seq, h, h) is empty instead of the record re-origined at h, and GenBank output panics on it")
	} else {
		r.Ok("UNIQUE-CUTS", wkey, p.Pos(wrap.Pos()), "the wrap-around piece is cut only when there are at least two distinct cuts")
	}
}

// adjacentDedup: after the sort there is a loop that compares an element of
// the sorted list with its neighbour for (in)equality.
func adjacentDedup(info *types.Info, fd *ast.FuncDecl, sorted types.Object, after token.Pos) bool {
	found := false
	ast.Inspect(fd.Body, func(n ast.Node) bool {
		be, ok := n.(*ast.BinaryExpr)
		if !ok || be.Pos() < after || (be.Op != token.NEQ && be.Op != token.EQL) {
			return true
		}
		ix, ok1 := ast.Unparen(be.X).(*ast.IndexExpr)
		iy, ok2 := ast.Unparen(be.Y).(*ast.IndexExpr)
		if ok1 && ok2 && core.ObjOf(info, ix.X) == sorted && core.ObjOf(info, iy.X) == sorted {
			found = true
		}
		return true
	})
	return found
}

// NotOfOr decides NOT-OF-OR on `gts select`: with -v the complement is taken of
// the disjunction of all selectors (a feature is kept iff no selector accepts
// it), not of each selector separately.
func NotOfOr(p *core.Prog, r *core.Report) {
	r.Rule("NOT-OF-OR", "in gts select every gts.Not that depends on the invert option is applied to a value that is (assigned from) gts.Or over the whole list of compiled selectors; Not is never applied to a single selector (Not(a) or Not(b) keeps what only one of them rejects)", 1)
	info := p.Info(core.PkgMain)
	fd := p.CommandFunc("select")
	key := "main.select|invert"
	if fd == nil || fd.Body == nil {
		r.Und("NOT-OF-OR", key, "-", "anchor-unresolved")
		return
	}
	r.Fn("main.select")
	asg := core.Assigns(info, fd.Body)
	n := 0
	for _, c := range core.Calls(fd.Body) {
		if !core.IsCallTo(info, c, core.PkgGts+".Not") || len(c.Args) != 1 {
			continue
		}
		n++
		arg := ast.Unparen(core.OriginBefore(info, asg, c.Args[0]))
		// the reaching definition of the operand must be gts.Or(list...)
		ok := false
		if oc, isCall := arg.(*ast.CallExpr); isCall && core.IsCallTo(info, oc, core.PkgGts+".Or") && oc.Ellipsis != token.NoPos && len(oc.Args) == 1 {
			if tv, has := info.Types[oc.Args[0]]; has && tv.Type != nil {
				if _, isSl := tv.Type.Underlying().(*types.Slice); isSl {
					ok = true
				}
			}
		}
		if !ok {
			// operand is a variable: look at the assignment that precedes the call textually
			if o := core.ObjOf(info, c.Args[0]); o != nil {
				var last ast.Expr
				for _, a := range asg[o] {
					if a.Pos < c.Pos() && a.RHS != nil && !(a.Pos <= c.Pos() && c.End() <= a.Node.End()) {
						last = a.RHS
					}
				}
				if oc, isCall := ast.Unparen(last).(*ast.CallExpr); last != nil && isCall && core.IsCallTo(info, oc, core.PkgGts+".Or") && oc.Ellipsis != token.NoPos {
					ok = true
				}
			}
		}
		k := fmt.Sprintf("%s#%d", key, n)
		if ok {
			r.Ok("NOT-OF-OR", k, p.Pos(c.Pos()), "the complement of the disjunction of all selectors")
		} else {
			r.Bad("NOT-OF-OR", k, p.Pos(c.Pos()), "gts.Not is applied to `"+types.ExprString(c.Args[0])+"`, which is not the disjunction of all selectors: with two or more selectors -v keeps every feature that at least one selector rejects")
		}
	}
	if n == 0 {
		r.Und("NOT-OF-OR", key, p.Pos(fd.Pos()), "no gts.Not found: the invert option has no effect")
	}
}

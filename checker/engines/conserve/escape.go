package conserve

import (
	"fmt"
	"go/ast"
	"go/token"
	"go/types"

	"gtsverif/core"
)

// EscAutomaton decides ESC-AUTOMATON on gts.shiftSelector: the loop body is a
// two-state automaton (escape pending or not) over three byte classes
// (backslash, slash, anything else). Its six transitions are evaluated from the
// syntax tree and compared with the escaping discipline:
//
//	(\, no)  -> pending          (\, pending) -> not pending (an escaped backslash)
//	(/, no)  -> split here       (/, pending) -> not pending (an escaped slash)
//	(other, *) -> not pending
func EscAutomaton(p *core.Prog, r *core.Report) {
	r.Rule("ESC-AUTOMATON", "the clause splitter gts.shiftSelector, read as a two-state automaton over the byte classes backslash / slash / other, has exactly the six transitions of backslash escaping: an escape lasts for one byte, whatever that byte is", 6)
	info := p.Info(core.PkgGts)
	fd := p.FuncDecl(core.PkgGts, "shiftSelector")
	if fd == nil || fd.Body == nil {
		r.Und("ESC-AUTOMATON", "gts.shiftSelector|anchor", "-", "anchor-unresolved")
		return
	}
	r.Fn("gts.shiftSelector")
	var loop ast.Stmt
	var loopBody *ast.BlockStmt
	var sw *ast.SwitchStmt
	ast.Inspect(fd.Body, func(n ast.Node) bool {
		if loop != nil {
			return false
		}
		switch fs := n.(type) {
		case *ast.ForStmt:
			loop, loopBody = fs, fs.Body
		case *ast.RangeStmt:
			loop, loopBody = fs, fs.Body
		}
		if loopBody != nil {
			for _, st := range loopBody.List {
				switch s := st.(type) {
				case *ast.SwitchStmt:
					if s.Tag != nil {
						sw = s
					}
				case *ast.IfStmt:
					// the same dispatch written as a chain `if c == K1 {..} else if c == K2 {..} else {..}`
					sw = chainAsSwitch(info, s)
				}
			}
		}
		return true
	})
	if loop == nil || sw == nil || len(loopBody.List) != 1 {
		r.Und("ESC-AUTOMATON", "gts.shiftSelector|shape", p.Pos(fd.Pos()), "the splitter is not a loop whose body is one switch on the current byte")
		return
	}
	// the flag: the one bool local assigned in the loop
	var esc types.Object
	ast.Inspect(loopBody, func(n ast.Node) bool {
		if as, ok := n.(*ast.AssignStmt); ok && len(as.Lhs) == 1 {
			if o := core.ObjOf(info, as.Lhs[0]); o != nil {
				if b, ok := o.Type().Underlying().(*types.Basic); ok && b.Kind() == types.Bool {
					esc = o
				}
			}
		}
		return true
	})
	if esc == nil {
		r.Und("ESC-AUTOMATON", "gts.shiftSelector|flag", p.Pos(fd.Pos()), "no boolean escape flag is assigned in the loop")
		return
	}
	// the flag must start false
	clause := func(b int64) *ast.CaseClause {
		var def *ast.CaseClause
		for _, cc := range sw.Body.List {
			cl := cc.(*ast.CaseClause)
			if cl.List == nil {
				def = cl
			}
			for _, e := range cl.List {
				if v, ok := core.ConstInt(info, e); ok && v == b {
					return cl
				}
			}
		}
		return def
	}
	type outcome struct {
		esc   bool
		split bool
		ok    bool
		why   string
	}
	var run func(list []ast.Stmt, e bool) (outcome, bool)
	evalCond := func(c ast.Expr, e bool) (bool, bool) {
		c = ast.Unparen(c)
		if u, ok := c.(*ast.UnaryExpr); ok && u.Op == token.NOT && core.ObjOf(info, u.X) == esc {
			return !e, true
		}
		if core.ObjOf(info, c) == esc {
			return e, true
		}
		return false, false
	}
	run = func(list []ast.Stmt, e bool) (outcome, bool) {
		for _, st := range list {
			switch x := st.(type) {
			case *ast.AssignStmt:
				if len(x.Lhs) != 1 || core.ObjOf(info, x.Lhs[0]) != esc {
					return outcome{why: "assignment to something other than the flag"}, true
				}
				rhs := ast.Unparen(x.Rhs[0])
				if tv := info.Types[rhs]; tv.Value != nil {
					e = tv.Value.String() == "true"
				} else if v, ok := evalCond(rhs, e); ok {
					e = v
				} else {
					return outcome{why: "flag assigned a value that is not a constant or its own negation"}, true
				}
			case *ast.IfStmt:
				v, ok := evalCond(x.Cond, e)
				if !ok || x.Init != nil {
					return outcome{why: "condition on something other than the flag"}, true
				}
				var o outcome
				var done bool
				if v {
					o, done = run(x.Body.List, e)
				} else if x.Else != nil {
					if blk, ok := x.Else.(*ast.BlockStmt); ok {
						o, done = run(blk.List, e)
					} else {
						o, done = run([]ast.Stmt{x.Else}, e)
					}
				} else {
					continue
				}
				if done {
					return o, true
				}
				e = o.esc
			case *ast.ReturnStmt:
				return outcome{esc: e, split: true, ok: true}, true
			case *ast.BranchStmt:
				if x.Tok == token.CONTINUE || x.Tok == token.BREAK && false {
					return outcome{esc: e, ok: true}, true
				}
				return outcome{why: "unexpected branch statement"}, true
			default:
				return outcome{why: "statement outside the automaton fragment"}, true
			}
		}
		return outcome{esc: e, ok: true}, false
	}
	classes := []struct {
		name string
		b    int64
	}{{"backslash", '\\'}, {"slash", '/'}, {"other", 'a'}}
	want := map[string]outcome{
		"backslash/false": {esc: true}, "backslash/true": {esc: false},
		"slash/false": {split: true}, "slash/true": {esc: false},
		"other/false": {esc: false}, "other/true": {esc: false},
	}
	for _, c := range classes {
		for _, e := range []bool{false, true} {
			key := fmt.Sprintf("gts.shiftSelector|%s,pending=%v", c.name, e)
			var got outcome
			if cl := clause(c.b); cl == nil {
				got = outcome{esc: e, ok: true}
			} else {
				got, _ = run(cl.Body, e)
				if got.why == "" {
					got.ok = true
				}
			}
			w := want[fmt.Sprintf("%s/%v", c.name, e)]
			switch {
			case !got.ok:
				r.Und("ESC-AUTOMATON", key, p.Pos(sw.Pos()), got.why)
			case got.split != w.split || (!w.split && got.esc != w.esc):
				desc := func(o outcome) string {
					if o.split {
						return "split here"
					}
					return fmt.Sprintf("pending=%v", o.esc)
				}
				r.Bad("ESC-AUTOMATON", key, p.Pos(sw.Pos()), "on a "+c.name+" with pending="+fmt.Sprint(e)+" the splitter goes to "+desc(got)+", backslash escaping requires "+desc(w)+": an escape outlives the byte it escapes (or is lost), so a later `/` is not taken as a clause separator (or an escaped one is)")
			default:
				r.Ok("ESC-AUTOMATON", key, p.Pos(sw.Pos()), "as required")
			}
		}
	}
}

// chainAsSwitch reads `if [c := X;] c == K1 [|| c == K2] {A} else if c == K3 {B} else {C}`
// as the tagged switch it spells out (every condition compares the same operand
// with constants); nil if the statement is not such a chain. The clause bodies
// are the original statement lists.
func chainAsSwitch(info *types.Info, is *ast.IfStmt) *ast.SwitchStmt {
	var tag ast.Expr
	sw := &ast.SwitchStmt{Switch: is.Pos(), Body: &ast.BlockStmt{}}
	same := func(a, b ast.Expr) bool {
		oa, ob := core.ObjOf(info, a), core.ObjOf(info, b)
		if oa != nil || ob != nil {
			return oa == ob
		}
		return types.ExprString(a) == types.ExprString(b)
	}
	var consts func(e ast.Expr) ([]ast.Expr, bool)
	consts = func(e ast.Expr) ([]ast.Expr, bool) {
		be, ok := ast.Unparen(e).(*ast.BinaryExpr)
		if !ok {
			return nil, false
		}
		switch be.Op {
		case token.LOR:
			l, ok1 := consts(be.X)
			r, ok2 := consts(be.Y)
			return append(l, r...), ok1 && ok2
		case token.EQL:
			if tv, has := info.Types[be.Y]; !has || tv.Value == nil {
				return nil, false
			}
			if tag == nil {
				tag = be.X
			} else if !same(tag, be.X) {
				return nil, false
			}
			return []ast.Expr{be.Y}, true
		}
		return nil, false
	}
	for cur := is; cur != nil; {
		if cur.Init != nil && cur != is {
			return nil
		}
		ks, ok := consts(cur.Cond)
		if !ok {
			return nil
		}
		sw.Body.List = append(sw.Body.List, &ast.CaseClause{Case: cur.Pos(), List: ks, Body: cur.Body.List})
		switch e := cur.Else.(type) {
		case nil:
			cur = nil
		case *ast.IfStmt:
			cur = e
		case *ast.BlockStmt:
			sw.Body.List = append(sw.Body.List, &ast.CaseClause{Case: e.Pos(), Body: e.List})
			cur = nil
		default:
			return nil
		}
	}
	if tag == nil || len(sw.Body.List) < 2 {
		return nil
	}
	sw.Tag = tag
	return sw
}

package conserve

import (
	"fmt"
	"go/ast"
	"go/token"
	"go/types"

	"gtsverif/core"
)

// BackToFront decides BACK-TO-FRONT in the multi-site edit commands: a loop
// that applies a length-changing edit again and again to the same record
// (`out = insert(out, pos, ...)`, `seq = delete(seq, i, n)`) takes its positions
// from a list that is in descending order when the loop starts, so that no
// edit moves a position that is still to come. All positions were computed on
// the unedited record; an edit at p shifts every position behind p.
//
// Accepted ways of establishing the order of the ranged list XS (the statement
// must be the last one that touches XS before the loop, in the same block):
//
//	sort.Sort(sort.Reverse(sort.IntSlice(XS)))     sort.Sort(sort.Reverse(gts.BySegment(XS)))
//	flip.Flip(gts.BySegment(XS)) / flip.Flip(sort.IntSlice(XS))  after  XS := gts.Minimize(..) or an ascending sort
//
// or an ascending XS (gts.Minimize, sort.Ints, sort.Sort(sort.IntSlice / gts.BySegment))
// walked by a counted loop from len(XS)-1 down to 0.
func BackToFront(p *core.Prog, r *core.Report, cmds []string, floor int) {
	r.Rule("BACK-TO-FRONT", "in a multi-site edit command a loop that applies a length-changing edit repeatedly to the same record takes its positions from a list sorted in descending order (sort.Reverse, or an ascending Minimize/sort flipped, or an ascending list walked downwards): positions are computed on the unedited record and an edit shifts everything behind it", floor)
	info := p.Info(core.PkgMain)
	for _, name := range cmds {
		fd := p.CommandFunc(name)
		if fd == nil || fd.Body == nil {
			r.Und("BACK-TO-FRONT", "main."+name+"|anchor", "-", "anchor-unresolved: no function registered for the command `"+name+"`")
			continue
		}
		fname := fd.Name.Name
		par := core.Parents(fd.Body)
		asg := core.Assigns(info, fd.Body)
		n := 0
		ast.Inspect(fd.Body, func(nd ast.Node) bool {
			as, ok := nd.(*ast.AssignStmt)
			if !ok || len(as.Lhs) != 1 || len(as.Rhs) != 1 || as.Tok != token.ASSIGN {
				return true
			}
			o := core.ObjOf(info, as.Lhs[0])
			call, isCall := ast.Unparen(as.Rhs[0]).(*ast.CallExpr)
			if o == nil || !isCall || len(call.Args) < 2 || core.ObjOf(info, call.Args[0]) != o || !editCall(info, asg, call) {
				return true
			}
			// the innermost loop around the self-update
			var loop ast.Stmt
			for m := par[ast.Node(as)]; m != nil && loop == nil; m = par[m] {
				switch x := m.(type) {
				case *ast.ForStmt:
					loop = x
				case *ast.RangeStmt:
					loop = x
				case *ast.FuncLit:
					m = nil
				}
				if m == nil {
					break
				}
			}
			if loop == nil {
				return true
			}
			n++
			key := fmt.Sprintf("main.%s|edit-loop#%d", fname, n)
			r.Fn("main." + fname)
			var xs types.Object
			downward := false
			switch x := loop.(type) {
			case *ast.RangeStmt:
				xs = core.ObjOf(info, x.X)
				// the position must come from the loop's element
				if x.Value == nil || !core.UsesObj(info, call.Args[1], core.ObjOf(info, x.Value)) && !derivesFrom(info, asg, call.Args[1], core.ObjOf(info, x.Value)) {
					r.Und("BACK-TO-FRONT", key, p.Pos(as.Pos()), "the position of the edit is not computed from the element the loop ranges over")
					return true
				}
			case *ast.ForStmt:
				// for i := len(XS)-1; i >= 0; i--
				xs, downward = downwardLoop(info, x)
				if xs == nil {
					r.Und("BACK-TO-FRONT", key, p.Pos(as.Pos()), "the edit loop is neither a range over the list of sites nor a counted loop from len(list)-1 down to 0")
					return true
				}
			}
			if xs == nil {
				r.Und("BACK-TO-FRONT", key, p.Pos(as.Pos()), "the loop does not range over a named list of sites")
				return true
			}
			order, why := establishedOrder(info, par, asg, loop, xs)
			switch {
			case order == "desc" && !downward, order == "asc" && downward:
				r.Ok("BACK-TO-FRONT", key, p.Pos(loop.Pos()), "the sites are visited from the far end: "+why)
			case order == "":
				r.Bad("BACK-TO-FRONT", key, p.Pos(loop.Pos()), fmt.Sprintf("the record `%s` is edited repeatedly at positions taken from `%s`, and nothing puts `%s` in order before the loop (%s): positions were computed on the unedited record, so an edit in front of a later site leaves that site's position stale by the length of the edit (sites come in feature-table order, which is not the order of their 5' ends for complement-strand or nested features)", o.Name(), xs.Name(), xs.Name(), why))
			default:
				r.Bad("BACK-TO-FRONT", key, p.Pos(loop.Pos()), fmt.Sprintf("the record `%s` is edited repeatedly from the near end: `%s` is in %sending order (%s) and is walked %s, so every edit shifts the positions still to come", o.Name(), xs.Name(), order, why, map[bool]string{true: "downwards", false: "upwards"}[downward]))
			}
			return true
		})
	}
}

// editCall: a call of a length-changing edit: gts.Insert/Embed/Delete/Erase, or a function
// value every definition of which is one of those.
func editCall(info *types.Info, asg map[types.Object][]core.Assign, call *ast.CallExpr) bool {
	isEdit := func(e ast.Expr) bool {
		switch x := ast.Unparen(e).(type) {
		case *ast.SelectorExpr:
			if fn, ok := info.Uses[x.Sel].(*types.Func); ok && fn.Pkg() != nil && fn.Pkg().Path() == core.PkgGts {
				switch fn.Name() {
				case "Insert", "Embed", "Delete", "Erase":
					return true
				}
			}
		}
		return false
	}
	if isEdit(call.Fun) {
		return true
	}
	o := core.ObjOf(info, call.Fun)
	if o == nil || len(asg[o]) == 0 {
		return false
	}
	for _, d := range asg[o] {
		if d.RHS == nil || !isEdit(d.RHS) {
			return false
		}
	}
	return true
}

func derivesFrom(info *types.Info, asg map[types.Object][]core.Assign, e ast.Expr, src types.Object) bool {
	if src == nil {
		return false
	}
	found := false
	ast.Inspect(e, func(n ast.Node) bool {
		id, ok := n.(*ast.Ident)
		if !ok || found {
			return !found
		}
		o := info.Uses[id]
		if o == src {
			found = true
			return false
		}
		for _, d := range asg[o] {
			if d.RHS != nil && core.UsesObj(info, d.RHS, src) {
				found = true
			}
			if d.Call != nil && core.UsesObj(info, d.Call, src) {
				found = true
			}
		}
		return !found
	})
	return found
}

// downwardLoop recognises `for i := len(XS)-1; i >= 0; i--`.
func downwardLoop(info *types.Info, fs *ast.ForStmt) (types.Object, bool) {
	init, ok := fs.Init.(*ast.AssignStmt)
	if !ok || len(init.Lhs) != 1 || len(init.Rhs) != 1 {
		return nil, false
	}
	be, ok := ast.Unparen(init.Rhs[0]).(*ast.BinaryExpr)
	if !ok || be.Op != token.SUB {
		return nil, false
	}
	lc, ok := ast.Unparen(be.X).(*ast.CallExpr)
	if one, isOne := core.ConstInt(info, be.Y); !ok || !isOne || one != 1 || !core.IsBuiltin(info, lc, "len") || len(lc.Args) != 1 {
		return nil, false
	}
	post, ok := fs.Post.(*ast.IncDecStmt)
	if !ok || post.Tok != token.DEC || core.ObjOf(info, post.X) != core.ObjOf(info, init.Lhs[0]) {
		return nil, false
	}
	cond, ok := ast.Unparen(fs.Cond).(*ast.BinaryExpr)
	if !ok || cond.Op != token.GEQ || core.ObjOf(info, cond.X) != core.ObjOf(info, init.Lhs[0]) {
		return nil, false
	}
	if z, isZ := core.ConstInt(info, cond.Y); !isZ || z != 0 {
		return nil, false
	}
	return core.ObjOf(info, lc.Args[0]), true
}

// establishedOrder looks at the statements in front of loop (same block, nearest first) for the
// one that last touched xs and classifies the order it leaves xs in.
func establishedOrder(info *types.Info, par map[ast.Node]ast.Node, asg map[types.Object][]core.Assign, loop ast.Stmt, xs types.Object) (order, why string) {
	// the statements in front of the loop, nearest first: those of its own block, then those in
	// front of the statement that contains it, and so on outwards (a list ordered once outside an
	// inner loop stays ordered inside it as long as nothing in between touches it)
	var before []ast.Stmt
	for node := ast.Node(loop); node != nil; node = par[node] {
		if _, isFn := node.(*ast.FuncLit); isFn {
			break
		}
		b, ok := par[node].(*ast.BlockStmt)
		if !ok {
			continue
		}
		for i, st := range b.List {
			if ast.Node(st) == node {
				for j := i - 1; j >= 0; j-- {
					before = append(before, b.List[j])
				}
			}
		}
	}
	blk := &ast.BlockStmt{}
	for i := len(before) - 1; i >= 0; i-- {
		blk.List = append(blk.List, before[i])
	}
	idx := len(blk.List)
	sortable := func(e ast.Expr) bool { // sort.IntSlice(xs) / gts.BySegment(xs) / xs
		e = ast.Unparen(e)
		if c, ok := e.(*ast.CallExpr); ok && core.IsConversion(info, c) && len(c.Args) == 1 {
			e = ast.Unparen(c.Args[0])
		}
		return core.ObjOf(info, e) == xs
	}
	ascendingDef := func() (bool, string) {
		defs := asg[xs]
		if len(defs) == 1 && defs[0].RHS != nil {
			if c, ok := ast.Unparen(defs[0].RHS).(*ast.CallExpr); ok && core.IsCallTo(info, c, core.PkgGts+".Minimize") {
				return true, "gts.Minimize returns disjoint segments in ascending order"
			}
		}
		return false, ""
	}
	for i := idx - 1; i >= 0; i-- {
		st := blk.List[i]
		if !core.UsesObj(info, st, xs) && !definesObj(info, st, xs) {
			continue
		}
		es, isExpr := st.(*ast.ExprStmt)
		if isExpr {
			if c, ok := es.X.(*ast.CallExpr); ok && len(c.Args) >= 1 {
				switch {
				case core.IsCallTo(info, c, "sort.Sort", "sort.Stable"):
					arg := ast.Unparen(c.Args[0])
					if rc, ok := arg.(*ast.CallExpr); ok && core.IsCallTo(info, rc, "sort.Reverse") && len(rc.Args) == 1 && sortable(rc.Args[0]) {
						return "desc", "sorted with sort.Reverse"
					}
					if sortable(arg) {
						return "asc", "sorted ascending"
					}
				case core.IsCallTo(info, c, "sort.Ints") && sortable(c.Args[0]):
					return "asc", "sort.Ints"
				case core.IsCallTo(info, c, "sort.Slice", "sort.SliceStable") && len(c.Args) == 2 && sortable(c.Args[0]):
					// sort.Slice(xs, func(a, b int) bool { return xs[a] > xs[b] })
					if lit, ok := ast.Unparen(c.Args[1]).(*ast.FuncLit); ok && len(lit.Body.List) == 1 && lit.Type.Params.NumFields() == 2 {
						if rs, ok := lit.Body.List[0].(*ast.ReturnStmt); ok && len(rs.Results) == 1 {
							if be, ok := ast.Unparen(rs.Results[0]).(*ast.BinaryExpr); ok && (be.Op == token.GTR || be.Op == token.LSS) {
								var ps []types.Object
								for _, f := range lit.Type.Params.List {
									for _, n := range f.Names {
										ps = append(ps, info.Defs[n])
									}
								}
								idx := func(e ast.Expr) types.Object {
									ix, ok := ast.Unparen(e).(*ast.IndexExpr)
									if !ok || core.ObjOf(info, ix.X) != xs {
										return nil
									}
									return core.ObjOf(info, ix.Index)
								}
								l, rr := idx(be.X), idx(be.Y)
								if len(ps) == 2 && l != nil && rr != nil && l != rr {
									desc := (be.Op == token.GTR && l == ps[0] && rr == ps[1]) || (be.Op == token.LSS && l == ps[1] && rr == ps[0])
									if desc {
										return "desc", "sort.Slice with a descending comparison"
									}
									return "asc", "sort.Slice with an ascending comparison"
								}
							}
						}
					}
					return "", "sort.Slice with a comparison that is not a plain comparison of two elements"
				case core.IsCallTo(info, c, "github.com/go-flip/flip.Flip") && sortable(c.Args[0]):
					// flipped: what was it before?
					for j := i - 1; j >= 0; j-- {
						prev := blk.List[j]
						if !core.UsesObj(info, prev, xs) && !definesObj(info, prev, xs) {
							continue
						}
						if pe, ok := prev.(*ast.ExprStmt); ok {
							if pc, ok := pe.X.(*ast.CallExpr); ok && len(pc.Args) >= 1 {
								if core.IsCallTo(info, pc, "sort.Ints") && sortable(pc.Args[0]) {
									return "desc", "sorted ascending, then flipped"
								}
								if core.IsCallTo(info, pc, "sort.Sort", "sort.Stable") && sortable(pc.Args[0]) {
									return "desc", "sorted ascending, then flipped"
								}
							}
						}
						if definesObj(info, prev, xs) {
							if ok, w := ascendingDef(); ok {
								return "desc", w + ", then flipped"
							}
						}
						return "", "flipped, but the order before the flip is not established"
					}
					return "", "flipped, but the order before the flip is not established"
				}
			}
		}
		if definesObj(info, st, xs) {
			if ok, w := ascendingDef(); ok {
				return "asc", w
			}
			return "", "the list is used as it was built"
		}
		return "", "the last statement that touches the list before the loop does not sort it"
	}
	return "", "no statement in front of the loop orders the list"
}

func definesObj(info *types.Info, n ast.Node, o types.Object) bool {
	found := false
	ast.Inspect(n, func(m ast.Node) bool {
		if as, ok := m.(*ast.AssignStmt); ok {
			for _, l := range as.Lhs {
				if id, ok := l.(*ast.Ident); ok && (info.Defs[id] == o || (info.Uses[id] == o && as.Tok == token.ASSIGN)) {
					found = true
				}
			}
		}
		return !found
	})
	return found
}

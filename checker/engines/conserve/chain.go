package conserve

import (
	"go/ast"
	"go/token"
	"go/types"

	"gtsverif/core"
)

// EditChain decides rule EDIT-CHAIN: in the multi-site edit commands a record
// handed to WriteSeq that is built by a chain of edits (a variable updated
// from itself) starts, for every record written, from a value that does not
// depend on the previous record written: the variable is declared, or freshly
// assigned at the top level, inside the innermost loop around the WriteSeq.
func EditChain(p *core.Prog, r *core.Report, cmds []string) {
	info := p.Info(core.PkgMain)
	for _, name := range cmds {
		fd := p.CommandFunc(name)
		if fd == nil || fd.Body == nil {
			r.Und("EDIT-CHAIN", "main."+name+"|anchor", "-", "anchor-unresolved: no function registered for the command `"+name+"`")
			continue
		}
		name = fd.Name.Name
		r.Fn("main." + name)
		par := core.Parents(fd.Body)
		asg := core.Assigns(info, fd.Body)
		n := 0
		ast.Inspect(fd.Body, func(nd ast.Node) bool {
			c, ok := nd.(*ast.CallExpr)
			if !ok {
				return true
			}
			fn := core.Callee(info, c)
			if fn == nil || fn.Name() != "WriteSeq" || len(c.Args) != 1 {
				return true
			}
			n++
			key := "main." + name + "|WriteSeq#" + itoa(n)
			// innermost loop around the call
			var loop ast.Node
			var body *ast.BlockStmt
			for m := par[ast.Node(c)]; m != nil; m = par[m] {
				switch x := m.(type) {
				case *ast.ForStmt:
					loop, body = x, x.Body
				case *ast.RangeStmt:
					loop, body = x, x.Body
				}
				if loop != nil {
					break
				}
			}
			if loop == nil {
				r.Ok("EDIT-CHAIN", key, p.Pos(c.Pos()), "not in a loop: one record written")
				return true
			}
			// accumulators among the variables of the argument
			var bad string
			checked := 0
			ast.Inspect(c.Args[0], func(a ast.Node) bool {
				id, ok := a.(*ast.Ident)
				if !ok {
					return true
				}
				o, isVar := info.Uses[id].(*types.Var)
				if !isVar || o.IsField() {
					return true
				}
				selfUpd := false
				for _, d := range asg[o] {
					if d.RHS != nil && core.UsesObj(info, d.RHS, o) {
						selfUpd = true
					}
					if d.Call != nil && core.UsesObj(info, d.Call, o) {
						selfUpd = true
					}
				}
				if !selfUpd {
					return true
				}
				checked++
				if body.Pos() <= o.Pos() && o.Pos() < body.End() {
					return true // declared inside the loop: a new chain per record
				}
				// a fresh top-level assignment inside the loop body before the write
				fresh := false
				for _, st := range body.List {
					if st.Pos() > c.Pos() {
						break
					}
					as, ok := st.(*ast.AssignStmt)
					if !ok || len(as.Lhs) != len(as.Rhs) {
						continue
					}
					for i, l := range as.Lhs {
						if core.ObjOf(info, l) == o && !core.UsesObj(info, as.Rhs[i], o) {
							fresh = true
						}
					}
				}
				if !fresh {
					bad = "the record written is the edit chain `" + id.Name + "`, which is declared outside the loop that writes it and never restarted inside: each record written after the first carries the edits of the ones before it"
				}
				return true
			})
			if bad != "" {
				r.Bad("EDIT-CHAIN", key, p.Pos(c.Pos()), bad)
			} else if checked > 0 {
				r.Ok("EDIT-CHAIN", key, p.Pos(c.Pos()), "the edit chain restarts for every record written")
			} else {
				r.Ok("EDIT-CHAIN", key, p.Pos(c.Pos()), "the record written is not an edit chain")
			}
			return true
		})
		if n == 0 {
			r.Und("EDIT-CHAIN", "main."+name+"|no-write", p.Pos(fd.Pos()), "the command never calls WriteSeq")
		}
	}
}

func itoa(n int) string {
	if n == 0 {
		return "0"
	}
	s := ""
	for n > 0 {
		s = string(rune('0'+n%10)) + s
		n /= 10
	}
	return s
}

// DedupExact decides rule DEDUP-EXACT: a membership helper of package main
// (shape func([]T, T) bool) used to de-duplicate sites decides membership by
// full equality (reflect.DeepEqual or ==) of the element and the candidate.
func DedupExact(p *core.Prog, r *core.Report) {
	info := p.Info(core.PkgMain)
	for _, fd := range p.FuncDecls(core.PkgMain) {
		if fd.Body == nil || fd.Recv != nil {
			continue
		}
		sig, _ := info.Defs[fd.Name].Type().(*types.Signature)
		if sig == nil || sig.Params().Len() != 2 || sig.Results().Len() != 1 {
			continue
		}
		sl, ok := sig.Params().At(0).Type().Underlying().(*types.Slice)
		if !ok || !types.Identical(sl.Elem(), sig.Params().At(1).Type()) {
			continue
		}
		if b, ok := sig.Results().At(0).Type().Underlying().(*types.Basic); !ok || b.Kind() != types.Bool {
			continue
		}
		name := "main." + fd.Name.Name
		r.Fn(name)
		xs, x := sig.Params().At(0), sig.Params().At(1)
		// every `return true` sits directly under an if whose condition is the full equality
		par := core.Parents(fd.Body)
		asg := core.Assigns(info, fd.Body)
		isElem := func(e ast.Expr) bool {
			e = ast.Unparen(e)
			if ix, ok := e.(*ast.IndexExpr); ok {
				return core.ObjOf(info, ix.X) == xs
			}
			if o := core.ObjOf(info, e); o != nil {
				for _, d := range asg[o] {
					if rs, ok := d.Node.(*ast.RangeStmt); ok && d.Idx == 1 && core.ObjOf(info, rs.X) == xs {
						return true
					}
				}
			}
			return false
		}
		isCand := func(e ast.Expr) bool { return core.ObjOf(info, ast.Unparen(e)) == x }
		full := func(cond ast.Expr) bool {
			cond = ast.Unparen(cond)
			if c, ok := cond.(*ast.CallExpr); ok && core.IsCallTo(info, c, "reflect.DeepEqual") && len(c.Args) == 2 {
				return isElem(c.Args[0]) && isCand(c.Args[1]) || isElem(c.Args[1]) && isCand(c.Args[0])
			}
			if be, ok := cond.(*ast.BinaryExpr); ok && be.Op == token.EQL {
				return isElem(be.X) && isCand(be.Y) || isElem(be.Y) && isCand(be.X)
			}
			return false
		}
		nTrue, bad := 0, ""
		ast.Inspect(fd.Body, func(n ast.Node) bool {
			ret, ok := n.(*ast.ReturnStmt)
			if !ok || len(ret.Results) != 1 {
				return true
			}
			tv := info.Types[ret.Results[0]]
			if tv.Value == nil {
				bad = "returns a computed value"
				return true
			}
			if tv.Value.String() != "true" {
				return true
			}
			nTrue++
			var is *ast.IfStmt
			for m := par[ast.Node(ret)]; m != nil; m = par[m] {
				if x, ok := m.(*ast.IfStmt); ok {
					is = x
					break
				}
			}
			if is == nil || !full(is.Cond) {
				c := "nothing"
				if is != nil {
					c = "`" + types.ExprString(is.Cond) + "`"
				}
				bad = "membership is decided by " + c + ", not by full equality of the element and the candidate: distinct sites that agree on that test are merged into one"
			}
			return true
		})
		switch {
		case bad != "":
			r.Bad("DEDUP-EXACT", name, p.Pos(fd.Pos()), bad)
		case nTrue == 0:
			r.Bad("DEDUP-EXACT", name, p.Pos(fd.Pos()), "never reports membership")
		default:
			r.Ok("DEDUP-EXACT", name, p.Pos(fd.Pos()), "reflect.DeepEqual / == of element and candidate")
		}
	}
}

package conserve

import (
	"fmt"
	"go/ast"
	"go/token"
	"go/types"
	"sort"
	"strings"

	"gtsverif/core"
)

// PushIdempotent decides PUSH-IDEMPOTENT on (*LocationList).Push: reducing a
// list of parts that is already the result of a reduction changes nothing.
// That is what makes printing a fixed point of parse-then-print for join(...):
// the printed join is parsed by pushing its parts again.
//
// The clauses for the three simple kinds (Between, Point, Ranged) are read off
// the nested type switches - guard and action (drop the pushed location,
// replace the held one by it, merge two ranges) - and interpreted concretely:
// every sequence of three locations with coordinates 0..3 (ranges with every
// combination of partial markers), forced and unforced, is pushed into an
// empty list, and the resulting list is pushed again. The guards compare
// coordinates for equality with offsets of at most one, so four coordinates
// exhibit every relation three locations can be in. The merged value of the
// Ranged+Ranged clause is the one MERGE-RANGED requires.
//
// A difference is reported against the clause whose action left the pair in
// front of it unreduced (a clause that replaces the held location gives the
// pushed one a new left neighbour, and Push only ever looks at the last node).
func PushIdempotent(p *core.Prog, r *core.Report) {
	r.Rule("PUSH-IDEMPOTENT", "for all 65536 triples of simple locations over coordinates 0..3 (forced and unforced), pushing the parts of the reduced list again yields the same list: join(...) text printed by gts parses back to a location that prints identically (clauses of (*LocationList).Push interpreted concretely; one obligation per clause that rewrites the held location)", 3)
	info := p.Info(core.PkgGts)
	fd := p.FuncDecl(core.PkgGts, "LocationList.Push")
	fn := "gts.(*LocationList).Push"
	if fd == nil || fd.Body == nil {
		r.Und("PUSH-IDEMPOTENT", fn+"|anchor", "-", "anchor-unresolved")
		return
	}
	var outer *ast.TypeSwitchStmt
	for _, st := range fd.Body.List {
		if ts, ok := st.(*ast.TypeSwitchStmt); ok {
			outer = ts
		}
	}
	if outer == nil {
		r.Und("PUSH-IDEMPOTENT", fn+"|switch", p.Pos(fd.Pos()), "no top-level type switch on the held location")
		return
	}
	var forceObj types.Object
	if fd.Type.Params.NumFields() >= 2 {
		k := 0
		for _, f := range fd.Type.Params.List {
			for _, n := range f.Names {
				if k == 1 {
					forceObj = info.Defs[n]
				}
				k++
			}
		}
	}
	type clause struct {
		cond   ast.Expr
		action string // drop | replace | merge
		v, u   types.Object
		pos    token.Pos
	}
	simple := map[string]bool{"Between": true, "Point": true, "Ranged": true}
	clauses := map[string]*clause{}
	swObj := func(ts *ast.TypeSwitchStmt, cl *ast.CaseClause) types.Object { return info.Implicits[cl] }
	for _, cc := range outer.Body.List {
		ocl := cc.(*ast.CaseClause)
		ot := names(caseTypes(info, ocl))
		if len(ot) != 1 || !simple[ot[0]] {
			continue
		}
		for _, st := range ocl.Body {
			inner, ok := st.(*ast.TypeSwitchStmt)
			if !ok {
				continue
			}
			for _, ic := range inner.Body.List {
				icl := ic.(*ast.CaseClause)
				it := names(caseTypes(info, icl))
				if len(it) != 1 || !simple[it[0]] {
					continue
				}
				key := ot[0] + "+" + it[0]
				is := clauseIf(icl)
				if is == nil {
					r.Und("PUSH-IDEMPOTENT", fn+"|"+key, p.Pos(icl.Pos()), "the clause is not a single `if cond { ...; return }`")
					return
				}
				rhs, other := dataAssign(info, is)
				c := &clause{cond: is.Cond, v: swObj(outer, ocl), u: swObj(inner, icl), pos: icl.Pos()}
				switch {
				case other || len(rhs) > 1:
					r.Und("PUSH-IDEMPOTENT", fn+"|"+key, p.Pos(icl.Pos()), "the clause does more than store one value")
					return
				case len(rhs) == 0:
					c.action = "drop"
				case core.ObjOf(info, rhs[0]) == c.u && c.u != nil:
					c.action = "replace"
				case key == "Ranged+Ranged":
					c.action = "merge"
				default:
					r.Und("PUSH-IDEMPOTENT", fn+"|"+key, p.Pos(icl.Pos()), "the value the clause stores is neither the pushed location nor the merged range")
					return
				}
				clauses[key] = c
			}
		}
	}
	if len(clauses) == 0 {
		r.Und("PUSH-IDEMPOTENT", fn+"|clauses", p.Pos(outer.Pos()), "no clause for the simple kinds found")
		return
	}
	// concrete locations
	type loc struct {
		kind   string
		a, b   int // Between/Point: a; Ranged: [a, b)
		p5, p3 bool
	}
	var dom []loc
	for x := 0; x <= 3; x++ {
		dom = append(dom, loc{kind: "Between", a: x}, loc{kind: "Point", a: x})
	}
	for s := 0; s <= 3; s++ {
		for e := s + 1; e <= 3; e++ {
			for m := 0; m < 4; m++ {
				dom = append(dom, loc{kind: "Ranged", a: s, b: e, p5: m&1 != 0, p3: m&2 != 0})
			}
		}
	}
	show := func(l loc) string {
		switch l.kind {
		case "Between":
			return fmt.Sprintf("%d^%d", l.a, l.a+1)
		case "Point":
			return fmt.Sprintf("%d", l.a+1)
		}
		s := ""
		if l.p5 {
			s += "<"
		}
		s += fmt.Sprintf("%d..", l.a+1)
		if l.p3 {
			s += ">"
		}
		return s + fmt.Sprintf("%d", l.b)
	}
	undecided := ""
	type env struct {
		c     *clause
		v, u  loc
		force bool
	}
	var evalInt func(e ast.Expr, en env) (int, bool)
	var evalBool func(e ast.Expr, en env) (bool, bool)
	field := func(l loc, name string) (int, bool) {
		if l.kind != "Ranged" {
			return 0, false
		}
		switch name {
		case "Start":
			return l.a, true
		case "End":
			return l.b, true
		}
		return 0, false
	}
	which := func(e ast.Expr, en env) (loc, bool) {
		o := core.ObjOf(info, e)
		switch {
		case o != nil && o == en.c.v:
			return en.v, true
		case o != nil && o == en.c.u:
			return en.u, true
		}
		return loc{}, false
	}
	evalInt = func(e ast.Expr, en env) (int, bool) {
		e = ast.Unparen(e)
		if k, ok := core.ConstInt(info, e); ok {
			return int(k), true
		}
		switch x := e.(type) {
		case *ast.Ident:
			if l, ok := which(x, en); ok && l.kind != "Ranged" {
				return l.a, true
			}
		case *ast.CallExpr:
			if core.IsConversion(info, x) && len(x.Args) == 1 {
				return evalInt(x.Args[0], en)
			}
		case *ast.SelectorExpr:
			if l, ok := which(x.X, en); ok {
				return field(l, x.Sel.Name)
			}
		case *ast.BinaryExpr:
			a, ok1 := evalInt(x.X, en)
			b, ok2 := evalInt(x.Y, en)
			if ok1 && ok2 {
				switch x.Op {
				case token.ADD:
					return a + b, true
				case token.SUB:
					return a - b, true
				}
			}
		}
		return 0, false
	}
	evalBool = func(e ast.Expr, en env) (bool, bool) {
		e = ast.Unparen(e)
		switch x := e.(type) {
		case *ast.Ident:
			if o := info.Uses[x]; o != nil && o == forceObj {
				return en.force, true
			}
		case *ast.UnaryExpr:
			if x.Op == token.NOT {
				v, ok := evalBool(x.X, en)
				return !v, ok
			}
		case *ast.SelectorExpr:
			// v.Partial.Partial3 / u.Partial.Partial5
			if in, ok := ast.Unparen(x.X).(*ast.SelectorExpr); ok && in.Sel.Name == "Partial" {
				if l, ok := which(in.X, en); ok && l.kind == "Ranged" {
					switch x.Sel.Name {
					case "Partial5":
						return l.p5, true
					case "Partial3":
						return l.p3, true
					}
				}
			}
		case *ast.BinaryExpr:
			switch x.Op {
			case token.LAND, token.LOR:
				a, ok1 := evalBool(x.X, en)
				b, ok2 := evalBool(x.Y, en)
				if x.Op == token.LAND {
					return a && b, ok1 && ok2
				}
				return a || b, ok1 && ok2
			case token.EQL, token.NEQ, token.LSS, token.LEQ, token.GTR, token.GEQ:
				a, ok1 := evalInt(x.X, en)
				b, ok2 := evalInt(x.Y, en)
				if !ok1 || !ok2 {
					return false, false
				}
				switch x.Op {
				case token.EQL:
					return a == b, true
				case token.NEQ:
					return a != b, true
				case token.LSS:
					return a < b, true
				case token.LEQ:
					return a <= b, true
				case token.GTR:
					return a > b, true
				default:
					return a >= b, true
				}
			}
		}
		return false, false
	}
	// push returns the new list and the key of the clause that rewrote the last node ("" if none)
	push := func(list []loc, l loc, force bool) ([]loc, string) {
		if len(list) == 0 {
			return []loc{l}, ""
		}
		last := list[len(list)-1]
		key := last.kind + "+" + l.kind
		if c := clauses[key]; c != nil {
			hit, ok := evalBool(c.cond, env{c, last, l, force})
			if !ok {
				undecided = "the guard of " + key + " (`" + types.ExprString(c.cond) + "`) cannot be interpreted"
				return list, ""
			}
			if hit {
				out := append([]loc(nil), list...)
				switch c.action {
				case "drop":
					return out, ""
				case "replace":
					out[len(out)-1] = l
					return out, key
				default:
					out[len(out)-1] = loc{kind: "Ranged", a: last.a, b: l.b, p5: last.p5, p3: l.p3}
					return out, key
				}
			}
		}
		return append(append([]loc(nil), list...), l), ""
	}
	reduce := func(in []loc, force bool) ([]loc, string) {
		var out []loc
		rew := ""
		for _, l := range in {
			var k string
			out, k = push(out, l, force)
			if k != "" && len(out) >= 2 {
				rew = k // a rewrite of the last node that has a left neighbour
			}
		}
		return out, rew
	}
	same := func(a, b []loc) bool {
		if len(a) != len(b) {
			return false
		}
		for i := range a {
			if a[i] != b[i] {
				return false
			}
		}
		return true
	}
	witness := map[string]string{}
	readableW := map[string]bool{}
	failing := map[string]int{} // how many triples each clause leaves unreduced: the fingerprint of its behaviour
	other := ""
	triples := 0
	for _, force := range []bool{false, true} {
		for _, a := range dom {
			for _, b := range dom {
				for _, c := range dom {
					triples++
					l1, rew := reduce([]loc{a, b, c}, force)
					if undecided != "" {
						r.Und("PUSH-IDEMPOTENT", fn+"|guards", p.Pos(outer.Pos()), undecided)
						return
					}
					l2, _ := reduce(l1, force)
					if same(l1, l2) {
						continue
					}
					var s1, s2 []string
					for _, l := range l1 {
						s1 = append(s1, show(l))
					}
					for _, l := range l2 {
						s2 = append(s2, show(l))
					}
					w := fmt.Sprintf("join(%s,%s,%s) reduces to join(%s), which pushed again gives %s", show(a), show(b), show(c), strings.Join(s1, ","), strings.Join(s2, ","))
					if len(l2) > 1 {
						w = fmt.Sprintf("join(%s,%s,%s) reduces to join(%s), which pushed again gives join(%s)", show(a), show(b), show(c), strings.Join(s1, ","), strings.Join(s2, ","))
					}
					if rew == "" {
						if other == "" {
							other = w
						}
						continue
					}
					// prefer a witness the location parser can read (it has no text for the site 0^1)
					readable := true
					for _, l := range []loc{a, b, c} {
						if l.kind == "Between" && l.a == 0 {
							readable = false
						}
					}
					failing[rew]++
					if witness[rew] == "" || (readable && !readableW[rew]) {
						witness[rew], readableW[rew] = w, readable
					}
				}
			}
		}
	}
	var keys []string
	for k, c := range clauses {
		if c.action != "drop" {
			keys = append(keys, k)
		}
	}
	sort.Strings(keys)
	for _, k := range keys {
		c := clauses[k]
		if w := witness[k]; w != "" {
			r.Bad("PUSH-IDEMPOTENT", fmt.Sprintf("%s|%s|unreduced=%d", fn, k, failing[k]), p.Pos(c.pos), fmt.Sprintf("the %s clause rewrites the last node and leaves the pair in front of it unreduced: %s - the printed location does not parse back to itself", k, w))
		} else {
			r.Ok("PUSH-IDEMPOTENT", fn+"|"+k, p.Pos(c.pos), fmt.Sprintf("no triple out of %d is reduced further when pushed again after this clause rewrote the last node", triples))
		}
	}
	if other != "" {
		r.Bad("PUSH-IDEMPOTENT", fn+"|other", p.Pos(outer.Pos()), "a reduced list changes when it is pushed again although no clause rewrote a node with a left neighbour: "+other)
	}
}

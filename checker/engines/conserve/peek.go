package conserve

import (
	"fmt"
	"go/ast"
	"go/token"

	"gtsverif/core"
)

// PeekAdvance decides PEEK-ADVANCE in the hand-written parsers of package gts:
// pars.Next only looks at the next byte. On every path on which that byte has
// been found equal to a literal (it belongs to the token: `<`, `>`, `^`, `.`,
// `,`, `)`), state.Advance() is called before the parser looks again, hands the
// state on, drops its frame or returns. A recognised byte that is left in the
// input makes whatever must follow fail: the legacy spelling `1..2>` inside a
// join, order or complement stops parsing at the `>`.
func PeekAdvance(p *core.Prog, r *core.Report) {
	r.Rule("PEEK-ADVANCE", "in the parsers of package gts a byte obtained with pars.Next and found equal to a literal is consumed with state.Advance() before the next look-ahead, the next parser call on the state, state.Drop() or a return: pars.Next only peeks", 5)
	info := p.Info(gts)
	const parsPkg = "github.com/go-pars/pars"
	for _, fd := range p.FuncDecls(gts) {
		if fd.Body == nil {
			continue
		}
		var peeks []*ast.AssignStmt
		bodyOf := map[*ast.AssignStmt]*ast.BlockStmt{}
		var walk func(body *ast.BlockStmt)
		walk = func(body *ast.BlockStmt) {
			ast.Inspect(body, func(n ast.Node) bool {
				if fl, ok := n.(*ast.FuncLit); ok {
					walk(fl.Body) // a closure has a control-flow graph of its own
					return false
				}
				if as, ok := n.(*ast.AssignStmt); ok && len(as.Rhs) == 1 && len(as.Lhs) == 2 {
					if c, ok := ast.Unparen(as.Rhs[0]).(*ast.CallExpr); ok && core.IsCallTo(info, c, parsPkg+".Next") {
						peeks = append(peeks, as)
						bodyOf[as] = body
					}
				}
				return true
			})
		}
		walk(fd.Body)
		if len(peeks) == 0 {
			continue
		}
		name := "gts." + core.DeclName(fd)
		r.Fn(name)
		flows := map[*ast.BlockStmt]*core.Flow{}
		for k, pk := range peeks {
			fl := flows[bodyOf[pk]]
			if fl == nil {
				fl = core.NewFlow(info, bodyOf[pk])
				flows[bodyOf[pk]] = fl
			}
			key := fmt.Sprintf("%s|peek#%d", name, k+1)
			cObj := core.ObjOf(info, pk.Lhs[0])
			loc := fl.Find(pk)
			if cObj == nil || !loc.Valid() {
				r.Und("PEEK-ADVANCE", key, p.Pos(pk.Pos()), "the look-ahead is not found in the control-flow graph")
				continue
			}
			var bad ast.Node
			what := ""
			accepted := false
			core.Scan(fl, loc, 0, core.Stepper[int]{
				Node: func(s int, n ast.Node) (int, bool) {
					if n == ast.Node(pk) {
						return s, false
					}
					for _, c := range core.NodeCalls(n) {
						switch {
						case core.IsCallTo(info, c, parsPkg+".State.Advance"):
							return 0, true // consumed (or nothing was pending): this look-ahead is done
						case core.IsCallTo(info, c, parsPkg+".Next"):
							if s == 1 && bad == nil {
								bad, what = c, "the parser looks ahead again"
							}
							return s, true
						case core.IsCallTo(info, c, parsPkg+".State.Drop"):
							if s == 1 && bad == nil {
								bad, what = c, "the frame is dropped (the parse succeeds)"
							}
							return s, true
						}
					}
					if rs, ok := n.(*ast.ReturnStmt); ok {
						if s == 1 && bad == nil {
							bad, what = rs, "the function returns"
						}
						return s, true
					}
					if as, ok := n.(*ast.AssignStmt); ok {
						for _, l := range as.Lhs {
							if core.ObjOf(info, l) == cObj {
								return s, true // the variable holds another byte from here on
							}
						}
					}
					return s, false
				},
				Edge: func(s int, cond ast.Expr, taken bool) int {
					core.Facts(cond, taken, func(atom ast.Expr, val bool) {
						be, ok := ast.Unparen(atom).(*ast.BinaryExpr)
						if !ok || core.ObjOf(info, be.X) != cObj {
							return
						}
						if _, isConst := core.ConstInt(info, be.Y); !isConst {
							return
						}
						if (be.Op == token.EQL && val) || (be.Op == token.NEQ && !val) {
							s = 1
							accepted = true
						}
					})
					return s
				},
			})
			switch {
			case bad != nil:
				r.Bad("PEEK-ADVANCE", key, p.Pos(bad.Pos()), fmt.Sprintf("the byte peeked at %s is recognised (`%s == literal`) and then %s without state.Advance(): the byte stays in the input, so the enclosing grammar sees it where a `,`, `)` or the end of the line is due (`join(1..2>,5..6)` and `complement(3..8>)` stop parsing at the `>`)", p.Pos(pk.Pos()), cObj.Name(), what))
			case !accepted:
				r.Note("PEEK-ADVANCE", key, p.Pos(pk.Pos()), "the look-ahead is not compared with a literal (a class test or a loop condition)")
			default:
				r.Ok("PEEK-ADVANCE", key, p.Pos(pk.Pos()), "a recognised byte is consumed before the parser goes on")
			}
		}
	}
}

package conserve

import (
	"fmt"
	"go/ast"
	"go/token"
	"go/types"
	"sort"
	"strconv"
	"strings"

	"gtsverif/core"
)

// PrintParse decides the structural part of "a location's printed form parses
// back to it": the printer (String methods) and the parser (the functions that
// call result.SetValue with a value of the same type) are siblings that must
// agree on
//
//	OFFSET-AGREE  the 0-based/1-based conversion of every coordinate field: the
//	              constant the printer adds is the one the parser subtracts
//	WRAP-TOKENS   the literal that opens join(/order(/complement( in the
//	              printer's format string, the literal the parser compares
//	              with, the length it requests, and the constructor it calls
//	MARKER-AGREE  the partial markers: the printer writes '<' exactly under
//	              Partial5 before the start and '>' exactly under Partial3
//	              before the end; the parser sets the flag stored in the same
//	              field only under a test for the same byte
func PrintParse(p *core.Prog, r *core.Report) {
	r.Rule("OFFSET-AGREE", "for Between, Point, Ranged and Ambiguous every coordinate the String method prints is field+c and the parser stores parsed-c into the same field (c = 1 for starts, 0 for ends; Between prints x and x+1 and the parser keeps the first number and rejects non-adjacent pairs)", 6)
	r.Rule("WRAP-TOKENS", "for Joined, Ordered and Complemented the format string of String opens with the literal the parser compares the input with, the parser requests exactly len(literal) bytes, expects ')' and builds the value with the matching constructor", 3)
	r.Rule("MARKER-AGREE", "Ranged.String writes '<' under Partial.Partial5 before the start and '>' under Partial.Partial3 before the end, and the parser's Ranged literal takes Partial5 from a flag set only under c == '<' and Partial3 from a flag set only under c == '>'", 2)
	info := p.Info(core.PkgGts)
	pk := p.Pkg(core.PkgGts)
	if info == nil || pk == nil {
		r.Und("OFFSET-AGREE", "gts|anchor", "-", "anchor-unresolved")
		return
	}
	// parser sites: result.SetValue(X) with X of a location type, and the function around each
	type site struct {
		call *ast.CallExpr
		fn   ast.Node // *ast.FuncDecl or *ast.FuncLit
		body *ast.BlockStmt
		name string
	}
	sites := map[string][]site{}
	for _, f := range pk.Syntax {
		var stack []ast.Node
		ast.Inspect(f, func(n ast.Node) bool {
			if n == nil {
				stack = stack[:len(stack)-1]
				return true
			}
			stack = append(stack, n)
			c, ok := n.(*ast.CallExpr)
			if !ok || len(c.Args) != 1 {
				return true
			}
			sel, ok := c.Fun.(*ast.SelectorExpr)
			if !ok || sel.Sel.Name != "SetValue" {
				return true
			}
			t := info.TypeOf(c.Args[0])
			nt, ok := t.(*types.Named)
			if !ok || nt.Obj().Pkg() == nil || nt.Obj().Pkg().Path() != core.PkgGts {
				return true
			}
			var s site
			s.call = c
			for i := len(stack) - 1; i >= 0; i-- {
				switch fn := stack[i].(type) {
				case *ast.FuncLit:
					if s.fn == nil {
						s.fn, s.body = fn, fn.Body
					}
				case *ast.FuncDecl:
					if s.fn == nil {
						s.fn, s.body = fn, fn.Body
					}
					s.name = core.DeclName(fn)
				case *ast.ValueSpec:
					if s.name == "" && len(fn.Names) > 0 {
						s.name = fn.Names[0].Name
					}
				}
			}
			sites[nt.Obj().Name()] = append(sites[nt.Obj().Name()], s)
			return true
		})
	}

	// printer offsets of type T: every integer argument of strconv.Itoa / fmt.Sprintf in T.String
	printed := func(T string) (offs []linc, fd *ast.FuncDecl, ok bool) {
		fd = p.FuncDecl(core.PkgGts, T+".String")
		if fd == nil || fd.Body == nil {
			return nil, nil, false
		}
		r.Fn("gts." + T + ".String")
		s := newSym(p, info, fd.Body)
		ok = true
		ast.Inspect(fd.Body, func(n ast.Node) bool {
			c, isCall := n.(*ast.CallExpr)
			if !isCall {
				return true
			}
			var args []ast.Expr
			switch {
			case core.IsCallTo(info, c, "strconv.Itoa"):
				args = c.Args
			case core.IsCallTo(info, c, "fmt.Sprintf"):
				args = c.Args[1:]
			default:
				return true
			}
			for _, a := range args {
				if b, isBasic := info.TypeOf(a).Underlying().(*types.Basic); !isBasic || b.Info()&types.IsInteger == 0 {
					continue
				}
				l, lok := s.leaf(a)
				lc, lok2 := linOf(l)
				if !lok || !lok2 {
					ok = false
					continue
				}
				offs = append(offs, lc)
			}
			return true
		})
		return offs, fd, ok
	}
	recvName := func(fd *ast.FuncDecl) string {
		if fd.Recv != nil && len(fd.Recv.List) == 1 && len(fd.Recv.List[0].Names) == 1 {
			return fd.Recv.List[0].Names[0].Name
		}
		return ""
	}
	// parser offset of an element expression: parsed integer + c
	parsedOff := func(s *sym, e ast.Expr) (int64, bool) {
		l, ok := s.leaf(e)
		if !ok {
			return 0, false
		}
		lc, ok := linOf(l)
		if !ok || lc.base != "result.Value" {
			return 0, false
		}
		return lc.c, true
	}

	for _, T := range []string{"Point", "Ranged", "Ambiguous", "Between"} {
		offs, fd, ok := printed(T)
		key := "gts." + T
		if fd == nil {
			r.Und("OFFSET-AGREE", key+"|printer", "-", "anchor-unresolved: no String method")
			continue
		}
		if !ok {
			r.Und("OFFSET-AGREE", key+"|printer", p.Pos(fd.Pos()), "a printed coordinate is not field+constant")
			continue
		}
		ss := sites[T]
		if len(ss) == 0 {
			r.Und("OFFSET-AGREE", key+"|parser", "-", "anchor-unresolved: no parser stores a "+T)
			continue
		}
		rn := recvName(fd)
		// printer: field -> offsets in print order
		pf := map[string][]int64{}
		for _, o := range offs {
			f := strings.TrimPrefix(strings.TrimPrefix(o.base, rn), ".")
			pf[f] = append(pf[f], o.c)
		}
		for _, st := range ss {
			r.Fn("gts." + st.name)
			s := newSym(p, info, st.body)
			arg := ast.Unparen(st.call.Args[0])
			fields := map[string]ast.Expr{}
			switch x := arg.(type) {
			case *ast.CompositeLit:
				stt := structOf(info.TypeOf(x))
				for i, el := range x.Elts {
					if kv, ok := el.(*ast.KeyValueExpr); ok {
						fields[kv.Key.(*ast.Ident).Name] = kv.Value
					} else if stt != nil && i < stt.NumFields() {
						fields[stt.Field(i).Name()] = el
					}
				}
			case *ast.CallExpr:
				if core.IsConversion(info, x) && len(x.Args) == 1 {
					fields[""] = x.Args[0]
				}
			}
			if len(fields) == 0 {
				r.Und("OFFSET-AGREE", key+"|"+st.name, p.Pos(st.call.Pos()), "the stored value is neither a literal nor a conversion")
				continue
			}
			var fs []string
			for f := range fields {
				fs = append(fs, f)
			}
			sort.Strings(fs)
			for _, f := range fs {
				if b, isBasic := info.TypeOf(fields[f]).Underlying().(*types.Basic); !isBasic || b.Info()&types.IsInteger == 0 {
					continue
				}
				k := key + "." + f + "|" + st.name
				q, ok := parsedOff(s, fields[f])
				if !ok {
					r.Und("OFFSET-AGREE", k, p.Pos(fields[f].Pos()), "the stored coordinate is not parsed+constant: "+s.why)
					continue
				}
				po := pf[f]
				if len(po) == 0 {
					r.Bad("OFFSET-AGREE", k, p.Pos(fd.Pos()), "the printer never prints field "+f)
					continue
				}
				if T == "Between" {
					// prints x+a and x+a+1; parser keeps first-a
					if len(po) != 2 || po[1] != po[0]+1 {
						r.Bad("OFFSET-AGREE", k, p.Pos(fd.Pos()), fmt.Sprintf("Between prints offsets %v, expected x and x+1", po))
						continue
					}
					if po[0]+q != 0 {
						r.Bad("OFFSET-AGREE", k, p.Pos(fields[f].Pos()), fmt.Sprintf("printer adds %d to the site, parser adds %d to the first number", po[0], q))
						continue
					}
					if !adjacencyGuard(info, st.body, fields[f]) {
						r.Bad("OFFSET-AGREE", k, p.Pos(st.call.Pos()), "the parser does not reject a^b with b != a+1, which the printer never produces")
						continue
					}
					r.Ok("OFFSET-AGREE", k, p.Pos(st.call.Pos()), "x^x+1 both ways")
					continue
				}
				bad := false
				for _, c := range po {
					if c+q != 0 {
						bad = true
					}
				}
				if bad {
					r.Bad("OFFSET-AGREE", k, p.Pos(fields[f].Pos()), fmt.Sprintf("printer adds %v to %s, parser adds %d to the parsed number: print-then-parse moves the coordinate", po, f, q))
					continue
				}
				r.Ok("OFFSET-AGREE", k, p.Pos(fields[f].Pos()), fmt.Sprintf("printer %+d, parser %+d", po[0], q))
			}
			if T == "Ranged" {
				markerAgree(p, r, info, fd, rn, st.body, st.name, arg)
			}
		}
	}

	// wrappers
	for _, w := range []struct{ T, ctor string }{{"Joined", "Join"}, {"Ordered", "Order"}, {"Complemented", "Complement"}} {
		key := "gts." + w.T
		fd := p.FuncDecl(core.PkgGts, w.T+".String")
		if fd == nil || fd.Body == nil {
			r.Und("WRAP-TOKENS", key+"|printer", "-", "anchor-unresolved")
			continue
		}
		r.Fn("gts." + w.T + ".String")
		format := ""
		ast.Inspect(fd.Body, func(n ast.Node) bool {
			if c, ok := n.(*ast.CallExpr); ok && core.IsCallTo(info, c, "fmt.Sprintf") && len(c.Args) == 2 {
				format, _ = core.ConstString(info, c.Args[0])
			}
			// the same text written as a concatenation: "join(" + s + ")"
			if rs, ok := n.(*ast.ReturnStmt); ok && len(rs.Results) == 1 && format == "" {
				var parts []ast.Expr
				var flat func(e ast.Expr)
				flat = func(e ast.Expr) {
					if be, ok := ast.Unparen(e).(*ast.BinaryExpr); ok && be.Op == token.ADD {
						flat(be.X)
						flat(be.Y)
						return
					}
					parts = append(parts, e)
				}
				flat(rs.Results[0])
				if len(parts) == 3 {
					a, okA := core.ConstString(info, parts[0])
					_, okB := core.ConstString(info, parts[1])
					c, okC := core.ConstString(info, parts[2])
					if okA && !okB && okC {
						format = a + "%s" + c
					}
				}
			}
			return true
		})
		i := strings.Index(format, "%s")
		if i <= 0 || format[i+2:] != ")" {
			r.Bad("WRAP-TOKENS", key, p.Pos(fd.Pos()), "String does not print `<literal>(%s)`: format "+strconv.Quote(format))
			continue
		}
		open := format[:i]
		// the parser: a function in gts that compares state.Buffer() with []byte(open)
		var found ast.Node
		var body *ast.BlockStmt
		var fname string
		for _, d := range p.FuncDecls(core.PkgGts) {
			if d.Body == nil {
				continue
			}
			ast.Inspect(d.Body, func(n ast.Node) bool {
				switch c := n.(type) {
				case *ast.CallExpr:
					if !core.IsCallTo(info, c, "bytes.Equal") || len(c.Args) != 2 {
						return true
					}
					for _, a := range c.Args {
						if s, ok := p.BytesOfConst(info, a); ok && s == open {
							found, body, fname = c, d.Body, core.DeclName(d)
						}
					}
				case *ast.BinaryExpr:
					// the same comparison spelled string(buffer) == "join(" / != ...
					if c.Op != token.EQL && c.Op != token.NEQ {
						return true
					}
					for _, pr := range [][2]ast.Expr{{c.X, c.Y}, {c.Y, c.X}} {
						if s, ok := core.ConstString(info, pr[0]); ok && s == open {
							if cv, ok := ast.Unparen(pr[1]).(*ast.CallExpr); ok && core.IsConversion(info, cv) {
								found, body, fname = c, d.Body, core.DeclName(d)
							}
						}
					}
				}
				return true
			})
		}
		if found == nil {
			r.Bad("WRAP-TOKENS", key, p.Pos(fd.Pos()), "no parser compares its input with "+strconv.Quote(open)+", the literal String prints")
			continue
		}
		r.Fn("gts." + fname)
		// innermost function literal/decl body containing the comparison
		ast.Inspect(body, func(n ast.Node) bool {
			if fl, ok := n.(*ast.FuncLit); ok && fl.Pos() <= found.Pos() && found.End() <= fl.End() {
				body = fl.Body
			}
			return true
		})
		var problems []string
		req := int64(-1)
		closeOK, ctorOK := false, false
		ast.Inspect(body, func(n ast.Node) bool {
			switch x := n.(type) {
			case *ast.CallExpr:
				if sel, ok := x.Fun.(*ast.SelectorExpr); ok && sel.Sel.Name == "Request" && len(x.Args) == 1 {
					if v, ok := core.ConstInt(info, x.Args[0]); ok {
						req = v
					}
				}
				if sel, ok := x.Fun.(*ast.SelectorExpr); ok && sel.Sel.Name == "SetValue" && len(x.Args) == 1 {
					if c, ok := ast.Unparen(x.Args[0]).(*ast.CallExpr); ok {
						if fn := core.Callee(info, c); fn != nil && fn.Name() == w.ctor {
							ctorOK = true
						}
					}
				}
			case *ast.BinaryExpr:
				if x.Op == token.NEQ || x.Op == token.EQL {
					if v, ok := core.ConstInt(info, x.Y); ok && v == ')' {
						closeOK = true
					}
				}
			}
			return true
		})
		if req != int64(len(open)) {
			problems = append(problems, fmt.Sprintf("requests %d bytes for the %d-byte literal %q", req, len(open), open))
		}
		if !closeOK {
			problems = append(problems, "never tests for ')'")
		}
		if !ctorOK {
			problems = append(problems, "does not build the value with "+w.ctor)
		}
		if len(problems) > 0 {
			r.Bad("WRAP-TOKENS", key+"|"+fname, p.Pos(found.Pos()), strings.Join(problems, "; "))
			continue
		}
		r.Ok("WRAP-TOKENS", key+"|"+fname, p.Pos(found.Pos()), fmt.Sprintf("%q both ways, Request(%d), ')', %s", open, req, w.ctor))
	}
}

// adjacencyGuard: the body contains `if X+1 != Y { return error }` (or
// Y != X+1) where X is the variable stored.
func adjacencyGuard(info *types.Info, body *ast.BlockStmt, stored ast.Expr) bool {
	id, ok := ast.Unparen(stored).(*ast.Ident)
	if !ok {
		return false
	}
	obj := core.ObjOf(info, id)
	found := false
	ast.Inspect(body, func(n ast.Node) bool {
		is, ok := n.(*ast.IfStmt)
		if !ok {
			return true
		}
		be, ok := ast.Unparen(is.Cond).(*ast.BinaryExpr)
		if !ok || be.Op != token.NEQ {
			return true
		}
		for _, side := range [][2]ast.Expr{{be.X, be.Y}, {be.Y, be.X}} {
			sum, ok := ast.Unparen(side[0]).(*ast.BinaryExpr)
			if !ok || sum.Op != token.ADD {
				continue
			}
			one, okc := core.ConstInt(info, sum.Y)
			x, okx := ast.Unparen(sum.X).(*ast.Ident)
			if !okc || one != 1 || !okx || core.ObjOf(info, x) != obj {
				continue
			}
			if _, isID := ast.Unparen(side[1]).(*ast.Ident); !isID {
				continue
			}
			if len(is.Body.List) > 0 {
				if _, isRet := is.Body.List[len(is.Body.List)-1].(*ast.ReturnStmt); isRet {
					found = true
				}
			}
		}
		return true
	})
	return found
}

// markerAgree checks the '<' / '>' discipline of Ranged on both sides.
func markerAgree(p *core.Prog, r *core.Report, info *types.Info, pr *ast.FuncDecl, rn string, body *ast.BlockStmt, pname string, arg ast.Expr) {
	// printer: WriteByte('<') directly inside `if recv.Partial.Partial5`, before the Itoa of Start; '>' under Partial3 before the Itoa of End
	type wr struct {
		b    int64
		cond string
		pos  token.Pos
	}
	var writes []wr
	var itoas []struct {
		field string
		pos   token.Pos
	}
	s := newSym(p, info, pr.Body)
	par := core.Parents(pr.Body)
	ast.Inspect(pr.Body, func(n ast.Node) bool {
		c, ok := n.(*ast.CallExpr)
		if !ok {
			return true
		}
		if sel, ok := c.Fun.(*ast.SelectorExpr); ok && sel.Sel.Name == "WriteByte" && len(c.Args) == 1 {
			if b, ok := core.ConstInt(info, c.Args[0]); ok {
				cond := ""
				for m := par[ast.Node(c)]; m != nil; m = par[m] {
					if is, ok := m.(*ast.IfStmt); ok {
						if cond != "" {
							cond = "nested"
							break
						}
						cond, _ = s.leaf(is.Cond)
						if is.Else != nil {
							cond = "has-else"
						}
					}
				}
				writes = append(writes, wr{b, cond, c.Pos()})
			}
		}
		if core.IsCallTo(info, c, "strconv.Itoa") && len(c.Args) == 1 {
			l, _ := s.leaf(c.Args[0])
			if lc, ok := linOf(l); ok {
				itoas = append(itoas, struct {
					field string
					pos   token.Pos
				}{strings.TrimPrefix(lc.base, rn+"."), c.Pos()})
			}
		}
		return true
	})
	posOf := func(field string) token.Pos {
		for _, it := range itoas {
			if it.field == field {
				return it.pos
			}
		}
		return token.NoPos
	}
	for _, m := range []struct {
		b           int64
		flag, field string
		other       string
	}{{'<', "Partial5", "Start", "End"}, {'>', "Partial3", "End", ""}} {
		key := "gts.Ranged|" + string(rune(m.b)) + "|printer"
		var mine []wr
		for _, w := range writes {
			if w.b == m.b {
				mine = append(mine, w)
			}
		}
		want := rn + ".Partial." + m.flag
		switch {
		case len(mine) != 1:
			r.Bad("MARKER-AGREE", key, p.Pos(pr.Pos()), fmt.Sprintf("Ranged.String writes %q %d times, expected once", rune(m.b), len(mine)))
		case mine[0].cond != want:
			r.Bad("MARKER-AGREE", key, p.Pos(mine[0].pos), fmt.Sprintf("%q is written under %q, must be under exactly %s", rune(m.b), mine[0].cond, want))
		case posOf(m.field) == token.NoPos || mine[0].pos > posOf(m.field) || (m.field == "End" && mine[0].pos < posOf("Start")):
			r.Bad("MARKER-AGREE", key, p.Pos(mine[0].pos), fmt.Sprintf("%q is not written immediately before the %s coordinate", rune(m.b), m.field))
		default:
			r.Ok("MARKER-AGREE", key, p.Pos(mine[0].pos), "under "+want+" before "+m.field)
		}
	}
	// parser: the literal's Partial is Partial{f5, f3}; f5 := false, set true only under c == '<'; f3 likewise '>'
	lit, ok := arg.(*ast.CompositeLit)
	if !ok {
		r.Und("MARKER-AGREE", "gts.Ranged|parser|"+pname, p.Pos(arg.Pos()), "stored Ranged is not a literal")
		return
	}
	var pl *ast.CompositeLit
	stt := structOf(info.TypeOf(lit))
	for i, el := range lit.Elts {
		name := ""
		v := el
		if kv, ok := el.(*ast.KeyValueExpr); ok {
			name, v = kv.Key.(*ast.Ident).Name, kv.Value
		} else if stt != nil && i < stt.NumFields() {
			name = stt.Field(i).Name()
		}
		if name == "Partial" {
			pl, _ = ast.Unparen(v).(*ast.CompositeLit)
		}
	}
	if pl == nil {
		r.Bad("MARKER-AGREE", "gts.Ranged|parser|"+pname, p.Pos(lit.Pos()), "the parsed Ranged does not take its Partial from a literal of the two parsed flags")
		return
	}
	pst := structOf(info.TypeOf(pl))
	flags := map[string]ast.Expr{}
	for i, el := range pl.Elts {
		if kv, ok := el.(*ast.KeyValueExpr); ok {
			flags[kv.Key.(*ast.Ident).Name] = kv.Value
		} else if pst != nil && i < pst.NumFields() {
			flags[pst.Field(i).Name()] = el
		}
	}
	asg := core.Assigns(info, body)
	bpar := core.Parents(body)
	for _, m := range []struct {
		b    int64
		flag string
	}{{'<', "Partial5"}, {'>', "Partial3"}} {
		key := "gts.Ranged|" + string(rune(m.b)) + "|parser|" + pname
		id, ok := ast.Unparen(flags[m.flag]).(*ast.Ident)
		if flags[m.flag] == nil || !ok {
			r.Bad("MARKER-AGREE", key, p.Pos(pl.Pos()), "Partial."+m.flag+" of the parsed range is not a parsed flag variable")
			continue
		}
		obj := core.ObjOf(info, id)
		nTrue, bad := 0, ""
		for _, a := range asg[obj] {
			if a.RHS == nil {
				bad = "assigned without a value"
				continue
			}
			v, isConst := info.Types[a.RHS]
			if !isConst || v.Value == nil {
				bad = "assigned a computed value " + types.ExprString(a.RHS)
				continue
			}
			if v.Value.String() == "false" {
				continue
			}
			nTrue++
			// must sit directly in an if whose condition has the conjunct c == 'b'
			guarded := false
			for mm := bpar[a.Node]; mm != nil; mm = bpar[mm] {
				if is, ok := mm.(*ast.IfStmt); ok {
					core.Facts(is.Cond, true, func(atom ast.Expr, val bool) {
						if be, ok := ast.Unparen(atom).(*ast.BinaryExpr); ok && be.Op == token.EQL && val {
							if c, ok := core.ConstInt(info, be.Y); ok && c == m.b {
								guarded = true
							}
							if c, ok := core.ConstInt(info, be.X); ok && c == m.b {
								guarded = true
							}
						}
					})
					break
				}
			}
			if !guarded {
				bad = fmt.Sprintf("set true at %s without testing for %q", p.Pos(a.Pos), rune(m.b))
			}
		}
		switch {
		case bad != "":
			r.Bad("MARKER-AGREE", key, p.Pos(pl.Pos()), "flag "+id.Name+" "+bad)
		case nTrue == 0:
			r.Bad("MARKER-AGREE", key, p.Pos(pl.Pos()), "flag "+id.Name+" is never set: the marker is dropped on parsing")
		default:
			r.Ok("MARKER-AGREE", key, p.Pos(pl.Pos()), fmt.Sprintf("%s set true at %d site(s), each under c == %q", id.Name, nTrue, rune(m.b)))
		}
	}
}

// Package conserve implements E6: element/feature conservation and
// must-pass-through rules (FILL, FMAP, MUST-PASS, INPUT-COORD).
package conserve

import (
	"fmt"
	"go/ast"
	"go/token"
	"go/types"

	"gtsverif/core"
)

// Anchor names one function whose fill sites must be decided.
type Anchor struct {
	Pkg, Name string
	Mirror    bool // the function must reverse the order of the elements
}

// lin is a linear form a*LEN + b*IDX + c over the loop index and the length.
type lin struct {
	a, b, c int64
	ok      bool
}

// linear evaluates e as a*len(S) + b*i + c where S is one of lens.
func linear(info *types.Info, e ast.Expr, idx types.Object, isLen func(ast.Expr) bool) lin {
	e = ast.Unparen(e)
	if v, ok := core.ConstInt(info, e); ok {
		return lin{0, 0, v, true}
	}
	switch x := e.(type) {
	case *ast.Ident:
		if core.ObjOf(info, x) == idx && idx != nil {
			return lin{0, 1, 0, true}
		}
	case *ast.CallExpr:
		if core.IsBuiltin(info, x, "len") && len(x.Args) == 1 && isLen(x.Args[0]) {
			return lin{1, 0, 0, true}
		}
	case *ast.BinaryExpr:
		l, r := linear(info, x.X, idx, isLen), linear(info, x.Y, idx, isLen)
		if !l.ok || !r.ok {
			return lin{}
		}
		switch x.Op {
		case token.ADD:
			return lin{l.a + r.a, l.b + r.b, l.c + r.c, true}
		case token.SUB:
			return lin{l.a - r.a, l.b - r.b, l.c - r.c, true}
		}
	}
	return lin{}
}

func sameExpr(info *types.Info, a, b ast.Expr) bool {
	a, b = ast.Unparen(a), ast.Unparen(b)
	if oa, ob := core.ObjOf(info, a), core.ObjOf(info, b); oa != nil || ob != nil {
		return oa == ob
	}
	switch x := a.(type) {
	case *ast.CallExpr:
		y, ok := b.(*ast.CallExpr)
		if !ok || len(x.Args) != len(y.Args) || !sameExpr(info, x.Fun, y.Fun) {
			return false
		}
		for i := range x.Args {
			if !sameExpr(info, x.Args[i], y.Args[i]) {
				return false
			}
		}
		return true
	case *ast.SelectorExpr:
		y, ok := b.(*ast.SelectorExpr)
		return ok && x.Sel.Name == y.Sel.Name && sameExpr(info, x.X, y.X)
	}
	return false
}

// assignsOnEveryPath: every path through the statement list stores into
// x[<idx or mirrored idx>] before leaving the iteration.
func assignsOnEveryPath(info *types.Info, list []ast.Stmt, x, idx types.Object, isLen func(ast.Expr) bool) (bool, string) {
	for _, s := range list {
		switch st := s.(type) {
		case *ast.AssignStmt:
			for _, l := range st.Lhs {
				ix, ok := ast.Unparen(l).(*ast.IndexExpr)
				if !ok || core.ObjOf(info, ix.X) != x {
					continue
				}
				f := linear(info, ix.Index, idx, isLen)
				if f.ok && f.a == 0 && f.b == 1 && f.c == 0 {
					return true, ""
				}
				if f.ok && f.a == 1 && f.b == -1 && f.c == -1 {
					return true, "mirror"
				}
				return false, "element stored at an index that is neither the loop index nor its mirror image"
			}
		case *ast.IfStmt:
			if st.Else != nil {
				a, _ := assignsOnEveryPath(info, st.Body.List, x, idx, isLen)
				var b bool
				switch e := st.Else.(type) {
				case *ast.BlockStmt:
					b, _ = assignsOnEveryPath(info, e.List, x, idx, isLen)
				case *ast.IfStmt:
					b, _ = assignsOnEveryPath(info, []ast.Stmt{e}, x, idx, isLen)
				}
				if a && b {
					return true, ""
				}
			}
			if leaves(st) {
				return false, "an iteration can be left (continue/break/return) before the element is stored"
			}
		case *ast.SwitchStmt:
			all, hasDefault := true, false
			for _, cc := range st.Body.List {
				cl := cc.(*ast.CaseClause)
				if cl.List == nil {
					hasDefault = true
				}
				ok, _ := assignsOnEveryPath(info, cl.Body, x, idx, isLen)
				all = all && ok
			}
			if all && hasDefault {
				return true, ""
			}
			if leaves(st) {
				return false, "an iteration can be left before the element is stored"
			}
		case *ast.BranchStmt, *ast.ReturnStmt:
			return false, "an iteration can be left (continue/break/return) before the element is stored"
		case *ast.BlockStmt:
			if ok, _ := assignsOnEveryPath(info, st.List, x, idx, isLen); ok {
				return true, ""
			}
		}
	}
	return false, "no store into the result on some path through the loop body"
}

func leaves(n ast.Node) bool {
	found := false
	ast.Inspect(n, func(m ast.Node) bool {
		switch m.(type) {
		case *ast.FuncLit:
			return false
		case *ast.BranchStmt, *ast.ReturnStmt:
			found = true
		}
		return !found
	})
	return found
}

// Fill decides rule FILL for every `x := make([]T, len(src))` in the anchors.
// Sites of the same shape in other functions of the packages are counted as
// informational only.
func Fill(p *core.Prog, r *core.Report, anchors []Anchor) {
	isAnchor := map[string]bool{}
	mirror := map[string]bool{}
	for _, a := range anchors {
		isAnchor[a.Pkg+"."+a.Name] = true
		mirror[a.Pkg+"."+a.Name] = a.Mirror
		if p.FuncDecl(a.Pkg, a.Name) == nil {
			r.Und("FILL", core.Short(a.Pkg)+"."+a.Name+"|anchor", "-", "anchor-unresolved: function not found")
		}
	}
	r.Rule("NO-SHORTCUT", "every return of a FILL anchor hands back a value computed from the slice it filled: an early return of the receiver or of an argument skips the part-wise transformation for some inputs", 0)
	for _, pkg := range []string{core.PkgGts, core.PkgSeqio} {
		info := p.Info(pkg)
		for _, fd := range p.FuncDecls(pkg) {
			if fd.Body == nil {
				continue
			}
			name := core.DeclName(fd)
			anchor := isAnchor[pkg+"."+name]
			fn := core.Short(pkg) + "." + name
			n := 0
			if anchor {
				noShortcut(p, r, info, fd, fn)
				appendFill(p, r, info, fd, fn, mirror[pkg+"."+name])
			}
			ast.Inspect(fd.Body, func(m ast.Node) bool {
				as, ok := m.(*ast.AssignStmt)
				if !ok || len(as.Lhs) != 1 || len(as.Rhs) != 1 {
					return true
				}
				mk, ok := ast.Unparen(as.Rhs[0]).(*ast.CallExpr)
				if !ok || !core.IsBuiltin(info, mk, "make") || len(mk.Args) != 2 {
					return true
				}
				if _, isSlice := info.Types[mk.Args[0]].Type.Underlying().(*types.Slice); !isSlice {
					return true
				}
				lc, ok := ast.Unparen(mk.Args[1]).(*ast.CallExpr)
				if !ok || !core.IsBuiltin(info, lc, "len") || len(lc.Args) != 1 {
					return true
				}
				x := core.ObjOf(info, as.Lhs[0])
				if x == nil {
					return true
				}
				n++
				src := lc.Args[0]
				key := fmt.Sprintf("%s|make#%d(%s)", fn, n, types.ExprString(mk.Args[0]))
				verdict, detail, idiom := decideFill(info, fd, as, x, src)
				if anchor && mirror[pkg+"."+name] && verdict == core.OK && (idiom == "range-identity" || idiom == "copy") && !hasTwoPointer(info, fd, x) {
					verdict, detail = core.Violation, "the elements are stored in their original order although this function must mirror it: parts of a reverse-strand location come out in the wrong order and Head()/Tail() name the wrong ends"
				}
				if anchor {
					r.Fn(fn)
					switch verdict {
					case core.OK:
						r.Ok("FILL", key, p.Pos(as.Pos()), detail)
					case core.Violation:
						r.Bad("FILL", key, p.Pos(as.Pos()), detail)
					default:
						r.Und("FILL", key, p.Pos(as.Pos()), detail)
					}
				} else {
					r.Note("FILL", key, p.Pos(as.Pos()), "outside the anchors: "+verdict+" ("+detail+")")
				}
				return true
			})
		}
	}
}

func decideFill(info *types.Info, fd *ast.FuncDecl, mk *ast.AssignStmt, x types.Object, src ast.Expr) (string, string, string) {
	isLen := func(e ast.Expr) bool { return sameExpr(info, e, src) || core.ObjOf(info, e) == x }
	var verdict, detail, idiom string
	ast.Inspect(fd.Body, func(n ast.Node) bool {
		if verdict != "" {
			return false
		}
		switch s := n.(type) {
		case *ast.CallExpr:
			if s.Pos() > mk.End() && core.IsBuiltin(info, s, "copy") && len(s.Args) == 2 && core.ObjOf(info, s.Args[0]) == x && sameExpr(info, s.Args[1], src) {
				verdict, detail, idiom = core.OK, "copy(x, src) fills all len(src) elements", "copy"
			}
		case *ast.RangeStmt:
			if s.Pos() < mk.End() || !sameExpr(info, s.X, src) || s.Key == nil {
				return true
			}
			idx := core.ObjOf(info, s.Key)
			ok, why := assignsOnEveryPath(info, s.Body.List, x, idx, isLen)
			if ok {
				verdict, detail, idiom = core.OK, "range over the source stores one element per index on every path", "range-identity"
				if why == "mirror" {
					idiom = "range-mirror"
				}
			} else {
				verdict, detail = core.Violation, "range over the source does not store every element: "+why+"; the skipped slots stay nil/zero"
			}
		case *ast.ForStmt:
			if s.Pos() < mk.End() {
				return true
			}
			if v, d := twoPointer(info, s, x, isLen); v != "" {
				verdict, detail, idiom = v, d, "two-pointer"
			}
		}
		return true
	})
	if verdict == "" {
		return core.Undecided, "the slice is not filled by one of the recognised idioms (range over the source, copy, two-pointer loop)", ""
	}
	return verdict, detail, idiom
}

func hasTwoPointer(info *types.Info, fd *ast.FuncDecl, x types.Object) bool {
	found := false
	isLen := func(e ast.Expr) bool { return core.ObjOf(info, e) == x }
	ast.Inspect(fd.Body, func(n ast.Node) bool {
		if fs, ok := n.(*ast.ForStmt); ok {
			if v, _ := twoPointer(info, fs, x, isLen); v != "" {
				found = true
			}
		}
		return true
	})
	return found
}

// ReverseMap decides REVERSE-MAP: a two-pointer loop over a slice whose stored
// values are not the plain swapped elements transforms the elements while it
// reverses them, so it must also visit the middle index (l <= r).
func ReverseMap(p *core.Prog, r *core.Report, anchors []Anchor) {
	for _, a := range anchors {
		fd := p.FuncDecl(a.Pkg, a.Name)
		fn := core.Short(a.Pkg) + "." + a.Name
		if fd == nil || fd.Body == nil {
			r.Und("REVERSE-MAP", fn+"|anchor", "-", "anchor-unresolved")
			continue
		}
		info := p.Info(a.Pkg)
		n := 0
		ast.Inspect(fd.Body, func(m ast.Node) bool {
			fs, ok := m.(*ast.ForStmt)
			if !ok {
				return true
			}
			init, ok := fs.Init.(*ast.AssignStmt)
			if !ok || len(init.Lhs) != 2 || len(init.Rhs) != 2 {
				return true
			}
			// l, r := 0, len(X)-1
			be, ok := ast.Unparen(init.Rhs[1]).(*ast.BinaryExpr)
			if !ok || be.Op != token.SUB {
				return true
			}
			lc, ok := ast.Unparen(be.X).(*ast.CallExpr)
			if !ok || !core.IsBuiltin(info, lc, "len") {
				return true
			}
			if one, ok := core.ConstInt(info, be.Y); !ok || one != 1 {
				return true
			}
			if z, ok := core.ConstInt(info, init.Rhs[0]); !ok || z != 0 {
				return true
			}
			l, rr := core.ObjOf(info, init.Lhs[0]), core.ObjOf(info, init.Lhs[1])
			n++
			key := fmt.Sprintf("%s|two-pointer#%d", fn, n)
			transforms := false
			for _, st := range fs.Body.List {
				as, ok := st.(*ast.AssignStmt)
				if !ok {
					continue
				}
				for i, lh := range as.Lhs {
					ix, ok := ast.Unparen(lh).(*ast.IndexExpr)
					if !ok || i >= len(as.Rhs) {
						continue
					}
					li := core.ObjOf(info, ix.Index)
					if li != l && li != rr {
						continue
					}
					// plain swap: RHS is X[other index]
					rx, ok := ast.Unparen(as.Rhs[i]).(*ast.IndexExpr)
					if !ok || core.ObjOf(info, rx.X) != core.ObjOf(info, ix.X) {
						transforms = true
						continue
					}
					ri := core.ObjOf(info, rx.Index)
					if !((li == l && ri == rr) || (li == rr && ri == l)) {
						transforms = true
					}
				}
			}
			cond, _ := ast.Unparen(fs.Cond).(*ast.BinaryExpr)
			inclusive := false
			if cond != nil {
				cl, cr := core.ObjOf(info, cond.X), core.ObjOf(info, cond.Y)
				if (cl == l && cr == rr && cond.Op == token.LEQ) || (cl == rr && cr == l && cond.Op == token.GEQ) {
					inclusive = true
				}
			}
			switch {
			case !transforms:
				r.Ok("REVERSE-MAP", key, p.Pos(fs.Pos()), "plain in-place reversal: the middle element may stay where it is")
			case inclusive:
				r.Ok("REVERSE-MAP", key, p.Pos(fs.Pos()), "reverses and transforms every element including the middle one")
			default:
				r.Bad("REVERSE-MAP", key, p.Pos(fs.Pos()), "the loop transforms the elements while it reverses them but stops before the pointers meet: for every odd length the middle element keeps its untransformed value (e.g. is not complemented)")
			}
			return true
		})
	}
}

// twoPointer recognises `for l, r := 0, len(x)-1; l OP r; l, r = l+1, r-1 { x[l], x[r] = ... }`.
func twoPointer(info *types.Info, s *ast.ForStmt, x types.Object, isLen func(ast.Expr) bool) (string, string) {
	init, ok := s.Init.(*ast.AssignStmt)
	if !ok || len(init.Lhs) != 2 || len(init.Rhs) != 2 {
		return "", ""
	}
	l, rr := core.ObjOf(info, init.Lhs[0]), core.ObjOf(info, init.Lhs[1])
	lo := linear(info, init.Rhs[0], nil, isLen)
	hi := linear(info, init.Rhs[1], nil, isLen)
	if !lo.ok || !hi.ok || lo != (lin{0, 0, 0, true}) || hi != (lin{1, 0, -1, true}) {
		return "", ""
	}
	post, ok := s.Post.(*ast.AssignStmt)
	if !ok || len(post.Lhs) != 2 || len(post.Rhs) != 2 || core.ObjOf(info, post.Lhs[0]) != l || core.ObjOf(info, post.Lhs[1]) != rr {
		return "", ""
	}
	pl := linear(info, post.Rhs[0], l, isLen)
	pr := linear(info, post.Rhs[1], rr, isLen)
	if pl != (lin{0, 1, 1, true}) || pr != (lin{0, 1, -1, true}) {
		return core.Undecided, "two-pointer loop does not step both indices by one"
	}
	// body stores x[l] and x[r]
	storesL, storesR := false, false
	for _, st := range s.Body.List {
		as, ok := st.(*ast.AssignStmt)
		if !ok {
			if leaves(st) {
				return core.Violation, "the loop body can be left before both ends are stored"
			}
			continue
		}
		for _, lh := range as.Lhs {
			if ix, ok := ast.Unparen(lh).(*ast.IndexExpr); ok && core.ObjOf(info, ix.X) == x {
				if core.ObjOf(info, ix.Index) == l {
					storesL = true
				}
				if core.ObjOf(info, ix.Index) == rr {
					storesR = true
				}
			}
		}
	}
	if !storesL || !storesR {
		return core.Violation, "two-pointer loop does not store both x[l] and x[r] in every iteration"
	}
	cond, ok := ast.Unparen(s.Cond).(*ast.BinaryExpr)
	if !ok {
		return core.Undecided, "two-pointer loop without a comparison condition"
	}
	cl, cr, op := core.ObjOf(info, cond.X), core.ObjOf(info, cond.Y), cond.Op
	if cl == rr && cr == l {
		switch op {
		case token.GTR:
			op = token.LSS
		case token.GEQ:
			op = token.LEQ
		default:
			return core.Undecided, "unrecognised two-pointer condition"
		}
		cl, cr = l, rr
	}
	if cl != l || cr != rr {
		return core.Undecided, "unrecognised two-pointer condition"
	}
	switch op {
	case token.LEQ:
		return core.OK, "two-pointer loop with l <= r stores every index including the middle one"
	case token.LSS:
		return core.Violation, "two-pointer loop runs while l < r: for every odd length the middle index is never stored and stays nil, so that part of the location is lost"
	}
	return core.Undecided, "unrecognised two-pointer condition"
}

// noShortcut: every return of fd uses a variable derived from a slice made in fd.
func noShortcut(p *core.Prog, r *core.Report, info *types.Info, fd *ast.FuncDecl, fn string) {
	asg := core.Assigns(info, fd.Body)
	derived := map[types.Object]bool{}
	for o, as := range asg {
		for _, a := range as {
			if a.RHS == nil {
				continue
			}
			if mk, ok := ast.Unparen(a.RHS).(*ast.CallExpr); ok && core.IsBuiltin(info, mk, "make") {
				derived[o] = true
			}
		}
	}
	if len(derived) == 0 {
		return
	}
	for changed := true; changed; {
		changed = false
		for o, as := range asg {
			if derived[o] {
				continue
			}
			for _, a := range as {
				var e ast.Node = a.RHS
				if a.RHS == nil && a.Call != nil {
					e = a.Call
				}
				if e == nil {
					continue
				}
				for d := range derived {
					if core.UsesObj(info, e, d) {
						derived[o] = true
						changed = true
					}
				}
			}
		}
	}
	for k, ret := range core.Returns(fd.Body) {
		if len(ret.Results) == 0 {
			continue
		}
		key := fmt.Sprintf("%s|return#%d", fn, k+1)
		uses := false
		for _, e := range ret.Results {
			for d := range derived {
				if core.UsesObj(info, e, d) {
					uses = true
				}
			}
		}
		if uses {
			r.Ok("NO-SHORTCUT", key, p.Pos(ret.Pos()), "the result is computed from the filled slice")
		} else {
			r.Bad("NO-SHORTCUT", key, p.Pos(ret.Pos()), "this return hands back `"+types.ExprString(ret.Results[0])+"` without going through the slice the function fills: for the inputs that take this path the parts are not transformed")
		}
	}
}

// appendFill recognises the other common way of building the result: an empty
// slice that receives exactly one append per element of the ranged source.
func appendFill(p *core.Prog, r *core.Report, info *types.Info, fd *ast.FuncDecl, fn string, mustMirror bool) {
	asg := core.Assigns(info, fd.Body)
	n := 0
	ast.Inspect(fd.Body, func(m ast.Node) bool {
		rs, ok := m.(*ast.RangeStmt)
		if !ok {
			return true
		}
		// x = append(x, E) statements in the body, by target
		var target types.Object
		isApp := func(st ast.Stmt) bool {
			as, ok := st.(*ast.AssignStmt)
			if !ok || len(as.Lhs) != 1 || len(as.Rhs) != 1 {
				return false
			}
			c, ok := ast.Unparen(as.Rhs[0]).(*ast.CallExpr)
			if !ok || !core.IsBuiltin(info, c, "append") || len(c.Args) != 2 || c.Ellipsis.IsValid() {
				return false
			}
			o := core.ObjOf(info, as.Lhs[0])
			if o == nil || o != core.ObjOf(info, c.Args[0]) {
				return false
			}
			if target == nil {
				target = o
			}
			return o == target
		}
		var count func(list []ast.Stmt) (int, int)
		count = func(list []ast.Stmt) (int, int) {
			lo, hi := 0, 0
			for _, st := range list {
				if isApp(st) {
					lo++
					hi++
					continue
				}
				switch x := st.(type) {
				case *ast.IfStmt:
					a, b := count(x.Body.List)
					c, d := 0, 0
					if x.Else != nil {
						if blk, ok := x.Else.(*ast.BlockStmt); ok {
							c, d = count(blk.List)
						} else {
							c, d = count([]ast.Stmt{x.Else})
						}
					}
					lo += min(a, c)
					hi += max(b, d)
				case *ast.BlockStmt:
					a, b := count(x.List)
					lo += a
					hi += b
				case *ast.ForStmt, *ast.RangeStmt, *ast.SwitchStmt, *ast.TypeSwitchStmt:
					ast.Inspect(x, func(k ast.Node) bool {
						if ss, ok := k.(ast.Stmt); ok && isApp(ss) {
							hi += 2
						}
						return true
					})
				}
			}
			return lo, hi
		}
		lo, hi := count(rs.Body.List)
		if target == nil || hi == 0 {
			return true
		}
		// the target starts empty: nil declaration, empty literal or make(_, 0, ...)
		empty := false
		for _, a := range asg[target] {
			if a.Pos >= rs.Pos() {
				continue
			}
			switch {
			case a.RHS == nil && a.Call == nil:
				empty = true // var x []T
			case a.RHS != nil:
				switch x := ast.Unparen(a.RHS).(type) {
				case *ast.CompositeLit:
					empty = len(x.Elts) == 0
				case *ast.CallExpr:
					if core.IsBuiltin(info, x, "make") && len(x.Args) >= 2 {
						if z, ok := core.ConstInt(info, x.Args[1]); ok && z == 0 {
							empty = true
						}
					}
					if core.IsConversion(info, x) && len(x.Args) == 1 && core.IsNil(info, x.Args[0]) {
						empty = true
					}
				}
			}
		}
		if !empty {
			return true // not a from-scratch builder (e.g. an accumulator across calls): other rules own it
		}
		if _, isSlice := target.Type().Underlying().(*types.Slice); !isSlice {
			return true
		}
		// only builders whose element type is a location / region / sequence are FILL sites
		n++
		key := fmt.Sprintf("%s|append#%d(%s)", fn, n, types.TypeString(target.Type(), func(*types.Package) string { return "" }))
		switch {
		case leaves(rs.Body):
			r.Bad("FILL", key, p.Pos(rs.Pos()), "an iteration can be left (continue/break/return) before the element is appended: that part is lost")
		case lo != 1 || hi != 1:
			r.Bad("FILL", key, p.Pos(rs.Pos()), fmt.Sprintf("an element is appended %d..%d times per iteration instead of exactly once", lo, hi))
		case mustMirror:
			r.Bad("FILL", key, p.Pos(rs.Pos()), "the elements are appended in their original order although this function must mirror it")
		default:
			r.Fn(fn)
			r.Ok("FILL", key, p.Pos(rs.Pos()), "one append per element of the ranged source on every path")
		}
		return true
	})
}

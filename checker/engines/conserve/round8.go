package conserve

import (
	"fmt"
	"go/ast"
	"go/token"
	"go/types"

	"gtsverif/core"
)

// ReverseBytes decides REVERSE-BYTES on gts.Reverse: the residues handed to
// WithBytes are the residues of the argument read back to front - every one of
// them. Accepted: a copy reversed in place (flip.Bytes, or a two-index swap
// loop on the copy: there the middle residue stays where it is, which is where
// it belongs), or a loop over every index that stores q[len-1-i] at i. A
// two-index loop that fills a fresh slice from another one has to run while
// i <= j: with i < j the middle residue of an odd-length sequence is never
// written and stays zero.
func ReverseBytes(p *core.Prog, r *core.Report) {
	r.Rule("REVERSE-BYTES", "the slice gts.Reverse hands to WithBytes holds every residue of the argument, mirrored: a copy reversed in place (flip.Bytes / a two-index swap on the copy), or a full-range loop storing q[len-1-i] at i; a two-index fill of a fresh slice from another one runs while i <= j", 1)
	info := p.Info(core.PkgGts)
	fd := p.FuncDecl(core.PkgGts, "Reverse")
	key := "gts.Reverse|bytes"
	if fd == nil || fd.Body == nil {
		r.Und("REVERSE-BYTES", key+"|anchor", "-", "anchor-unresolved")
		return
	}
	var with *ast.CallExpr
	for _, c := range core.Calls(fd.Body) {
		if core.IsCallTo(info, c, core.PkgGts+".WithBytes") && len(c.Args) == 2 {
			with = c
		}
	}
	if with == nil {
		r.Und("REVERSE-BYTES", key, p.Pos(fd.Pos()), "no WithBytes call in Reverse")
		return
	}
	dst := core.ObjOf(info, with.Args[1])
	if dst == nil {
		r.Und("REVERSE-BYTES", key, p.Pos(with.Pos()), "the residues handed to WithBytes are not a local slice")
		return
	}
	isBytesOfArg := func(e ast.Expr, asg map[types.Object][]core.Assign) bool {
		e = core.Origin(info, asg, e)
		c, ok := ast.Unparen(e).(*ast.CallExpr)
		if !ok {
			return false
		}
		fn := core.Callee(info, c)
		return fn != nil && fn.Name() == "Bytes"
	}
	asg := core.Assigns(info, fd.Body)
	copied, flipped := false, false
	for _, c := range core.Calls(fd.Body) {
		if core.IsBuiltin(info, c, "copy") && len(c.Args) == 2 && core.ObjOf(info, c.Args[0]) == dst && isBytesOfArg(c.Args[1], asg) {
			copied = true
		}
		if core.IsCallTo(info, c, "github.com/go-flip/flip.Bytes") && len(c.Args) == 1 && core.ObjOf(info, c.Args[0]) == dst {
			flipped = true
		}
	}
	// append([]byte(nil), seq.Bytes()...) is a copy too
	for _, a := range asg[dst] {
		if c, ok := a.RHS.(*ast.CallExpr); ok && core.IsBuiltin(info, c, "append") && len(c.Args) == 2 && c.Ellipsis.IsValid() && isBytesOfArg(c.Args[1], asg) {
			copied = true
		}
	}
	if copied && flipped {
		r.Ok("REVERSE-BYTES", key, p.Pos(with.Pos()), "a copy of the residues reversed in place by flip.Bytes")
		return
	}
	// loops that store into dst
	var loops []ast.Stmt
	ast.Inspect(fd.Body, func(n ast.Node) bool {
		switch x := n.(type) {
		case *ast.ForStmt, *ast.RangeStmt:
			stores := false
			ast.Inspect(x, func(m ast.Node) bool {
				if as, ok := m.(*ast.AssignStmt); ok {
					for _, l := range as.Lhs {
						if ix, ok := ast.Unparen(l).(*ast.IndexExpr); ok && core.ObjOf(info, ix.X) == dst {
							stores = true
						}
					}
				}
				return true
			})
			if stores {
				loops = append(loops, x.(ast.Stmt))
			}
		}
		return true
	})
	if len(loops) != 1 {
		r.Und("REVERSE-BYTES", key, p.Pos(with.Pos()), fmt.Sprintf("%d loops store into the residues handed to WithBytes and they are not reversed by flip.Bytes: form not recognised", len(loops)))
		return
	}
	switch lp := loops[0].(type) {
	case *ast.RangeStmt:
		i := core.ObjOf(info, lp.Key)
		if i == nil || len(lp.Body.List) != 1 {
			break
		}
		as, ok := lp.Body.List[0].(*ast.AssignStmt)
		if !ok || len(as.Lhs) != 1 || len(as.Rhs) != 1 {
			break
		}
		li, ok1 := ast.Unparen(as.Lhs[0]).(*ast.IndexExpr)
		ri, ok2 := ast.Unparen(as.Rhs[0]).(*ast.IndexExpr)
		if !ok1 || !ok2 || core.ObjOf(info, li.X) != dst {
			break
		}
		src := core.ObjOf(info, ri.X)
		if src == nil || src == dst || !(isBytesOfArg(ri.X, asg)) {
			break
		}
		over := core.ObjOf(info, lp.X)
		if over != dst && over != src {
			break
		}
		plain := func(e ast.Expr) bool { return core.ObjOf(info, e) == i }
		mirror := func(e ast.Expr) bool { return isMirrorIndex(info, e, i, dst, src) }
		if (plain(li.Index) && mirror(ri.Index)) || (mirror(li.Index) && plain(ri.Index)) {
			r.Ok("REVERSE-BYTES", key, p.Pos(lp.Pos()), "every index i receives the residue at len-1-i")
			return
		}
		r.Bad("REVERSE-BYTES", key, p.Pos(as.Pos()), "the loop does not store the residue at len-1-i at index i")
		return
	case *ast.ForStmt:
		be, ok := ast.Unparen(lp.Cond).(*ast.BinaryExpr)
		if !ok || len(lp.Body.List) != 1 {
			break
		}
		as, ok := lp.Body.List[0].(*ast.AssignStmt)
		if !ok || len(as.Lhs) != 2 || len(as.Rhs) != 2 {
			break
		}
		var ix [4]*ast.IndexExpr
		all := true
		for k, e := range []ast.Expr{as.Lhs[0], as.Lhs[1], as.Rhs[0], as.Rhs[1]} {
			ix[k], ok = ast.Unparen(e).(*ast.IndexExpr)
			all = all && ok
		}
		if !all {
			break
		}
		i, j := core.ObjOf(info, ix[0].Index), core.ObjOf(info, ix[1].Index)
		if i == nil || j == nil || i == j || core.ObjOf(info, ix[2].Index) != j || core.ObjOf(info, ix[3].Index) != i {
			break
		}
		if core.ObjOf(info, ix[0].X) != dst || core.ObjOf(info, ix[1].X) != dst || core.ObjOf(info, ix[2].X) != core.ObjOf(info, ix[3].X) {
			break
		}
		// the condition, as i OP j
		op := be.Op
		switch {
		case core.ObjOf(info, be.X) == i && core.ObjOf(info, be.Y) == j:
		case core.ObjOf(info, be.X) == j && core.ObjOf(info, be.Y) == i:
			switch op {
			case token.GTR:
				op = token.LSS
			case token.GEQ:
				op = token.LEQ
			default:
				op = token.ILLEGAL
			}
		default:
			op = token.ILLEGAL
		}
		src := core.ObjOf(info, ix[2].X)
		switch {
		case op != token.LSS && op != token.LEQ:
		case src == dst && copied:
			r.Ok("REVERSE-BYTES", key, p.Pos(lp.Pos()), "a copy of the residues reversed in place by a two-index swap")
			return
		case src == dst:
			r.Bad("REVERSE-BYTES", key, p.Pos(lp.Pos()), "the slice that is swapped in place was never filled with the residues of the argument")
			return
		case op == token.LEQ:
			r.Ok("REVERSE-BYTES", key, p.Pos(lp.Pos()), "a fresh slice filled from both ends until the indices have met")
			return
		default:
			r.Bad("REVERSE-BYTES", key, p.Pos(lp.Cond.Pos()), "a fresh slice is filled from both ends of the residues while i < j: the two indices never meet on the middle one, so the middle residue of every odd-length sequence is never written and stays 0x00 (Reverse(\"acg\") = \"g\\x00a\"; every odd-length minus-strand extraction carries a NUL byte)")
			return
		}
	}
	r.Und("REVERSE-BYTES", key, p.Pos(loops[0].Pos()), "the loop that fills the reversed residues has a form the rule does not recognise")
}

// isMirrorIndex: e is len(x)-1-i (in any association), x one of the two slices.
func isMirrorIndex(info *types.Info, e ast.Expr, i, a, b types.Object) bool {
	// collect the terms of a sum of +/- terms
	type term struct {
		e   ast.Expr
		neg bool
	}
	var terms []term
	var walk func(e ast.Expr, neg bool)
	walk = func(e ast.Expr, neg bool) {
		e = ast.Unparen(e)
		if be, ok := e.(*ast.BinaryExpr); ok && (be.Op == token.ADD || be.Op == token.SUB) {
			walk(be.X, neg)
			walk(be.Y, neg != (be.Op == token.SUB))
			return
		}
		terms = append(terms, term{e, neg})
	}
	walk(e, false)
	lenN, iN, k := 0, 0, int64(0)
	for _, t := range terms {
		if c, ok := t.e.(*ast.CallExpr); ok && len(c.Args) == 1 {
			if id, ok := ast.Unparen(c.Fun).(*ast.Ident); ok && id.Name == "len" {
				if o := core.ObjOf(info, c.Args[0]); (o == a || o == b) && !t.neg {
					lenN++
					continue
				}
			}
			return false
		}
		if core.ObjOf(info, t.e) == i && t.neg {
			iN++
			continue
		}
		if v, ok := core.ConstInt(info, t.e); ok {
			if t.neg {
				k -= v
			} else {
				k += v
			}
			continue
		}
		return false
	}
	return lenN == 1 && iN == 1 && k == -1
}

// OrderVerbatim decides ORDER-VERBATIM on gts.Order: an order() keeps its
// parts as given - the flattened list, every part, in the order of the
// arguments. The parser, Ordered.Reverse / Normalize / Shift / Expand all build
// their result with Order, so whatever Order does to the list it does to every
// order(...) location. In particular a common complement() cannot be pulled
// out in front without turning the parts round: complement(order(x, y)) reads
// y's complement first.
func OrderVerbatim(p *core.Prog, r *core.Report) {
	r.Rule("ORDER-VERBATIM", "every value gts.Order returns is an element of the flattened argument list or Ordered(list) of that very list: no part is dropped, rewrapped or moved (complement(order(x,y)) is order(complement(y),complement(x)), not order(complement(x),complement(y)))", 2)
	info := p.Info(core.PkgGts)
	fd := p.FuncDecl(core.PkgGts, "Order")
	key := "gts.Order"
	if fd == nil || fd.Body == nil {
		r.Und("ORDER-VERBATIM", key+"|anchor", "-", "anchor-unresolved")
		return
	}
	asg := core.Assigns(info, fd.Body)
	// the flattened list: a local defined once by a call that takes the variadic parameter
	var list types.Object
	params := map[types.Object]bool{}
	for _, f := range fd.Type.Params.List {
		for _, n := range f.Names {
			params[info.Defs[n]] = true
		}
	}
	for o, as := range asg {
		if len(as) != 1 || as[0].RHS == nil {
			continue
		}
		if c, ok := ast.Unparen(as[0].RHS).(*ast.CallExpr); ok && len(c.Args) >= 1 && params[core.ObjOf(info, c.Args[0])] {
			if _, isSlice := info.TypeOf(as[0].RHS).Underlying().(*types.Slice); isSlice {
				list = o
			}
		}
	}
	if list == nil {
		for o := range params {
			list = o // no flattening step: the parameter itself
		}
	}
	n := 0
	for _, rs := range core.Returns(fd.Body) {
		if len(rs.Results) != 1 {
			continue
		}
		n++
		k := fmt.Sprintf("%s|return#%d", key, n)
		e := ast.Unparen(core.Origin(info, asg, rs.Results[0]))
		switch x := e.(type) {
		case *ast.IndexExpr:
			if core.ObjOf(info, x.X) == list {
				r.Ok("ORDER-VERBATIM", k, p.Pos(rs.Pos()), "a single part is returned as it is")
				continue
			}
		case *ast.CallExpr:
			if core.IsConversion(info, x) && len(x.Args) == 1 && core.ObjOf(info, x.Args[0]) == list && core.NamedOf(info.TypeOf(x)) == core.PkgGts+".Ordered" {
				r.Ok("ORDER-VERBATIM", k, p.Pos(rs.Pos()), "Ordered of the flattened list")
				continue
			}
		case *ast.CompositeLit:
			if core.NamedOf(info.TypeOf(x)) == core.PkgGts+".Complemented" {
				r.Bad("ORDER-VERBATIM", k, p.Pos(rs.Pos()), "Order wraps a re-built list of parts in a complement: complement(order(x,y)) reads the complement of y first, so hoisting the complement without turning the parts round changes the order of the residues the location denotes (order(complement(7..9),complement(1..3)) - bases 9,8,7 then 3,2,1 - becomes complement(order(7..9,1..3)): 3,2,1 then 9,8,7)")
				continue
			}
		}
		r.Bad("ORDER-VERBATIM", k, p.Pos(rs.Pos()), fmt.Sprintf("Order returns `%s`, which is neither one of the flattened parts nor Ordered of the whole flattened list: parts may be dropped, rewrapped or moved", types.ExprString(rs.Results[0])))
	}
	if n == 0 {
		r.Und("ORDER-VERBATIM", key, p.Pos(fd.Pos()), "no return found in Order")
	}
}

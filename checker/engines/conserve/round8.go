package conserve

import (
	"fmt"
	"go/ast"
	"go/token"
	"go/types"

	"gtsverif/core"
)

// ReverseBytes decides REVERSE-BYTES on gts.Reverse: the residues handed to
// WithBytes are the residues of the argument read back to front - every one of
// them. Accepted: a copy reversed in place (flip.Bytes, or a two-index swap
// loop on the copy: there the middle residue stays where it is, which is where
// it belongs), or a loop over every index that stores q[len-1-i] at i. A
// two-index loop that fills a fresh slice from another one has to run while
// i <= j: with i < j the middle residue of an odd-length sequence is never
// written and stays zero.
func ReverseBytes(p *core.Prog, r *core.Report) {
	r.Rule("REVERSE-BYTES", "the slice gts.Reverse hands to WithBytes holds every residue of the argument, mirrored: a copy reversed in place (flip.Bytes / a two-index swap on the copy), or a full-range loop storing q[len-1-i] at i; a two-index fill of a fresh slice from another one runs while i <= j", 1)
	info := p.Info(core.PkgGts)
	fd := p.FuncDecl(core.PkgGts, "Reverse")
	key := "gts.Reverse|bytes"
	if fd == nil || fd.Body == nil {
		r.Und("REVERSE-BYTES", key+"|anchor", "-", "anchor-unresolved")
		return
	}
	var with *ast.CallExpr
	for _, c := range core.Calls(fd.Body) {
		if core.IsCallTo(info, c, core.PkgGts+".WithBytes") && len(c.Args) == 2 {
			with = c
		}
	}
	if with == nil {
		r.Und("REVERSE-BYTES", key, p.Pos(fd.Pos()), "no WithBytes call in Reverse")
		return
	}
	dst := core.ObjOf(info, with.Args[1])
	if dst == nil {
		r.Und("REVERSE-BYTES", key, p.Pos(with.Pos()), "the residues handed to WithBytes are not a local slice")
		return
	}
	isBytesOfArg := func(e ast.Expr, asg map[types.Object][]core.Assign) bool {
		e = core.Origin(info, asg, e)
		c, ok := ast.Unparen(e).(*ast.CallExpr)
		if !ok {
			return false
		}
		fn := core.Callee(info, c)
		return fn != nil && fn.Name() == "Bytes"
	}
	asg := core.Assigns(info, fd.Body)
	copied, flipped := false, false
	for _, c := range core.Calls(fd.Body) {
		if core.IsBuiltin(info, c, "copy") && len(c.Args) == 2 && core.ObjOf(info, c.Args[0]) == dst && isBytesOfArg(c.Args[1], asg) {
			copied = true
		}
		if core.IsCallTo(info, c, "github.com/go-flip/flip.Bytes") && len(c.Args) == 1 && core.ObjOf(info, c.Args[0]) == dst {
			flipped = true
		}
	}
	// append([]byte(nil), seq.Bytes()...) is a copy too
	for _, a := range asg[dst] {
		if c, ok := a.RHS.(*ast.CallExpr); ok && core.IsBuiltin(info, c, "append") && len(c.Args) == 2 && c.Ellipsis.IsValid() && isBytesOfArg(c.Args[1], asg) {
			copied = true
		}
	}
	if copied && flipped {
		r.Ok("REVERSE-BYTES", key, p.Pos(with.Pos()), "a copy of the residues reversed in place by flip.Bytes")
		return
	}
	// loops that store into dst
	var loops []ast.Stmt
	ast.Inspect(fd.Body, func(n ast.Node) bool {
		switch x := n.(type) {
		case *ast.ForStmt, *ast.RangeStmt:
			stores := false
			ast.Inspect(x, func(m ast.Node) bool {
				if as, ok := m.(*ast.AssignStmt); ok {
					for _, l := range as.Lhs {
						if ix, ok := ast.Unparen(l).(*ast.IndexExpr); ok && core.ObjOf(info, ix.X) == dst {
							stores = true
						}
					}
				}
				return true
			})
			if stores {
				loops = append(loops, x.(ast.Stmt))
			}
		}
		return true
	})
	if len(loops) != 1 {
		r.Und("REVERSE-BYTES", key, p.Pos(with.Pos()), fmt.Sprintf("%d loops store into the residues handed to WithBytes and they are not reversed by flip.Bytes: form not recognised", len(loops)))
		return
	}
	switch lp := loops[0].(type) {
	case *ast.RangeStmt:
		i := core.ObjOf(info, lp.Key)
		if i == nil || len(lp.Body.List) != 1 {
			break
		}
		as, ok := lp.Body.List[0].(*ast.AssignStmt)
		if !ok || len(as.Lhs) != 1 || len(as.Rhs) != 1 {
			break
		}
		li, ok1 := ast.Unparen(as.Lhs[0]).(*ast.IndexExpr)
		ri, ok2 := ast.Unparen(as.Rhs[0]).(*ast.IndexExpr)
		if !ok1 || !ok2 || core.ObjOf(info, li.X) != dst {
			break
		}
		src := core.ObjOf(info, ri.X)
		if src == nil || src == dst || !(isBytesOfArg(ri.X, asg)) {
			break
		}
		over := core.ObjOf(info, lp.X)
		if over != dst && over != src {
			break
		}
		plain := func(e ast.Expr) bool { return core.ObjOf(info, e) == i }
		mirror := func(e ast.Expr) bool { return isMirrorIndex(info, e, i, dst, src) }
		if (plain(li.Index) && mirror(ri.Index)) || (mirror(li.Index) && plain(ri.Index)) {
			r.Ok("REVERSE-BYTES", key, p.Pos(lp.Pos()), "every index i receives the residue at len-1-i")
			return
		}
		r.Bad("REVERSE-BYTES", key, p.Pos(as.Pos()), "the loop does not store the residue at len-1-i at index i")
		return
	case *ast.ForStmt:
		be, ok := ast.Unparen(lp.Cond).(*ast.BinaryExpr)
		if !ok || len(lp.Body.List) != 1 {
			break
		}
		as, ok := lp.Body.List[0].(*ast.AssignStmt)
		if !ok || len(as.Lhs) != 2 || len(as.Rhs) != 2 {
			break
		}
		var ix [4]*ast.IndexExpr
		all := true
		for k, e := range []ast.Expr{as.Lhs[0], as.Lhs[1], as.Rhs[0], as.Rhs[1]} {
			ix[k], ok = ast.Unparen(e).(*ast.IndexExpr)
			all = all && ok
		}
		if !all {
			break
		}
		i, j := core.ObjOf(info, ix[0].Index), core.ObjOf(info, ix[1].Index)
		if i == nil || j == nil || i == j || core.ObjOf(info, ix[2].Index) != j || core.ObjOf(info, ix[3].Index) != i {
			break
		}
		if core.ObjOf(info, ix[0].X) != dst || core.ObjOf(info, ix[1].X) != dst || core.ObjOf(info, ix[2].X) != core.ObjOf(info, ix[3].X) {
			break
		}
		// the condition, as i OP j
		op := be.Op
		switch {
		case core.ObjOf(info, be.X) == i && core.ObjOf(info, be.Y) == j:
		case core.ObjOf(info, be.X) == j && core.ObjOf(info, be.Y) == i:
			switch op {
			case token.GTR:
				op = token.LSS
			case token.GEQ:
				op = token.LEQ
			default:
				op = token.ILLEGAL
			}
		default:
			op = token.ILLEGAL
		}
		src := core.ObjOf(info, ix[2].X)
		switch {
		case op != token.LSS && op != token.LEQ:
		case src == dst && copied:
			r.Ok("REVERSE-BYTES", key, p.Pos(lp.Pos()), "a copy of the residues reversed in place by a two-index swap")
			return
		case src == dst:
			r.Bad("REVERSE-BYTES", key, p.Pos(lp.Pos()), "the slice that is swapped in place was never filled with the residues of the argument")
			return
		case op == token.LEQ:
			r.Ok("REVERSE-BYTES", key, p.Pos(lp.Pos()), "a fresh slice filled from both ends until the indices have met")
			return
		default:
			r.Bad("REVERSE-BYTES", key, p.Pos(lp.Cond.Pos()), "a fresh slice is filled from both ends of the residues while i < j: the two indices never meet on the middle one, so the middle residue of every odd-length sequence is never written and stays 0x00 (Reverse(\"acg\") = \"g\\x00a\"; every odd-length minus-strand extraction carries a NUL byte)")
			return
		}
	}
	r.Und("REVERSE-BYTES", key, p.Pos(loops[0].Pos()), "the loop that fills the reversed residues has a form the rule does not recognise")
}

// isMirrorIndex: e is len(x)-1-i (in any association), x one of the two slices.
func isMirrorIndex(info *types.Info, e ast.Expr, i, a, b types.Object) bool {
	// collect the terms of a sum of +/- terms
	type term struct {
		e   ast.Expr
		neg bool
	}
	var terms []term
	var walk func(e ast.Expr, neg bool)
	walk = func(e ast.Expr, neg bool) {
		e = ast.Unparen(e)
		if be, ok := e.(*ast.BinaryExpr); ok && (be.Op == token.ADD || be.Op == token.SUB) {
			walk(be.X, neg)
			walk(be.Y, neg != (be.Op == token.SUB))
			return
		}
		terms = append(terms, term{e, neg})
	}
	walk(e, false)
	lenN, iN, k := 0, 0, int64(0)
	for _, t := range terms {
		if c, ok := t.e.(*ast.CallExpr); ok && len(c.Args) == 1 {
			if id, ok := ast.Unparen(c.Fun).(*ast.Ident); ok && id.Name == "len" {
				if o := core.ObjOf(info, c.Args[0]); (o == a || o == b) && !t.neg {
					lenN++
					continue
				}
			}
			return false
		}
		if core.ObjOf(info, t.e) == i && t.neg {
			iN++
			continue
		}
		if v, ok := core.ConstInt(info, t.e); ok {
			if t.neg {
				k -= v
			} else {
				k += v
			}
			continue
		}
		return false
	}
	return lenN == 1 && iN == 1 && k == -1
}

// OrderVerbatim decides ORDER-VERBATIM on gts.Order: an order() keeps its
// parts as given - the flattened list, every part, in the order of the
// arguments. The parser, Ordered.Reverse / Normalize / Shift / Expand all build
// their result with Order, so whatever Order does to the list it does to every
// order(...) location. In particular a common complement() cannot be pulled
// out in front without turning the parts round: complement(order(x, y)) reads
// y's complement first.
func OrderVerbatim(p *core.Prog, r *core.Report) {
	r.Rule("ORDER-VERBATIM", "every value gts.Order returns is an element of the flattened argument list or Ordered(list) of that very list: no part is dropped, rewrapped or moved (complement(order(x,y)) is order(complement(y),complement(x)), not order(complement(x),complement(y)))", 2)
	info := p.Info(core.PkgGts)
	fd := p.FuncDecl(core.PkgGts, "Order")
	key := "gts.Order"
	if fd == nil || fd.Body == nil {
		r.Und("ORDER-VERBATIM", key+"|anchor", "-", "anchor-unresolved")
		return
	}
	asg := core.Assigns(info, fd.Body)
	// the flattened list: a local defined once by a call that takes the variadic parameter
	var list types.Object
	params := map[types.Object]bool{}
	for _, f := range fd.Type.Params.List {
		for _, n := range f.Names {
			params[info.Defs[n]] = true
		}
	}
	for o, as := range asg {
		if len(as) != 1 || as[0].RHS == nil {
			continue
		}
		if c, ok := ast.Unparen(as[0].RHS).(*ast.CallExpr); ok && len(c.Args) >= 1 && params[core.ObjOf(info, c.Args[0])] {
			if _, isSlice := info.TypeOf(as[0].RHS).Underlying().(*types.Slice); isSlice {
				list = o
			}
		}
	}
	if list == nil {
		for o := range params {
			list = o // no flattening step: the parameter itself
		}
	}
	n := 0
	for _, rs := range core.Returns(fd.Body) {
		if len(rs.Results) != 1 {
			continue
		}
		n++
		k := fmt.Sprintf("%s|return#%d", key, n)
		e := ast.Unparen(core.Origin(info, asg, rs.Results[0]))
		switch x := e.(type) {
		case *ast.IndexExpr:
			if core.ObjOf(info, x.X) == list {
				r.Ok("ORDER-VERBATIM", k, p.Pos(rs.Pos()), "a single part is returned as it is")
				continue
			}
		case *ast.CallExpr:
			if core.IsConversion(info, x) && len(x.Args) == 1 && core.ObjOf(info, x.Args[0]) == list && core.NamedOf(info.TypeOf(x)) == core.PkgGts+".Ordered" {
				r.Ok("ORDER-VERBATIM", k, p.Pos(rs.Pos()), "Ordered of the flattened list")
				continue
			}
		case *ast.CompositeLit:
			if core.NamedOf(info.TypeOf(x)) == core.PkgGts+".Complemented" {
				r.Bad("ORDER-VERBATIM", k, p.Pos(rs.Pos()), "Order wraps a re-built list of parts in a complement: complement(order(x,y)) reads the complement of y first, so hoisting the complement without turning the parts round changes the order of the residues the location denotes (order(complement(7..9),complement(1..3)) - bases 9,8,7 then 3,2,1 - becomes complement(order(7..9,1..3)): 3,2,1 then 9,8,7)")
				continue
			}
		}
		r.Bad("ORDER-VERBATIM", k, p.Pos(rs.Pos()), fmt.Sprintf("Order returns `%s`, which is neither one of the flattened parts nor Ordered of the whole flattened list: parts may be dropped, rewrapped or moved", types.ExprString(rs.Results[0])))
	}
	if n == 0 {
		r.Und("ORDER-VERBATIM", key, p.Pos(fd.Pos()), "no return found in Order")
	}
}

// FilterDelegate decides FILTER-DELEGATE on gts.Within and gts.Overlap: the
// filter a constructor returns is the location predicate applied to the
// feature's location and the two bounds as given, for all bounds: no special
// answer for bounds in some relation to each other. (LocationOverlap takes its
// bounds in either order, and a window of width zero still overlaps every
// feature that strictly contains the site: Slice(seq, p, p) keeps those
// features through this very filter.)
func FilterDelegate(p *core.Prog, r *core.Report) {
	r.Rule("FILTER-DELEGATE", "gts.Within(lower, upper) / gts.Overlap(lower, upper) consist of one return of a function literal whose body is `return LocationWithin / LocationOverlap(f.Loc, lower, upper)`: no early return gives a constant filter for some bounds", 2)
	info := p.Info(core.PkgGts)
	for _, x := range []struct{ ctor, pred string }{{"Within", "LocationWithin"}, {"Overlap", "LocationOverlap"}} {
		fd := p.FuncDecl(core.PkgGts, x.ctor)
		key := "gts." + x.ctor
		if fd == nil || fd.Body == nil {
			r.Und("FILTER-DELEGATE", key+"|anchor", "-", "anchor-unresolved")
			continue
		}
		var params []types.Object
		for _, f := range fd.Type.Params.List {
			for _, n := range f.Names {
				params = append(params, info.Defs[n])
			}
		}
		rets := 0
		var early *ast.ReturnStmt
		ast.Inspect(fd.Body, func(n ast.Node) bool {
			if _, ok := n.(*ast.FuncLit); ok {
				return false
			}
			if rs, ok := n.(*ast.ReturnStmt); ok {
				rets++
				if len(rs.Results) == 1 {
					if _, isLit := ast.Unparen(rs.Results[0]).(*ast.FuncLit); !isLit && early == nil {
						early = rs
					}
				}
			}
			return true
		})
		if early != nil || rets != 1 || len(params) != 2 {
			pos := fd.Pos()
			if early != nil {
				pos = early.Pos()
			}
			r.Bad("FILTER-DELEGATE", key, p.Pos(pos), fmt.Sprintf("%s does not always return the delegating filter: for some bounds it answers with another filter (an `upper <= lower` shortcut to FalseFilter makes Overlap(7, 3) select nothing although Overlap(3, 7) selects, and Overlap(p, p) miss the features that strictly contain p - Slice(seq, p, p) then drops them)", x.ctor))
			continue
		}
		// the literal's body
		var lit *ast.FuncLit
		for _, rs := range core.Returns(fd.Body) {
			if l, ok := ast.Unparen(rs.Results[0]).(*ast.FuncLit); ok {
				lit = l
			}
		}
		good := false
		if lit != nil && len(lit.Body.List) >= 1 && lit.Type.Params.NumFields() == 1 && len(lit.Type.Params.List[0].Names) == 1 {
			// single-definition locals in front of the return are looked through
			simple := true
			for _, st := range lit.Body.List[:len(lit.Body.List)-1] {
				if as, ok := st.(*ast.AssignStmt); !ok || as.Tok != token.DEFINE {
					simple = false
				}
			}
			lasg := core.Assigns(info, lit.Body)
			if rs, ok := lit.Body.List[len(lit.Body.List)-1].(*ast.ReturnStmt); ok && len(rs.Results) == 1 && simple {
				if c, ok := ast.Unparen(core.Origin(info, lasg, rs.Results[0])).(*ast.CallExpr); ok && core.IsCallTo(info, c, core.PkgGts+"."+x.pred) && len(c.Args) == 3 {
					fobj := info.Defs[lit.Type.Params.List[0].Names[0]]
					sel, isSel := ast.Unparen(core.Origin(info, lasg, c.Args[0])).(*ast.SelectorExpr)
					good = isSel && sel.Sel.Name == "Loc" && core.ObjOf(info, sel.X) == fobj && core.ObjOf(info, core.Origin(info, lasg, c.Args[1])) == params[0] && core.ObjOf(info, core.Origin(info, lasg, c.Args[2])) == params[1]
				}
			}
		}
		if good {
			r.Ok("FILTER-DELEGATE", key, p.Pos(fd.Pos()), x.pred+"(f.Loc, lower, upper) for all bounds")
		} else {
			r.Bad("FILTER-DELEGATE", key, p.Pos(fd.Pos()), "the returned filter is not `return "+x.pred+"(f.Loc, lower, upper)`")
		}
	}
}

// StrandTally decides STRAND-TALLY on gts.checkStrand, the function that
// gives a multi-part location its strand: evaluated for every combination of
// how many parts are forward, reverse and on both strands (0, 1, 2 of each -
// the code only compares tallies with small constants), the answer is forward
// iff every part is forward, reverse iff every part is reverse, both otherwise.
func StrandTally(p *core.Prog, r *core.Report) {
	r.Rule("STRAND-TALLY", "gts.checkStrand, evaluated for all 26 non-empty combinations of 0..2 forward, reverse and both-strand parts, returns StrandForward iff all parts are forward, StrandReverse iff all are reverse, StrandBoth otherwise (the per-part switch and the final test are interpreted over the two tallies)", 1)
	info := p.Info(core.PkgGts)
	// the function that tallies the parts: checkStrand, or CheckStrand itself when the two are one
	// found by what it does (a loop over parts whose body switches on CheckStrand of the part), whatever it
	// is called and whether it is a function or a method
	var fd *ast.FuncDecl
	for _, cand := range p.FuncDecls(core.PkgGts) {
		if cand.Body == nil || fd != nil {
			continue
		}
		for _, st := range cand.Body.List {
			rs, ok := st.(*ast.RangeStmt)
			if !ok || len(rs.Body.List) != 1 {
				continue
			}
			if sw, ok := rs.Body.List[0].(*ast.SwitchStmt); ok && sw.Tag != nil {
				if c, ok := ast.Unparen(sw.Tag).(*ast.CallExpr); ok && core.IsCallTo(info, c, core.PkgGts+".CheckStrand") {
					fd = cand
				}
			}
		}
	}
	key := "gts.checkStrand"
	if fd == nil {
		r.Und("STRAND-TALLY", key+"|anchor", "-", "anchor-unresolved")
		return
	}
	strandConst := func(e ast.Expr) (string, bool) {
		if o := core.ObjOf(info, e); o != nil {
			if c, ok := o.(*types.Const); ok && core.NamedOf(c.Type()) == core.PkgGts+".Strand" {
				return c.Name(), true
			}
		}
		return "", false
	}
	var loop *ast.RangeStmt
	for _, st := range fd.Body.List {
		if rs, ok := st.(*ast.RangeStmt); ok {
			loop = rs
		}
	}
	if loop == nil || len(loop.Body.List) != 1 {
		r.Und("STRAND-TALLY", key, p.Pos(fd.Pos()), "no single loop over the parts with a one-statement body")
		return
	}
	sw, ok := loop.Body.List[0].(*ast.SwitchStmt)
	if !ok || sw.Tag == nil {
		r.Und("STRAND-TALLY", key, p.Pos(loop.Pos()), "the loop body is not a switch on the strand of the part")
		return
	}
	if c, ok := ast.Unparen(sw.Tag).(*ast.CallExpr); !ok || !core.IsCallTo(info, c, core.PkgGts+".CheckStrand") {
		r.Und("STRAND-TALLY", key, p.Pos(sw.Pos()), "the switch is not on CheckStrand(part)")
		return
	}
	// increments per strand value
	incs := map[string]map[types.Object]int{}
	var dflt map[types.Object]int
	hasDefault := false
	for _, cc := range sw.Body.List {
		cl := cc.(*ast.CaseClause)
		m := map[types.Object]int{}
		for _, st := range cl.Body {
			switch x := st.(type) {
			case *ast.IncDecStmt:
				if o := core.ObjOf(info, x.X); o != nil && x.Tok == token.INC {
					m[o]++
					continue
				}
			case *ast.AssignStmt:
				if x.Tok == token.ADD_ASSIGN && len(x.Lhs) == 1 {
					if k, ok := core.ConstInt(info, x.Rhs[0]); ok {
						m[core.ObjOf(info, x.Lhs[0])] += int(k)
						continue
					}
				}
			}
			r.Und("STRAND-TALLY", key, p.Pos(st.Pos()), "a statement of the per-part switch is not an increment of a tally")
			return
		}
		if cl.List == nil {
			dflt, hasDefault = m, true
			continue
		}
		for _, e := range cl.List {
			name, ok := strandConst(e)
			if !ok {
				r.Und("STRAND-TALLY", key, p.Pos(e.Pos()), "a case of the per-part switch is not a Strand constant")
				return
			}
			incs[name] = m
		}
	}
	for _, name := range []string{"StrandForward", "StrandReverse", "StrandBoth"} {
		if incs[name] == nil {
			if hasDefault {
				incs[name] = dflt
			} else {
				incs[name] = map[types.Object]int{}
			}
		}
	}
	// the statements behind the loop: a tagless switch or an if chain of returns
	var tail []ast.Stmt
	after := false
	for _, st := range fd.Body.List {
		if after {
			tail = append(tail, st)
		}
		if st == ast.Stmt(loop) {
			after = true
		}
	}
	var evalInt func(e ast.Expr, env map[types.Object]int) (int, bool)
	evalInt = func(e ast.Expr, env map[types.Object]int) (int, bool) {
		e = ast.Unparen(e)
		if k, ok := core.ConstInt(info, e); ok {
			return int(k), true
		}
		if o := core.ObjOf(info, e); o != nil {
			v, ok := env[o]
			if !ok {
				// a tally that was never incremented in this combination
				if _, isVar := o.(*types.Var); isVar {
					return 0, true
				}
			}
			return v, ok
		}
		if be, ok := e.(*ast.BinaryExpr); ok {
			a, ok1 := evalInt(be.X, env)
			b, ok2 := evalInt(be.Y, env)
			if ok1 && ok2 {
				switch be.Op {
				case token.ADD:
					return a + b, true
				case token.SUB:
					return a - b, true
				}
			}
		}
		return 0, false
	}
	var evalBool func(e ast.Expr, env map[types.Object]int) (bool, bool)
	evalBool = func(e ast.Expr, env map[types.Object]int) (bool, bool) {
		e = ast.Unparen(e)
		switch x := e.(type) {
		case *ast.UnaryExpr:
			if x.Op == token.NOT {
				v, ok := evalBool(x.X, env)
				return !v, ok
			}
		case *ast.BinaryExpr:
			switch x.Op {
			case token.LAND, token.LOR:
				a, ok1 := evalBool(x.X, env)
				b, ok2 := evalBool(x.Y, env)
				if x.Op == token.LAND {
					return a && b, ok1 && ok2
				}
				return a || b, ok1 && ok2
			case token.EQL, token.NEQ, token.LSS, token.GTR, token.LEQ, token.GEQ:
				a, ok1 := evalInt(x.X, env)
				b, ok2 := evalInt(x.Y, env)
				if !ok1 || !ok2 {
					return false, false
				}
				switch x.Op {
				case token.EQL:
					return a == b, true
				case token.NEQ:
					return a != b, true
				case token.LSS:
					return a < b, true
				case token.GTR:
					return a > b, true
				case token.LEQ:
					return a <= b, true
				default:
					return a >= b, true
				}
			}
		}
		return false, false
	}
	var run func(stmts []ast.Stmt, env map[types.Object]int) (string, bool)
	run = func(stmts []ast.Stmt, env map[types.Object]int) (string, bool) {
		for _, st := range stmts {
			switch x := st.(type) {
			case *ast.ReturnStmt:
				if len(x.Results) == 1 {
					return strandConst(x.Results[0])
				}
				return "", false
			case *ast.IfStmt:
				if x.Init != nil {
					return "", false
				}
				v, ok := evalBool(x.Cond, env)
				if !ok {
					return "", false
				}
				if v {
					if res, ok := run(x.Body.List, env); ok || res != "" {
						return res, ok
					}
					return "", false
				}
				if x.Else != nil {
					switch el := x.Else.(type) {
					case *ast.BlockStmt:
						if res, ok := run(el.List, env); ok {
							return res, true
						}
					case *ast.IfStmt:
						if res, ok := run([]ast.Stmt{el}, env); ok {
							return res, true
						}
					}
				}
			case *ast.SwitchStmt:
				if x.Tag != nil || x.Init != nil {
					return "", false
				}
				var def *ast.CaseClause
				taken := false
				for _, cc := range x.Body.List {
					cl := cc.(*ast.CaseClause)
					if cl.List == nil {
						def = cl
						continue
					}
					hit := false
					for _, ce := range cl.List {
						v, ok := evalBool(ce, env)
						if !ok {
							return "", false
						}
						hit = hit || v
					}
					if hit {
						taken = true
						if res, ok := run(cl.Body, env); ok {
							return res, true
						}
						break
					}
				}
				if !taken && def != nil {
					if res, ok := run(def.Body, env); ok {
						return res, true
					}
				}
			default:
				return "", false
			}
		}
		return "", false
	}
	combos := 0
	for nf := 0; nf <= 2; nf++ {
		for nr := 0; nr <= 2; nr++ {
			for nb := 0; nb <= 2; nb++ {
				if nf+nr+nb == 0 {
					continue
				}
				combos++
				env := map[types.Object]int{}
				for name, cnt := range map[string]int{"StrandForward": nf, "StrandReverse": nr, "StrandBoth": nb} {
					for o, k := range incs[name] {
						env[o] += k * cnt
					}
				}
				got, ok := run(tail, env)
				if !ok {
					r.Und("STRAND-TALLY", key, p.Pos(fd.Pos()), "the test behind the loop cannot be interpreted (expected returns of Strand constants under comparisons of the tallies)")
					return
				}
				want := "StrandBoth"
				if nr == 0 && nb == 0 {
					want = "StrandForward"
				} else if nf == 0 && nb == 0 {
					want = "StrandReverse"
				}
				if got != want {
					r.Bad("STRAND-TALLY", key, p.Pos(fd.Pos()), fmt.Sprintf("with %d forward, %d reverse and %d both-strand parts checkStrand answers %s, not %s: a part that lies on both strands has to count against either single-strand verdict (order(join(1..3,complement(6..8)),21..23) reported as strictly forward: `gts select -s forward` accepts it, Not(Or(ForwardStrand, ReverseStrand)) loses it)", nf, nr, nb, got, want))
					return
				}
			}
		}
	}
	r.Ok("STRAND-TALLY", key, p.Pos(fd.Pos()), fmt.Sprintf("correct verdict on all %d combinations", combos))
}

// CompleteWrappers decides COMPLETE-WRAPPERS on gts.asComplete: the markers
// of a source feature are stripped whatever the location is wrapped in. The
// kinds that can hold a Ranged inside - every Location type of package gts
// that is a slice of Locations or a struct with a Location field - are read
// off the package, and each must have a clause in asComplete's type switch
// that converts the inner location(s) with asComplete. A kind that falls to
// the default clause comes back as it went in: `source complement(1..20)`
// sliced to [5,10) stays `complement(<1..>5)`.
func CompleteWrappers(p *core.Prog, r *core.Report) {
	r.Rule("COMPLETE-WRAPPERS", "gts.asComplete has, for every Location kind of package gts that contains Locations (slice of Location, struct with a Location field), a clause that converts the inner location(s) by a recursive call: the partial markers of a sliced source feature go whatever wraps the range", 3)
	info := p.Info(core.PkgGts)
	fd := p.FuncDecl(core.PkgGts, "asComplete")
	if fd == nil || fd.Body == nil {
		r.Und("COMPLETE-WRAPPERS", "gts.asComplete|anchor", "-", "anchor-unresolved")
		return
	}
	pkg := p.Pkg(core.PkgGts).Types
	locObj := pkg.Scope().Lookup("Location")
	if locObj == nil {
		r.Und("COMPLETE-WRAPPERS", "gts.Location|anchor", "-", "anchor-unresolved")
		return
	}
	locIface, _ := locObj.Type().Underlying().(*types.Interface)
	if locIface == nil {
		r.Und("COMPLETE-WRAPPERS", "gts.Location|anchor", "-", "Location is not an interface")
		return
	}
	isLoc := func(t types.Type) bool { return types.Identical(t, locObj.Type()) }
	var wrappers []string
	for _, name := range pkg.Scope().Names() {
		tn, ok := pkg.Scope().Lookup(name).(*types.TypeName)
		if !ok || tn.IsAlias() {
			continue
		}
		t := tn.Type()
		if _, isIface := t.Underlying().(*types.Interface); isIface {
			continue
		}
		if !types.Implements(t, locIface) && !types.Implements(types.NewPointer(t), locIface) {
			continue
		}
		holds := false
		switch u := t.Underlying().(type) {
		case *types.Slice:
			holds = isLoc(u.Elem())
		case *types.Struct:
			for i := 0; i < u.NumFields(); i++ {
				if isLoc(u.Field(i).Type()) {
					holds = true
				}
			}
		}
		if holds {
			wrappers = append(wrappers, name)
		}
	}
	var ts *ast.TypeSwitchStmt
	ast.Inspect(fd.Body, func(n ast.Node) bool {
		if t, ok := n.(*ast.TypeSwitchStmt); ok && ts == nil {
			ts = t
		}
		return ts == nil
	})
	if ts == nil {
		r.Und("COMPLETE-WRAPPERS", "gts.asComplete|switch", p.Pos(fd.Pos()), "no type switch over the location kinds")
		return
	}
	self, _ := info.Defs[fd.Name].(*types.Func)
	handled := map[string]bool{}
	for _, st := range ts.Body.List {
		cc := st.(*ast.CaseClause)
		recurses := false
		for _, s := range cc.Body {
			for _, c := range core.Calls(s) {
				if core.Callee(info, c) == self {
					recurses = true
				}
			}
		}
		for _, e := range cc.List {
			if t := info.TypeOf(e); t != nil && recurses {
				handled[types.TypeString(t, func(*types.Package) string { return "" })] = true
			}
		}
	}
	for _, w := range wrappers {
		key := "gts.asComplete|kind=" + w
		if handled[w] {
			r.Ok("COMPLETE-WRAPPERS", key, p.Pos(ts.Pos()), "converted through its inner location(s)")
		} else {
			r.Bad("COMPLETE-WRAPPERS", key, p.Pos(ts.Pos()), fmt.Sprintf("asComplete has no clause that looks inside a %s: a source feature whose location is a %s keeps the partial markers slicing gave it (`source complement(1..20)` sliced to [5,10) is written `complement(<1..>5)`, the same feature on the forward strand `1..5`)", w, w))
		}
	}
	if len(wrappers) == 0 {
		r.Und("COMPLETE-WRAPPERS", "gts.asComplete|kinds", p.Pos(fd.Pos()), "no Location kind that contains Locations found in package gts")
	}
}

// StrandComplement decides STRAND-COMPLEMENT on gts.CheckStrand: the strand of
// complement(x) is the opposite of the strand of x - reverse for a forward x,
// forward for a reverse x, both for an x on both strands. The parser keeps
// complement(join(a,complement(b))) as written, so a constant answer
// ("a complement is on the reverse strand") calls a location with residues on
// both strands strictly reverse, and the strand filters built on CheckStrand
// select by something other than the denoted residues.
func StrandComplement(p *core.Prog, r *core.Report) {
	r.Rule("STRAND-COMPLEMENT", "the Complemented clause of gts.CheckStrand, evaluated for the three strands its inner location can have, returns the opposite strand (forward <-> reverse, both -> both): it is a function of CheckStrand(inner), not a constant", 1)
	info := p.Info(core.PkgGts)
	fd := p.FuncDecl(core.PkgGts, "CheckStrand")
	key := "gts.CheckStrand|Complemented"
	if fd == nil || fd.Body == nil {
		r.Und("STRAND-COMPLEMENT", key+"|anchor", "-", "anchor-unresolved")
		return
	}
	strandConst := func(e ast.Expr) (string, bool) {
		if o := core.ObjOf(info, e); o != nil {
			if c, ok := o.(*types.Const); ok && core.NamedOf(c.Type()) == core.PkgGts+".Strand" {
				return c.Name(), true
			}
		}
		return "", false
	}
	var clause *ast.CaseClause
	var bound types.Object
	ast.Inspect(fd.Body, func(n ast.Node) bool {
		ts, ok := n.(*ast.TypeSwitchStmt)
		if !ok {
			return true
		}
		for _, st := range ts.Body.List {
			cc := st.(*ast.CaseClause)
			for _, e := range cc.List {
				if t := info.TypeOf(e); t != nil && core.NamedOf(t) == core.PkgGts+".Complemented" && len(cc.List) == 1 {
					clause, bound = cc, info.Implicits[cc]
				}
			}
		}
		return true
	})
	if clause == nil {
		r.Bad("STRAND-COMPLEMENT", key, p.Pos(fd.Pos()), "CheckStrand has no clause of its own for a Complemented location: it is treated like a forward location")
		return
	}
	self, _ := info.Defs[fd.Name].(*types.Func)
	// isInner: CheckStrand(v.Location) (or of a local holding it)
	asg := core.Assigns(info, clause)
	isInner := func(e ast.Expr) bool {
		c, ok := ast.Unparen(core.Origin(info, asg, e)).(*ast.CallExpr)
		if !ok || core.Callee(info, c) != self || len(c.Args) != 1 {
			return false
		}
		sel, ok := ast.Unparen(core.Origin(info, asg, c.Args[0])).(*ast.SelectorExpr)
		return ok && sel.Sel.Name == "Location" && core.ObjOf(info, sel.X) == bound && bound != nil
	}
	var run func(stmts []ast.Stmt, inner string) (string, bool)
	run = func(stmts []ast.Stmt, inner string) (string, bool) {
		for _, st := range stmts {
			switch x := st.(type) {
			case *ast.AssignStmt:
				continue // a local holding the inner strand, resolved through Origin
			case *ast.ReturnStmt:
				if len(x.Results) != 1 {
					return "", false
				}
				if isInner(x.Results[0]) {
					return inner, true
				}
				return strandConst(x.Results[0])
			case *ast.SwitchStmt:
				if x.Tag == nil || !isInner(x.Tag) {
					return "", false
				}
				var def *ast.CaseClause
				for _, cc := range x.Body.List {
					cl := cc.(*ast.CaseClause)
					if cl.List == nil {
						def = cl
						continue
					}
					for _, ce := range cl.List {
						if name, ok := strandConst(ce); ok && name == inner {
							return run(cl.Body, inner)
						}
					}
				}
				if def != nil {
					return run(def.Body, inner)
				}
			case *ast.IfStmt:
				be, ok := ast.Unparen(x.Cond).(*ast.BinaryExpr)
				if !ok || (be.Op != token.EQL && be.Op != token.NEQ) || x.Init != nil {
					return "", false
				}
				var name string
				var okc bool
				switch {
				case isInner(be.X):
					name, okc = strandConst(be.Y)
				case isInner(be.Y):
					name, okc = strandConst(be.X)
				}
				if !okc {
					return "", false
				}
				if (name == inner) == (be.Op == token.EQL) {
					return run(x.Body.List, inner)
				}
				if x.Else != nil {
					switch el := x.Else.(type) {
					case *ast.BlockStmt:
						return run(el.List, inner)
					case *ast.IfStmt:
						return run([]ast.Stmt{el}, inner)
					}
				}
			default:
				return "", false
			}
		}
		return "", false
	}
	want := map[string]string{"StrandForward": "StrandReverse", "StrandReverse": "StrandForward", "StrandBoth": "StrandBoth"}
	for _, inner := range []string{"StrandForward", "StrandReverse", "StrandBoth"} {
		got, ok := run(clause.Body, inner)
		if !ok {
			r.Und("STRAND-COMPLEMENT", key, p.Pos(clause.Pos()), "the clause cannot be interpreted (expected returns of Strand constants under a switch / comparisons on CheckStrand of the inner location)")
			return
		}
		if got != want[inner] {
			r.Bad("STRAND-COMPLEMENT", key, p.Pos(clause.Pos()), fmt.Sprintf("for an inner location that is %s the complement is reported %s, not %s: complement(join(1..3,complement(6..8))), which the parser keeps as written and which has residues on both strands, is reported strictly reverse, so `gts select -s reverse` accepts it and Not(Or(ForwardStrand, ReverseStrand)) misses it", inner, got, want[inner]))
			return
		}
	}
	r.Ok("STRAND-COMPLEMENT", key, p.Pos(clause.Pos()), "the opposite strand of the inner location for all three cases")
}

package conserve

import (
	"fmt"
	"go/ast"
	"go/token"
	"go/types"
	"strings"

	"gtsverif/core"
)

// ---------------------------------------------------------------------------
// COMPLETE-ONLY-SLICE (who-may-call) and KIND-PRESERVE on gts.asComplete.

// AsCompleteRules decides the two rules about the helper that strips partial
// markers: only slicing may call it (the property allows the loss of partial
// markers "on source features after slicing" and nowhere else), and it returns
// a location of the same kind as the one it was given (a wrapper it looks
// through is put back).
func AsCompleteRules(p *core.Prog, r *core.Report) {
	r.Rule("COMPLETE-ONLY-SLICE", "the helper that clears the partial markers of a location (gts.asComplete) is called only by gts.Slice and by itself: every other operation must keep the 5'/3' markers", 1)
	r.Rule("KIND-PRESERVE", "every clause of the type switch in gts.asComplete returns a value of the type the clause matched (a wrapper such as Complemented is rebuilt around the converted inner location), so the strand and the part structure survive", 3)
	info := p.Info(gts)
	fd := p.FuncDecl(gts, "asComplete")
	if fd == nil || fd.Body == nil {
		r.Und("COMPLETE-ONLY-SLICE", "gts.asComplete|anchor", "-", "anchor-unresolved")
		return
	}
	target, _ := info.Defs[fd.Name].(*types.Func)
	r.Fn("gts.asComplete")
	n := 0
	for _, pkg := range []string{core.PkgGts, core.PkgSeqio, core.PkgMain} {
		pinfo := p.Info(pkg)
		for _, d := range p.FuncDecls(pkg) {
			if d.Body == nil {
				continue
			}
			for _, c := range core.Calls(d.Body) {
				if core.Callee(pinfo, c) != target {
					continue
				}
				n++
				caller := core.Short(pkg) + "." + core.DeclName(d)
				key := "gts.asComplete|caller=" + caller
				if pkg == core.PkgGts && (core.DeclName(d) == "Slice" || core.DeclName(d) == "asComplete") {
					r.Ok("COMPLETE-ONLY-SLICE", key, p.Pos(c.Pos()), "called while slicing")
				} else {
					r.Bad("COMPLETE-ONLY-SLICE", key, p.Pos(c.Pos()), caller+" clears partial markers with asComplete: only slicing may strip the markers of a (source) feature; after this call an edit followed by its inverse no longer restores `<`/`>`")
				}
			}
		}
	}
	if n == 0 {
		r.Und("COMPLETE-ONLY-SLICE", "gts.asComplete|callers", p.Pos(fd.Pos()), "asComplete has no caller: the source features of a slice keep partial markers the property says they lose")
	}
	// KIND-PRESERVE
	var ts *ast.TypeSwitchStmt
	ast.Inspect(fd.Body, func(n ast.Node) bool {
		if t, ok := n.(*ast.TypeSwitchStmt); ok && ts == nil {
			ts = t
		}
		return ts == nil
	})
	if ts == nil {
		r.Und("KIND-PRESERVE", "gts.asComplete|switch", p.Pos(fd.Pos()), "no type switch over the location kinds")
		return
	}
	for _, st := range ts.Body.List {
		cc := st.(*ast.CaseClause)
		if len(cc.List) != 1 {
			// default clause or multi-type clause: the bound variable keeps the interface type
			for _, rs := range core.Returns(cc) {
				if len(rs.Results) == 1 {
					if tv, ok := info.Types[rs.Results[0]]; ok && tv.Type != nil {
						if _, isIface := tv.Type.Underlying().(*types.Interface); isIface {
							if _, isCall := ast.Unparen(rs.Results[0]).(*ast.CallExpr); !isCall {
								continue
							}
						}
					}
					r.Bad("KIND-PRESERVE", "gts.asComplete|default", p.Pos(rs.Pos()), "the default clause does not hand back the location it was given")
				}
			}
			continue
		}
		want := info.Types[cc.List[0]].Type
		wn := core.NamedOf(want)
		if i := strings.LastIndexByte(wn, '.'); i >= 0 {
			wn = wn[i+1:]
		}
		key := "gts.asComplete|case=" + wn
		rets := core.Returns(cc)
		if len(rets) == 0 {
			r.Und("KIND-PRESERVE", key, p.Pos(cc.Pos()), "the clause does not return")
			continue
		}
		ok := true
		for _, rs := range rets {
			if len(rs.Results) != 1 {
				ok = false
				continue
			}
			tv := info.Types[rs.Results[0]]
			if tv.Type == nil || !types.Identical(tv.Type, want) {
				ok = false
				r.Bad("KIND-PRESERVE", key, p.Pos(rs.Pos()), fmt.Sprintf("the clause for %s returns `%s` of type %s: the %s wrapper (and with it the strand or the part structure) is lost", wn, types.ExprString(rs.Results[0]), types.TypeString(tv.Type, func(*types.Package) string { return "" }), wn))
			}
		}
		if ok {
			r.Ok("KIND-PRESERVE", key, p.Pos(cc.Pos()), "returns a "+wn)
		}
	}
}

// ---------------------------------------------------------------------------
// NORMALISE-FIRST: a parameter that the function brings into canonical form is
// not read before that.

func selfUpdate(info *types.Info, st ast.Stmt, obj types.Object) bool {
	as, ok := st.(*ast.AssignStmt)
	if !ok || len(as.Lhs) != 1 || core.ObjOf(info, as.Lhs[0]) != obj {
		return false
	}
	if _, plain := ast.Unparen(as.Lhs[0]).(*ast.Ident); !plain {
		return false
	}
	switch as.Tok {
	case token.ADD_ASSIGN, token.SUB_ASSIGN, token.REM_ASSIGN:
		return true
	case token.ASSIGN:
		return len(as.Rhs) == 1 && core.UsesObj(info, as.Rhs[0], obj)
	}
	return false
}

// normalising: a top-level statement that canonicalises parameter obj: a
// self-update guarded by a condition on obj itself (`if p < 0 { p += L }`,
// `for p < 0 { p += L }`), or an unconditional `p %= L`.
func normalising(info *types.Info, st ast.Stmt, obj types.Object) bool {
	switch s := st.(type) {
	case *ast.IfStmt:
		if s.Else != nil || s.Init != nil || !core.UsesObj(info, s.Cond, obj) || len(s.Body.List) != 1 {
			return false
		}
		return selfUpdate(info, s.Body.List[0], obj)
	case *ast.ForStmt:
		if s.Init != nil || s.Post != nil || s.Cond == nil || !core.UsesObj(info, s.Cond, obj) || len(s.Body.List) != 1 {
			return false
		}
		return selfUpdate(info, s.Body.List[0], obj)
	case *ast.AssignStmt:
		if s.Tok == token.REM_ASSIGN {
			return selfUpdate(info, s, obj)
		}
		if s.Tok == token.ASSIGN && len(s.Rhs) == 1 && selfUpdate(info, s, obj) {
			if be, ok := ast.Unparen(s.Rhs[0]).(*ast.BinaryExpr); ok && be.Op == token.REM {
				return true
			}
		}
	}
	return false
}

// NormaliseFirst decides NORMALISE-FIRST over the functions of the given packages.
func NormaliseFirst(p *core.Prog, r *core.Report, floor int, pkgs ...string) {
	r.Rule("NORMALISE-FIRST", "a parameter that a function brings into canonical form at its top level (`if p < 0 { p += n }`, `for p < 0 { p += n }`, `p %= n`) is not read by any earlier top-level statement other than the canonicalisation of another parameter: everything the function computes from the parameter uses the canonical value (a negative index is counted from the end before it is handed to anything else)", floor)
	for _, pkg := range pkgs {
		info := p.Info(pkg)
		for _, fd := range p.FuncDecls(pkg) {
			if fd.Body == nil || fd.Type.Params == nil {
				continue
			}
			var params []types.Object
			for _, f := range fd.Type.Params.List {
				for _, n := range f.Names {
					if o := info.Defs[n]; o != nil {
						params = append(params, o)
					}
				}
			}
			isNormOfAny := func(st ast.Stmt) bool {
				for _, o := range params {
					if normalising(info, st, o) {
						return true
					}
				}
				return false
			}
			for _, o := range params {
				last := -1
				for i, st := range fd.Body.List {
					if normalising(info, st, o) {
						last = i
					}
				}
				if last < 0 {
					continue
				}
				name := core.Short(pkg) + "." + core.DeclName(fd)
				key := name + "|" + o.Name()
				r.Fn(name)
				bad := false
				for i := 0; i < last; i++ {
					st := fd.Body.List[i]
					if isNormOfAny(st) {
						continue
					}
					if core.UsesObj(info, st, o) {
						bad = true
						r.Bad("NORMALISE-FIRST", key, p.Pos(st.Pos()), fmt.Sprintf("%s reads `%s` before the statement that brings it into canonical form (%s): what is computed here sees the raw argument (for a negative index: a window counted from the wrong end)", name, o.Name(), p.Pos(fd.Body.List[last].Pos())))
						break
					}
				}
				if !bad {
					r.Ok("NORMALISE-FIRST", key, p.Pos(fd.Body.List[last].Pos()), "no earlier statement reads the parameter")
				}
			}
		}
	}
}

// ---------------------------------------------------------------------------
// NO-REORDER: the slice a part-wise transformation fills reaches the
// constructor in the order it was filled.

// NoReorder decides NO-REORDER on the FILL anchors of the location kinds.
func NoReorder(p *core.Prog, r *core.Report, methods ...string) {
	r.Rule("NO-REORDER", "in the part-wise methods of Joined and Ordered the freshly filled slice of parts is handed to Join/Order (or converted to the result type) and to nothing else: it is not sorted, shuffled or passed to a function in between - the order of the parts is the reading order of the feature", len(methods)*2)
	info := p.Info(gts)
	for _, recv := range []string{"Joined", "Ordered"} {
		for _, m := range methods {
			name := recv + "." + m
			fd := p.FuncDecl(gts, name)
			key := "gts." + name
			if fd == nil || fd.Body == nil {
				r.Und("NO-REORDER", key+"|anchor", "-", "anchor-unresolved")
				continue
			}
			r.Fn(key)
			// the local slices of Location declared in the function
			locals := map[types.Object]bool{}
			ast.Inspect(fd.Body, func(n ast.Node) bool {
				if id, ok := n.(*ast.Ident); ok {
					if o := info.Defs[id]; o != nil {
						if sl, ok := o.Type().Underlying().(*types.Slice); ok && strings.HasSuffix(core.NamedOf(sl.Elem()), ".Location") {
							locals[o] = true
						}
					}
				}
				return true
			})
			bad := false
			for _, c := range core.Calls(fd.Body) {
				if core.IsBuiltin(info, c, "len") || core.IsBuiltin(info, c, "cap") || core.IsBuiltin(info, c, "append") || core.IsBuiltin(info, c, "make") || core.IsBuiltin(info, c, "copy") {
					continue
				}
				for ai, a := range c.Args {
					e := ast.Unparen(a)
					// look through conversions such as Locations(ll)
					for {
						if cv, ok := e.(*ast.CallExpr); ok && core.IsConversion(info, cv) && len(cv.Args) == 1 {
							e = ast.Unparen(cv.Args[0])
							continue
						}
						break
					}
					o := core.ObjOf(info, e)
					if o == nil || !locals[o] {
						continue
					}
					if core.IsConversion(info, c) {
						continue
					}
					callee := core.FuncID(core.Callee(info, c))
					if callee == gts+".Join" || callee == gts+".Order" {
						continue
					}
					_ = ai
					bad = true
					r.Bad("NO-REORDER", key, p.Pos(c.Pos()), fmt.Sprintf("the filled parts `%s` are passed to %s before they reach the constructor: a sort or any other permutation changes the reading order of the feature (exon 2 before exon 1 for a feature that reads across the origin)", o.Name(), calleeOr(callee, c)))
				}
			}
			// ... nor permuted in place: no element of the slice is assigned from another element of it
			// (a sort or swap written out, or inlined from a helper)
			ast.Inspect(fd.Body, func(n ast.Node) bool {
				as, ok := n.(*ast.AssignStmt)
				if !ok || bad {
					return true
				}
				for _, l := range as.Lhs {
					ix, ok := ast.Unparen(l).(*ast.IndexExpr)
					if !ok {
						continue
					}
					o := core.ObjOf(info, ix.X)
					if o == nil || !locals[o] {
						continue
					}
					for _, rhs := range as.Rhs {
						ast.Inspect(rhs, func(m ast.Node) bool {
							if rx, ok := m.(*ast.IndexExpr); ok && core.ObjOf(info, rx.X) == o && !bad {
								bad = true
								r.Bad("NO-REORDER", key, p.Pos(as.Pos()), fmt.Sprintf("an element of the filled parts `%s` is assigned from another element of the same slice: the parts are permuted in place before they reach the constructor, which changes the reading order of the feature", o.Name()))
							}
							return !bad
						})
					}
				}
				return true
			})
			if !bad {
				r.Ok("NO-REORDER", key, p.Pos(fd.Pos()), "the parts reach the constructor in the order they were filled")
			}
		}
	}
}

func calleeOr(id string, c *ast.CallExpr) string {
	if id != "" {
		return id
	}
	return types.ExprString(c.Fun)
}

// ---------------------------------------------------------------------------
// QUANT-ALL: the multi-part case of LocationWithin / LocationOverlap
// quantifies over every part.

// QuantAll decides QUANT-ALL.
func QuantAll(p *core.Prog, r *core.Report) {
	r.Rule("QUANT-ALL", "for a multi-part location LocationWithin is the conjunction and LocationOverlap the disjunction of the same test over every part: a range loop over all parts with no break/continue whose body is `if [!]Test(part, lower, upper) { return c }` followed by `return !c` (c = false for Within, true for Overlap)", 2)
	info := p.Info(gts)
	for _, spec := range []struct {
		name string
		all  bool
	}{{"LocationWithin", true}, {"LocationOverlap", false}} {
		fd := p.FuncDecl(gts, spec.name)
		key := "gts." + spec.name + "|parts"
		if fd == nil || fd.Body == nil {
			r.Und("QUANT-ALL", key, "-", "anchor-unresolved")
			continue
		}
		r.Fn("gts." + spec.name)
		self, _ := info.Defs[fd.Name].(*types.Func)
		// the clause for the slice-like kinds: the one whose body ranges
		var cl *ast.CaseClause
		ast.Inspect(fd.Body, func(n ast.Node) bool {
			cc, ok := n.(*ast.CaseClause)
			if !ok || cl != nil {
				return true
			}
			for _, t := range cc.List {
				if tv, ok := info.Types[t]; ok && tv.Type != nil {
					if it, ok := tv.Type.Underlying().(*types.Interface); ok {
						for i := 0; i < it.NumMethods(); i++ {
							if it.Method(i).Name() == "slice" {
								cl = cc
							}
						}
					}
					if sl, ok := tv.Type.Underlying().(*types.Slice); ok && strings.HasSuffix(core.NamedOf(sl.Elem()), ".Location") {
						cl = cc
					}
				}
			}
			return true
		})
		if cl == nil {
			r.Und("QUANT-ALL", key, p.Pos(fd.Pos()), "no clause for the multi-part kinds")
			continue
		}
		// leading definitions of locals (e.g. `parts := v.slice()`) are allowed in front of the loop
		body := cl.Body
		for len(body) > 2 {
			as, ok := body[0].(*ast.AssignStmt)
			if !ok || as.Tok != token.DEFINE {
				break
			}
			body = body[1:]
		}
		if len(body) != 2 {
			r.Und("QUANT-ALL", key, p.Pos(cl.Pos()), "the multi-part clause is not `for range parts { if ... return } ; return`")
			continue
		}
		rs, ok1 := body[0].(*ast.RangeStmt)
		fin, ok2 := body[1].(*ast.ReturnStmt)
		if !ok1 || !ok2 || len(fin.Results) != 1 || rs.Value == nil {
			r.Und("QUANT-ALL", key, p.Pos(cl.Pos()), "the multi-part clause is not a range loop over the parts followed by a return: every part must be consulted")
			continue
		}
		// the ranged expression is the whole part list: v.slice() or v itself (possibly through a local)
		asg := core.Assigns(info, fd.Body)
		whole := false
		switch x := ast.Unparen(core.Origin(info, asg, rs.X)).(type) {
		case *ast.CallExpr:
			if se, ok := x.Fun.(*ast.SelectorExpr); ok && se.Sel.Name == "slice" && len(x.Args) == 0 {
				whole = true
			}
		case *ast.Ident:
			whole = true
		}
		if !whole {
			r.Bad("QUANT-ALL", key, p.Pos(rs.Pos()), "the loop ranges over `"+types.ExprString(rs.X)+"`, not over the whole list of parts: a part that is skipped is never tested (an interior part outside the bounds goes unnoticed)")
			continue
		}
		if len(rs.Body.List) != 1 {
			r.Und("QUANT-ALL", key, p.Pos(rs.Pos()), "the loop body is not a single test")
			continue
		}
		is, ok := rs.Body.List[0].(*ast.IfStmt)
		if !ok || is.Else != nil || is.Init != nil || len(is.Body.List) != 1 {
			r.Und("QUANT-ALL", key, p.Pos(rs.Pos()), "the loop body is not `if test { return c }`")
			continue
		}
		inner, ok := is.Body.List[0].(*ast.ReturnStmt)
		if !ok || len(inner.Results) != 1 {
			r.Und("QUANT-ALL", key, p.Pos(is.Pos()), "the loop body does not return from inside the test")
			continue
		}
		cond := ast.Unparen(is.Cond)
		neg := false
		if u, ok := cond.(*ast.UnaryExpr); ok && u.Op == token.NOT {
			neg = true
			cond = ast.Unparen(u.X)
		}
		call, ok := cond.(*ast.CallExpr)
		if !ok || core.Callee(info, call) != self || len(call.Args) != 3 || core.ObjOf(info, call.Args[0]) != core.ObjOf(info, rs.Value) {
			r.Und("QUANT-ALL", key, p.Pos(is.Pos()), "the test is not the function itself applied to the loop's part")
			continue
		}
		for k := 1; k <= 2; k++ {
			if core.ParamIndex(info, fd, core.ObjOf(info, call.Args[k])) != k {
				r.Bad("QUANT-ALL", key, p.Pos(call.Pos()), "the part is tested against other bounds than the ones given")
			}
		}
		cv := func(e ast.Expr) (bool, bool) {
			id, ok := ast.Unparen(e).(*ast.Ident)
			if !ok {
				return false, false
			}
			return id.Name == "true", id.Name == "true" || id.Name == "false"
		}
		in, okA := cv(inner.Results[0])
		out, okB := cv(fin.Results[0])
		if !okA || !okB {
			r.Und("QUANT-ALL", key, p.Pos(is.Pos()), "the returned values are not boolean constants")
			continue
		}
		// Within: if !T {return false}; return true.   Overlap: if T {return true}; return false.
		wantNeg, wantIn, wantOut := spec.all, !spec.all, spec.all
		if neg == wantNeg && in == wantIn && out == wantOut {
			r.Ok("QUANT-ALL", key, p.Pos(rs.Pos()), map[bool]string{true: "conjunction over every part", false: "disjunction over every part"}[spec.all])
		} else {
			r.Bad("QUANT-ALL", key, p.Pos(is.Pos()), fmt.Sprintf("the loop computes a %s where %s needs the %s of the test over the parts", quantName(neg, in, out), spec.name, map[bool]string{true: "conjunction", false: "disjunction"}[spec.all]))
		}
	}
}

func quantName(neg, in, out bool) string {
	switch {
	case neg && !in && out:
		return "conjunction"
	case !neg && in && !out:
		return "disjunction"
	case !neg && !in && out:
		return "`none of the parts`"
	case neg && in && !out:
		return "`not all of the parts`"
	}
	return "constant"
}

// ---------------------------------------------------------------------------
// PRINT-TOTAL: Ranged.String writes both coordinates on every path.

// PrintTotal decides PRINT-TOTAL on gts.Ranged.String.
func PrintTotal(p *core.Prog, r *core.Report) {
	r.Rule("PRINT-TOTAL", "gts.Ranged.String has no return before the end of its body and writes, unconditionally and in this order, the start coordinate, the `..` separator and the end coordinate; the only conditional writes are the two partial markers, each under its own flag (the parser reads `[<]start..[>]end` and nothing shorter)", 1)
	info := p.Info(gts)
	fd := p.FuncDecl(gts, "Ranged.String")
	key := "gts.Ranged.String"
	if fd == nil || fd.Body == nil {
		r.Und("PRINT-TOTAL", key+"|anchor", "-", "anchor-unresolved")
		return
	}
	r.Fn(key)
	n := len(fd.Body.List)
	for _, rs := range core.Returns(fd.Body) {
		if n == 0 || ast.Stmt(rs) != fd.Body.List[n-1] {
			r.Bad("PRINT-TOTAL", key, p.Pos(rs.Pos()), "a return before the end of the body: for the locations that take it the text lacks `..end` (and the 3' marker), which the parser reads back as a different location or not at all")
			return
		}
	}
	// unconditional top-level writes, in order
	var seq []string
	for _, st := range fd.Body.List {
		es, ok := st.(*ast.ExprStmt)
		if !ok {
			continue
		}
		c, ok := es.X.(*ast.CallExpr)
		if !ok || len(c.Args) != 1 {
			continue
		}
		id := core.FuncID(core.Callee(info, c))
		if !strings.HasPrefix(id, "strings.Builder.Write") && !strings.HasPrefix(id, "bytes.Buffer.Write") {
			continue
		}
		if s, ok := core.ConstString(info, c.Args[0]); ok {
			seq = append(seq, "lit:"+s)
			continue
		}
		txt := types.ExprString(c.Args[0])
		switch {
		case strings.Contains(txt, "Start"):
			seq = append(seq, "start")
		case strings.Contains(txt, "End"):
			seq = append(seq, "end")
		default:
			seq = append(seq, "other")
		}
	}
	got := strings.Join(seq, ",")
	if got == "start,lit:..,end" {
		r.Ok("PRINT-TOTAL", key, p.Pos(fd.Pos()), "start, `..`, end are written on every path")
	} else {
		r.Bad("PRINT-TOTAL", key, p.Pos(fd.Pos()), "the unconditional writes are ["+got+"], not [start, `..`, end]")
	}
}

// ---------------------------------------------------------------------------
// SLICE-REGION: GenBankFields.Slice records the window on every path.

// SliceRegion decides SLICE-REGION on seqio.GenBankFields.Slice.
func SliceRegion(p *core.Prog, r *core.Report) {
	r.Rule("SLICE-REGION", "every return of seqio.GenBankFields.Slice is preceded on every path by the assignment of the receiver's Region field from the two window parameters (the FASTA description and the ACCESSION line of a slice carry that region), and the value returned is the receiver", 1)
	info := p.Info(core.PkgSeqio)
	fd := p.FuncDecl(core.PkgSeqio, "GenBankFields.Slice")
	key := "seqio.GenBankFields.Slice"
	if fd == nil || fd.Body == nil {
		r.Und("SLICE-REGION", key+"|anchor", "-", "anchor-unresolved")
		return
	}
	r.Fn(key)
	var recv types.Object
	if fd.Recv != nil && len(fd.Recv.List) == 1 && len(fd.Recv.List[0].Names) == 1 {
		recv = info.Defs[fd.Recv.List[0].Names[0]]
	}
	isRegionAssign := func(n ast.Node) bool {
		as, ok := n.(*ast.AssignStmt)
		if !ok || len(as.Lhs) != 1 || len(as.Rhs) != 1 {
			return false
		}
		se, ok := ast.Unparen(as.Lhs[0]).(*ast.SelectorExpr)
		if !ok || se.Sel.Name != "Region" || core.ObjOf(info, se.X) != recv {
			return false
		}
		// the value mentions both window parameters
		uses := 0
		for k := 0; k < 2; k++ {
			if k < len(paramObjs(info, fd)) && core.UsesObj(info, as.Rhs[0], paramObjs(info, fd)[k]) {
				uses++
			}
		}
		return uses == 2
	}
	f := core.NewFlow(info, fd.Body)
	bad := f.MustPass(f.Entry(), isRegionAssign)
	if len(bad) > 0 {
		r.Bad("SLICE-REGION", key, p.Pos(bad[0].Pos()), "this return is reached without `"+recvName(recv)+".Region = Segment{start, end}`: the slice does not record its window, so its FASTA description and ACCESSION line lack the region")
		return
	}
	for _, rs := range core.Returns(fd.Body) {
		if len(rs.Results) != 1 || core.ObjOf(info, rs.Results[0]) != recv {
			r.Bad("SLICE-REGION", key, p.Pos(rs.Pos()), "the value returned is not the receiver that carries the region")
			return
		}
	}
	r.Ok("SLICE-REGION", key, p.Pos(fd.Pos()), "the window is recorded on every path")
}

func recvName(o types.Object) string {
	if o == nil {
		return "recv"
	}
	return o.Name()
}

func paramObjs(info *types.Info, fd *ast.FuncDecl) []types.Object {
	var out []types.Object
	for _, f := range fd.Type.Params.List {
		for _, n := range f.Names {
			out = append(out, info.Defs[n])
		}
	}
	return out
}

// ---------------------------------------------------------------------------
// VALUES-ONLY: a qualifier clause is matched against qualifier values.

// ValuesOnly decides VALUES-ONLY on gts.Qualifier. An entry of Props is a
// []string whose element 0 is the qualifier's name and whose other elements
// are its values; "some value of any qualifier" must not range over the name.
func ValuesOnly(p *core.Prog, r *core.Report) {
	r.Rule("VALUES-ONLY", "in gts.Qualifier every string handed to re.MatchString is a qualifier value: the loop variable of a range over Props.Get(name), over entry[1:] of a Props entry, or the Value of an Item; ranging over a whole Props entry also tests element 0, the qualifier's name", 2)
	info := p.Info(core.PkgGts)
	fd := p.FuncDecl(core.PkgGts, "Qualifier")
	if fd == nil || fd.Body == nil {
		r.Und("VALUES-ONLY", "gts.Qualifier|anchor", "-", "anchor-unresolved")
		return
	}
	r.Fn("gts.Qualifier")
	asg := core.Assigns(info, fd.Body)
	isEntry := func(t types.Type) bool { // []string
		sl, ok := t.Underlying().(*types.Slice)
		if !ok {
			return false
		}
		b, ok := sl.Elem().Underlying().(*types.Basic)
		return ok && b.Kind() == types.String
	}
	n := 0
	for _, c := range core.Calls(fd.Body) {
		if !core.IsCallTo(info, c, "regexp.Regexp.MatchString") || len(c.Args) != 1 {
			continue
		}
		n++
		key := fmt.Sprintf("gts.Qualifier|match#%d", n)
		arg := ast.Unparen(c.Args[0])
		if se, ok := arg.(*ast.SelectorExpr); ok && se.Sel.Name == "Value" {
			r.Ok("VALUES-ONLY", key, p.Pos(c.Pos()), "the Value of an Item")
			continue
		}
		o := core.ObjOf(info, arg)
		var rs *ast.RangeStmt
		if o != nil {
			for _, a := range asg[o] {
				if x, ok := a.Node.(*ast.RangeStmt); ok && a.Idx == 1 {
					rs = x
				}
			}
		}
		if rs == nil {
			r.Und("VALUES-ONLY", key, p.Pos(c.Pos()), "the matched string is not the element of a range loop")
			continue
		}
		src := ast.Unparen(core.Origin(info, asg, rs.X))
		switch x := src.(type) {
		case *ast.CallExpr:
			if fn := core.Callee(info, x); fn != nil && fn.Name() == "Get" && strings.HasSuffix(core.FuncID(fn), "Props.Get") {
				r.Ok("VALUES-ONLY", key, p.Pos(c.Pos()), "ranges over Props.Get(name): the values")
				continue
			}
		case *ast.SliceExpr:
			if lo, ok := core.ConstInt(info, x.Low); ok && x.Low != nil && lo == 1 && x.High == nil {
				r.Ok("VALUES-ONLY", key, p.Pos(c.Pos()), "ranges over entry[1:]: the values")
				continue
			}
		}
		if tv, ok := info.Types[rs.X]; ok && tv.Type != nil && isEntry(tv.Type) {
			r.Bad("VALUES-ONLY", key, p.Pos(rs.Pos()), "the clause ranges over a whole Props entry `"+types.ExprString(rs.X)+"`, whose element 0 is the qualifier's name: `/=^gene$` accepts a feature that merely carries a /gene qualifier, whatever its value")
			continue
		}
		r.Und("VALUES-ONLY", key, p.Pos(rs.Pos()), "cannot tell whether `"+types.ExprString(rs.X)+"` holds values only")
	}
	if n == 0 {
		r.Und("VALUES-ONLY", "gts.Qualifier|match", p.Pos(fd.Pos()), "no re.MatchString call found")
	}
}

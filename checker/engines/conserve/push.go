package conserve

import (
	"fmt"
	"go/ast"
	"go/types"
	"sort"
	"strconv"
	"strings"

	"gtsverif/core"
)

// PushRules decides the structural part of "location reductions keep the
// residues and the partial markers" on (*LocationList).Push, the one place
// where two locations are merged into one:
//
//	MERGE-RANGED  the Ranged+Ranged clause merges only abutting ranges
//	              (condition implies v.End == u.Start; force && abutting
//	              implies the merge) and the merged value is exactly
//	              {v.Start, u.End, {v.Partial5, u.Partial3}}
//	PUSH-CASES    every clause of the nested type switches names a concrete
//	              location type, so a location is absorbed only by a clause
//	              written for its own type
//	PUSH-ABSORB   a clause that drops the pushed location (returns without
//	              linking it) is guarded by an equality between a coordinate of
//	              the held location and one of the pushed location, and stores
//	              at most the pushed location itself
func PushRules(p *core.Prog, r *core.Report) { pushRules(p, r, false) }

// MergeRanged decides rule MERGE-RANGED alone (the properties about edits rely
// on split features re-merging with the right partial markers).
func MergeRanged(p *core.Prog, r *core.Report) { pushRules(p, r, true) }

func pushRules(p *core.Prog, r *core.Report, mergeOnly bool) {
	r.Rule("MERGE-RANGED", "in (*LocationList).Push the Ranged+Ranged clause merges only when v.End == u.Start, always merges when forced and abutting, and stores exactly Ranged{v.Start, u.End, Partial{v.Partial.Partial5, u.Partial.Partial3}} (resolved through literals, locals, package variables and constructor calls)", 1)
	if !mergeOnly {
		r.Rule("PUSH-CASES", "every case of the type switches in (*LocationList).Push names a concrete location type (no interface cases)", 13)
		r.Rule("PUSH-TARGET", "every store to .Data or .Next in (*LocationList).Push goes through the node whose Data the type switch inspects (the last node of the list): a reduction written into another node replaces a part that has nothing to do with the pair being reduced", 2)
		r.Rule("PUSH-ABSORB", "a Push clause that keeps one of {held, pushed} and drops the other drops only a zero-length site (Between), or a Point that the guard places inside the kept location (residue model: Between [x,x), Point [x,x+1), Ranged [Start,End) with Start < End; the guard is a single equality of coordinates)", 8)
	}
	info := p.Info(core.PkgGts)
	fd := p.FuncDecl(core.PkgGts, "LocationList.Push")
	if fd == nil || fd.Body == nil {
		r.Und("MERGE-RANGED", "gts.(*LocationList).Push|anchor", "-", "anchor-unresolved")
		return
	}
	r.Fn("gts.(*LocationList).Push")
	var outer *ast.TypeSwitchStmt
	for _, st := range fd.Body.List {
		if ts, ok := st.(*ast.TypeSwitchStmt); ok {
			outer = ts
		}
	}
	if outer == nil {
		r.Und("MERGE-RANGED", "gts.(*LocationList).Push|switch", p.Pos(fd.Pos()), "no top-level type switch on the held location")
		return
	}
	vname := switchVar(outer)
	merged := false
	if !mergeOnly {
		pushTarget(p, r, info, fd, outer)
	}
	for _, cc := range outer.Body.List {
		ocl := cc.(*ast.CaseClause)
		otype := caseTypes(info, ocl)
		for _, t := range otype {
			if !mergeOnly {
				checkConcrete(p, r, info, t, "outer")
			}
		}
		for _, st := range ocl.Body {
			inner, ok := st.(*ast.TypeSwitchStmt)
			if !ok {
				continue
			}
			uname := switchVar(inner)
			for _, ic := range inner.Body.List {
				icl := ic.(*ast.CaseClause)
				itype := caseTypes(info, icl)
				for _, t := range itype {
					if !mergeOnly {
						checkConcrete(p, r, info, t, strings.Join(names(otype), ",")+"+")
					}
				}
				key := strings.Join(names(otype), ",") + "+" + strings.Join(names(itype), ",")
				if key == "Ranged+Ranged" {
					merged = true
					checkMerge(p, r, info, fd, icl, vname, uname)
				} else if !mergeOnly {
					checkAbsorb(p, r, info, fd, icl, key, vname, uname)
				}
			}
		}
	}
	if !merged {
		r.Bad("MERGE-RANGED", "gts.(*LocationList).Push|Ranged+Ranged", p.Pos(fd.Pos()), "no clause for a Ranged pushed onto a Ranged")
	}
}

func switchVar(ts *ast.TypeSwitchStmt) string {
	if as, ok := ts.Assign.(*ast.AssignStmt); ok && len(as.Lhs) == 1 {
		if id, ok := as.Lhs[0].(*ast.Ident); ok {
			return id.Name
		}
	}
	return ""
}

func caseTypes(info *types.Info, cl *ast.CaseClause) []types.Type {
	var out []types.Type
	for _, e := range cl.List {
		if t := info.TypeOf(e); t != nil {
			out = append(out, t)
		}
	}
	return out
}

func names(ts []types.Type) []string {
	var out []string
	for _, t := range ts {
		out = append(out, types.TypeString(t, func(*types.Package) string { return "" }))
	}
	sort.Strings(out)
	return out
}

func checkConcrete(p *core.Prog, r *core.Report, info *types.Info, t types.Type, ctx string) {
	n := types.TypeString(t, func(*types.Package) string { return "" })
	key := "gts.(*LocationList).Push|case=" + ctx + n
	if _, isIface := t.Underlying().(*types.Interface); isIface {
		r.Bad("PUSH-CASES", key, "-", "case "+n+" is an interface: it also matches location types the clause was not written for (Ambiguous, Joined, ...)")
		return
	}
	r.Ok("PUSH-CASES", key, "-", "concrete type")
}

// the single `if cond { ...; return }` of a clause
func clauseIf(cl *ast.CaseClause) *ast.IfStmt {
	if len(cl.Body) != 1 {
		return nil
	}
	is, ok := cl.Body[0].(*ast.IfStmt)
	if !ok || is.Else != nil || is.Init != nil || len(is.Body.List) == 0 {
		return nil
	}
	if _, ok := is.Body.List[len(is.Body.List)-1].(*ast.ReturnStmt); !ok {
		return nil
	}
	return is
}

func dataAssign(info *types.Info, is *ast.IfStmt) (rhs []ast.Expr, other bool) {
	for _, st := range is.Body.List[:len(is.Body.List)-1] {
		as, ok := st.(*ast.AssignStmt)
		if !ok || len(as.Lhs) != 1 || len(as.Rhs) != 1 {
			other = true
			continue
		}
		if sel, ok := as.Lhs[0].(*ast.SelectorExpr); ok && sel.Sel.Name == "Data" {
			rhs = append(rhs, as.Rhs[0])
			continue
		}
		if id, ok := as.Lhs[0].(*ast.Ident); ok && as.Tok.String() == ":=" {
			_ = id
			continue // a local used by the stored value
		}
		other = true
	}
	return
}

func checkMerge(p *core.Prog, r *core.Report, info *types.Info, fd *ast.FuncDecl, cl *ast.CaseClause, v, u string) {
	key := "gts.(*LocationList).Push|Ranged+Ranged"
	pos := p.Pos(cl.Pos())
	is := clauseIf(cl)
	if is == nil {
		r.Und("MERGE-RANGED", key, pos, "the clause is not a single `if cond { ...; return }`")
		return
	}
	s := newSym(p, info, fd.Body)
	// condition: implies abutting; force && abutting implies it
	set := map[string]bool{}
	if !s.atoms(is.Cond, set) {
		r.Und("MERGE-RANGED", key, pos, "condition not resolvable: "+s.why)
		return
	}
	abut := ""
	for _, c := range []string{"(" + u + ".Start == " + v + ".End)", "(" + v + ".End == " + u + ".Start)"} {
		if set[c] {
			abut = c
		}
	}
	var as []string
	for a := range set {
		as = append(as, a)
	}
	sort.Strings(as)
	if abut == "" {
		r.Bad("MERGE-RANGED", key, pos, "the merge condition does not test "+v+".End == "+u+".Start; atoms: "+strings.Join(as, ", "))
		return
	}
	if len(as) > 8 {
		r.Und("MERGE-RANGED", key, pos, "too many atoms in the merge condition")
		return
	}
	okImp, okForce := true, true
	for m := 0; m < 1<<len(as); m++ {
		val := map[string]bool{}
		for i, a := range as {
			val[a] = m&(1<<i) != 0
		}
		t := s.truth(is.Cond, val)
		if t && !val[abut] {
			okImp = false
		}
		if val["force"] && val[abut] && !t {
			okForce = false
		}
	}
	if !okImp {
		r.Bad("MERGE-RANGED", key, pos, "the merge condition can hold for ranges that do not abut")
		return
	}
	if !set["force"] || !okForce {
		r.Bad("MERGE-RANGED", key, pos, "a forced push of an abutting range is not always merged")
		return
	}
	// unforced: merge exactly when a 3'-partial end meets a 5'-partial start (whatever the far ends are)
	p3, p5 := "", ""
	for a := range set {
		switch a {
		case v + ".Partial.Partial3", "(" + v + ".Partial.Partial3)":
			p3 = a
		case u + ".Partial.Partial5", "(" + u + ".Partial.Partial5)":
			p5 = a
		}
	}
	if p3 == "" || p5 == "" {
		r.Bad("MERGE-RANGED", key, pos, "the merge condition does not test the two facing markers "+v+".Partial.Partial3 and "+u+".Partial.Partial5 on their own (atoms: "+strings.Join(as, ", ")+"): a test of the whole Partial value also looks at the far end of each fragment, so a middle piece `<a..>b` of a feature cut twice, or a fragment of a feature that was partial to begin with, is never merged back")
		return
	}
	okFacing, okOnly := true, true
	for m := 0; m < 1<<len(as); m++ {
		val := map[string]bool{}
		for i, a := range as {
			val[a] = m&(1<<i) != 0
		}
		t := s.truth(is.Cond, val)
		if val[p3] && val[p5] && val[abut] && !t {
			okFacing = false
		}
		if t && !val["force"] && !(val[p3] && val[p5]) {
			okOnly = false
		}
	}
	if !okFacing {
		r.Bad("MERGE-RANGED", key, pos, "abutting ranges whose facing ends are both partial are not always merged (the condition depends on something else as well)")
		return
	}
	if !okOnly {
		r.Bad("MERGE-RANGED", key, pos, "an unforced push can merge ranges whose facing ends are not both partial")
		return
	}
	rhs, other := dataAssign(info, is)
	if len(rhs) != 1 || other {
		r.Und("MERGE-RANGED", key, pos, "the clause does not store exactly one merged value")
		return
	}
	got := map[string]string{}
	if !s.fields(rhs[0], "", got) {
		r.Und("MERGE-RANGED", key, pos, "merged value not resolvable: "+s.why)
		return
	}
	want := map[string]string{"Start": v + ".Start", "End": u + ".End", "Partial.Partial5": v + ".Partial.Partial5", "Partial.Partial3": u + ".Partial.Partial3"}
	var bad []string
	for k, w := range want {
		if got[k] != w {
			bad = append(bad, k+" is "+got[k]+", must be "+w)
		}
	}
	sort.Strings(bad)
	if len(bad) > 0 || len(got) != len(want) {
		r.Bad("MERGE-RANGED", key, p.Pos(rhs[0].Pos()), "merged range is wrong: "+strings.Join(bad, "; ")+" (resolved: "+showFields(got)+")")
		return
	}
	r.Ok("MERGE-RANGED", key, pos, "abutting-only, forced merges, {"+showFields(got)+"}")
}

// coordinate model of the three simple location types: the residues they
// denote as a half-open interval [lo, hi) of linear forms base+const.
type linc struct {
	base string
	c    int64
}

func modelOf(typ, name string) (lo, hi linc, ok bool) {
	switch typ {
	case "Between":
		return linc{name, 0}, linc{name, 0}, true
	case "Point":
		return linc{name, 0}, linc{name, 1}, true
	case "Ranged":
		return linc{name + ".Start", 0}, linc{name + ".End", 0}, true
	}
	return linc{}, linc{}, false
}

// linOf parses a canonical leaf "x", "x.F", "(x + 1)", "(1 + x)", "(x - 1)".
func linOf(leaf string) (linc, bool) {
	if strings.HasPrefix(leaf, "(") && strings.HasSuffix(leaf, ")") {
		in := leaf[1 : len(leaf)-1]
		for _, op := range []string{" + ", " - "} {
			if i := strings.Index(in, op); i > 0 {
				a, b := in[:i], in[i+3:]
				if n, err := strconv.ParseInt(b, 10, 64); err == nil && !strings.ContainsAny(a, "() ") {
					if op == " - " {
						n = -n
					}
					return linc{a, n}, true
				}
				if n, err := strconv.ParseInt(a, 10, 64); err == nil && op == " + " && !strings.ContainsAny(b, "() ") {
					return linc{b, n}, true
				}
			}
		}
		return linc{}, false
	}
	if strings.ContainsAny(leaf, "() ") {
		return linc{}, false
	}
	return linc{leaf, 0}, true
}

// checkAbsorb decides one non-merging clause with the residue model: the
// clause keeps one of the two locations and drops the other; what is dropped
// must denote no residue, or only residues the kept location denotes whenever
// the guard holds.
func checkAbsorb(p *core.Prog, r *core.Report, info *types.Info, fd *ast.FuncDecl, cl *ast.CaseClause, key, v, u string) {
	k := "gts.(*LocationList).Push|" + key
	pos := p.Pos(cl.Pos())
	is := clauseIf(cl)
	if is == nil {
		if n := len(cl.Body); n > 0 {
			if _, isRet := cl.Body[n-1].(*ast.ReturnStmt); isRet {
				r.Bad("PUSH-ABSORB", k, p.Pos(cl.Body[n-1].Pos()), "the clause returns whether or not its guard held: every "+key[strings.Index(key, "+")+1:]+" pushed onto a "+key[:strings.Index(key, "+")]+" is dropped instead of being linked behind it (Repair of {misc_feature 6, misc_feature 11..20} keeps only the point: residues 11..20 lose their feature)")
				return
			}
		}
		r.Und("PUSH-ABSORB", k, pos, "the clause is not a single `if cond { ...; return }`")
		return
	}
	tv, tu := key[:strings.Index(key, "+")], key[strings.Index(key, "+")+1:]
	rhs, other := dataAssign(info, is)
	if other || len(rhs) > 1 {
		r.Bad("PUSH-ABSORB", k, pos, "the clause does more than replace the held location")
		return
	}
	keptT, keptN, dropT, dropN := tv, v, tu, u
	if len(rhs) == 1 {
		if id, ok := ast.Unparen(rhs[0]).(*ast.Ident); !ok || id.Name != u {
			r.Bad("PUSH-ABSORB", k, p.Pos(rhs[0].Pos()), "the clause stores "+types.ExprString(rhs[0])+", neither the held nor the pushed location")
			return
		}
		keptT, keptN, dropT, dropN = tu, u, tv, v
	}
	dlo, dhi, ok1 := modelOf(dropT, dropN)
	klo, khi, ok2 := modelOf(keptT, keptN)
	if !ok1 || !ok2 {
		r.Und("PUSH-ABSORB", k, pos, "no residue model for "+key)
		return
	}
	s := newSym(p, info, fd.Body)
	be, ok := ast.Unparen(is.Cond).(*ast.BinaryExpr)
	if !ok || be.Op.String() != "==" {
		r.Bad("PUSH-ABSORB", k, pos, "the absorbing guard is not a single equality: "+types.ExprString(is.Cond))
		return
	}
	ls, okl := s.leaf(be.X)
	rs, okr := s.leaf(be.Y)
	l, okl2 := linOf(ls)
	rr, okr2 := linOf(rs)
	if !okl || !okr || !okl2 || !okr2 {
		r.Und("PUSH-ABSORB", k, pos, "guard not linear in the coordinates: "+types.ExprString(is.Cond))
		return
	}
	guard := ls + " == " + rs
	if dlo == dhi {
		// zero-length site: dropping it loses no residue; it must still sit at an end of the kept location
		r.Ok("PUSH-ABSORB", k, pos, "drops the zero-length "+dropT+" when "+guard)
		return
	}
	// dropped is a Point x: [x, x+1). Need klo <= x and x+1 <= khi under the guard,
	// knowing only klo < khi (or klo+1 == khi for a Point).
	// The guard relates x to one end of kept: x + a == end + b.
	var x, e linc
	switch {
	case l.base == dlo.base:
		x, e = l, rr
	case rr.base == dlo.base:
		x, e = rr, l
	default:
		r.Bad("PUSH-ABSORB", k, pos, "the guard "+guard+" does not mention the dropped "+dropT)
		return
	}
	d := e.c - x.c // x == e.base + d
	okc := false
	switch {
	case e.base == klo.base && klo.base != khi.base: // x == lo + d, need 0 <= d < hi-lo, only hi-lo >= 1 known
		okc = d-klo.c == 0
	case e.base == khi.base && klo.base != khi.base: // x == hi' + d where hi = hi' + khi.c
		okc = d-khi.c == -1
	case e.base == klo.base: // kept is a Point y: [y, y+1): need x == y
		okc = d == 0
	}
	if !okc {
		r.Bad("PUSH-ABSORB", k, pos, "when "+guard+" the dropped "+dropT+" denotes a residue that the kept "+keptT+" does not: the reduction loses a residue")
		return
	}
	r.Ok("PUSH-ABSORB", k, pos, "drops a "+dropT+" inside the kept "+keptT+" when "+guard)
}

// PushComplement decides PUSH-COMPLEMENT: two consecutive complemented members
// of a join are fused as complement(join(pushed.inner, held.inner)) - the
// reading order of the reverse strand - unconditionally.
func PushComplement(p *core.Prog, r *core.Report) {
	r.Rule("PUSH-COMPLEMENT", "the Complemented+Complemented clause of (*LocationList).Push is straight-line code that starts a list with the pushed location's inner location, pushes the held location's inner location onto it with the same force flag, and stores Complemented{Join(list...)}: join(complement(A), complement(B)) = complement(join(B, A)) whatever the coordinates", 1)
	info := p.Info(core.PkgGts)
	fd := p.FuncDecl(core.PkgGts, "LocationList.Push")
	if fd == nil || fd.Body == nil {
		r.Und("PUSH-COMPLEMENT", "gts.(*LocationList).Push|anchor", "-", "anchor-unresolved")
		return
	}
	key := "gts.(*LocationList).Push|Complemented+Complemented"
	var outer *ast.TypeSwitchStmt
	for _, st := range fd.Body.List {
		if ts, ok := st.(*ast.TypeSwitchStmt); ok {
			outer = ts
		}
	}
	if outer == nil {
		r.Und("PUSH-COMPLEMENT", key, p.Pos(fd.Pos()), "no type switch on the held location")
		return
	}
	v := switchVar(outer)
	var cl *ast.CaseClause
	for _, cc := range outer.Body.List {
		c := cc.(*ast.CaseClause)
		if ns := names(caseTypes(info, c)); len(ns) == 1 && ns[0] == "Complemented" {
			cl = c
		}
	}
	if cl == nil || len(cl.Body) != 1 {
		r.Bad("PUSH-COMPLEMENT", key, p.Pos(fd.Pos()), "no clause (of one statement) for a held Complemented")
		return
	}
	is, ok := cl.Body[0].(*ast.IfStmt)
	if !ok || is.Init == nil || is.Else != nil {
		r.Und("PUSH-COMPLEMENT", key, p.Pos(cl.Pos()), "the clause is not `if u, ok := loc.(Complemented); ok { ... }`")
		return
	}
	u := ""
	if as, ok := is.Init.(*ast.AssignStmt); ok && len(as.Lhs) == 2 {
		if id, ok := as.Lhs[0].(*ast.Ident); ok {
			u = id.Name
		}
	}
	// straight-line body
	for _, st := range is.Body.List {
		switch st.(type) {
		case *ast.AssignStmt, *ast.ExprStmt, *ast.ReturnStmt, *ast.DeclStmt:
		default:
			r.Bad("PUSH-COMPLEMENT", key, p.Pos(st.Pos()), "the clause branches: the order in which the two complemented members are fused depends on a condition (reverse-strand members are read in list order, not in coordinate order)")
			return
		}
	}
	s := newSym(p, info, is.Body)
	// the list literal and the push
	var first, second, force string
	var stored ast.Expr
	for _, st := range is.Body.List {
		switch x := st.(type) {
		case *ast.AssignStmt:
			if len(x.Rhs) == 1 {
				if cl, ok := ast.Unparen(x.Rhs[0]).(*ast.CompositeLit); ok && core.NamedOf(info.TypeOf(cl)) == core.PkgGts+".LocationList" && len(cl.Elts) >= 1 {
					e := cl.Elts[0]
					if kv, ok := e.(*ast.KeyValueExpr); ok {
						e = kv.Value
					}
					first, _ = s.leaf(e)
				}
				if sel, ok := ast.Unparen(x.Lhs[0]).(*ast.SelectorExpr); ok && sel.Sel.Name == "Data" {
					stored = x.Rhs[0]
				}
			}
		case *ast.ExprStmt:
			if c, ok := x.X.(*ast.CallExpr); ok && core.IsCallTo(info, c, core.PkgGts+".LocationList.Push") && len(c.Args) == 2 {
				second, _ = s.leaf(c.Args[0])
				force, _ = s.leaf(c.Args[1])
			}
		}
	}
	wantFirst, wantSecond := u+".Location", v+".Location"
	okStore := false
	if cl, ok := ast.Unparen(stored).(*ast.CompositeLit); ok && core.NamedOf(info.TypeOf(cl)) == core.PkgGts+".Complemented" && len(cl.Elts) == 1 {
		e := cl.Elts[0]
		if kv, ok := e.(*ast.KeyValueExpr); ok {
			e = kv.Value
		}
		if c, ok := ast.Unparen(e).(*ast.CallExpr); ok && core.IsCallTo(info, c, core.PkgGts+".Join") && c.Ellipsis.IsValid() {
			okStore = true
		}
	}
	switch {
	case first != wantFirst || second != wantSecond:
		r.Bad("PUSH-COMPLEMENT", key, p.Pos(is.Pos()), "the fused list is ["+first+", "+second+"], must be ["+wantFirst+", "+wantSecond+"]")
	case force != "force":
		r.Bad("PUSH-COMPLEMENT", key, p.Pos(is.Pos()), "the inner push does not pass the caller's force flag on")
	case !okStore:
		r.Bad("PUSH-COMPLEMENT", key, p.Pos(is.Pos()), "the clause does not store Complemented{Join(list...)}")
	default:
		r.Ok("PUSH-COMPLEMENT", key, p.Pos(is.Pos()), "complement(join("+first+", "+second+"))")
	}
}

// PartialCarry decides PARTIAL-CARRY: no coordinate method of Ranged drops
// the receiver's partial markers on any return.
func PartialCarry(p *core.Prog, r *core.Report, methods ...string) {
	r.Rule("PARTIAL-CARRY", "every return of a coordinate method of gts.Ranged hands back the receiver, a method of the receiver, a zero-length Between, or a value whose Partial is computed from the receiver's Partial (directly, or by `x.Partial = ...` under a test of it): no path rebuilds the range from its bare coordinates", len(methods))
	info := p.Info(core.PkgGts)
	for _, m := range methods {
		fn := "gts.Ranged." + m
		fd := p.FuncDecl(core.PkgGts, "Ranged."+m)
		if fd == nil || fd.Body == nil {
			r.Und("PARTIAL-CARRY", fn+"|anchor", "-", "anchor-unresolved")
			continue
		}
		r.Fn(fn)
		recv := info.Defs[fd.Recv.List[0].Names[0]]
		asg := core.Assigns(info, fd.Body)
		par := core.Parents(fd.Body)
		carry := map[types.Object]bool{}
		// whole-value or Partial mention of the receiver / a carrying variable
		var mentions func(e ast.Node) bool
		mentions = func(e ast.Node) bool {
			found := false
			ast.Inspect(e, func(n ast.Node) bool {
				if found {
					return false
				}
				switch x := n.(type) {
				case *ast.SelectorExpr:
					if o := core.ObjOf(info, x.X); o != nil && (o == recv || carry[o]) {
						if x.Sel.Name == "Start" || x.Sel.Name == "End" || x.Sel.Name == "Len" {
							return false // bare coordinates do not carry the markers
						}
						found = true
						return false
					}
				case *ast.Ident:
					if o := core.ObjOf(info, x); o != nil && (o == recv || carry[o]) {
						found = true
					}
				}
				return true
			})
			return found
		}
		for changed := true; changed; {
			changed = false
			for o, as := range asg {
				if carry[o] {
					continue
				}
				for _, a := range as {
					var e ast.Node = a.RHS
					if a.RHS == nil && a.Call != nil {
						e = a.Call
					}
					if e != nil && mentions(e) {
						carry[o], changed = true, true
					}
				}
			}
			// x.Partial = ... / x.Partial.F = ... with a carrying RHS or under a carrying condition
			ast.Inspect(fd.Body, func(n ast.Node) bool {
				as, ok := n.(*ast.AssignStmt)
				if !ok {
					return true
				}
				for i, l := range as.Lhs {
					root := rootIdent(l)
					sel, isSel := ast.Unparen(l).(*ast.SelectorExpr)
					if root == nil || !isSel || !strings.Contains(types.ExprString(sel), ".Partial") {
						continue
					}
					o := core.ObjOf(info, root)
					if o == nil || carry[o] {
						continue
					}
					c := i < len(as.Rhs) && mentions(as.Rhs[i])
					for m := par[ast.Node(as)]; m != nil && !c; m = par[m] {
						if is, ok := m.(*ast.IfStmt); ok && mentions(is.Cond) {
							c = true
						}
						if sw, ok := m.(*ast.SwitchStmt); ok && sw.Tag != nil && mentions(sw.Tag) {
							c = true
						}
					}
					if c {
						carry[o], changed = true, true
					}
				}
				return true
			})
		}
		for k, ret := range core.Returns(fd.Body) {
			key := fmt.Sprintf("%s|return#%d", fn, k+1)
			if len(ret.Results) != 1 {
				continue
			}
			e := ast.Unparen(ret.Results[0])
			if c, ok := e.(*ast.CallExpr); ok && core.IsConversion(info, c) && core.NamedOf(info.TypeOf(c)) == core.PkgGts+".Between" {
				r.Ok("PARTIAL-CARRY", key, p.Pos(ret.Pos()), "collapses to a zero-length site")
				continue
			}
			// every Ranged-valued operand of a Join/Order/literal must carry
			okAll := mentions(e)
			if c, ok := e.(*ast.CallExpr); ok && (core.IsCallTo(info, c, core.PkgGts+".Join") || core.IsCallTo(info, c, core.PkgGts+".Order")) {
				okAll = true
				for _, a := range c.Args {
					if !mentions(a) {
						okAll = false
					}
				}
			}
			if okAll {
				r.Ok("PARTIAL-CARRY", key, p.Pos(ret.Pos()), "markers come from the receiver")
			} else {
				r.Bad("PARTIAL-CARRY", key, p.Pos(ret.Pos()), "this return builds `"+types.ExprString(e)+"` from bare coordinates: a partial range that takes this path comes back complete")
			}
		}
	}
}

// pushTarget decides PUSH-TARGET: the node that is written is the node that
// was inspected.
func pushTarget(p *core.Prog, r *core.Report, info *types.Info, fd *ast.FuncDecl, outer *ast.TypeSwitchStmt) {
	key := "gts.(*LocationList).Push|stores"
	// the subject: X in `switch v := X.Data.(type)`
	var subj types.Object
	var ta *ast.TypeAssertExpr
	switch a := outer.Assign.(type) {
	case *ast.AssignStmt:
		if len(a.Rhs) == 1 {
			ta, _ = ast.Unparen(a.Rhs[0]).(*ast.TypeAssertExpr)
		}
	case *ast.ExprStmt:
		ta, _ = ast.Unparen(a.X).(*ast.TypeAssertExpr)
	}
	if ta != nil {
		if sel, ok := ast.Unparen(ta.X).(*ast.SelectorExpr); ok && sel.Sel.Name == "Data" {
			subj = core.ObjOf(info, sel.X)
		}
	}
	if subj == nil {
		r.Und("PUSH-TARGET", key, p.Pos(outer.Pos()), "the type switch is not on the Data of a node variable")
		return
	}
	n, bad := 0, 0
	ast.Inspect(fd.Body, func(nd ast.Node) bool {
		if _, ok := nd.(*ast.FuncLit); ok {
			return false
		}
		as, ok := nd.(*ast.AssignStmt)
		if !ok {
			return true
		}
		for _, l := range as.Lhs {
			sel, ok := ast.Unparen(l).(*ast.SelectorExpr)
			if !ok || (sel.Sel.Name != "Data" && sel.Sel.Name != "Next") {
				continue
			}
			o := core.ObjOf(info, sel.X)
			if o == nil || !isLocationListNode(info, sel.X) {
				continue
			}
			n++
			if o != subj {
				bad++
				r.Bad("PUSH-TARGET", fmt.Sprintf("%s#%d", key, n), p.Pos(as.Pos()), fmt.Sprintf("`%s` writes node `%s`, but the reduction looked at the Data of `%s`: with more than one node in the list the reduced pair overwrites an unrelated part (Join(1..2, 4, 4..6) becomes join(4..6,4): residues 1..2 are gone and base 4 is read after 5 and 6)", types.ExprString(l), types.ExprString(sel.X), subj.Name()))
			}
		}
		return true
	})
	if n == 0 {
		r.Und("PUSH-TARGET", key, p.Pos(fd.Pos()), "no store to .Data / .Next found in Push")
		return
	}
	if bad == 0 {
		r.Ok("PUSH-TARGET", key, p.Pos(outer.Pos()), fmt.Sprintf("%d stores, all through `%s`", n, subj.Name()))
		r.Ok("PUSH-TARGET", key+"|subject", p.Pos(outer.Pos()), "the switch inspects "+subj.Name()+".Data")
	}
}

func isLocationListNode(info *types.Info, e ast.Expr) bool {
	t := info.TypeOf(e)
	if t == nil {
		return false
	}
	if pt, ok := t.Underlying().(*types.Pointer); ok {
		t = pt.Elem()
	}
	return core.NamedOf(t) == core.PkgGts+".LocationList"
}

package conserve

import (
	"fmt"
	"go/ast"
	"go/token"
	"go/types"
	"sort"
	"strings"

	"gtsverif/core"
)

// ---------------------------------------------------------------------------
// IDENTITY-RETURN and KIND-SET over the methods of the location kinds.

// identityShortcuts: the reviewed conditions under which a coordinate method
// may hand back its receiver unchanged. Everything else must compute the result.
var identityShortcuts = map[string]string{
	"Shift":  "n == 0",
	"Expand": "n == 0",
}

// kindSets: what each coordinate method of a contiguous kind may return, by
// constructor. (The receiver itself is governed by IDENTITY-RETURN.)
var kindSets = map[string][]string{
	"Between.Reverse": {"Between"}, "Between.Normalize": {"Between"}, "Between.Expand": {"Between"}, "Between.Shift": {"call:Expand"},
	"Point.Reverse": {"Point"}, "Point.Normalize": {"Point"}, "Point.Expand": {"Between", "Point"}, "Point.Shift": {"call:Expand"},
	"Ranged.Reverse": {"Ranged", "PartialRange", "Range"}, "Ranged.Normalize": {"Ranged", "PartialRange", "Range", "Join", "call:Expand"},
	"Ranged.Shift": {"Ranged", "PartialRange", "Range", "Join", "call:Expand"}, "Ranged.Expand": {"Between", "Ranged", "PartialRange", "Range"},
	"Ambiguous.Reverse": {"Ambiguous"}, "Ambiguous.Normalize": {"Ambiguous"},
	"Ambiguous.Shift": {"Ambiguous", "Order", "call:Expand"}, "Ambiguous.Expand": {"Between", "Ambiguous"},
	// the part-wise kinds always rebuild through their reducing constructor: never the receiver (an
	// "nothing moves" shortcut presumes ascending parts), never the raw slice (abutting parts must merge)
	"Joined.Reverse": {"Join"}, "Joined.Normalize": {"Join"}, "Joined.Shift": {"Join"}, "Joined.Expand": {"Join"},
	"Ordered.Reverse": {"Order"}, "Ordered.Normalize": {"Order"}, "Ordered.Shift": {"Order"}, "Ordered.Expand": {"Order"},
}

// partWise: kinds that have no identity shortcut at all.
var partWise = map[string]bool{"Joined": true, "Ordered": true}

// LocationMethodRules decides IDENTITY-RETURN and KIND-SET.
func LocationMethodRules(p *core.Prog, r *core.Report, methods ...string) {
	r.Rule("IDENTITY-RETURN", "a coordinate method (Shift, Expand, Reverse, Normalize) of Between, Point, Ranged, Ambiguous returns its receiver unchanged only under the reviewed identity condition `n == 0` of Shift/Expand: Reverse and Normalize always compute their result (a whole-sequence range is not its own mirror image: its partial markers swap ends)", len(methods))
	r.Rule("KIND-SET", "each coordinate method of a location kind builds its result only with the constructors of the reviewed set for that method (a range that shrinks to nothing becomes a between-site; one that keeps residues stays a range with its markers: turning a one-base remainder into a Point drops the markers and the Ranged type that Repair's merge needs)", len(methods)*3)
	info := p.Info(gts)
	for _, recv := range []string{"Between", "Point", "Ranged", "Ambiguous", "Joined", "Ordered"} {
		for _, m := range methods {
			name := recv + "." + m
			fd := p.FuncDecl(gts, name)
			key := "gts." + name
			if fd == nil || fd.Body == nil {
				r.Und("KIND-SET", key+"|anchor", "-", "anchor-unresolved")
				continue
			}
			r.Fn(key)
			var recvObj types.Object
			if fd.Recv != nil && len(fd.Recv.List) == 1 && len(fd.Recv.List[0].Names) == 1 {
				recvObj = info.Defs[fd.Recv.List[0].Names[0]]
			}
			allowed := map[string]bool{}
			for _, a := range kindSets[name] {
				allowed[a] = true
			}
			asg := core.Assigns(info, fd.Body)
			par := core.Parents(fd.Body)
			badKind, badIdent := "", ""
			var badPos token.Pos
			for _, rs := range core.Returns(fd.Body) {
				if len(rs.Results) != 1 {
					continue
				}
				e := ast.Unparen(rs.Results[0])
				// the receiver itself?
				if o := core.ObjOf(info, e); o != nil && o == recvObj {
					want := identityShortcuts[m]
					if partWise[recv] {
						want = ""
					}
					ok := false
					if want != "" {
						// inside the then-branch of `if <identity condition>` (an else branch, or an else-if
						// chain such as a tagless switch spells out, does not change what the then-branch means)
						var child ast.Node = rs
						for mm := par[ast.Node(rs)]; mm != nil; child, mm = mm, par[mm] {
							if is, isIf := mm.(*ast.IfStmt); isIf && is.Init == nil && types.ExprString(ast.Unparen(is.Cond)) == want && child == ast.Node(is.Body) {
								ok = true
							}
						}
					}
					if !ok && badIdent == "" {
						badIdent = "returns the receiver unchanged"
						if want != "" {
							badIdent += " outside `if " + want + "`"
						}
						badPos = rs.Pos()
					}
					continue
				}
				// a local: look at what it was built from
				e = ast.Unparen(core.Origin(info, asg, e))
				ctor := ""
				switch x := e.(type) {
				case *ast.CompositeLit:
					ctor = strings.TrimPrefix(core.NamedOf(info.Types[x].Type), gts+".")
				case *ast.CallExpr:
					if core.IsConversion(info, x) {
						ctor = strings.TrimPrefix(core.NamedOf(info.Types[x].Type), gts+".")
					} else if fn := core.Callee(info, x); fn != nil {
						ctor = fn.Name()
						if sig, _ := fn.Type().(*types.Signature); sig != nil && sig.Recv() != nil {
							ctor = "call:" + fn.Name()
						}
					}
				case *ast.Ident:
					// a local assigned in several places (e.g. `ret := PartialRange(...)`, then ret.Partial = ...): use its definitions
					if o := core.ObjOf(info, x); o != nil {
						for _, d := range asg[o] {
							if c, ok := ast.Unparen(d.RHS).(*ast.CallExpr); ok && d.RHS != nil {
								if fn := core.Callee(info, c); fn != nil {
									ctor = fn.Name()
								}
							} else if cl, ok := ast.Unparen(d.RHS).(*ast.CompositeLit); ok && d.RHS != nil {
								ctor = strings.TrimPrefix(core.NamedOf(info.Types[cl].Type), gts+".")
							}
						}
					}
				}
				if ctor == "" || !allowed[ctor] {
					if badKind == "" {
						badKind = fmt.Sprintf("returns `%s` (built with %q), which is not in the reviewed set %v", types.ExprString(rs.Results[0]), ctor, kindSets[name])
						if badPos == token.NoPos {
							badPos = rs.Pos()
						}
					}
				}
			}
			if badIdent != "" {
				r.Bad("IDENTITY-RETURN", key, p.Pos(badPos), name+" "+badIdent+": for the locations that take this path nothing is recomputed (for Reverse: the 5'/3' markers of a whole-sequence range do not swap ends)")
			} else {
				r.Ok("IDENTITY-RETURN", key, p.Pos(fd.Pos()), "the receiver is handed back only under the reviewed identity condition")
			}
			if badKind != "" {
				r.Bad("KIND-SET", key, p.Pos(badPos), name+" "+badKind)
			} else {
				r.Ok("KIND-SET", key, p.Pos(fd.Pos()), fmt.Sprintf("results are built with %v only", kindSets[name]))
			}
		}
	}
}

// ---------------------------------------------------------------------------
// MAP-INIT: no element store into a map-typed struct field that may be nil.

// MapInit decides MAP-INIT over gts and gts/seqio: `x.F[k] = v` where F is a
// map-typed field panics when F was never made. The rule accepts a store only
// when the same function assigns the field a map (make or literal) on every
// path to the store, or when the base is a local map variable.
func MapInit(p *core.Prog, r *core.Report) {
	r.Rule("MAP-INIT", "an element store `x.F[k] = v` into a map-typed struct field is dominated, in the same function, by an assignment of a fresh map to that field (or the whole map is assigned instead of one element): a record field such as Reference.Xref is nil until something makes it, and a store into a nil map panics (a sub-field line that comes first in the file would crash the reader)", 0)
	n := 0
	for _, pkg := range []string{core.PkgGts, core.PkgSeqio} {
		info := p.Info(pkg)
		for _, fd := range p.FuncDecls(pkg) {
			if fd.Body == nil {
				continue
			}
			name := core.Short(pkg) + "." + core.DeclName(fd)
			k := 0
			ast.Inspect(fd.Body, func(nd ast.Node) bool {
				as, ok := nd.(*ast.AssignStmt)
				if !ok {
					return true
				}
				for _, l := range as.Lhs {
					ix, ok := ast.Unparen(l).(*ast.IndexExpr)
					if !ok {
						continue
					}
					tv, ok := info.Types[ix.X]
					if !ok || tv.Type == nil {
						continue
					}
					if _, isMap := tv.Type.Underlying().(*types.Map); !isMap {
						continue
					}
					se, isSel := ast.Unparen(ix.X).(*ast.SelectorExpr)
					if !isSel || info.Selections[se] == nil {
						continue // a local or package-level map variable
					}
					n++
					k++
					key := fmt.Sprintf("%s|map-store#%d(%s)", name, k, se.Sel.Name)
					// a dominating assignment of the same field expression from make / a literal
					body := enclosingFuncBody(fd, as)
					fl := core.NewFlow(info, body)
					want := types.ExprString(ast.Unparen(ix.X))
					inits := func(m ast.Node) bool {
						a2, ok := m.(*ast.AssignStmt)
						if !ok || len(a2.Lhs) != len(a2.Rhs) {
							return false
						}
						for i, l2 := range a2.Lhs {
							if types.ExprString(ast.Unparen(l2)) != want {
								continue
							}
							switch x := ast.Unparen(a2.Rhs[i]).(type) {
							case *ast.CompositeLit:
								return true
							case *ast.CallExpr:
								if core.IsBuiltin(info, x, "make") {
									return true
								}
							}
						}
						return false
					}
					reached := false
					core.Scan(fl, fl.Entry(), 0, core.Stepper[int]{
						Node: func(s int, m ast.Node) (int, bool) {
							if inits(m) {
								return s, true
							}
							if m == ast.Node(as) {
								reached = true
								return s, true
							}
							return s, false
						},
					})
					if reached {
						r.Bad("MAP-INIT", key, p.Pos(as.Pos()), fmt.Sprintf("`%s` stores into the map field %s, which can still be nil here (no path-covering `%s = make(...)`/literal before it in %s): the store panics with `assignment to entry in nil map`", types.ExprString(l), se.Sel.Name, want, name))
					} else {
						r.Ok("MAP-INIT", key, p.Pos(as.Pos()), "the field is made on every path before the store")
					}
				}
				return true
			})
		}
	}
	r.Ok("MAP-INIT", "gts+seqio|scan", "-", fmt.Sprintf("%d element store(s) into map-typed fields", n))
}

// enclosingFuncBody: the body of the innermost function literal of fd that contains n, or fd's body.
func enclosingFuncBody(fd *ast.FuncDecl, n ast.Node) *ast.BlockStmt {
	body := fd.Body
	ast.Inspect(fd.Body, func(m ast.Node) bool {
		if fl, ok := m.(*ast.FuncLit); ok && fl.Body.Pos() <= n.Pos() && n.End() <= fl.Body.End() {
			body = fl.Body
		}
		return true
	})
	return body
}

// ---------------------------------------------------------------------------
// FLUSH-ALL: what a command writes through its buffered writer reaches the output.

// FlushAll decides FLUSH-ALL over the commands that write records.
func FlushAll(p *core.Prog, r *core.Report, cmds []string, floor int) {
	r.Rule("FLUSH-ALL", "in a command that writes records through a bufio.Writer, every path from a WriteSeq call to a successful return (`return nil`) passes a Flush of that buffer: a record written on a path that skips the flush stays in the buffer (if it is the last one it never reaches the output)", floor)
	info := p.Info(core.PkgMain)
	for _, cmd := range cmds {
		fd := p.CommandFunc(cmd)
		key := "main." + cmd
		if fd == nil || fd.Body == nil {
			r.Und("FLUSH-ALL", key+"|anchor", "-", "anchor-unresolved")
			continue
		}
		r.Fn(key)
		// the buffered writer: a local of type *bufio.Writer
		var buf types.Object
		for o := range core.Assigns(info, fd.Body) {
			if core.NamedOf(o.Type()) == "bufio.Writer" {
				buf = o
			}
		}
		var writes []*ast.CallExpr
		for _, c := range core.Calls(fd.Body) {
			if fn := core.Callee(info, c); fn != nil && fn.Name() == "WriteSeq" {
				writes = append(writes, c)
			}
		}
		if buf == nil || len(writes) == 0 {
			r.Note("FLUSH-ALL", key, p.Pos(fd.Pos()), "no buffered record writer in this command")
			continue
		}
		fl := core.NewFlow(info, fd.Body)
		isFlush := func(n ast.Node) bool {
			for _, c := range core.NodeCalls(n) {
				if se, ok := ast.Unparen(c.Fun).(*ast.SelectorExpr); ok && se.Sel.Name == "Flush" && core.ObjOf(info, se.X) == buf {
					return true
				}
			}
			return false
		}
		bad := token.NoPos
		var badW *ast.CallExpr
		for _, w := range writes {
			for _, exit := range fl.MustPass(fl.Find(w), isFlush) {
				rs, ok := exit.(*ast.ReturnStmt)
				if !ok || len(rs.Results) == 0 || core.IsNil(info, rs.Results[len(rs.Results)-1]) {
					if bad == token.NoPos {
						bad, badW = exit.Pos(), w
					}
				}
			}
		}
		if bad != token.NoPos {
			r.Bad("FLUSH-ALL", key, p.Pos(badW.Pos()), fmt.Sprintf("the record written here can reach the successful return at %s without `%s.Flush()`: its bytes stay in the buffer", p.Pos(bad), buf.Name()))
		} else {
			r.Ok("FLUSH-ALL", key, p.Pos(fd.Pos()), fmt.Sprintf("%d write(s), each flushed before a successful return", len(writes)))
		}
	}
}

// sortedNames is a small helper for deterministic messages.
func sortedNames(m map[string]bool) []string {
	var out []string
	for k := range m {
		out = append(out, k)
	}
	sort.Strings(out)
	return out
}

// ---------------------------------------------------------------------------
// NO-EARLY-EXIT: no return before the main computation of a function.

// NoEarlyExit decides NO-EARLY-EXIT for one function. marker "last" = the last
// top-level statement of the body; "for" = the last top-level for/range loop.
// Every return statement must lie at or after the marker: a "fast path" that
// leaves before it skips steps the general path performs for the same input.
func NoEarlyExit(p *core.Prog, r *core.Report, pkg, name, marker, why string) {
	r.Rule("NO-EARLY-EXIT", "the named functions have no return before their main computation (Repair: the grouping and merging pass; Regions.Resize: the walks that carry the offsets across the segments): a shortcut that leaves early decides the result from a cheaper test than the general path uses", 1)
	info := p.Info(pkg)
	fd := p.FuncDecl(pkg, name)
	key := core.Short(pkg) + "." + name
	if fd == nil || fd.Body == nil || len(fd.Body.List) == 0 {
		r.Und("NO-EARLY-EXIT", key+"|anchor", "-", "anchor-unresolved")
		return
	}
	_ = info
	r.Fn(key)
	idx := len(fd.Body.List) - 1
	if marker == "for" {
		idx = -1
		for i, st := range fd.Body.List {
			switch st.(type) {
			case *ast.ForStmt, *ast.RangeStmt:
				idx = i
			}
		}
		if idx < 0 {
			r.Und("NO-EARLY-EXIT", key, p.Pos(fd.Pos()), "no top-level loop found")
			return
		}
	}
	for i := 0; i < idx; i++ {
		if rs := core.Returns(fd.Body.List[i]); len(rs) > 0 {
			r.Bad("NO-EARLY-EXIT", key, p.Pos(rs[0].Pos()), name+" returns before "+why+": the inputs that take this exit skip it")
			return
		}
	}
	r.Ok("NO-EARLY-EXIT", key, p.Pos(fd.Pos()), "every return lies behind "+why)
}

// ---------------------------------------------------------------------------
// PARSE-REJECT: the simple location parsers reject only what cannot be printed.

// ParseReject decides PARSE-REJECT: in the hand-written parsers of the simple
// location kinds an error that depends on the VALUES parsed (as opposed to a
// failed sub-parser, a missing byte or a literal mismatch) exists only where
// the printer cannot produce the rejected text: parseBetween's adjacency test.
func ParseReject(p *core.Prog, r *core.Report) {
	r.Rule("PARSE-REJECT", "parseRange, parseAmbiguous, parseBetween, parseJoin, parseOrder and the complement parser return an error that is conditional on a comparison of parsed numbers only in parseBetween (`start+1 != end`: Between prints g^g+1 and nothing else); every other location value prints as text its parser must accept (Ambiguous{n-1,n} prints n.n)", 5)
	info := p.Info(gts)
	for _, name := range []string{"parseRange", "parseAmbiguous", "parseBetween", "parseJoin", "parseOrder", "parseComplement"} {
		fd := p.FuncDecl(gts, name)
		key := "gts." + name
		if fd == nil || fd.Body == nil {
			r.Und("PARSE-REJECT", key+"|anchor", "-", "anchor-unresolved")
			continue
		}
		r.Fn(key)
		// locals holding parsed integers: defined from result.Value.(int), possibly +/- a constant
		parsed := map[types.Object]bool{}
		for o, defs := range core.Assigns(info, fd.Body) {
			for _, d := range defs {
				if d.RHS == nil {
					continue
				}
				hasAssert := false
				ast.Inspect(d.RHS, func(n ast.Node) bool {
					if ta, ok := n.(*ast.TypeAssertExpr); ok {
						if b, isB := info.Types[ta].Type.Underlying().(*types.Basic); isB && b.Info()&types.IsInteger != 0 {
							hasAssert = true
						}
					}
					return true
				})
				if hasAssert {
					parsed[o] = true
				}
			}
		}
		n := 0
		var bad *ast.IfStmt
		ast.Inspect(fd.Body, func(nd ast.Node) bool {
			is, ok := nd.(*ast.IfStmt)
			if !ok {
				return true
			}
			uses := false
			for o := range parsed {
				if core.UsesObj(info, is.Cond, o) {
					uses = true
				}
			}
			if !uses {
				return true
			}
			// does the body return a non-nil error?
			for _, rs := range core.Returns(is.Body) {
				if len(rs.Results) == 1 && !core.IsNil(info, rs.Results[0]) {
					n++
					if name != "parseBetween" && bad == nil {
						bad = is
					}
				}
			}
			return true
		})
		switch {
		case bad != nil:
			r.Bad("PARSE-REJECT", key, p.Pos(bad.Pos()), name+" rejects input depending on the numbers it parsed (`"+types.ExprString(bad.Cond)+"`): a location value whose printed form falls under the test no longer parses back (and the alternation then reads a prefix of the text as another location)")
		case name == "parseBetween" && n != 1:
			r.Bad("PARSE-REJECT", key, p.Pos(fd.Pos()), fmt.Sprintf("parseBetween has %d value-dependent rejections, the reviewed one is the adjacency test", n))
		default:
			r.Ok("PARSE-REJECT", key, p.Pos(fd.Pos()), "no value-dependent rejection beyond the reviewed one")
		}
	}
}

// ---------------------------------------------------------------------------
// LESS-UNWRAP: the function that LocationLess applies to the parts of a
// multi-part location looks through complement(...) itself.

// LessUnwrap decides LESS-UNWRAP.
func LessUnwrap(p *core.Prog, r *core.Report) {
	r.Rule("LESS-UNWRAP", "the function that the location order applies to the parts of a join/order (the callee of the calls inside the loops over slice()) itself unwraps Complemented on both operands before anything else: a part may carry the strand individually, join(complement(a..b),c..d)", 1)
	info := p.Info(gts)
	fd := p.FuncDecl(gts, "LocationLess")
	key := "gts.LocationLess"
	if fd == nil || fd.Body == nil {
		r.Und("LESS-UNWRAP", key+"|anchor", "-", "anchor-unresolved")
		return
	}
	// follow to the function that recurses over the parts
	seen := map[*ast.FuncDecl]bool{}
	var partFn *ast.FuncDecl
	var find func(d *ast.FuncDecl)
	find = func(d *ast.FuncDecl) {
		if d == nil || d.Body == nil || seen[d] || partFn != nil {
			return
		}
		seen[d] = true
		ast.Inspect(d.Body, func(n ast.Node) bool {
			rs, ok := n.(*ast.RangeStmt)
			if !ok || rs.Value == nil {
				return true
			}
			for _, c := range core.Calls(rs.Body) {
				if fn := core.Callee(info, c); fn != nil && fn.Pkg() != nil && fn.Pkg().Path() == gts {
					for _, a := range c.Args {
						if core.ObjOf(info, a) == core.ObjOf(info, rs.Value) {
							partFn = p.FuncDecl(gts, fn.Name())
						}
					}
				}
			}
			return true
		})
		if partFn == nil {
			for _, c := range core.Calls(d.Body) {
				if fn := core.Callee(info, c); fn != nil && fn.Pkg() != nil && fn.Pkg().Path() == gts && fn.Name() != d.Name.Name {
					find(p.FuncDecl(gts, fn.Name()))
				}
			}
		}
	}
	find(fd)
	if partFn == nil {
		r.Und("LESS-UNWRAP", key, p.Pos(fd.Pos()), "no function applied to the parts of a multi-part location found")
		return
	}
	r.Fn("gts." + partFn.Name.Name)
	// both parameters are type-asserted to Complemented inside partFn
	ps := paramObjs(info, partFn)
	got := map[types.Object]bool{}
	ast.Inspect(partFn.Body, func(n ast.Node) bool {
		ta, ok := n.(*ast.TypeAssertExpr)
		if !ok || ta.Type == nil {
			return true
		}
		if strings.HasSuffix(core.NamedOf(info.Types[ta.Type].Type), ".Complemented") {
			got[core.ObjOf(info, ta.X)] = true
		}
		return true
	})
	missing := ""
	for i, o := range ps {
		if i < 2 && !got[o] {
			missing += " " + o.Name()
		}
	}
	if missing != "" {
		r.Bad("LESS-UNWRAP", key, p.Pos(partFn.Pos()), partFn.Name.Name+", which orders the parts of a multi-part location, does not look through complement(...) on operand(s)"+missing+": a complemented part is neither a list nor a contiguous location there, so it compares as greater than everything and sorted insertion goes wrong for join(complement(a..b),c..d)")
	} else {
		r.Ok("LESS-UNWRAP", key, p.Pos(partFn.Pos()), partFn.Name.Name+" unwraps Complemented on both operands")
	}
}

// ---------------------------------------------------------------------------
// LOC-WHOLE: a bare location in a locator is the whole string.

// LocWhole decides LOC-WHOLE on gts.tryLocation: the parser it applies to the
// locator string is anchored at both ends (pars.Exact, or a sequence that ends
// in pars.End), as AsModifier's is. Otherwise a selector that merely starts
// like a location - the feature keys 5'UTR and 3'UTR - is taken for the point
// 5 or 3 and the selector is never tried.
func LocWhole(p *core.Prog, r *core.Report) {
	r.Rule("LOC-WHOLE", "in gts.tryLocation the parser whose Parse is applied to the locator string is built with pars.Exact (or ends in pars.End): a bare location must be the whole string, so that `5'UTR` falls through to the selector", 1)
	info := p.Info(gts)
	fd := p.FuncDecl(gts, "tryLocation")
	key := "gts.tryLocation"
	if fd == nil || fd.Body == nil {
		r.Und("LOC-WHOLE", key+"|anchor", "-", "anchor-unresolved")
		return
	}
	r.Fn(key)
	asg := core.Assigns(info, fd.Body)
	n := 0
	for _, c := range core.Calls(fd.Body) {
		fn := core.Callee(info, c)
		if fn == nil || fn.Name() != "Parse" || fn.Pkg() == nil || !strings.HasSuffix(fn.Pkg().Path(), "go-pars/pars") {
			continue
		}
		se, ok := ast.Unparen(c.Fun).(*ast.SelectorExpr)
		if !ok {
			continue
		}
		n++
		anchored := false
		var visit func(e ast.Expr, depth int)
		visit = func(e ast.Expr, depth int) {
			if depth > 4 || anchored {
				return
			}
			e = ast.Unparen(e)
			ast.Inspect(e, func(m ast.Node) bool {
				switch x := m.(type) {
				case *ast.CallExpr:
					if core.IsCallTo(info, x, "github.com/go-pars/pars.Exact") {
						anchored = true
					}
				case *ast.SelectorExpr:
					if o, ok := info.Uses[x.Sel].(*types.Func); ok && o.Name() == "End" && o.Pkg() != nil && strings.HasSuffix(o.Pkg().Path(), "go-pars/pars") {
						anchored = true
					}
				}
				return !anchored
			})
			if id, ok := e.(*ast.Ident); ok && !anchored {
				if o := core.ObjOf(info, id); o != nil {
					// the LAST definition before the call decides (`parser = pars.Any(...)` after `var parser`)
					var last ast.Expr
					for _, d := range asg[o] {
						if d.RHS != nil && d.Pos < c.Pos() {
							last = d.RHS
						}
					}
					if last != nil {
						visit(last, depth+1)
					}
				}
			}
		}
		visit(se.X, 0)
		if anchored {
			r.Ok("LOC-WHOLE", key, p.Pos(c.Pos()), "the location parser must consume the whole string")
		} else {
			r.Bad("LOC-WHOLE", key, p.Pos(c.Pos()), "tryLocation accepts a string that merely STARTS with a location: AsLocator(\"5'UTR\") is the point 5 and AsLocator(\"3..6foo\") the range 3..6; the selector for the feature key 5'UTR is never tried")
		}
	}
	if n == 0 {
		r.Und("LOC-WHOLE", key, p.Pos(fd.Pos()), "no Parse call found")
	}
}

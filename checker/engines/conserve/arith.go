package conserve

import (
	"fmt"
	"go/ast"
	"go/token"
	"go/types"
	"sort"
	"strings"

	"gtsverif/core"
)

// linear form over canonical atoms: sum(coef*atom) + c.
type linform struct {
	t  map[string]int64
	c  int64
	ok bool
}

func (s *sym) linear(e ast.Expr) linform {
	e = ast.Unparen(e)
	if tv, ok := s.info.Types[e]; ok && tv.Value != nil {
		if v, ok := core.ConstInt(s.info, e); ok {
			return linform{t: map[string]int64{}, c: v, ok: true}
		}
	}
	switch x := e.(type) {
	case *ast.BinaryExpr:
		if x.Op == token.ADD || x.Op == token.SUB {
			l, r := s.linear(x.X), s.linear(x.Y)
			if !l.ok || !r.ok {
				return linform{}
			}
			sign := int64(1)
			if x.Op == token.SUB {
				sign = -1
			}
			out := linform{t: map[string]int64{}, c: l.c + sign*r.c, ok: true}
			for k, v := range l.t {
				out.t[k] += v
			}
			for k, v := range r.t {
				out.t[k] += sign * v
			}
			for k, v := range out.t {
				if v == 0 {
					delete(out.t, k)
				}
			}
			return out
		}
	case *ast.CallExpr:
		if core.IsConversion(s.info, x) && len(x.Args) == 1 {
			return s.linear(x.Args[0])
		}
	case *ast.Ident:
		obj := core.ObjOf(s.info, x)
		if a, ok := s.bind[obj]; ok {
			return a.env.linear(a.e)
		}
		if as := s.asg[obj]; len(as) == 1 && as[0].RHS != nil {
			if _, isRange := as[0].Node.(*ast.RangeStmt); !isRange {
				return s.linear(as[0].RHS)
			}
		}
	}
	l, ok := s.leaf(e)
	if !ok {
		return linform{}
	}
	return linform{t: map[string]int64{l: 1}, ok: true}
}

func (l linform) String() string {
	if !l.ok {
		return "?"
	}
	var ks []string
	for k := range l.t {
		ks = append(ks, k)
	}
	sort.Strings(ks)
	var b []string
	for _, k := range ks {
		b = append(b, fmt.Sprintf("%+d*%s", l.t[k], k))
	}
	b = append(b, fmt.Sprintf("%+d", l.c))
	return strings.Join(b, " ")
}

func (l linform) is(c int64, terms map[string]int64) bool {
	if !l.ok || l.c != c || len(l.t) != len(terms) {
		return false
	}
	for k, v := range terms {
		if l.t[k] != v {
			return false
		}
	}
	return true
}

// coordsOf resolves the coordinate operands of the single value a method
// returns: a conversion T(x), a literal T{a, b, ...} or a constructor call.
func coordsOf(info *types.Info, e ast.Expr) []ast.Expr {
	e = ast.Unparen(e)
	switch x := e.(type) {
	case *ast.CallExpr:
		if core.IsConversion(info, x) && len(x.Args) == 1 {
			return []ast.Expr{x.Args[0]}
		}
		if len(x.Args) >= 2 {
			return x.Args[:2]
		}
	case *ast.CompositeLit:
		var out []ast.Expr
		for i, el := range x.Elts {
			if i >= 2 {
				break
			}
			if kv, ok := el.(*ast.KeyValueExpr); ok {
				el = kv.Value
			}
			out = append(out, el)
		}
		return out
	}
	return nil
}

// MirrorArith decides MIRROR-ARITH: the Reverse method of each simple location
// type maps boundaries (offsets between residues) x to L-x and residue indices
// p to L-1-p.
func MirrorArith(p *core.Prog, r *core.Report) {
	r.Rule("MIRROR-ARITH", "Reverse(L) of the simple location types is the mirror map: a boundary offset x (Between, the Start and End of Ranged and Ambiguous, which swap) goes to L-x, a residue index p (Point) to L-1-p; decided by resolving the returned coordinates to linear forms", 6)
	info := p.Info(core.PkgGts)
	type want struct {
		c     int64
		field string // receiver field ("" = the receiver itself)
	}
	specs := []struct {
		T     string
		wants []want
	}{
		{"Between", []want{{0, ""}}},
		{"Point", []want{{-1, ""}}},
		{"Ranged", []want{{0, "End"}, {0, "Start"}}},
		{"Ambiguous", []want{{0, "End"}, {0, "Start"}}},
	}
	for _, sp := range specs {
		fn := "gts." + sp.T + ".Reverse"
		fd := p.FuncDecl(core.PkgGts, sp.T+".Reverse")
		if fd == nil || fd.Body == nil {
			r.Und("MIRROR-ARITH", fn+"|anchor", "-", "anchor-unresolved")
			continue
		}
		r.Fn(fn)
		recv := fd.Recv.List[0].Names[0].Name
		length := ""
		for _, f := range fd.Type.Params.List {
			for _, nm := range f.Names {
				length = nm.Name
			}
		}
		s := newSym(p, info, fd.Body)
		// the value whose coordinates are returned: the last return, through a single-definition local
		rets := core.Returns(fd.Body)
		if len(rets) == 0 || len(rets[len(rets)-1].Results) != 1 {
			r.Und("MIRROR-ARITH", fn, p.Pos(fd.Pos()), "no single returned value")
			continue
		}
		e := rets[len(rets)-1].Results[0]
		if id, ok := ast.Unparen(e).(*ast.Ident); ok {
			o := core.ObjOf(info, id)
			var first *core.Assign
			for i := range s.asg[o] {
				a := &s.asg[o][i]
				if a.RHS != nil && (first == nil || a.Pos < first.Pos) {
					first = a
				}
			}
			if first != nil {
				e = first.RHS
			}
		}
		cs := coordsOf(info, e)
		if len(cs) != len(sp.wants) {
			r.Und("MIRROR-ARITH", fn, p.Pos(e.Pos()), "cannot find the returned coordinates in `"+types.ExprString(e)+"`")
			continue
		}
		for i, w := range sp.wants {
			atom := recv
			name := "position"
			if w.field != "" {
				atom = recv + "." + w.field
				name = []string{"Start", "End"}[i]
			}
			key := fn + "|" + name
			got := s.linear(cs[i])
			if got.is(w.c, map[string]int64{length: 1, atom: -1}) {
				r.Ok("MIRROR-ARITH", key, p.Pos(cs[i].Pos()), got.String())
			} else {
				wantS := fmt.Sprintf("+1*%s -1*%s %+d", length, atom, w.c)
				r.Bad("MIRROR-ARITH", key, p.Pos(cs[i].Pos()), "the reversed "+name+" is "+got.String()+", the mirror map requires "+wantS+": the location lands one position away from the mirrored residues")
			}
		}
	}
}

// NormalizeArith decides NORMALIZE-ARITH: on a circular sequence of length L
// an exclusive end e is reduced to (e-1) mod L + 1 (so that e == L stays L)
// and a start or index s to s mod L, for Ranged and Ambiguous alike.
func NormalizeArith(p *core.Prog, r *core.Report) {
	r.Rule("NORMALIZE-ARITH", "Normalize(L) of the interval types reduces the start to Start % L and the exclusive end to (End-1) % L + 1 (an end equal to L stays L instead of becoming 0); Ranged and Ambiguous, which are both [Start, End), use the same two formulas", 4)
	info := p.Info(core.PkgGts)
	for _, T := range []string{"Ranged", "Ambiguous"} {
		fn := "gts." + T + ".Normalize"
		fd := p.FuncDecl(core.PkgGts, T+".Normalize")
		if fd == nil || fd.Body == nil {
			r.Und("NORMALIZE-ARITH", fn+"|anchor", "-", "anchor-unresolved")
			continue
		}
		r.Fn(fn)
		recv := fd.Recv.List[0].Names[0].Name
		length := fd.Type.Params.List[0].Names[0].Name
		s := newSym(p, info, fd.Body)
		wantStart := "(" + recv + ".Start % " + length + ")"
		wantEnd := "(1 + ((" + recv + ".End - 1) % " + length + "))"
		wantEnd2 := "(((" + recv + ".End - 1) % " + length + ") + 1)"
		// every `%` expression in the body must be one of the two forms, and both must occur
		var seenStart, seenEnd bool
		bad := ""
		var badPos token.Pos
		par := core.Parents(fd.Body)
		ast.Inspect(fd.Body, func(n ast.Node) bool {
			be, ok := n.(*ast.BinaryExpr)
			if !ok || be.Op != token.REM {
				return true
			}
			// take the enclosing `+ 1` if there is one
			var top ast.Expr = be
			for m := par[ast.Node(be)]; m != nil; m = par[m] {
				if pe, ok := m.(*ast.ParenExpr); ok {
					top = pe
					continue
				}
				if pb, ok := m.(*ast.BinaryExpr); ok && pb.Op == token.ADD {
					top = pb
				}
				break
			}
			l, ok := s.leaf(top)
			if !ok {
				bad, badPos = "unresolvable modular expression", be.Pos()
				return true
			}
			switch l {
			case wantStart:
				seenStart = true
			case wantEnd, wantEnd2:
				seenEnd = true
			default:
				bad, badPos = "`"+types.ExprString(top)+"` is neither Start % L nor (End-1) % L + 1", be.Pos()
			}
			return true
		})
		switch {
		case bad != "":
			r.Bad("NORMALIZE-ARITH", fn, p.Pos(badPos), bad+": an interval that ends exactly at the last residue (End == L) gets end 0, or a start is shifted")
		case !seenStart || !seenEnd:
			r.Bad("NORMALIZE-ARITH", fn, p.Pos(fd.Pos()), fmt.Sprintf("the start formula is present: %v, the end formula is present: %v", seenStart, seenEnd))
		default:
			r.Ok("NORMALIZE-ARITH", fn+"|Start", p.Pos(fd.Pos()), wantStart)
			r.Ok("NORMALIZE-ARITH", fn+"|End", p.Pos(fd.Pos()), wantEnd)
		}
	}
}

package conserve

import (
	"fmt"
	"go/ast"
	"go/token"
	"go/types"

	"gtsverif/core"
)

// staleUse is a read of a local variable whose single definition depends on
// another variable that was assigned between that definition and the read.
type staleUse struct {
	use  *ast.Ident
	def  token.Pos
	dep  types.Object
	asgn token.Pos
}

// staleUses finds, in one function body, reads of single-definition locals of
// basic type (numbers, booleans, strings) whose defining expression mentions a
// variable that is re-assigned at a source position between the definition and
// the read. Loop-carried re-assignments count when the loop contains both.
func staleUses(info *types.Info, body *ast.BlockStmt) []staleUse {
	asg := core.Assigns(info, body)
	// every syntactic write of a variable (assign, define, inc/dec, range)
	writes := map[types.Object][]token.Pos{}
	ast.Inspect(body, func(n ast.Node) bool {
		switch s := n.(type) {
		case *ast.AssignStmt:
			for _, l := range s.Lhs {
				if id, ok := ast.Unparen(l).(*ast.Ident); ok {
					if o := core.ObjOf(info, id); o != nil {
						writes[o] = append(writes[o], s.End())
					}
				}
			}
		case *ast.IncDecStmt:
			if o := core.ObjOf(info, s.X); o != nil {
				writes[o] = append(writes[o], s.End())
			}
		case *ast.RangeStmt:
			for _, e := range []ast.Expr{s.Key, s.Value} {
				if e != nil {
					if o := core.ObjOf(info, e); o != nil {
						writes[o] = append(writes[o], s.End())
					}
				}
			}
		}
		return true
	})
	var out []staleUse
	for o, defs := range asg {
		if len(defs) != 1 || defs[0].RHS == nil {
			continue
		}
		if _, isRange := defs[0].Node.(*ast.RangeStmt); isRange {
			continue
		}
		bt, ok := o.Type().Underlying().(*types.Basic)
		if !ok || bt.Info()&(types.IsNumeric|types.IsBoolean|types.IsString) == 0 {
			continue
		}
		def := defs[0]
		// variables the definition reads
		var deps []types.Object
		ast.Inspect(def.RHS, func(n ast.Node) bool {
			if id, ok := n.(*ast.Ident); ok {
				if v, ok := info.Uses[id].(*types.Var); ok && !v.IsField() && v.Pkg() != nil && v.Parent() != v.Pkg().Scope() && v != o {
					deps = append(deps, v)
				}
			}
			return true
		})
		if len(deps) == 0 {
			continue
		}
		ast.Inspect(body, func(n ast.Node) bool {
			id, ok := n.(*ast.Ident)
			if !ok || info.Uses[id] != o || id.Pos() <= def.Pos {
				return true
			}
			for _, d := range deps {
				for _, w := range writes[d] {
					if w > def.Pos && w < id.Pos() && onPath(info, body, def.Node, w, id) {
						out = append(out, staleUse{id, def.Pos, d, w})
						return true
					}
				}
			}
			return true
		})
	}
	return out
}

// onPath: some control-flow path runs from the definition through the write
// (a statement ending at position w) to the read, without passing the
// definition again in between.
func onPath(info *types.Info, body *ast.BlockStmt, def ast.Node, w token.Pos, use *ast.Ident) bool {
	f := core.NewFlow(info, body)
	from := f.Find(def)
	if !from.Valid() {
		return true // closures and other shapes the graph does not show: keep the syntactic verdict
	}
	useLoc := f.Find(use)
	if !useLoc.Valid() {
		return true
	}
	hit := false
	core.Scan(f, from, 0, core.Stepper[int]{
		Node: func(s int, n ast.Node) (int, bool) {
			if n.Pos() <= def.Pos() && def.End() <= n.End() {
				return 0, true // the definition is executed again: a fresh value
			}
			if s == 1 && n.Pos() <= use.Pos() && use.End() <= n.End() {
				hit = true
				return s, true
			}
			if n.Pos() < w && w <= n.End() {
				// the write completes with this node; a read inside the same node happened before it
				return 1, false
			}
			return s, false
		},
	})
	return hit
}

// StaleGuard decides STALE-VALUE over the command functions of cmd/gts.
func StaleGuard(p *core.Prog, r *core.Report, cmds []string) {
	r.Rule("STALE-VALUE", "in a multi-site command no number/boolean/string local is read after a variable its (single) defining expression depends on has been re-assigned: a test such as `len(rr) == 1` hoisted above `rr = InvertLinear(rr, n)` describes the located regions, not the list that is emitted", len(cmds))
	info := p.Info(core.PkgMain)
	for _, cmd := range cmds {
		fd := p.CommandFunc(cmd)
		key := "main." + cmd
		if fd == nil || fd.Body == nil {
			r.Und("STALE-VALUE", key+"|anchor", "-", "anchor-unresolved")
			continue
		}
		r.Fn(key)
		us := staleUses(info, fd.Body)
		if len(us) == 0 {
			r.Ok("STALE-VALUE", key, p.Pos(fd.Pos()), "no local outlives the variables it was computed from")
			continue
		}
		seen := map[types.Object]bool{}
		for _, u := range us {
			o := info.Uses[u.use]
			if seen[o] {
				continue
			}
			seen[o] = true
			r.Bad("STALE-VALUE", key+"|"+u.use.Name, p.Pos(u.use.Pos()), fmt.Sprintf("`%s` was computed at %s from `%s`, which is re-assigned at %s before this read: the value describes the old `%s`", u.use.Name, p.Pos(u.def), u.dep.Name(), p.Pos(u.asgn), u.dep.Name()))
		}
	}
}

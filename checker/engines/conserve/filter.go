package conserve

import (
	"go/ast"
	"go/types"

	"gtsverif/core"
)

// FilterRule decides FILTER on FeatureSlice.Filter: one pass in table order, an
// element is kept exactly on the true edge of the un-negated filter call, and
// elements are copied unmodified.
func FilterRule(p *core.Prog, r *core.Report) {
	r.Rule("FILTER", "FeatureSlice.Filter ranges once over the receiver, calls the filter on the element (itself or NewFeature of its three fields), keeps the element exactly on the true edge of that un-negated call, has no other exit from the loop, and returns the kept elements unmodified in table order", 3)
	info := p.Info(core.PkgGts)
	fd := p.FuncDecl(core.PkgGts, "FeatureSlice.Filter")
	fn := "gts.FeatureSlice.Filter"
	if fd == nil || fd.Body == nil {
		r.Und("FILTER", fn+"|anchor", "-", "anchor-unresolved")
		return
	}
	r.Fn(fn)
	recv := info.Defs[fd.Recv.List[0].Names[0]]
	var filt types.Object
	for _, f := range fd.Type.Params.List {
		for _, n := range f.Names {
			filt = info.Defs[n]
		}
	}
	var loop *ast.RangeStmt
	nLoops := 0
	for _, s := range fd.Body.List {
		if rs, ok := s.(*ast.RangeStmt); ok && core.ObjOf(info, rs.X) == recv {
			loop = rs
			nLoops++
		}
	}
	if loop == nil || nLoops != 1 || loop.Key == nil || loop.Value == nil {
		r.Und("FILTER", fn+"|pass", p.Pos(fd.Pos()), "no single `for i, f := range <receiver>` loop")
		return
	}
	r.Ok("FILTER", fn+"|pass", p.Pos(loop.Pos()), "one pass over the receiver in table order")
	iObj, fObj := core.ObjOf(info, loop.Key), core.ObjOf(info, loop.Value)
	if len(loop.Body.List) != 1 {
		r.Und("FILTER", fn+"|keep", p.Pos(loop.Pos()), "loop body is not a single if statement")
		return
	}
	is, ok := loop.Body.List[0].(*ast.IfStmt)
	if !ok || is.Else != nil || is.Init != nil {
		r.Und("FILTER", fn+"|keep", p.Pos(loop.Pos()), "loop body is not a plain `if filter(...) { keep }`")
		return
	}
	call, ok := ast.Unparen(is.Cond).(*ast.CallExpr)
	if !ok || core.ObjOf(info, call.Fun) != filt || len(call.Args) != 1 {
		r.Bad("FILTER", fn+"|keep", p.Pos(is.Pos()), "the keep condition is not the un-negated filter call: features are kept when the filter rejects them, or on an unrelated condition")
		return
	}
	isElem := func(e ast.Expr) bool {
		e = ast.Unparen(e)
		if core.ObjOf(info, e) == fObj {
			return true
		}
		if ix, ok := e.(*ast.IndexExpr); ok && core.ObjOf(info, ix.X) == recv && core.ObjOf(info, ix.Index) == iObj {
			return true
		}
		if c, ok := e.(*ast.CallExpr); ok && core.IsCallTo(info, c, core.PkgGts+".NewFeature") && len(c.Args) == 3 {
			for k, name := range []string{"Key", "Loc", "Props"} {
				sel, ok := ast.Unparen(c.Args[k]).(*ast.SelectorExpr)
				if !ok || sel.Sel.Name != name || core.ObjOf(info, sel.X) != fObj {
					return false
				}
			}
			return true
		}
		return false
	}
	if !isElem(call.Args[0]) {
		r.Bad("FILTER", fn+"|keep", p.Pos(call.Pos()), "the filter is not applied to the element being decided")
		return
	}
	if len(is.Body.List) != 1 {
		r.Und("FILTER", fn+"|keep", p.Pos(is.Pos()), "the keep branch is not a single append")
		return
	}
	as, ok := is.Body.List[0].(*ast.AssignStmt)
	var app *ast.CallExpr
	if ok && len(as.Lhs) == 1 && len(as.Rhs) == 1 {
		app, _ = ast.Unparen(as.Rhs[0]).(*ast.CallExpr)
	}
	if app == nil || !core.IsBuiltin(info, app, "append") || len(app.Args) != 2 || core.ObjOf(info, app.Args[0]) != core.ObjOf(info, as.Lhs[0]) {
		r.Und("FILTER", fn+"|keep", p.Pos(is.Pos()), "the keep branch is not `T = append(T, x)`")
		return
	}
	kept := core.ObjOf(info, as.Lhs[0])
	byIndex := core.ObjOf(info, app.Args[1]) == iObj
	if !byIndex && !isElem(app.Args[1]) {
		r.Bad("FILTER", fn+"|keep", p.Pos(app.Pos()), "what is kept is neither the element nor its index")
		return
	}
	r.Ok("FILTER", fn+"|keep", p.Pos(is.Pos()), "an element is kept exactly when the filter call is true")
	// the result
	var ret types.Object
	for _, rs := range core.Returns(fd.Body) {
		if len(rs.Results) == 1 {
			ret = core.ObjOf(info, rs.Results[0])
		}
	}
	if !byIndex {
		if ret == kept {
			r.Ok("FILTER", fn+"|result", p.Pos(fd.Pos()), "the kept elements are returned as appended")
		} else {
			r.Bad("FILTER", fn+"|result", p.Pos(fd.Pos()), "the function does not return the kept elements")
		}
		return
	}
	// indices idiom: gg := make(_, len(indices)); for k, index := range indices { gg[k] = ff[index] }
	okRes := false
	for _, s := range fd.Body.List {
		rs, isR := s.(*ast.RangeStmt)
		if !isR || core.ObjOf(info, rs.X) != kept || rs.Key == nil || rs.Value == nil || len(rs.Body.List) != 1 {
			continue
		}
		st, isAs := rs.Body.List[0].(*ast.AssignStmt)
		if !isAs || len(st.Lhs) != 1 || len(st.Rhs) != 1 {
			continue
		}
		l, lok := ast.Unparen(st.Lhs[0]).(*ast.IndexExpr)
		rr, rok := ast.Unparen(st.Rhs[0]).(*ast.IndexExpr)
		if lok && rok && core.ObjOf(info, l.X) == ret && core.ObjOf(info, l.Index) == core.ObjOf(info, rs.Key) &&
			core.ObjOf(info, rr.X) == recv && core.ObjOf(info, rr.Index) == core.ObjOf(info, rs.Value) {
			okRes = true
		}
	}
	// result allocated with len(indices)
	lenOK := false
	asg := core.Assigns(info, fd.Body)
	if ret != nil && len(asg[ret]) == 1 && asg[ret][0].RHS != nil {
		if mk, ok := ast.Unparen(asg[ret][0].RHS).(*ast.CallExpr); ok && core.IsBuiltin(info, mk, "make") && len(mk.Args) == 2 {
			if lc, ok := ast.Unparen(mk.Args[1]).(*ast.CallExpr); ok && core.IsBuiltin(info, lc, "len") && core.ObjOf(info, lc.Args[0]) == kept {
				lenOK = true
			}
		}
	}
	if okRes && lenOK {
		r.Ok("FILTER", fn+"|result", p.Pos(fd.Pos()), "result[k] = receiver[kept index k] for every kept index, in order")
	} else {
		r.Bad("FILTER", fn+"|result", p.Pos(fd.Pos()), "the result is not exactly the kept elements of the receiver in order")
	}
}

package conserve

import (
	"fmt"
	"go/ast"
	"go/token"
	"go/types"

	"gtsverif/core"
)

// WalkPrefix decides WALK-PREFIX on Regions.Resize: an offset that is carried
// across the segments of a region (`X -= n` when `n < X`) is consumed from a
// prefix of the segments only. Consuming segment k when an earlier segment
// was NOT consumed (because it already contained the offset) moves the offset
// into the wrong segment; it needs three or more segments to show.
func WalkPrefix(p *core.Prog, r *core.Report) {
	r.Rule("WALK-PREFIX", "in gts.Regions.Resize every statement `X -= n` that consumes a segment's length from an offset is controlled by `n < X` in a way that stops at the first segment that contains the offset: the test is (a conjunct of) the loop condition itself, or the `if` has an else branch that leaves the loop, or it is conjoined with `index == loop position`", 2)
	info := p.Info(core.PkgGts)
	fd := p.FuncDecl(core.PkgGts, "Regions.Resize")
	if fd == nil || fd.Body == nil {
		r.Und("WALK-PREFIX", "gts.Regions.Resize|anchor", "-", "anchor-unresolved")
		return
	}
	r.Fn("gts.Regions.Resize")
	par := core.Parents(fd.Body)
	asg := core.Assigns(info, fd.Body)
	same := func(a, b ast.Expr) bool {
		return types.ExprString(ast.Unparen(core.Origin(info, asg, a))) == types.ExprString(ast.Unparen(core.Origin(info, asg, b))) ||
			types.ExprString(ast.Unparen(a)) == types.ExprString(ast.Unparen(b))
	}
	hasLess := func(cond ast.Expr, n ast.Expr, x types.Object) bool {
		found := false
		core.Facts(cond, true, func(atom ast.Expr, val bool) {
			be, ok := ast.Unparen(atom).(*ast.BinaryExpr)
			if !ok || !val {
				return
			}
			if be.Op == token.LSS && same(be.X, n) && core.ObjOf(info, be.Y) == x {
				found = true
			}
			if be.Op == token.GTR && same(be.Y, n) && core.ObjOf(info, be.X) == x {
				found = true
			}
		})
		return found
	}
	k := 0
	ast.Inspect(fd.Body, func(nd ast.Node) bool {
		as, ok := nd.(*ast.AssignStmt)
		if !ok || as.Tok != token.SUB_ASSIGN || len(as.Lhs) != 1 {
			return true
		}
		x := core.ObjOf(info, as.Lhs[0])
		if x == nil {
			return true
		}
		// inside a loop?
		var loop *ast.ForStmt
		var guard *ast.IfStmt
		for m := par[ast.Node(as)]; m != nil; m = par[m] {
			if is, ok := m.(*ast.IfStmt); ok && guard == nil && loop == nil {
				guard = is
			}
			if fs, ok := m.(*ast.ForStmt); ok {
				loop = fs
				break
			}
			if _, ok := m.(*ast.RangeStmt); ok {
				break
			}
		}
		if loop == nil {
			return true
		}
		k++
		key := fmt.Sprintf("gts.Regions.Resize|consume#%d(%s)", k, types.ExprString(as.Lhs[0]))
		pos := p.Pos(as.Pos())
		// the length subtracted must be the one the condition tested: nothing the expression mentions
		// is stepped between the test and the subtraction
		moved := ""
		var after ast.Node = loop.Body // everything from the test on: the loop body, or the body of the guarding if
		if guard != nil {
			after = guard.Body
		}
		ast.Inspect(after, func(m ast.Node) bool {
			if m == nil || m.Pos() >= as.Pos() || moved != "" {
				return m == nil || m.Pos() < as.Pos()
			}
			var lhs []ast.Expr
			switch y := m.(type) {
			case *ast.IncDecStmt:
				lhs = []ast.Expr{y.X}
			case *ast.AssignStmt:
				lhs = y.Lhs
			}
			for _, l := range lhs {
				if o := core.ObjOf(info, l); o != nil && o != x && core.UsesObj(info, as.Rhs[0], o) {
					moved = o.Name()
				}
			}
			return true
		})
		switch {
		case moved != "":
			r.Bad("WALK-PREFIX", key, pos, "`"+moved+"` is stepped between the test `"+types.ExprString(as.Rhs[0])+" < "+x.Name()+"` and the subtraction of `"+types.ExprString(as.Rhs[0])+"`: the offset is reduced by the length of the segment being entered, not of the one being left (segments of unequal length put the resized end in the wrong place)")
		case guard == nil && loop.Cond != nil && hasLess(loop.Cond, as.Rhs[0], x):
			r.Ok("WALK-PREFIX", key, pos, "the loop runs only while the current segment is shorter than the offset")
		case guard != nil && hasLess(guard.Cond, as.Rhs[0], x):
			okElse := false
			if blk, ok := guard.Else.(*ast.BlockStmt); ok && len(blk.List) > 0 {
				if br, ok := blk.List[len(blk.List)-1].(*ast.BranchStmt); ok && br.Tok == token.BREAK {
					okElse = true
				}
			}
			// index == loop position conjunct
			okEq := false
			var loopVar types.Object
			if in, ok := loop.Init.(*ast.AssignStmt); ok && len(in.Lhs) == 1 {
				loopVar = core.ObjOf(info, in.Lhs[0])
			}
			core.Facts(guard.Cond, true, func(atom ast.Expr, val bool) {
				if be, ok := ast.Unparen(atom).(*ast.BinaryExpr); ok && val && be.Op == token.EQL && loopVar != nil {
					if core.ObjOf(info, be.X) == loopVar || core.ObjOf(info, be.Y) == loopVar {
						okEq = true
					}
				}
			})
			if okElse || okEq {
				r.Ok("WALK-PREFIX", key, pos, "consumption stops at the first segment that contains the offset")
			} else {
				r.Bad("WALK-PREFIX", key, pos, "`"+types.ExprString(as.Lhs[0])+" -= "+types.ExprString(as.Rhs[0])+"` runs for every segment shorter than the remaining offset, also after an earlier segment was found to contain it: with segments of lengths 10,2,10 and offset 5 the walk skips to the third segment")
			}
		default:
			r.Und("WALK-PREFIX", key, pos, "an offset is decremented in a loop without a recognisable `n < offset` test")
		}
		return true
	})
	if k == 0 {
		r.Und("WALK-PREFIX", "gts.Regions.Resize", p.Pos(fd.Pos()), "no offset consumption found")
	}
}

package conserve

import (
	"fmt"
	"go/ast"
	"go/token"
	"go/types"

	"gtsverif/core"
)

// FmapSpec names an operation and the sequence parameters whose features must
// all reach the result.
type FmapSpec struct {
	Pkg, Name string
	Inputs    []int // indices of Sequence parameters that need a conserving loop
	Variadic  bool  // Concat: parameter 0 is ...Sequence (head kept whole, tail looped)
}

func isFeaturesCall(info *types.Info, e ast.Expr) (recv ast.Expr, ok bool) {
	c, isCall := ast.Unparen(e).(*ast.CallExpr)
	if !isCall {
		return nil, false
	}
	sel, isSel := ast.Unparen(c.Fun).(*ast.SelectorExpr)
	if !isSel {
		return nil, false
	}
	fn := core.Callee(info, c)
	if fn == nil {
		return nil, false
	}
	switch fn.Name() {
	case "Features":
		if core.NamedOf(info.Types[c].Type) == core.PkgGts+".FeatureSlice" && len(c.Args) == 0 {
			return sel.X, true
		}
	case "Filter":
		if core.FuncID(fn) == core.PkgGts+".FeatureSlice.Filter" {
			return isFeaturesCall(info, sel.X)
		}
	}
	return nil, false
}

type sink struct {
	stmt    ast.Stmt
	target  types.Object // the table written
	feat    ast.Expr     // the feature value stored (nil for in-place Loc update)
	loc     ast.Expr     // for in-place update: the new location
	inPlace bool
}

// Fmap decides rule FMAP for the listed operations.
func Fmap(p *core.Prog, r *core.Report, specs []FmapSpec) {
	for _, sp := range specs {
		info := p.Info(sp.Pkg)
		fd := p.FuncDecl(sp.Pkg, sp.Name)
		fn := core.Short(sp.Pkg) + "." + sp.Name
		if fd == nil || fd.Body == nil {
			r.Und("FMAP", fn+"|anchor", "-", "anchor-unresolved: function not found")
			continue
		}
		r.Fn(fn)
		asg := core.Assigns(info, fd.Body)
		covered := map[int]bool{}
		var tables []types.Object
		nLoop := 0
		var tailLoop bool
		ast.Inspect(fd.Body, func(n ast.Node) bool {
			rs, ok := n.(*ast.RangeStmt)
			if !ok {
				return true
			}
			x := core.Origin(info, asg, rs.X)
			recv, isF := isFeaturesCall(info, x)
			if !isF {
				return true
			}
			nLoop++
			rootID := rootIdent(recv)
			var root types.Object
			if rootID != nil {
				root = core.ObjOf(info, rootID)
			}
			pi := core.ParamIndex(info, fd, root)
			key := fmt.Sprintf("%s|features-loop#%d", fn, nLoop)
			if sp.Variadic && pi < 0 {
				// the element variable of a range over the tail of the argument list
				for _, a := range asg[root] {
					if orr, ok := a.Node.(*ast.RangeStmt); ok && a.Idx == 1 {
						if se, ok := core.Origin(info, asg, orr.X).(*ast.SliceExpr); ok && core.ParamIndex(info, fd, core.ObjOf(info, se.X)) == 0 {
							if lo, ok := core.ConstInt(info, se.Low); ok && lo == 1 && se.High == nil {
								tailLoop = true
							}
						}
					}
				}
			}
			if pi >= 0 {
				covered[pi] = true
			}
			tbl, why := checkLoop(info, fd, rs, core.ObjOf(info, rs.X))
			if why != "" {
				r.Bad("FMAP", key, p.Pos(rs.Pos()), why)
			} else {
				r.Ok("FMAP", key, p.Pos(rs.Pos()), "every feature of the ranged table reaches the result table exactly once with its key and qualifiers; only its location is rewritten from its own location")
				tables = append(tables, tbl)
			}
			return true
		})
		for _, in := range sp.Inputs {
			key := fmt.Sprintf("%s|input#%d", fn, in)
			if covered[in] {
				r.Ok("FMAP", key, p.Pos(fd.Pos()), "the features of this sequence argument are carried over by a conserving loop")
			} else {
				r.Bad("FMAP", key, p.Pos(fd.Pos()), "no loop carries the features of this sequence argument into the result: they are lost or taken over unchanged")
			}
		}
		if sp.Variadic {
			// head kept whole: the result table starts as a copy of ss[0].Features()
			headOK := false
			for _, t := range tables {
				for _, a := range asg[t] {
					if a.RHS == nil {
						continue
					}
					found := false
					ast.Inspect(a.RHS, func(n ast.Node) bool {
						if e, ok := n.(ast.Expr); ok {
							if recv, isF := isFeaturesCall(info, e); isF {
								if ix, ok := core.OriginBefore(info, asg, recv).(*ast.IndexExpr); ok && core.ParamIndex(info, fd, core.ObjOf(info, ix.X)) == 0 {
									if k, ok := core.ConstInt(info, ix.Index); ok && k == 0 {
										found = true
									}
								}
							}
						}
						return !found
					})
					if found {
						headOK = true
					}
				}
			}
			if headOK && tailLoop {
				r.Ok("FMAP", fn+"|all-arguments", p.Pos(fd.Pos()), "result table = features of ss[0] plus one conserving loop per element of ss[1:]")
			} else {
				r.Bad("FMAP", fn+"|all-arguments", p.Pos(fd.Pos()), fmt.Sprintf("not every element of the argument list contributes its features (head kept: %v, tail looped: %v)", headOK, tailLoop))
			}
		}
		// the filled tables must reach WithFeatures
		for i, t := range tables {
			key := fmt.Sprintf("%s|table#%d-returned", fn, i+1)
			used := false
			for _, c := range core.Calls(fd.Body) {
				if core.IsCallTo(info, c, core.PkgGts+".WithFeatures") && len(c.Args) == 2 && core.ObjOf(info, c.Args[1]) == t {
					used = true
				}
			}
			if used {
				r.Ok("FMAP", key, p.Pos(fd.Pos()), "the filled table is installed with WithFeatures")
			} else {
				r.Bad("FMAP", key, p.Pos(fd.Pos()), "the table the loop fills is never installed in the result")
			}
		}
		if nLoop == 0 {
			r.Bad("FMAP", fn+"|no-loop", p.Pos(fd.Pos()), "operation has no loop over a sequence's features")
		}
	}
}

func rootIdent(e ast.Expr) *ast.Ident {
	for {
		switch x := ast.Unparen(e).(type) {
		case *ast.Ident:
			return x
		case *ast.SelectorExpr:
			e = x.X
		case *ast.IndexExpr:
			e = x.X
		case *ast.CallExpr:
			if sel, ok := ast.Unparen(x.Fun).(*ast.SelectorExpr); ok {
				e = sel.X
			} else {
				return nil
			}
		default:
			return nil
		}
	}
}

// checkLoop verifies one conserving loop; it returns the table written, or a reason.
func checkLoop(info *types.Info, fd *ast.FuncDecl, rs *ast.RangeStmt, ranged types.Object) (types.Object, string) {
	if rs.Value == nil {
		return nil, "the loop does not bind the feature value"
	}
	f := core.ObjOf(info, rs.Value)
	var idx types.Object
	if rs.Key != nil {
		idx = core.ObjOf(info, rs.Key)
	}
	if leaves(rs.Body) {
		return nil, "the loop body contains continue/break/return: some features never reach the result"
	}
	var sinks []sink
	classify := func(s ast.Stmt) *sink {
		as, ok := s.(*ast.AssignStmt)
		if !ok || len(as.Lhs) != 1 || len(as.Rhs) != 1 {
			return nil
		}
		lhs, rhs := ast.Unparen(as.Lhs[0]), ast.Unparen(as.Rhs[0])
		// T = T.Insert(E) / T = append(T, E)
		if t := core.ObjOf(info, lhs); t != nil {
			if c, ok := rhs.(*ast.CallExpr); ok {
				if core.IsCallTo(info, c, core.PkgGts+".FeatureSlice.Insert") && len(c.Args) == 1 {
					if sel, ok := ast.Unparen(c.Fun).(*ast.SelectorExpr); ok && core.ObjOf(info, sel.X) == t {
						return &sink{stmt: s, target: t, feat: c.Args[0]}
					}
				}
				if core.IsBuiltin(info, c, "append") && len(c.Args) == 2 && core.ObjOf(info, c.Args[0]) == t && !c.Ellipsis.IsValid() {
					if core.NamedOf(info.Types[c.Args[1]].Type) == core.PkgGts+".Feature" {
						return &sink{stmt: s, target: t, feat: c.Args[1]}
					}
				}
			}
		}
		// T[i] = E
		if ix, ok := lhs.(*ast.IndexExpr); ok && core.ObjOf(info, ix.Index) == idx && idx != nil {
			if t := core.ObjOf(info, ix.X); t != nil && core.NamedOf(info.Types[as.Rhs[0]].Type) == core.PkgGts+".Feature" {
				return &sink{stmt: s, target: t, feat: as.Rhs[0]}
			}
		}
		// T[i].Loc = L  (in place, only on the ranged table itself)
		if sel, ok := lhs.(*ast.SelectorExpr); ok && sel.Sel.Name == "Loc" {
			if ix, ok := ast.Unparen(sel.X).(*ast.IndexExpr); ok && core.ObjOf(info, ix.Index) == idx && idx != nil {
				if t := core.ObjOf(info, ix.X); t != nil {
					return &sink{stmt: s, target: t, loc: as.Rhs[0], inPlace: true}
				}
			}
		}
		return nil
	}
	var count func(list []ast.Stmt) (int, int)
	count = func(list []ast.Stmt) (int, int) {
		lo, hi := 0, 0
		for _, s := range list {
			if sk := classify(s); sk != nil {
				sinks = append(sinks, *sk)
				lo++
				hi++
				continue
			}
			switch st := s.(type) {
			case *ast.IfStmt:
				a, b := count(st.Body.List)
				c, d := 0, 0
				if st.Else != nil {
					if blk, ok := st.Else.(*ast.BlockStmt); ok {
						c, d = count(blk.List)
					} else {
						c, d = count([]ast.Stmt{st.Else})
					}
				}
				lo += min(a, c)
				hi += max(b, d)
			case *ast.BlockStmt:
				a, b := count(st.List)
				lo += a
				hi += b
			case *ast.ForStmt, *ast.RangeStmt, *ast.SwitchStmt, *ast.TypeSwitchStmt:
				inner := 0
				ast.Inspect(st, func(n ast.Node) bool {
					if ss, ok := n.(ast.Stmt); ok && classify(ss) != nil {
						inner++
					}
					return true
				})
				if inner > 0 {
					hi += 2
				}
			}
		}
		return lo, hi
	}
	lo, hi := count(rs.Body.List)
	if lo != 1 || hi != 1 {
		return nil, fmt.Sprintf("a feature reaches the result %d..%d times per iteration instead of exactly once", lo, hi)
	}
	sk := sinks[0]
	for _, s := range sinks {
		if s.target != sk.target {
			return nil, "features are stored into different tables on different paths"
		}
	}
	// nothing may assign f.Key / f.Props
	bad := ""
	ast.Inspect(rs.Body, func(n ast.Node) bool {
		as, ok := n.(*ast.AssignStmt)
		if !ok {
			return true
		}
		for _, l := range as.Lhs {
			if sel, ok := ast.Unparen(l).(*ast.SelectorExpr); ok && core.ObjOf(info, sel.X) == f && (sel.Sel.Name == "Key" || sel.Sel.Name == "Props") {
				bad = "the loop rewrites the feature's " + sel.Sel.Name
			}
		}
		return true
	})
	if bad != "" {
		return nil, bad
	}
	isFieldOfF := func(e ast.Expr, name string) bool {
		sel, ok := ast.Unparen(e).(*ast.SelectorExpr)
		return ok && sel.Sel.Name == name && core.ObjOf(info, sel.X) == f
	}
	locFromF := func(e ast.Expr) bool {
		// mentions f.Loc directly, or locals all of whose in-loop definitions do
		seen := map[types.Object]bool{}
		var ok func(e ast.Expr) bool
		ok = func(e ast.Expr) bool {
			direct := false
			ast.Inspect(e, func(n ast.Node) bool {
				if x, isE := n.(ast.Expr); isE && isFieldOfF(x, "Loc") {
					direct = true
				}
				return !direct
			})
			if direct {
				return true
			}
			res := false
			ast.Inspect(e, func(n ast.Node) bool {
				id, isID := n.(*ast.Ident)
				if !isID {
					return true
				}
				o := core.ObjOf(info, id)
				if o == nil || seen[o] || o == f {
					return true
				}
				seen[o] = true
				defs := 0
				allOK := true
				ast.Inspect(rs.Body, func(m ast.Node) bool {
					as, isAs := m.(*ast.AssignStmt)
					if !isAs || len(as.Lhs) != len(as.Rhs) {
						return true
					}
					for i, l := range as.Lhs {
						if core.ObjOf(info, l) == o {
							defs++
							if !ok(as.Rhs[i]) && !core.UsesObj(info, as.Rhs[i], o) {
								allOK = false
							}
						}
					}
					return true
				})
				if defs > 0 && allOK {
					res = true
				}
				return true
			})
			return res
		}
		return ok(e)
	}
	for _, s := range sinks {
		switch {
		case s.inPlace:
			if s.target != ranged || ranged == nil {
				return nil, "a location is updated in place in a table other than the one being ranged over"
			}
			if !locFromF(s.loc) {
				return nil, "the new location is not computed from the feature's own location"
			}
		default:
			e := ast.Unparen(s.feat)
			if core.ObjOf(info, e) == f {
				// f itself: its Loc must have been rewritten from f.Loc (or left alone)
				okLoc := true
				ast.Inspect(rs.Body, func(n ast.Node) bool {
					as, ok := n.(*ast.AssignStmt)
					if !ok || len(as.Lhs) != len(as.Rhs) {
						return true
					}
					for i, l := range as.Lhs {
						if isFieldOfF(l, "Loc") && !locFromF(as.Rhs[i]) {
							okLoc = false
						}
					}
					return true
				})
				if !okLoc {
					return nil, "the feature's location is replaced by one not computed from its own location"
				}
				continue
			}
			var key, loc, props ast.Expr
			if cl, ok := e.(*ast.CompositeLit); ok && core.NamedOf(info.Types[cl].Type) == core.PkgGts+".Feature" {
				for i, el := range cl.Elts {
					if kv, ok := el.(*ast.KeyValueExpr); ok {
						switch kv.Key.(*ast.Ident).Name {
						case "Key":
							key = kv.Value
						case "Loc":
							loc = kv.Value
						case "Props":
							props = kv.Value
						}
					} else {
						switch i {
						case 0:
							key = el
						case 1:
							loc = el
						case 2:
							props = el
						}
					}
				}
			} else if c, ok := e.(*ast.CallExpr); ok && core.IsCallTo(info, c, core.PkgGts+".NewFeature") && len(c.Args) == 3 {
				key, loc, props = c.Args[0], c.Args[1], c.Args[2]
			} else {
				return nil, "the stored feature is neither the loop element nor a Feature built from it"
			}
			if !isFieldOfF(key, "Key") {
				return nil, "the stored feature does not keep the element's key"
			}
			pOK := isFieldOfF(props, "Props")
			if c, ok := ast.Unparen(props).(*ast.CallExpr); ok && core.IsCallTo(info, c, core.PkgGts+".Props.Clone") {
				if sel, ok := ast.Unparen(c.Fun).(*ast.SelectorExpr); ok && isFieldOfF(sel.X, "Props") {
					pOK = true
				}
			}
			if !pOK {
				return nil, "the stored feature does not keep the element's qualifiers"
			}
			if loc == nil || !locFromF(loc) {
				return nil, "the stored feature's location is not computed from the element's location"
			}
		}
	}
	// UNIFORM: a coordinate transformation of the element's location, and the
	// statement that stores it, run for every feature: they are not nested
	// under a condition that looks at the element.
	if why := uniform(info, rs, f); why != "" {
		return nil, why
	}
	_ = token.NoPos
	return sk.target, ""
}

var transformNames = map[string]bool{"Shift": true, "Expand": true, "Reverse": true, "Complement": true, "Normalize": true}

func uniform(info *types.Info, rs *ast.RangeStmt, f types.Object) string {
	par := core.Parents(rs.Body)
	why := ""
	// everything computed from the element inside the loop body (`r := f.Loc.Region()`) looks at the element too
	derived := map[types.Object]bool{f: true}
	for changed := true; changed; {
		changed = false
		for o, defs := range core.Assigns(info, rs.Body) {
			if derived[o] {
				continue
			}
			for _, d := range defs {
				var rhs ast.Node = d.RHS
				if d.RHS == nil && d.Call != nil {
					rhs = d.Call
				}
				if rhs == nil {
					continue
				}
				for dv := range derived {
					if core.UsesObj(info, rhs, dv) {
						derived[o] = true
						changed = true
					}
				}
			}
		}
	}
	looksAtElement := func(e ast.Node) bool {
		for dv := range derived {
			if core.UsesObj(info, e, dv) {
				return true
			}
		}
		return false
	}
	ast.Inspect(rs.Body, func(n ast.Node) bool {
		c, ok := n.(*ast.CallExpr)
		if !ok || why != "" {
			return true
		}
		fn := core.Callee(info, c)
		if fn == nil || !transformNames[fn.Name()] || fn.Pkg() == nil || fn.Pkg().Path() != core.PkgGts {
			return true
		}
		sig, _ := fn.Type().(*types.Signature)
		if sig == nil || sig.Recv() == nil {
			return true
		}
		for m := par[ast.Node(c)]; m != nil && m != ast.Node(rs.Body); m = par[m] {
			var cond ast.Expr
			switch x := m.(type) {
			case *ast.IfStmt:
				cond = x.Cond
			case *ast.SwitchStmt:
				cond = x.Tag
				if cond == nil {
					for _, cc := range x.Body.List {
						for _, e := range cc.(*ast.CaseClause).List {
							if looksAtElement(e) {
								cond = e
							}
						}
					}
				}
			case *ast.TypeSwitchStmt:
				why = "the coordinate transformation " + fn.Name() + " sits in a type switch inside the loop: it is applied to only some features"
				return false
			}
			if cond != nil && looksAtElement(cond) {
				why = "the coordinate transformation " + fn.Name() + " is applied only when `" + types.ExprString(cond) + "` holds for the feature: the other features keep their old coordinates"
				return false
			}
		}
		return true
	})
	return why
}

package conserve

import "gtsverif/core"

const (
	ruleFill = "for `x := make([]T, len(src))` in an anchor function every index of x is definitely stored before x is used: range over src storing x[i] (or the mirrored index) on every path, copy(x, src), or a two-pointer loop, which is total iff its condition is l <= r"
	ruleFmap = "each range loop over a sequence's Features() in the operation has no continue/break/return, stores exactly one feature per iteration on every path, the stored feature keeps the element's Key and Props (or Props.Clone()) and gets a location computed from the element's own location; every sequence argument has such a loop; the filled table is installed with WithFeatures"
)

var gts = core.PkgGts

// C02: Insert/Embed.
func C02(p *core.Prog, r *core.Report) {
	r.Rule("FMAP", ruleFmap, 8)
	r.Rule("FILL", ruleFill, 4)
	Fmap(p, r, []FmapSpec{{Pkg: gts, Name: "Insert", Inputs: []int{0, 2}}, {Pkg: gts, Name: "Embed", Inputs: []int{0, 2}}})
	Fill(p, r, []Anchor{{gts, "Joined.Shift", false}, {gts, "Ordered.Shift", false}, {gts, "Joined.Expand", false}, {gts, "Ordered.Expand", false}})
	r.NotDecided = append(r.NotDecided, "placement arithmetic of Shift/Expand", "split-versus-extend at the insertion point", "partial markers", "residues of the result")
}

// C03: Delete/Erase/Slice (the interval oracle is added by the orders engine).
func C03(p *core.Prog, r *core.Report) {
	r.Rule("FMAP", ruleFmap, 4)
	r.Rule("FILL", ruleFill, 3)
	r.Rule("MUST-PASS", "every non-recursive return of gts.Slice returns a variable whose last assignment is WithTopology(v, Linear)", 2)
	Fmap(p, r, []FmapSpec{{Pkg: gts, Name: "Delete", Inputs: []int{0}}, {Pkg: gts, Name: "Slice", Inputs: []int{0}}})
	Fill(p, r, []Anchor{{gts, "Joined.Expand", false}, {gts, "Ordered.Expand", false}, {gts, "Delete", false}})
	MustPassLinear(p, r)
	r.NotDecided = append(r.NotDecided, "residues removed", "which end becomes partial", "collapse to a between-site", "reference clipping arithmetic", "negative indices and wrap-around")
}

// C04: Rotate.
func C04(p *core.Prog, r *core.Report) {
	r.Rule("FMAP", ruleFmap, 3)
	r.Rule("FILL", ruleFill, 2)
	Fmap(p, r, []FmapSpec{{Pkg: gts, Name: "Rotate", Inputs: []int{0}}})
	Fill(p, r, []Anchor{{gts, "Joined.Normalize", false}, {gts, "Ordered.Normalize", false}})
	r.NotDecided = append(r.NotDecided, "modular arithmetic", "origin-spanning split", "additivity laws")
}

// C05: Reverse / Complement.
func C05(p *core.Prog, r *core.Report) {
	r.Rule("FMAP", ruleFmap, 8)
	r.Rule("FILL", ruleFill, 6)
	anchors := []Anchor{{gts, "Joined.Reverse", true}, {gts, "Ordered.Reverse", true}, {gts, "Regions.Complement", true}, {gts, "Regions.Locate", false}, {gts, "Joined.Region", false}, {gts, "Ordered.Region", false}, {gts, "Complement", false}}
	Fill(p, r, anchors)
	r.Rule("REVERSE-MAP", "a two-pointer loop that transforms the elements it swaps must run while l <= r (the middle element of an odd-length list needs the transformation too)", 0)
	ReverseMap(p, r, anchors[:3])
	Fmap(p, r, []FmapSpec{{Pkg: gts, Name: "Reverse", Inputs: []int{0}}, {Pkg: gts, Name: "Complement", Inputs: []int{0}}, {Pkg: gts, Name: "Concat", Variadic: true}})
	r.NotDecided = append(r.NotDecided, "coordinate mirroring arithmetic (L-1-x, between-site mapping)", "equality of extracted sequences")
}

// C15: multi-site edit commands.
func C15(p *core.Prog, r *core.Report) {
	r.Rule("INPUT-COORD", "in the multi-site edit commands every definition of the locator's argument that reaches the call is the record as scanned ((*Scanner).Value through copies, conversions and slices filled only with scanned records), never the result of an edit operation", 6)
	InputCoord(p, r, []string{"delete", "insert", "infix", "split", "rotate", "extract"})
	r.Rule("EDIT-CHAIN", "in the multi-site edit commands a record handed to WriteSeq that is built by a chain of edits (a variable updated from itself) is declared, or freshly assigned at the top level, inside the innermost loop around the WriteSeq: every record written starts from the scanned record, not from the previous record written", 8)
	EditChain(p, r, []string{"delete", "insert", "infix", "split", "rotate", "extract"})
	r.Rule("DEDUP-EXACT", "a membership helper of package main (shape func([]T, T) bool) decides membership by reflect.DeepEqual or == of the element and the candidate, nothing coarser", 0)
	DedupExact(p, r)
	// the region helpers the commands translate sites with
	r.Rule("FILL", ruleFill, 2)
	r.Rule("REVERSE-MAP", "a two-pointer loop that transforms the elements it swaps must run while l <= r", 0)
	regionAnchors := []Anchor{{gts, "Regions.Complement", true}, {gts, "Regions.Locate", false}, {gts, "Regions.Resize", false}}
	Fill(p, r, regionAnchors)
	ReverseMap(p, r, regionAnchors[:1])
	r.NotDecided = append(r.NotDecided, "order of application", "de-duplication and union of regions", "piece boundaries of split", "all value-level behaviour of the commands")
}

// C08: regions, modifiers, locators.
func C08(p *core.Prog, r *core.Report) {
	WalkPrefix(p, r)
	MirrorApply(p, r)
	ModPair(p, r)
	LocatorFresh(p, r)
	LocPrecedence(p, r)
	LocGrammar(p, r)
	LocateRC(p, r)
	r.Rule("FILL", ruleFill, 3)
	r.Rule("REVERSE-MAP", "a two-pointer loop that transforms the elements it swaps must run while l <= r", 0)
	regionAnchors := []Anchor{{gts, "Regions.Complement", true}, {gts, "Regions.Locate", false}, {gts, "Regions.Resize", false}}
	Fill(p, r, regionAnchors)
	ReverseMap(p, r, regionAnchors[:1])
	r.NotDecided = append(r.NotDecided, "the offset arithmetic of Apply and of Segment.Resize", "equality of the extracted sequence with the slice of the spliced sequence (needs execution)", "selector semantics of a bare selector (decided under C19)")
}

// C10: invertibility of edits (structural part).
func C10(p *core.Prog, r *core.Report) {
	MergeRanged(p, r)
	NegIndex(p, r)
	WrapCond(p, r)
	Window(p, r)
	EraseOrder(p, r)
	ConcatOffset(p, r)
	r.Rule("FMAP", ruleFmap, 12)
	Fmap(p, r, []FmapSpec{{Pkg: gts, Name: "Insert", Inputs: []int{0, 2}}, {Pkg: gts, Name: "Embed", Inputs: []int{0, 2}}, {Pkg: gts, Name: "Delete", Inputs: []int{0}}, {Pkg: gts, Name: "Slice", Inputs: []int{0}}, {Pkg: gts, Name: "Concat", Variadic: true}})
	r.NotDecided = append(r.NotDecided, "the boundary conventions of Shift/Expand for n >= 0 against n < 0 (which side of i an end falls on): value-level arithmetic", "equality of the restored residues and locations (needs execution)")
}

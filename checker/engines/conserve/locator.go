package conserve

import (
	"fmt"
	"go/ast"
	"go/token"
	"go/types"
	"strings"

	"gtsverif/core"
)

// LocatorFresh decides LOCATOR-FRESH: every Locator (func(Sequence) Regions)
// the package builds returns a Regions value allocated by that call, because
// resizeLocator overwrites the elements of what the inner locator returned.
func LocatorFresh(p *core.Prog, r *core.Report) {
	r.Rule("LOCATOR-FRESH", "every function literal or function of type Locator in package gts returns a Regions value allocated during that call (a composite literal, make, or the result of calling another locator), never a captured or package-level slice: resizeLocator writes the resized regions into the slice it was handed", 5)
	info := p.Info(core.PkgGts)
	isLocatorSig := func(t types.Type) bool {
		sig, ok := t.Underlying().(*types.Signature)
		if !ok || sig.Params().Len() != 1 || sig.Results().Len() != 1 {
			return false
		}
		return core.NamedOf(sig.Params().At(0).Type()) == core.PkgGts+".Sequence" && core.NamedOf(sig.Results().At(0).Type()) == core.PkgGts+".Regions"
	}
	check := func(name string, body *ast.BlockStmt, pos token.Pos) {
		asg := core.Assigns(info, body)
		bad := ""
		n := 0
		for _, ret := range core.Returns(body) {
			if len(ret.Results) != 1 {
				continue
			}
			n++
			e := ast.Unparen(ret.Results[0])
			id, isID := e.(*ast.Ident)
			if isID {
				o := core.ObjOf(info, id)
				if o == nil || !(body.Pos() <= o.Pos() && o.Pos() < body.End()) {
					bad = "returns `" + id.Name + "`, which is declared outside the locator: every call hands out the same backing array, and a resize applied to one result shows up in the next"
					continue
				}
				// every definition inside is an allocation or a locator call
				for _, a := range asg[o] {
					if a.RHS == nil {
						continue
					}
					if !freshRegions(info, a.RHS, isLocatorSig) {
						if _, isIdx := a.Node.(*ast.AssignStmt); isIdx && core.UsesObj(info, a.RHS, o) {
							continue
						}
						bad = "returns `" + id.Name + "`, defined as `" + types.ExprString(a.RHS) + "`, which is not an allocation made by this call"
					}
				}
				continue
			}
			if !freshRegions(info, e, isLocatorSig) {
				bad = "returns `" + types.ExprString(e) + "`, which is not an allocation made by this call"
			}
		}
		switch {
		case bad != "":
			r.Bad("LOCATOR-FRESH", name, p.Pos(pos), bad)
		case n == 0:
			r.Und("LOCATOR-FRESH", name, p.Pos(pos), "no return found")
		default:
			r.Ok("LOCATOR-FRESH", name, p.Pos(pos), "returns a slice allocated by the call")
		}
	}
	for _, fd := range p.FuncDecls(core.PkgGts) {
		if fd.Body == nil {
			continue
		}
		if fd.Recv == nil && isLocatorSig(info.Defs[fd.Name].Type()) {
			r.Fn("gts." + fd.Name.Name)
			check("gts."+fd.Name.Name, fd.Body, fd.Pos())
		}
		k := 0
		ast.Inspect(fd.Body, func(n ast.Node) bool {
			fl, ok := n.(*ast.FuncLit)
			if !ok || !isLocatorSig(info.TypeOf(fl)) {
				return true
			}
			k++
			r.Fn("gts." + core.DeclName(fd))
			check(fmt.Sprintf("gts.%s|literal#%d", core.DeclName(fd), k), fl.Body, fl.Pos())
			return true
		})
	}
}

func freshRegions(info *types.Info, e ast.Expr, isLocatorSig func(types.Type) bool) bool {
	e = ast.Unparen(e)
	switch x := e.(type) {
	case *ast.CompositeLit:
		return true
	case *ast.CallExpr:
		if core.IsBuiltin(info, x, "make") {
			return true
		}
		if t := info.TypeOf(x.Fun); t != nil && isLocatorSig(t) {
			return true // another locator: fresh by this same rule
		}
	}
	return false
}

// MirrorApply decides MIRROR-APPLY: every Modifier.Apply handles a reversed
// pair of bounds by applying itself to the negated bounds and negating the
// result, which is what "resizing commutes with strand mirroring" means.
func MirrorApply(p *core.Prog, r *core.Report) {
	r.Rule("MIRROR-APPLY", "every Apply method of a gts.Modifier starts its coordinate work with `if tail < head { head, tail = mod.Apply(-head, -tail); return -head, -tail }` (before any statement that changes head or tail)", 5)
	info := p.Info(core.PkgGts)
	for _, T := range []string{"Head", "Tail", "HeadTail", "HeadHead", "TailTail"} {
		fd := p.FuncDecl(core.PkgGts, T+".Apply")
		key := "gts." + T + ".Apply"
		if fd == nil || fd.Body == nil {
			r.Und("MIRROR-APPLY", key+"|anchor", "-", "anchor-unresolved")
			continue
		}
		r.Fn(key)
		var h, t types.Object
		i := 0
		for _, f := range fd.Type.Params.List {
			for _, n := range f.Names {
				if i == 0 {
					h = info.Defs[n]
				} else if i == 1 {
					t = info.Defs[n]
				}
				i++
			}
		}
		neg := func(e ast.Expr, o types.Object) bool {
			u, ok := ast.Unparen(e).(*ast.UnaryExpr)
			return ok && u.Op == token.SUB && core.ObjOf(info, u.X) == o
		}
		status, why := "", "no mirroring branch"
		for _, st := range fd.Body.List {
			if is, ok := st.(*ast.IfStmt); ok {
				be, isB := ast.Unparen(is.Cond).(*ast.BinaryExpr)
				strand := isB && (be.Op == token.LSS && core.ObjOf(info, be.X) == t && core.ObjOf(info, be.Y) == h ||
					be.Op == token.GTR && core.ObjOf(info, be.X) == h && core.ObjOf(info, be.Y) == t)
				if !strand {
					status, why = "bad", "a conditional precedes the mirroring branch"
					break
				}
				if len(is.Body.List) != 2 || is.Else != nil {
					status, why = "bad", "the mirroring branch is not `head, tail = mod.Apply(-head, -tail); return -head, -tail`"
					break
				}
				as, ok1 := is.Body.List[0].(*ast.AssignStmt)
				ret, ok2 := is.Body.List[1].(*ast.ReturnStmt)
				// the two results land in any two distinct variables (the parameters again, or fresh locals) and
				// are returned negated in the same order
				good := ok1 && ok2 && len(as.Lhs) == 2 && len(as.Rhs) == 1 && len(ret.Results) == 2
				if good {
					a, b := core.ObjOf(info, as.Lhs[0]), core.ObjOf(info, as.Lhs[1])
					good = a != nil && b != nil && a != b && neg(ret.Results[0], a) && neg(ret.Results[1], b)
				}
				if good {
					c, isC := ast.Unparen(as.Rhs[0]).(*ast.CallExpr)
					good = isC && len(c.Args) == 2 && neg(c.Args[0], h) && neg(c.Args[1], t)
					if good {
						fn := core.Callee(info, c)
						good = fn != nil && fn.Name() == "Apply" && core.FuncID(fn) == core.PkgGts+"."+T+".Apply"
					}
				}
				if good {
					status = "ok"
				} else {
					status, why = "bad", "the mirroring branch is not `head, tail = mod.Apply(-head, -tail); return -head, -tail`"
				}
				break
			}
			// statements before the branch must not touch head/tail
			touched := false
			ast.Inspect(st, func(n ast.Node) bool {
				switch x := n.(type) {
				case *ast.AssignStmt:
					for _, l := range x.Lhs {
						if o := core.ObjOf(info, l); o == h || o == t {
							touched = true
						}
					}
				case *ast.IncDecStmt:
					if o := core.ObjOf(info, x.X); o == h || o == t {
						touched = true
					}
				case *ast.ReturnStmt:
					touched = true
				}
				return true
			})
			if touched {
				status, why = "bad", "head or tail is changed (or the method returns) before the reversed orientation is handled"
				break
			}
		}
		if status == "ok" {
			r.Ok("MIRROR-APPLY", key, p.Pos(fd.Pos()), "Apply(h, t) = -Apply(-h, -t) for t < h")
		} else {
			r.Bad("MIRROR-APPLY", key, p.Pos(fd.Pos()), why+": a reverse-strand region is not resized as the mirror image of the forward one")
		}
	}
}

// ModPair decides MOD-PAIR: printer, child types and parser of the two-part
// modifiers agree.
func ModPair(p *core.Prog, r *core.Report) {
	r.Rule("MOD-PAIR", "for HeadTail, HeadHead and TailTail the String method prints \"%s..%s\" of (A(p), B(q)), the map callback of its parser asserts children 0 and 2 to the same (A, B) and stores T{p, q} in that order, and the parser is pars.Seq(parseA, \"..\", parseB); for Head and Tail the sigil printed ('^' / '$') is the one the parser expects", 5)
	info := p.Info(core.PkgGts)
	pk := p.Pkg(core.PkgGts)
	varInit := func(name string) ast.Expr {
		for _, f := range pk.Syntax {
			for _, d := range f.Decls {
				if gd, ok := d.(*ast.GenDecl); ok && gd.Tok == token.VAR {
					for _, s := range gd.Specs {
						vs := s.(*ast.ValueSpec)
						for i, n := range vs.Names {
							if n.Name == name && i < len(vs.Values) {
								return vs.Values[i]
							}
						}
					}
				}
			}
		}
		return nil
	}
	for _, T := range []string{"HeadTail", "HeadHead", "TailTail"} {
		key := "gts." + T
		sd := p.FuncDecl(core.PkgGts, T+".String")
		md := p.FuncDecl(core.PkgGts, "map"+T)
		pi := varInit("parse" + T)
		if sd == nil || md == nil || pi == nil || sd.Body == nil || md.Body == nil {
			r.Und("MOD-PAIR", key+"|anchor", "-", "anchor-unresolved (String, map"+T+" or parse"+T+")")
			continue
		}
		r.Fn(key + ".String")
		r.Fn("gts.map" + T)
		// printer
		var pa, pb string
		var porder bool
		sasg := core.Assigns(info, sd.Body)
		for _, c := range core.Calls(sd.Body) {
			if core.IsCallTo(info, c, "fmt.Sprintf") && len(c.Args) == 3 {
				if f, _ := core.ConstString(info, c.Args[0]); f == "%s..%s" {
					conv := func(e ast.Expr) (string, int) {
						cv, ok := ast.Unparen(e).(*ast.CallExpr)
						if !ok || !core.IsConversion(info, cv) || len(cv.Args) != 1 {
							return "", -1
						}
						idx := -1
						if o := core.ObjOf(info, cv.Args[0]); o != nil {
							for _, a := range sasg[o] {
								if a.Call != nil && core.IsCallTo(info, a.Call, core.PkgGts+".Unpack") {
									idx = a.Idx
								}
							}
						}
						return types.TypeString(info.TypeOf(cv), func(*types.Package) string { return "" }), idx
					}
					var i0, i1 int
					pa, i0 = conv(c.Args[1])
					pb, i1 = conv(c.Args[2])
					porder = i0 == 0 && i1 == 1
				}
			}
		}
		// callback
		masg := core.Assigns(info, md.Body)
		childType := func(o types.Object) (string, int64) {
			for _, a := range masg[o] {
				if a.RHS == nil {
					continue
				}
				e := ast.Unparen(a.RHS)
				if cv, ok := e.(*ast.CallExpr); ok && core.IsConversion(info, cv) && len(cv.Args) == 1 {
					e = ast.Unparen(cv.Args[0])
				}
				ta, ok := e.(*ast.TypeAssertExpr)
				if !ok {
					continue
				}
				sel, ok := ast.Unparen(ta.X).(*ast.SelectorExpr)
				if !ok {
					continue
				}
				ix, ok := ast.Unparen(sel.X).(*ast.IndexExpr)
				if !ok {
					continue
				}
				k, _ := core.ConstInt(info, ix.Index)
				return types.TypeString(info.TypeOf(ta.Type), func(*types.Package) string { return "" }), k
			}
			return "", -1
		}
		var ca, cb string
		corder := false
		for _, c := range core.Calls(md.Body) {
			if sel, ok := c.Fun.(*ast.SelectorExpr); ok && sel.Sel.Name == "SetValue" && len(c.Args) == 1 {
				if cl, ok := ast.Unparen(c.Args[0]).(*ast.CompositeLit); ok && len(cl.Elts) == 2 && core.NamedOf(info.TypeOf(cl)) == core.PkgGts+"."+T {
					var k0, k1 int64
					ca, k0 = childType(core.ObjOf(info, cl.Elts[0]))
					cb, k1 = childType(core.ObjOf(info, cl.Elts[1]))
					corder = k0 == 0 && k1 == 2
				}
			}
		}
		// parser: pars.Seq(parseA, "..", parseB).Map(mapT)
		var qa, qb string
		mapOK := false
		if mc, ok := ast.Unparen(pi).(*ast.CallExpr); ok {
			if sel, ok := mc.Fun.(*ast.SelectorExpr); ok && sel.Sel.Name == "Map" && len(mc.Args) == 1 {
				if id, ok := ast.Unparen(mc.Args[0]).(*ast.Ident); ok && id.Name == "map"+T {
					mapOK = true
				}
				if sq, ok := ast.Unparen(sel.X).(*ast.CallExpr); ok && len(sq.Args) == 3 {
					if dots, _ := core.ConstString(info, sq.Args[1]); dots == ".." {
						name := func(e ast.Expr) string {
							if id, ok := ast.Unparen(e).(*ast.Ident); ok {
								return strings.TrimPrefix(id.Name, "parse")
							}
							return ""
						}
						qa, qb = name(sq.Args[0]), name(sq.Args[2])
					}
				}
			}
		}
		switch {
		case pa == "" || ca == "" || qa == "":
			r.Und("MOD-PAIR", key, p.Pos(sd.Pos()), fmt.Sprintf("cannot resolve all three sides (printer %q,%q; callback %q,%q; parser %q,%q)", pa, pb, ca, cb, qa, qb))
		case pa != ca || pa != qa || pb != cb || pb != qb:
			r.Bad("MOD-PAIR", key, p.Pos(sd.Pos()), fmt.Sprintf("printer writes (%s, %s), the parser is Seq(parse%s, \"..\", parse%s) and its callback asserts (%s, %s): the printed modifier re-parses to a different one", pa, pb, qa, qb, ca, cb))
		case !porder || !corder || !mapOK:
			r.Bad("MOD-PAIR", key, p.Pos(sd.Pos()), "the two offsets are not carried in the same order by the printer and the parser")
		default:
			r.Ok("MOD-PAIR", key, p.Pos(sd.Pos()), fmt.Sprintf("(%s, %s) on all three sides, offsets in order", pa, pb))
		}
	}
	for _, T := range []string{"Head", "Tail"} {
		key := "gts." + T
		sd := p.FuncDecl(core.PkgGts, T+".String")
		pi := varInit("parse" + T)
		if sd == nil || pi == nil || sd.Body == nil {
			r.Und("MOD-PAIR", key+"|anchor", "-", "anchor-unresolved")
			continue
		}
		r.Fn(key + ".String")
		// sigils printed: first byte of every string constant returned / formatted
		printed := map[byte]bool{}
		ast.Inspect(sd.Body, func(n ast.Node) bool {
			if e, ok := n.(ast.Expr); ok {
				if s, ok := core.ConstString(info, e); ok && len(s) > 0 {
					printed[s[0]] = true
				}
			}
			return true
		})
		parsed := map[byte]bool{}
		built := ""
		ast.Inspect(pi, func(n ast.Node) bool {
			if e, ok := n.(ast.Expr); ok {
				if tv, has := info.Types[e]; has && tv.Value != nil {
					if b, isB := tv.Type.Underlying().(*types.Basic); isB && (b.Kind() == types.UntypedRune || b.Kind() == types.Int32 || b.Kind() == types.Uint8) {
						if v, ok := core.ConstInt(info, e); ok && v > 32 && v < 127 {
							parsed[byte(v)] = true
						}
					}
				}
			}
			if c, ok := n.(*ast.CallExpr); ok {
				if sel, ok := c.Fun.(*ast.SelectorExpr); ok && sel.Sel.Name == "SetValue" && len(c.Args) == 1 {
					built = types.TypeString(info.TypeOf(c.Args[0]), func(*types.Package) string { return "" })
				}
			}
			return true
		})
		same := len(printed) == 1 && len(parsed) == 1
		for b := range printed {
			if !parsed[b] {
				same = false
			}
		}
		if same && built == T {
			r.Ok("MOD-PAIR", key, p.Pos(sd.Pos()), "one sigil, printed and parsed, builds "+T)
		} else {
			r.Bad("MOD-PAIR", key, p.Pos(sd.Pos()), fmt.Sprintf("the sigil printed %v and the one parsed %v differ, or the parser builds %q", keysOf(printed), keysOf(parsed), built))
		}
	}
}

func keysOf(m map[byte]bool) []string {
	var out []string
	for b := range m {
		out = append(out, string(rune(b)))
	}
	return out
}

// LocPrecedence decides LOC-PRECEDENCE on AsLocator.
func LocPrecedence(p *core.Prog, r *core.Report) {
	r.Rule("LOC-PRECEDENCE", "gts.AsLocator splits at the first '@' (s[:i] / s[i+1:]); without '@' it tries AsModifier, then tryLocation, then Selector, in that order, each returning on success; a leading '@' resizes allLocator; otherwise resizeLocator(locate, mod) of the two halves", 3)
	info := p.Info(core.PkgGts)
	fd := p.FuncDecl(core.PkgGts, "AsLocator")
	if fd == nil || fd.Body == nil {
		r.Und("LOC-PRECEDENCE", "gts.AsLocator|anchor", "-", "anchor-unresolved")
		return
	}
	r.Fn("gts.AsLocator")
	var sw *ast.SwitchStmt
	for _, st := range fd.Body.List {
		if s, ok := st.(*ast.SwitchStmt); ok {
			sw = s
		}
	}
	if sw == nil {
		r.Und("LOC-PRECEDENCE", "gts.AsLocator", p.Pos(fd.Pos()), "no switch on the position of '@'")
		return
	}
	// the switch variable is IndexByte(s, '@')
	idxOK := false
	var iObj types.Object
	if as, ok := sw.Init.(*ast.AssignStmt); ok && len(as.Rhs) == 1 {
		if c, ok := ast.Unparen(as.Rhs[0]).(*ast.CallExpr); ok && core.IsCallTo(info, c, "strings.IndexByte") && len(c.Args) == 2 {
			if b, ok := core.ConstInt(info, c.Args[1]); ok && b == '@' && core.ParamIndex(info, fd, core.ObjOf(info, c.Args[0])) == 0 {
				idxOK = true
				iObj = core.ObjOf(info, as.Lhs[0])
			}
		}
	}
	if !idxOK {
		r.Bad("LOC-PRECEDENCE", "gts.AsLocator|split", p.Pos(sw.Pos()), "the locator is not split at strings.IndexByte(s, '@')")
		return
	}
	for _, cc := range sw.Body.List {
		cl := cc.(*ast.CaseClause)
		which := "default"
		if len(cl.List) == 1 {
			if v, ok := core.ConstInt(info, cl.List[0]); ok {
				which = fmt.Sprint(v)
			}
		}
		key := "gts.AsLocator|case=" + which
		var calls []string
		var sliceOK = true
		for _, st := range cl.Body {
			for _, c := range core.Calls(st) {
				fn := core.Callee(info, c)
				if fn == nil || fn.Pkg() == nil || fn.Pkg().Path() != core.PkgGts {
					continue
				}
				switch fn.Name() {
				case "AsModifier", "tryLocation", "Selector", "AsLocator":
					calls = append(calls, fn.Name())
					arg := ast.Unparen(c.Args[0])
					switch which {
					case "-1":
						if core.ParamIndex(info, fd, core.ObjOf(info, arg)) != 0 {
							sliceOK = false
						}
					case "0":
						se, ok := arg.(*ast.SliceExpr)
						lo := int64(-1)
						if ok && se.Low != nil {
							lo, _ = core.ConstInt(info, se.Low)
						}
						if !ok || lo != 1 || se.High != nil {
							sliceOK = false
						}
					default:
						se, ok := arg.(*ast.SliceExpr)
						if !ok {
							sliceOK = false
							break
						}
						if fn.Name() == "AsLocator" {
							if se.Low != nil || core.ObjOf(info, se.High) != iObj {
								sliceOK = false
							}
						} else {
							be, isB := ast.Unparen(se.Low).(*ast.BinaryExpr)
							one := int64(0)
							if isB {
								one, _ = core.ConstInt(info, be.Y)
							}
							if !isB || be.Op != token.ADD || core.ObjOf(info, be.X) != iObj || one != 1 || se.High != nil {
								sliceOK = false
							}
						}
					}
				}
			}
		}
		want := map[string]string{"-1": "AsModifier,tryLocation,Selector", "0": "AsModifier", "default": "AsLocator,AsModifier"}[which]
		got := strings.Join(calls, ",")
		switch {
		case got != want:
			r.Bad("LOC-PRECEDENCE", key, p.Pos(cl.Pos()), "the interpretations are tried as ["+got+"], the documented precedence is ["+want+"]")
		case !sliceOK:
			r.Bad("LOC-PRECEDENCE", key, p.Pos(cl.Pos()), "the halves handed to the sub-parsers are not s, s[1:], s[:i] and s[i+1:]")
		default:
			r.Ok("LOC-PRECEDENCE", key, p.Pos(cl.Pos()), got)
		}
	}
}

// LocGrammar decides LOC-GRAMMAR: wherever the location grammar is assembled,
// the operand of complement(...) is the grammar itself (a pointer to the
// parser variable that the enclosing pars.Any is assigned to), so that
// complement() admits every form the grammar admits - points, nested
// complements, joins - and not just one of them.
func LocGrammar(p *core.Prog, r *core.Report) {
	r.Rule("LOC-GRAMMAR", "every call of gts.parseComplement takes the address of a pars.Parser variable that is assigned a pars.Any(...) alternative list (the recursive knot of the grammar), never a single leaf parser", 2)
	info := p.Info(core.PkgGts)
	pk := p.Pkg(core.PkgGts)
	// variables assigned a pars.Any(...)
	anyVars := map[types.Object]bool{}
	for _, f := range pk.Syntax {
		ast.Inspect(f, func(n ast.Node) bool {
			var lhs []ast.Expr
			var rhs []ast.Expr
			switch x := n.(type) {
			case *ast.AssignStmt:
				lhs, rhs = x.Lhs, x.Rhs
			case *ast.ValueSpec:
				for _, nm := range x.Names {
					lhs = append(lhs, nm)
				}
				rhs = x.Values
			default:
				return true
			}
			if len(lhs) != len(rhs) {
				return true
			}
			for i := range lhs {
				if c, ok := ast.Unparen(rhs[i]).(*ast.CallExpr); ok && core.IsCallTo(info, c, "github.com/go-pars/pars.Any") {
					if o := core.ObjOf(info, lhs[i]); o != nil {
						anyVars[o] = true
					}
				}
			}
			return true
		})
	}
	n := 0
	for _, f := range pk.Syntax {
		ast.Inspect(f, func(nd ast.Node) bool {
			c, ok := nd.(*ast.CallExpr)
			if !ok || !core.IsCallTo(info, c, core.PkgGts+".parseComplement") || len(c.Args) != 1 {
				return true
			}
			n++
			key := fmt.Sprintf("gts.parseComplement|call#%d", n)
			u, ok := ast.Unparen(c.Args[0]).(*ast.UnaryExpr)
			if ok && u.Op == token.AND {
				if o := core.ObjOf(info, u.X); o != nil && anyVars[o] {
					r.Ok("LOC-GRAMMAR", key, p.Pos(c.Pos()), "operand is the grammar variable "+types.ExprString(u.X))
					return true
				}
			}
			r.Bad("LOC-GRAMMAR", key, p.Pos(c.Pos()), "the operand of complement(...) is `"+types.ExprString(c.Args[0])+"`, not the location grammar itself: complement(point), nested complements or complement(join(...)) are no longer accepted here and fall through to another interpretation")
			return true
		})
	}
	if n == 0 {
		r.Und("LOC-GRAMMAR", "gts.parseComplement", "-", "no call of parseComplement found")
	}
}

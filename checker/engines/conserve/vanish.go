package conserve

import (
	"fmt"
	"go/ast"
	"go/token"
	"go/types"

	"gtsverif/core"
)

// PointVanish decides POINT-VANISH on Point.Expand. Expand(i, n) with n < 0
// removes the residues [i, i-n). A point p loses its residue exactly when
// i <= p < i-n and must then become the zero-width site Between(i) at the cut
// (C03: "a feature that lost all residues becomes a zero-length between-site");
// everywhere else it stays a point. The kind returned is decided by guards that
// only compare p with i, p+n with i (i.e. p with i-n), and n with 0, so
// evaluating the guards for every consistent combination of
//
//	sign(n), sign(p - i), sign(p + n - i)
//
// (15 combinations) is exhaustive for all integers. The coordinate a surviving
// point gets is the CLAMP rule's business.
func PointVanish(p *core.Prog, r *core.Report) {
	r.Rule("POINT-VANISH", "Point.Expand(i, n) returns a between-site exactly when n < 0 and i <= p < i-n (the point's residue is among those removed) and a point otherwise, for every consistent combination of sign(n), sign(p-i), sign(p+n-i): a point strictly inside a deleted stretch does not re-attach to the first surviving base", 1)
	info := p.Info(gts)
	fd := p.FuncDecl(gts, "Point.Expand")
	key := "gts.Point.Expand"
	if fd == nil || fd.Body == nil || fd.Recv == nil || len(fd.Recv.List) != 1 || len(fd.Recv.List[0].Names) != 1 || fd.Type.Params.NumFields() != 2 {
		r.Und("POINT-VANISH", key+"|anchor", "-", "anchor-unresolved")
		return
	}
	r.Fn(key)
	recv := info.Defs[fd.Recv.List[0].Names[0]]
	var params []types.Object
	for _, f := range fd.Type.Params.List {
		for _, nm := range f.Names {
			params = append(params, info.Defs[nm])
		}
	}
	if len(params) != 2 {
		r.Und("POINT-VANISH", key+"|anchor", "-", "anchor-unresolved")
		return
	}
	iObj, nObj := params[0], params[1]
	asg := core.Assigns(info, fd.Body)
	// the local that holds int(point)
	isP := func(e ast.Expr) bool {
		e = ast.Unparen(e)
		if c, ok := e.(*ast.CallExpr); ok && core.IsConversion(info, c) && len(c.Args) == 1 {
			return core.ObjOf(info, c.Args[0]) == recv
		}
		o := core.ObjOf(info, e)
		if o == nil || o == recv {
			return o == recv
		}
		defs := asg[o]
		if len(defs) == 0 || defs[0].RHS == nil {
			return false
		}
		if c, ok := ast.Unparen(defs[0].RHS).(*ast.CallExpr); ok && core.IsConversion(info, c) && len(c.Args) == 1 {
			return core.ObjOf(info, c.Args[0]) == recv
		}
		return false
	}
	type lin struct {
		p, i, n, c int64
		ok         bool
	}
	var linear func(e ast.Expr) lin
	linear = func(e ast.Expr) lin {
		e = ast.Unparen(e)
		if k, ok := core.ConstInt(info, e); ok {
			return lin{c: k, ok: true}
		}
		if isP(e) {
			return lin{p: 1, ok: true}
		}
		switch x := e.(type) {
		case *ast.Ident:
			switch core.ObjOf(info, x) {
			case iObj:
				return lin{i: 1, ok: true}
			case nObj:
				return lin{n: 1, ok: true}
			}
		case *ast.UnaryExpr:
			if x.Op == token.SUB {
				l := linear(x.X)
				return lin{-l.p, -l.i, -l.n, -l.c, l.ok}
			}
		case *ast.BinaryExpr:
			a, b := linear(x.X), linear(x.Y)
			switch x.Op {
			case token.ADD:
				return lin{a.p + b.p, a.i + b.i, a.n + b.n, a.c + b.c, a.ok && b.ok}
			case token.SUB:
				return lin{a.p - b.p, a.i - b.i, a.n - b.n, a.c - b.c, a.ok && b.ok}
			}
		}
		return lin{}
	}
	// combos: index = (sn+1)*9 + (rpi+1)*3 + (rpe+1)
	consistent := func(sn, rpi, rpe int) bool {
		switch {
		case sn == 0:
			return rpe == rpi
		case sn < 0: // p+n-i < p-i
			if rpi <= 0 {
				return rpe == -1
			}
			return true
		default:
			if rpi >= 0 {
				return rpe == 1
			}
			return true
		}
	}
	// signDecide: truth of `X + c  op  0` given only sign(X) = s; ok=false when it is not determined
	signDecide := func(s int, c int64, op token.Token) (bool, bool) {
		// X op' k with k = -c
		k := -c
		switch op {
		case token.GTR: // X > k  <=> X >= k+1
			op, k = token.GEQ, k+1
		case token.LSS: // X < k <=> X <= k-1
			op, k = token.LEQ, k-1
		}
		switch op {
		case token.GEQ:
			switch k {
			case 1:
				return s > 0, true
			case 0:
				return s >= 0, true
			}
		case token.LEQ:
			switch k {
			case -1:
				return s < 0, true
			case 0:
				return s <= 0, true
			}
		case token.EQL:
			if k == 0 {
				return s == 0, true
			}
		case token.NEQ:
			if k == 0 {
				return s != 0, true
			}
		}
		return false, false
	}
	undecided := ""
	var evalCond func(e ast.Expr, sn, rpi, rpe int) bool
	evalCond = func(e ast.Expr, sn, rpi, rpe int) bool {
		e = ast.Unparen(e)
		switch x := e.(type) {
		case *ast.UnaryExpr:
			if x.Op == token.NOT {
				return !evalCond(x.X, sn, rpi, rpe)
			}
		case *ast.BinaryExpr:
			switch x.Op {
			case token.LAND:
				return evalCond(x.X, sn, rpi, rpe) && evalCond(x.Y, sn, rpi, rpe)
			case token.LOR:
				return evalCond(x.X, sn, rpi, rpe) || evalCond(x.Y, sn, rpi, rpe)
			case token.LSS, token.LEQ, token.GTR, token.GEQ, token.EQL, token.NEQ:
				a, b := linear(x.X), linear(x.Y)
				d := lin{a.p - b.p, a.i - b.i, a.n - b.n, a.c - b.c, a.ok && b.ok}
				op := x.Op
				if d.ok && (d.p < 0 || (d.p == 0 && d.i > 0) || (d.p == 0 && d.i == 0 && d.n < 0)) {
					// flip the sign so that the leading coefficient is positive
					d = lin{-d.p, -d.i, -d.n, -d.c, true}
					op = map[token.Token]token.Token{token.LSS: token.GTR, token.GTR: token.LSS, token.LEQ: token.GEQ, token.GEQ: token.LEQ, token.EQL: token.EQL, token.NEQ: token.NEQ}[op]
				}
				s, known := 0, false
				switch {
				case !d.ok:
				case d.p == 1 && d.i == -1 && d.n == 0:
					s, known = rpi, true
				case d.p == 1 && d.i == -1 && d.n == 1:
					s, known = rpe, true
				case d.p == 0 && d.i == 0 && d.n == 1:
					s, known = sn, true
				case d.p == 0 && d.i == -1 && d.n == 0: // -i + ... not handled
				}
				if known {
					if v, ok := signDecide(s, d.c, op); ok {
						return v
					}
				}
			}
		}
		if undecided == "" {
			undecided = "the guard `" + types.ExprString(e) + "` is not a comparison between p and i, p+n and i, or n and 0"
		}
		return false
	}
	fl := core.NewFlow(info, fd.Body)
	const dirty = 1 << 27
	init := 0
	for sn := -1; sn <= 1; sn++ {
		for rpi := -1; rpi <= 1; rpi++ {
			for rpe := -1; rpe <= 1; rpe++ {
				if consistent(sn, rpi, rpe) {
					init |= 1 << uint((sn+1)*9+(rpi+1)*3+(rpe+1))
				}
			}
		}
	}
	kindOf := map[int]string{} // combo -> "Between" / "Point" / "?"
	core.Scan(fl, fl.Entry(), init, core.Stepper[int]{
		Node: func(s int, n ast.Node) (int, bool) {
			switch x := n.(type) {
			case *ast.AssignStmt:
				for _, l := range x.Lhs {
					if isP(l) && x.Tok != token.DEFINE {
						s |= dirty
					}
				}
			case *ast.ReturnStmt:
				kind := "?"
				if len(x.Results) == 1 {
					if c, ok := ast.Unparen(x.Results[0]).(*ast.CallExpr); ok && core.IsConversion(info, c) {
						switch core.NamedOf(info.Types[c].Type) {
						case gts + ".Between":
							kind = "Between"
						case gts + ".Point":
							kind = "Point"
						}
					} else if core.ObjOf(info, x.Results[0]) == recv {
						kind = "Point"
					}
				}
				for b := 0; b < 27; b++ {
					if s&(1<<uint(b)) != 0 {
						if old, has := kindOf[b]; has && old != kind {
							kindOf[b] = "?"
						} else if !has {
							kindOf[b] = kind
						}
					}
				}
				return s, true
			}
			return s, false
		},
		Edge: func(s int, cond ast.Expr, taken bool) int {
			if s&dirty != 0 {
				if undecided == "" {
					undecided = "a guard is evaluated after the coordinate was updated"
				}
				return s
			}
			out := s &^ ((1 << 27) - 1)
			for b := 0; b < 27; b++ {
				if s&(1<<uint(b)) == 0 {
					continue
				}
				sn, rpi, rpe := b/9-1, (b/3)%3-1, b%3-1
				if evalCond(cond, sn, rpi, rpe) == taken {
					out |= 1 << uint(b)
				}
			}
			return out
		},
	})
	if undecided != "" {
		r.Und("POINT-VANISH", key, p.Pos(fd.Pos()), undecided)
		return
	}
	rel := map[int]string{-1: "<", 0: "=", 1: ">"}
	for b := 0; b < 27; b++ {
		if init&(1<<uint(b)) == 0 {
			continue
		}
		sn, rpi, rpe := b/9-1, (b/3)%3-1, b%3-1
		want := "Point"
		if sn < 0 && rpi >= 0 && rpe < 0 {
			want = "Between"
		}
		got, has := kindOf[b]
		if !has {
			got = "nothing"
		}
		if got != want {
			r.Bad("POINT-VANISH", key, p.Pos(fd.Pos()), fmt.Sprintf("for n %s 0, p %s i, p %s i-n the method returns a %s, the specification a %s: a point strictly inside a deleted stretch (Delete(3,5) of the point 6) comes back as the point at the cut, which denotes the first surviving base - a residue the feature never had - instead of the site %s", rel[sn], rel[rpi], rel[rpe], got, want, "i^i+1"))
			return
		}
	}
	r.Ok("POINT-VANISH", key, p.Pos(fd.Pos()), "between-site exactly for i <= p < i-n with n < 0, for all 15 consistent sign combinations")
}

package conserve

import (
	"fmt"
	"go/ast"
	"go/token"
	"go/types"
	"sort"
	"strings"

	"gtsverif/core"
)

// sym resolves a struct-valued expression to a map from field path to a
// canonical leaf expression, looking through composite literals (positional or
// keyed), single-definition locals, package-level variables with a literal
// initialiser and calls of repo functions whose body is guards-then-return.
// Anything else makes the resolution fail (ok=false): the caller reports the
// obligation undecided, never satisfied.
type sym struct {
	p     *core.Prog
	info  *types.Info
	asg   map[types.Object][]core.Assign
	bind  map[types.Object]symArg // parameters of an inlined callee
	depth int
	why   string
}

type symArg struct {
	e   ast.Expr
	env *sym
}

func newSym(p *core.Prog, info *types.Info, body ast.Node) *sym {
	return &sym{p: p, info: info, asg: core.Assigns(info, body)}
}

func (s *sym) fail(format string, a ...interface{}) bool {
	if s.why == "" {
		s.why = fmt.Sprintf(format, a...)
	}
	return false
}

func structOf(t types.Type) *types.Struct {
	if t == nil {
		return nil
	}
	st, _ := t.Underlying().(*types.Struct)
	return st
}

func zeroOf(t types.Type) string {
	switch u := t.Underlying().(type) {
	case *types.Basic:
		switch {
		case u.Info()&types.IsBoolean != 0:
			return "false"
		case u.Info()&types.IsNumeric != 0:
			return "0"
		case u.Info()&types.IsString != 0:
			return `""`
		}
	}
	return "zero"
}

// expand an opaque struct-valued base into its leaves base.f, base.f.g ...
func expandOpaque(base string, t types.Type, prefix string, out map[string]string) {
	st := structOf(t)
	if st == nil {
		out[prefix] = base
		return
	}
	for i := 0; i < st.NumFields(); i++ {
		f := st.Field(i)
		expandOpaque(base+"."+f.Name(), f.Type(), join(prefix, f.Name()), out)
	}
}

func expandZero(t types.Type, prefix string, out map[string]string) {
	st := structOf(t)
	if st == nil {
		out[prefix] = zeroOf(t)
		return
	}
	for i := 0; i < st.NumFields(); i++ {
		f := st.Field(i)
		expandZero(f.Type(), join(prefix, f.Name()), out)
	}
}

func join(prefix, name string) string {
	if prefix == "" {
		return name
	}
	return prefix + "." + name
}

// fields resolves e (of any type) under prefix into out.
func (s *sym) fields(e ast.Expr, prefix string, out map[string]string) bool {
	if s.depth > 8 {
		return s.fail("resolution too deep")
	}
	e = ast.Unparen(e)
	t := s.info.TypeOf(e)
	st := structOf(t)
	if st == nil {
		l, ok := s.leaf(e)
		if !ok {
			return false
		}
		out[prefix] = l
		return true
	}
	switch x := e.(type) {
	case *ast.CompositeLit:
		keyed := len(x.Elts) > 0
		for _, el := range x.Elts {
			if _, ok := el.(*ast.KeyValueExpr); !ok {
				keyed = false
			}
		}
		if keyed || len(x.Elts) == 0 {
			seen := map[string]bool{}
			for _, el := range x.Elts {
				kv := el.(*ast.KeyValueExpr)
				name := kv.Key.(*ast.Ident).Name
				seen[name] = true
				if !s.fields(kv.Value, join(prefix, name), out) {
					return false
				}
			}
			for i := 0; i < st.NumFields(); i++ {
				if f := st.Field(i); !seen[f.Name()] {
					expandZero(f.Type(), join(prefix, f.Name()), out)
				}
			}
			return true
		}
		if len(x.Elts) != st.NumFields() {
			return s.fail("positional literal with %d of %d fields", len(x.Elts), st.NumFields())
		}
		for i, el := range x.Elts {
			if !s.fields(el, join(prefix, st.Field(i).Name()), out) {
				return false
			}
		}
		return true
	case *ast.Ident:
		obj := core.ObjOf(s.info, x)
		if a, ok := s.bind[obj]; ok {
			return a.env.fieldsInto(a.e, prefix, out, s)
		}
		if v, ok := obj.(*types.Var); ok && v.Pkg() != nil && v.Parent() == v.Pkg().Scope() {
			init, ii := s.p.PkgVarInit(v)
			if init == nil {
				return s.fail("package variable %s has no literal initialiser", v.Name())
			}
			sub := &sym{p: s.p, info: ii, asg: map[types.Object][]core.Assign{}, depth: s.depth + 1}
			ok := sub.fields(init, prefix, out)
			if !ok {
				s.fail("%s", sub.why)
			}
			return ok
		}
		if as := s.asg[obj]; len(as) == 1 && as[0].RHS != nil {
			s.depth++
			defer func() { s.depth-- }()
			return s.fields(as[0].RHS, prefix, out)
		}
		if len(s.asg[obj]) > 1 {
			return s.fail("%s is assigned more than once", x.Name)
		}
		expandOpaque(x.Name, t, prefix, out)
		return true
	case *ast.SelectorExpr:
		base, ok := s.leaf(x)
		if !ok {
			return false
		}
		expandOpaque(base, t, prefix, out)
		return true
	case *ast.CallExpr:
		if core.IsConversion(s.info, x) && len(x.Args) == 1 {
			return s.fields(x.Args[0], prefix, out)
		}
		fn := core.Callee(s.info, x)
		if fn == nil || fn.Pkg() == nil || !strings.HasPrefix(fn.Pkg().Path(), core.Mod) {
			return s.fail("call of %s cannot be resolved to a repo function", types.ExprString(x.Fun))
		}
		fd := s.p.FuncDecl(fn.Pkg().Path(), fn.Name())
		if fd == nil || fd.Body == nil || fd.Recv != nil {
			return s.fail("no body for %s", fn.Name())
		}
		ret := guardsThenReturn(fd)
		if ret == nil {
			return s.fail("%s is not guards-then-return", fn.Name())
		}
		ci := s.p.Info(fn.Pkg().Path())
		sub := &sym{p: s.p, info: ci, asg: core.Assigns(ci, fd.Body), bind: map[types.Object]symArg{}, depth: s.depth + 1}
		i := 0
		for _, f := range fd.Type.Params.List {
			for _, n := range f.Names {
				if i < len(x.Args) {
					sub.bind[ci.Defs[n]] = symArg{x.Args[i], s}
				}
				i++
			}
		}
		ok := sub.fields(ret, prefix, out)
		if !ok {
			s.fail("%s", sub.why)
		}
		return ok
	}
	return s.fail("unsupported struct expression %s", types.ExprString(e))
}

// fieldsInto resolves e in env s on behalf of callee env `from`.
func (s *sym) fieldsInto(e ast.Expr, prefix string, out map[string]string, from *sym) bool {
	s.depth = from.depth + 1
	ok := s.fields(e, prefix, out)
	if !ok {
		from.fail("%s", s.why)
	}
	return ok
}

// guardsThenReturn: the body is zero or more `if c { panic(..) }` / commented
// guards followed by a single `return expr`.
func guardsThenReturn(fd *ast.FuncDecl) ast.Expr {
	n := len(fd.Body.List)
	if n == 0 {
		return nil
	}
	ret, ok := fd.Body.List[n-1].(*ast.ReturnStmt)
	if !ok || len(ret.Results) != 1 {
		return nil
	}
	for _, st := range fd.Body.List[:n-1] {
		is, ok := st.(*ast.IfStmt)
		if !ok || is.Else != nil || is.Init != nil || len(is.Body.List) != 1 {
			return nil
		}
		es, ok := is.Body.List[0].(*ast.ExprStmt)
		if !ok {
			return nil
		}
		c, ok := es.X.(*ast.CallExpr)
		if !ok {
			return nil
		}
		if id, ok := c.Fun.(*ast.Ident); !ok || id.Name != "panic" {
			return nil
		}
	}
	return ret.Results[0]
}

// leaf canonicalises a scalar expression.
func (s *sym) leaf(e ast.Expr) (string, bool) {
	e = ast.Unparen(e)
	if tv, ok := s.info.Types[e]; ok && tv.Value != nil {
		return tv.Value.ExactString(), true
	}
	switch x := e.(type) {
	case *ast.Ident:
		obj := core.ObjOf(s.info, x)
		if a, ok := s.bind[obj]; ok {
			return a.env.leaf(a.e)
		}
		if as := s.asg[obj]; len(as) == 1 && as[0].RHS != nil && s.depth < 8 {
			if _, isParam := obj.(*types.Var); isParam {
				s.depth++
				defer func() { s.depth-- }()
				return s.leaf(as[0].RHS)
			}
		}
		if len(s.asg[obj]) > 1 {
			return "", s.fail("%s is assigned more than once", x.Name)
		}
		return x.Name, true
	case *ast.SelectorExpr:
		b, ok := s.leaf(x.X)
		if !ok {
			return "", false
		}
		// a field of a struct we can resolve
		if structOf(s.info.TypeOf(x.X)) != nil {
			m := map[string]string{}
			save := s.why
			if s.fields(x.X, "", m) {
				if v, ok := m[x.Sel.Name]; ok {
					return v, true
				}
				pre := x.Sel.Name + "."
				_ = pre
			}
			s.why = save
		}
		return b + "." + x.Sel.Name, true
	case *ast.BinaryExpr:
		l, ok1 := s.leaf(x.X)
		r, ok2 := s.leaf(x.Y)
		if !ok1 || !ok2 {
			return "", false
		}
		if x.Op == token.ADD || x.Op == token.MUL || x.Op == token.EQL || x.Op == token.NEQ || x.Op == token.LAND || x.Op == token.LOR {
			if r < l {
				l, r = r, l
			}
		}
		return "(" + l + " " + x.Op.String() + " " + r + ")", true
	case *ast.UnaryExpr:
		l, ok := s.leaf(x.X)
		return x.Op.String() + l, ok
	case *ast.CallExpr:
		if core.IsConversion(s.info, x) && len(x.Args) == 1 {
			return s.leaf(x.Args[0])
		}
		var as []string
		for _, a := range x.Args {
			l, ok := s.leaf(a)
			if !ok {
				return "", false
			}
			as = append(as, l)
		}
		return types.ExprString(x.Fun) + "(" + strings.Join(as, ", ") + ")", true
	case *ast.TypeAssertExpr:
		l, ok := s.leaf(x.X)
		return l, ok
	case *ast.StarExpr:
		l, ok := s.leaf(x.X)
		return "*" + l, ok
	case *ast.IndexExpr:
		l, ok1 := s.leaf(x.X)
		i, ok2 := s.leaf(x.Index)
		return l + "[" + i + "]", ok1 && ok2
	}
	return "", s.fail("unsupported scalar expression %s", types.ExprString(e))
}

func showFields(m map[string]string) string {
	var ks []string
	for k := range m {
		ks = append(ks, k)
	}
	sort.Strings(ks)
	var b []string
	for _, k := range ks {
		b = append(b, k+"="+m[k])
	}
	return strings.Join(b, " ")
}

// truth evaluates a boolean expression over named atoms: atoms are the
// canonical leaves of its non-&&/||/! sub-expressions.
func (s *sym) atoms(e ast.Expr, set map[string]bool) bool {
	e = ast.Unparen(e)
	switch x := e.(type) {
	case *ast.BinaryExpr:
		if x.Op == token.LAND || x.Op == token.LOR {
			return s.atoms(x.X, set) && s.atoms(x.Y, set)
		}
	case *ast.UnaryExpr:
		if x.Op == token.NOT {
			return s.atoms(x.X, set)
		}
	}
	l, ok := s.leaf(e)
	if ok {
		set[l] = true
	}
	return ok
}

func (s *sym) truth(e ast.Expr, val map[string]bool) bool {
	e = ast.Unparen(e)
	switch x := e.(type) {
	case *ast.BinaryExpr:
		if x.Op == token.LAND {
			return s.truth(x.X, val) && s.truth(x.Y, val)
		}
		if x.Op == token.LOR {
			return s.truth(x.X, val) || s.truth(x.Y, val)
		}
	case *ast.UnaryExpr:
		if x.Op == token.NOT {
			return !s.truth(x.X, val)
		}
	}
	l, _ := s.leaf(e)
	return val[l]
}

package conserve

import (
	"fmt"
	"go/ast"
	"go/token"
	"go/types"
	"strings"

	"gtsverif/core"
)

// LessQuant decides LESS-QUANT on LocationLess: a multi-part location on the
// left is less than b when SOME part is, a multi-part location on the right is
// greater than a when a is less than EVERY part. Each of the two clauses is a
// range loop over all the parts whose body is `if [!]LocationLess(..) { return c }`
// followed by `return !c`. Comparing with the first part only presumes that the
// parts are listed in ascending order, which a feature spanning the origin of a
// circular molecule (join(5001..5386,1..100)) is not: the order stops being a
// strict partial order and the sorted insertion misplaces features.
func LessQuant(p *core.Prog, r *core.Report) {
	r.Rule("LESS-QUANT", "in LocationLess the clause for a multi-part left operand is `for every part: if LocationLess(part, b) return true; return false` and the clause for a multi-part right operand `for every part: if !LocationLess(a, part) return false; return true`: the loops range over the whole part list, have no other exit, and consult every part", 2)
	info := p.Info(gts)
	fd := p.FuncDecl(gts, "LocationLess")
	if fd == nil || fd.Body == nil || fd.Type.Params.NumFields() != 2 {
		r.Und("LESS-QUANT", "gts.LocationLess|anchor", "-", "anchor-unresolved")
		return
	}
	r.Fn("gts.LocationLess")
	self, _ := info.Defs[fd.Name].(*types.Func)
	var params []types.Object
	for _, f := range fd.Type.Params.List {
		for _, n := range f.Names {
			params = append(params, info.Defs[n])
		}
	}
	found := map[int]bool{}
	for _, st := range fd.Body.List {
		is, ok := st.(*ast.IfStmt)
		if !ok || is.Init == nil {
			continue
		}
		as, ok := is.Init.(*ast.AssignStmt)
		if !ok || len(as.Rhs) != 1 || len(as.Lhs) != 2 {
			continue
		}
		ta, ok := ast.Unparen(as.Rhs[0]).(*ast.TypeAssertExpr)
		if !ok || ta.Type == nil {
			continue
		}
		tv, has := info.Types[ta.Type]
		if !has || tv.Type == nil {
			continue
		}
		it, isI := tv.Type.Underlying().(*types.Interface)
		multi := false
		if isI {
			for i := 0; i < it.NumMethods(); i++ {
				if it.Method(i).Name() == "slice" {
					multi = true
				}
			}
		}
		if !multi {
			continue
		}
		side := -1
		for k, po := range params {
			if core.ObjOf(info, ta.X) == po {
				side = k
			}
		}
		if side < 0 {
			continue
		}
		found[side] = true
		key := fmt.Sprintf("gts.LocationLess|multipart-%s", []string{"left", "right"}[side])
		lst := core.ObjOf(info, as.Lhs[0])
		body := is.Body.List
		if len(body) != 2 {
			r.Bad("LESS-QUANT", key, p.Pos(is.Pos()), "the clause is not a loop over the parts followed by a return: every part must be consulted (comparing with the first part only presumes ascending parts, which a feature that spans the origin does not have)")
			continue
		}
		rs, ok1 := body[0].(*ast.RangeStmt)
		fin, ok2 := body[1].(*ast.ReturnStmt)
		if !ok1 || !ok2 || len(fin.Results) != 1 || rs.Value == nil || len(rs.Body.List) != 1 {
			r.Bad("LESS-QUANT", key, p.Pos(is.Pos()), "the clause is not `for _, part := range parts { if ... { return c } }; return !c`")
			continue
		}
		whole := false
		if c, ok := ast.Unparen(rs.X).(*ast.CallExpr); ok && len(c.Args) == 0 {
			if se, ok := c.Fun.(*ast.SelectorExpr); ok && se.Sel.Name == "slice" && core.ObjOf(info, se.X) == lst {
				whole = true
			}
		}
		if core.ObjOf(info, rs.X) == lst {
			whole = true
		}
		inner, ok := rs.Body.List[0].(*ast.IfStmt)
		if !whole || !ok || inner.Init != nil || inner.Else != nil || len(inner.Body.List) != 1 {
			r.Bad("LESS-QUANT", key, p.Pos(rs.Pos()), "the loop does not range over the whole part list with a single test per part")
			continue
		}
		ret, ok := inner.Body.List[0].(*ast.ReturnStmt)
		if !ok || len(ret.Results) != 1 {
			r.Bad("LESS-QUANT", key, p.Pos(inner.Pos()), "the test does not return from inside the loop")
			continue
		}
		cond := ast.Unparen(inner.Cond)
		neg := false
		if u, ok := cond.(*ast.UnaryExpr); ok && u.Op == token.NOT {
			neg, cond = true, ast.Unparen(u.X)
		}
		call, ok := cond.(*ast.CallExpr)
		part := core.ObjOf(info, rs.Value)
		okCall := ok && core.Callee(info, call) == self && len(call.Args) == 2 &&
			core.ObjOf(info, call.Args[side]) == part && core.ObjOf(info, call.Args[1-side]) == params[1-side]
		boolOf := func(e ast.Expr) (bool, bool) {
			tv, ok := info.Types[e]
			if !ok || tv.Value == nil {
				return false, false
			}
			return tv.Value.String() == "true", true
		}
		c1, k1 := boolOf(ret.Results[0])
		c2, k2 := boolOf(fin.Results[0])
		// left: exists (if Less(part,b) return true; return false); right: forall (if !Less(a,part) return false; return true)
		wantNeg, wantInner := side == 1, side == 0
		if !okCall || !k1 || !k2 || neg != wantNeg || c1 != wantInner || c2 == c1 {
			r.Bad("LESS-QUANT", key, p.Pos(inner.Pos()), fmt.Sprintf("the quantifier is wrong: a multi-part %s operand needs %s; found `if %s { return %v }; return %v`", []string{"left", "right"}[side], []string{"`if LocationLess(part, b) { return true }; return false`", "`if !LocationLess(a, part) { return false }; return true`"}[side], types.ExprString(inner.Cond), c1, c2))
			continue
		}
		// no other exit from the loop
		clean := true
		ast.Inspect(rs.Body, func(n ast.Node) bool {
			if b, ok := n.(*ast.BranchStmt); ok && (b.Tok == token.BREAK || b.Tok == token.CONTINUE || b.Tok == token.GOTO) {
				clean = false
			}
			return clean
		})
		if !clean {
			r.Bad("LESS-QUANT", key, p.Pos(rs.Pos()), "the loop over the parts has another exit")
			continue
		}
		r.Ok("LESS-QUANT", key, p.Pos(is.Pos()), "every part is consulted with the right quantifier")
	}
	for side, nm := range []string{"left", "right"} {
		if !found[side] {
			r.Und("LESS-QUANT", "gts.LocationLess|multipart-"+nm, p.Pos(fd.Pos()), "no clause for a multi-part "+nm+" operand found")
		}
	}
}

// PrefixFunc decides PREFIX-FUNC: seqio.AddPrefix puts the prefix behind EVERY
// line break of the value, empty lines included: the reader recognises a
// continuation line by its indent alone, so an unindented empty line (the gap
// between two paragraphs of a COMMENT) ends the field and the rest of it is
// skipped without an error.
func PrefixFunc(p *core.Prog, r *core.Report) {
	r.Rule("PREFIX-FUNC", "seqio.AddPrefix is `return strings.ReplaceAll(s, \"\\n\", \"\\n\"+prefix)` (or strings.Replace with a negative count): every continuation line, an empty one too, carries the indent the reader recognises it by", 1)
	info := p.Info(core.PkgSeqio)
	fd := p.FuncDecl(core.PkgSeqio, "AddPrefix")
	key := "seqio.AddPrefix"
	if fd == nil || fd.Body == nil || fd.Type.Params.NumFields() != 2 {
		r.Und("PREFIX-FUNC", key+"|anchor", "-", "anchor-unresolved")
		return
	}
	r.Fn(key)
	var params []types.Object
	for _, f := range fd.Type.Params.List {
		for _, n := range f.Names {
			params = append(params, info.Defs[n])
		}
	}
	ok := false
	if len(fd.Body.List) == 1 && len(params) == 2 {
		if rs, isRet := fd.Body.List[0].(*ast.ReturnStmt); isRet && len(rs.Results) == 1 {
			if c, isCall := ast.Unparen(rs.Results[0]).(*ast.CallExpr); isCall {
				all := core.IsCallTo(info, c, "strings.ReplaceAll") && len(c.Args) == 3
				if core.IsCallTo(info, c, "strings.Replace") && len(c.Args) == 4 {
					if n, isC := core.ConstInt(info, c.Args[3]); isC && n < 0 {
						all = true
					}
				}
				if all && core.ObjOf(info, c.Args[0]) == params[0] {
					old, isOld := core.ConstString(info, c.Args[1])
					if be, isB := ast.Unparen(c.Args[2]).(*ast.BinaryExpr); isB && isOld && old == "\n" && be.Op == token.ADD {
						l, isL := core.ConstString(info, be.X)
						if isL && l == "\n" && core.ObjOf(info, be.Y) == params[1] {
							ok = true
						}
					}
				}
			}
		}
	}
	if ok {
		r.Ok("PREFIX-FUNC", key, p.Pos(fd.Pos()), "the prefix follows every line break")
	} else {
		r.Und("PREFIX-FUNC", key, p.Pos(fd.Pos()), "AddPrefix is not the single ReplaceAll of \"\\n\" by \"\\n\"+prefix: whether every continuation line (an empty one too) gets the indent cannot be read off a hand-written loop; a line left without it ends the field for the reader")
	}
}

// ComplementWrap decides COMPLEMENT-WRAP: the Complement method of every
// location kind but Complemented wraps the receiver, `return Complemented{recv}`,
// and does nothing else. Distributing the complement over the parts of a join
// has to reverse their order as well (rc(a+b) = rc(b)+rc(a)); wrapping cannot
// get that wrong.
func ComplementWrap(p *core.Prog, r *core.Report) {
	r.Rule("COMPLEMENT-WRAP", "Between, Point, Ranged, Ambiguous, Joined and Ordered implement Complement() as the single statement `return Complemented{recv}`; only Complemented.Complement unwraps", 6)
	info := p.Info(gts)
	for _, kind := range []string{"Between", "Point", "Ranged", "Ambiguous", "Joined", "Ordered"} {
		fd := p.FuncDecl(gts, kind+".Complement")
		key := "gts." + kind + ".Complement"
		if fd == nil || fd.Body == nil || fd.Recv == nil || len(fd.Recv.List) != 1 || len(fd.Recv.List[0].Names) != 1 {
			r.Und("COMPLEMENT-WRAP", key+"|anchor", "-", "anchor-unresolved")
			continue
		}
		r.Fn(key)
		recv := info.Defs[fd.Recv.List[0].Names[0]]
		ok := false
		if len(fd.Body.List) == 1 {
			if rs, isRet := fd.Body.List[0].(*ast.ReturnStmt); isRet && len(rs.Results) == 1 {
				if cl, isLit := ast.Unparen(rs.Results[0]).(*ast.CompositeLit); isLit && len(cl.Elts) == 1 && core.NamedOf(info.Types[cl].Type) == gts+".Complemented" {
					el := cl.Elts[0]
					if kv, isKV := el.(*ast.KeyValueExpr); isKV {
						el = kv.Value
					}
					ok = core.ObjOf(info, el) == recv
				}
			}
		}
		if ok {
			r.Ok("COMPLEMENT-WRAP", key, p.Pos(fd.Pos()), "wraps the receiver")
		} else {
			r.Bad("COMPLEMENT-WRAP", key, p.Pos(fd.Pos()), kind+".Complement does more than wrap its receiver: a complement that is distributed over the parts of a multi-part location must also reverse their order (the reverse complement of a+b is rc(b)+rc(a)); with the order kept a mixed-strand join reads its exons in the wrong order after Complement, and Complement is no longer an involution")
		}
	}
}

// FlattenCases decides FLATTEN-CASES: flattenLocations, the normalisation Order
// applies to its arguments, splices in the members of a nested Ordered and leaves
// every other kind as it is. Flattening through a complement would have to
// reverse the spliced members.
func FlattenCases(p *core.Prog, r *core.Report) {
	r.Rule("FLATTEN-CASES", "the type switch of gts.flattenLocations has no case but Ordered (and default): no other kind is taken apart when an order is built", 1)
	info := p.Info(gts)
	fd := p.FuncDecl(gts, "flattenLocations")
	key := "gts.flattenLocations"
	if fd == nil || fd.Body == nil {
		r.Und("FLATTEN-CASES", key+"|anchor", "-", "anchor-unresolved")
		return
	}
	r.Fn(key)
	n := 0
	bad := ""
	var badPos token.Pos
	ast.Inspect(fd.Body, func(nd ast.Node) bool {
		if ta, isTA := nd.(*ast.TypeAssertExpr); isTA && ta.Type != nil {
			// `x, ok := loc.(T)`: the same dispatch as a one-case type switch
			n++
			name := strings.TrimPrefix(core.NamedOf(info.Types[ta.Type].Type), gts+".")
			if name != "Ordered" && bad == "" {
				bad, badPos = name, ta.Pos()
			}
			return true
		}
		ts, ok := nd.(*ast.TypeSwitchStmt)
		if !ok {
			return true
		}
		n++
		for _, cc := range ts.Body.List {
			cl := cc.(*ast.CaseClause)
			for _, t := range cl.List {
				name := strings.TrimPrefix(core.NamedOf(info.Types[t].Type), gts+".")
				if name != "Ordered" && bad == "" {
					bad, badPos = name, cl.Pos()
				}
			}
		}
		return true
	})
	switch {
	case n == 0:
		r.Und("FLATTEN-CASES", key, p.Pos(fd.Pos()), "no type switch found")
	case bad != "":
		r.Bad("FLATTEN-CASES", key, p.Pos(badPos), "flattenLocations takes a "+bad+" apart: only a nested order may be spliced into the surrounding order as it is; members pulled out from under a complement come in the wrong order (complement(order(a,b)) reads rc(b), rc(a)), so Order changes the list of residues a location denotes and print-parse is no longer a fixed point")
	default:
		r.Ok("FLATTEN-CASES", key, p.Pos(fd.Pos()), "only a nested order is flattened")
	}
}

// RecordState decides RECORD-STATE in the multi-site commands: a slice or map
// that is grown inside the loop over the input records (the loop that writes
// the output) is declared inside that loop. Declared outside, it carries what
// one record collected into the next: `gts extract` then cuts the regions of
// records 1..k-1 out of record k as well.
func RecordState(p *core.Prog, r *core.Report, cmds []string, floor int) {
	r.Rule("RECORD-STATE", "in a multi-site command every slice or map that is appended to or stored into inside the loop over the input records (the loop that calls WriteSeq) is declared, or re-made at the top level, inside that loop: nothing collected for one record is seen by the next", floor)
	info := p.Info(core.PkgMain)
	for _, name := range cmds {
		fd := p.CommandFunc(name)
		if fd == nil || fd.Body == nil {
			r.Und("RECORD-STATE", "main."+name+"|anchor", "-", "anchor-unresolved")
			continue
		}
		fname := fd.Name.Name
		r.Fn("main." + fname)
		// the record loop: the outermost loop that contains a WriteSeq call
		var loop *ast.ForStmt
		ast.Inspect(fd.Body, func(n ast.Node) bool {
			fs, ok := n.(*ast.ForStmt)
			if !ok || loop != nil {
				return loop == nil
			}
			for _, c := range core.Calls(fs.Body) {
				if fn := core.Callee(info, c); fn != nil && fn.Name() == "WriteSeq" {
					loop = fs
				}
			}
			return loop == nil
		})
		if loop == nil {
			r.Und("RECORD-STATE", "main."+fname, p.Pos(fd.Pos()), "no loop that writes records found")
			continue
		}
		grown := map[types.Object]token.Pos{}
		ast.Inspect(loop.Body, func(n ast.Node) bool {
			as, ok := n.(*ast.AssignStmt)
			if !ok {
				return true
			}
			for i, l := range as.Lhs {
				switch x := ast.Unparen(l).(type) {
				case *ast.Ident:
					if i < len(as.Rhs) {
						if c, ok := ast.Unparen(as.Rhs[i]).(*ast.CallExpr); ok && core.IsBuiltin(info, c, "append") && len(c.Args) > 0 && core.ObjOf(info, c.Args[0]) == core.ObjOf(info, x) {
							if o := core.ObjOf(info, x); o != nil {
								grown[o] = as.Pos()
							}
						}
					}
				case *ast.IndexExpr:
					if o := core.ObjOf(info, x.X); o != nil {
						if _, isMap := o.Type().Underlying().(*types.Map); isMap {
							grown[o] = as.Pos()
						}
					}
				}
			}
			return true
		})
		k := 0
		for o, pos := range grown {
			k++
			key := fmt.Sprintf("main.%s|%s", fname, o.Name())
			inside := loop.Body.Pos() <= o.Pos() && o.Pos() < loop.Body.End()
			remade := false
			for _, st := range loop.Body.List {
				if as, ok := st.(*ast.AssignStmt); ok && st.Pos() < pos {
					for i, l := range as.Lhs {
						if core.ObjOf(info, l) == o && i < len(as.Rhs) && !core.UsesObj(info, as.Rhs[i], o) {
							remade = true
						}
					}
				}
			}
			if inside || remade {
				r.Ok("RECORD-STATE", key, p.Pos(pos), "fresh for every record")
			} else {
				r.Bad("RECORD-STATE", key, p.Pos(pos), fmt.Sprintf("`%s` is declared outside the loop over the input records and only ever grown inside it: what was collected for one record is still there for the next (gts extract on a file of several records cuts the regions located on the earlier records out of every later one)", o.Name()))
			}
		}
		if k == 0 {
			r.Note("RECORD-STATE", "main."+fname, p.Pos(loop.Pos()), "nothing is grown inside the record loop")
		}
	}
}

// RotateHead decides ROTATE-HEAD on gts rotate: the amount is the 5' end of the
// first located region, `-rr[0].Head()`, not a coordinate derived from it by a
// helper that picks the smaller of head and tail (the cut position gts split
// wants): on a complement-strand region, or a feature written across the
// origin, the two differ.
func RotateHead(p *core.Prog, r *core.Report) {
	r.Rule("ROTATE-HEAD", "gts rotate calls gts.Rotate(seq, -X.Head()) with X the first located region: the record is re-origined at the region's 5' position, whatever its strand", 1)
	info := p.Info(core.PkgMain)
	fd := p.CommandFunc("rotate")
	if fd == nil || fd.Body == nil {
		r.Und("ROTATE-HEAD", "main.rotate|anchor", "-", "anchor-unresolved")
		return
	}
	r.Fn("main." + fd.Name.Name)
	asg := core.Assigns(info, fd.Body)
	n := 0
	for _, c := range core.Calls(fd.Body) {
		if !core.IsCallTo(info, c, core.PkgGts+".Rotate") || len(c.Args) != 2 {
			continue
		}
		n++
		key := fmt.Sprintf("main.%s|rotate#%d", fd.Name.Name, n)
		amt := ast.Unparen(core.Origin(info, asg, c.Args[1]))
		ok := false
		if u, isU := amt.(*ast.UnaryExpr); isU && u.Op == token.SUB {
			if hc, isC := ast.Unparen(core.Origin(info, asg, u.X)).(*ast.CallExpr); isC && len(hc.Args) == 0 {
				if se, isS := ast.Unparen(hc.Fun).(*ast.SelectorExpr); isS && se.Sel.Name == "Head" {
					base := ast.Unparen(se.X)
					if ix, isIx := base.(*ast.IndexExpr); isIx {
						if z, isZ := core.ConstInt(info, ix.Index); isZ && z == 0 {
							ok = true
						}
					} else if _, isId := base.(*ast.Ident); isId {
						ok = true // rr.Head(): the head of the whole located region list is the head of its first member
					}
				}
			}
		}
		if ok {
			r.Ok("ROTATE-HEAD", key, p.Pos(c.Pos()), "re-origined at the 5' end of the first located region")
		} else {
			r.Bad("ROTATE-HEAD", key, p.Pos(c.Pos()), "the rotation amount `"+types.ExprString(c.Args[1])+"` is not minus the Head() of the first located region: for a complement-strand region (or a feature written across the origin) the smaller coordinate is its 3' end, so the record is opened at the wrong residue")
		}
	}
	if n == 0 {
		r.Und("ROTATE-HEAD", "main."+fd.Name.Name, p.Pos(fd.Pos()), "no call of gts.Rotate found")
	}
}

package conserve

import (
	"fmt"
	"go/ast"
	"go/token"
	"go/types"
	"strings"

	"gtsverif/core"
)

// RepairRules decides the structural clauses of C12 on gts.Repair:
// GROUP-KEY (features are grouped by key AND qualifiers), FORCE-SOURCE (abutting
// ranges are merged unconditionally only for source features), ONLY-LOC (the
// only thing Repair writes into a feature is its location; the argument is copied).
func RepairRules(p *core.Prog, r *core.Report) {
	r.Rule("GROUP-KEY", "the grouping key of gts.Repair is computed from both the feature's Key and its Props, so features that differ in either are never in one group", 1)
	r.Rule("GROUP-KEY-INJECTIVE", "the text the grouping key of gts.Repair is formatted into tells different (Key, Props) pairs apart: every string operand, and every operand that is a (nested) slice of strings, is written with %q - with %v / %s the values run together, `/note=\"a b\"` and `/note=\"a\" /note=\"b\"` both print as [[note a b]], and features with different qualifiers land in one group", 1)
	r.Rule("FORCE-SOURCE", "the `force` flag handed to LocationList.Push is exactly `Key == \"source\"` of a feature of the group", 1)
	r.Rule("GROUP-ALL", "the loop of gts.Repair that files feature indices into the group map does so unconditionally for every element (no continue/break, the map append at the top level of the body)", 1)
	r.Rule("KEEP-ALL", "every iteration of the loop over the groups appends indices of the group to the keep list exactly once on every path (the `len(group) > 0` wrapper counts as always taken)", 1)
	r.Rule("ONLY-LOC", "Repair works on a copy of its argument (make + copy) and the only field it assigns through an element of that copy is Loc", 2)
	info := p.Info(core.PkgGts)
	fd := p.FuncDecl(core.PkgGts, "Repair")
	if fd == nil || fd.Body == nil {
		r.Und("GROUP-KEY", "gts.Repair|anchor", "-", "anchor-unresolved")
		return
	}
	r.Fn("gts.Repair")
	asg := core.Assigns(info, fd.Body)
	// the map index expression: index[key] = append(index[key], i)
	var keyObj types.Object
	ast.Inspect(fd.Body, func(n ast.Node) bool {
		as, ok := n.(*ast.AssignStmt)
		if !ok || len(as.Lhs) != 1 {
			return true
		}
		if ix, ok := ast.Unparen(as.Lhs[0]).(*ast.IndexExpr); ok {
			if _, isMap := info.Types[ix.X].Type.Underlying().(*types.Map); isMap {
				keyObj = core.ObjOf(info, ix.Index)
			}
		}
		return true
	})
	if keyObj == nil || len(asg[keyObj]) != 1 || asg[keyObj][0].RHS == nil {
		r.Und("GROUP-KEY", "gts.Repair", p.Pos(fd.Pos()), "cannot find the grouping key (a single-definition variable indexing a map)")
	} else {
		rhs := asg[keyObj][0].RHS
		hasKey, hasProps := false, false
		ast.Inspect(rhs, func(n ast.Node) bool {
			if sel, ok := n.(*ast.SelectorExpr); ok && core.NamedOf(info.Types[sel.X].Type) == core.PkgGts+".Feature" {
				switch sel.Sel.Name {
				case "Key":
					hasKey = true
				case "Props":
					hasProps = true
				}
			}
			return true
		})
		if hasKey && hasProps {
			r.Ok("GROUP-KEY", "gts.Repair", p.Pos(rhs.Pos()), "grouping key depends on Key and Props")
			groupKeyInjective(p, r, info, rhs)
		} else {
			r.Bad("GROUP-KEY", "gts.Repair", p.Pos(rhs.Pos()), "features are grouped without looking at both their key and their qualifiers: unrelated features that happen to abut are merged")
		}
	}
	// force
	nPush := 0
	for _, c := range core.Calls(fd.Body) {
		if !core.IsCallTo(info, c, core.PkgGts+".LocationList.Push") || len(c.Args) != 2 {
			continue
		}
		nPush++
		e := core.Origin(info, asg, c.Args[1])
		be, ok := ast.Unparen(e).(*ast.BinaryExpr)
		good := false
		if ok && be.Op == token.EQL {
			s, isStr := core.ConstString(info, be.Y)
			sel, isSel := ast.Unparen(be.X).(*ast.SelectorExpr)
			if isStr && s == "source" && isSel && sel.Sel.Name == "Key" && core.NamedOf(info.Types[sel.X].Type) == core.PkgGts+".Feature" {
				good = true
			}
		}
		if good {
			r.Ok("FORCE-SOURCE", "gts.Repair", p.Pos(c.Pos()), "forced merging is reserved for source features")
		} else {
			r.Bad("FORCE-SOURCE", "gts.Repair", p.Pos(c.Pos()), "the force flag of Push is not `Key == \"source\"`: complete ranges of ordinary features that merely abut are fused (or split source features are not re-joined)")
		}
	}
	if nPush == 0 {
		r.Und("FORCE-SOURCE", "gts.Repair", p.Pos(fd.Pos()), "no LocationList.Push call found")
	}
	// copy of the argument
	var param types.Object
	for _, f := range fd.Type.Params.List {
		for _, n := range f.Names {
			param = info.Defs[n]
		}
	}
	copied := types.Object(nil)
	for _, c := range core.Calls(fd.Body) {
		if core.IsBuiltin(info, c, "copy") && len(c.Args) == 2 && core.ObjOf(info, c.Args[1]) == param {
			copied = core.ObjOf(info, c.Args[0])
		}
	}
	if copied != nil {
		r.Ok("ONLY-LOC", "gts.Repair|copy", p.Pos(fd.Pos()), "the table is copied before anything is changed")
	} else {
		r.Bad("ONLY-LOC", "gts.Repair|copy", p.Pos(fd.Pos()), "Repair does not work on a copy of its argument")
	}
	bad := token.NoPos
	ast.Inspect(fd.Body, func(n ast.Node) bool {
		as, ok := n.(*ast.AssignStmt)
		if !ok {
			return true
		}
		for _, l := range as.Lhs {
			if sel, ok := ast.Unparen(l).(*ast.SelectorExpr); ok && core.NamedOf(info.Types[sel.X].Type) == core.PkgGts+".Feature" && sel.Sel.Name != "Loc" {
				bad = as.Pos()
			}
		}
		return true
	})
	if bad == token.NoPos {
		r.Ok("ONLY-LOC", "gts.Repair|fields", p.Pos(fd.Pos()), "only Loc is assigned through a feature")
	} else {
		r.Bad("ONLY-LOC", "gts.Repair|fields", p.Pos(bad), "Repair assigns a feature's key or qualifiers")
	}
	repairAll(p, r, info, fd)
}

// repairAll decides GROUP-ALL and KEEP-ALL: no feature falls out of Repair
// other than by being merged into a neighbour of its own group.
func repairAll(p *core.Prog, r *core.Report, info *types.Info, fd *ast.FuncDecl) {
	// GROUP-ALL: the loop that files indices into the map does so for every element
	var groupLoop, keepLoop *ast.RangeStmt
	var keepObj types.Object
	ast.Inspect(fd.Body, func(n ast.Node) bool {
		rs, ok := n.(*ast.RangeStmt)
		if !ok {
			return true
		}
		for _, st := range rs.Body.List {
			if mapAppend(info, st) != nil && groupLoop == nil {
				groupLoop = rs
			}
		}
		if _, isMap := info.TypeOf(rs.X).Underlying().(*types.Map); isMap && keepLoop == nil {
			keepLoop = rs
		}
		return true
	})
	if groupLoop == nil {
		// maybe the append is nested: find any loop that contains one
		ast.Inspect(fd.Body, func(n ast.Node) bool {
			if rs, ok := n.(*ast.RangeStmt); ok && groupLoop == nil {
				ast.Inspect(rs.Body, func(m ast.Node) bool {
					if st, ok := m.(ast.Stmt); ok && mapAppend(info, st) != nil {
						groupLoop = rs
					}
					return true
				})
			}
			return true
		})
	}
	switch {
	case groupLoop == nil:
		r.Und("GROUP-ALL", "gts.Repair", p.Pos(fd.Pos()), "cannot find the loop that files feature indices into the group map")
	case leaves(groupLoop.Body):
		r.Bad("GROUP-ALL", "gts.Repair", p.Pos(groupLoop.Pos()), "the grouping loop contains continue/break/return: a feature that is skipped is in no group and never reaches the result")
	default:
		top := false
		for _, st := range groupLoop.Body.List {
			if mapAppend(info, st) != nil {
				top = true
			}
		}
		if top {
			r.Ok("GROUP-ALL", "gts.Repair", p.Pos(groupLoop.Pos()), "every index is filed into a group unconditionally")
		} else {
			r.Bad("GROUP-ALL", "gts.Repair", p.Pos(groupLoop.Pos()), "the index is filed into its group only under a condition: the other features never reach the result")
		}
	}
	// KEEP-ALL: every iteration over the groups appends to the keep list exactly once
	if keepLoop == nil {
		r.Und("KEEP-ALL", "gts.Repair", p.Pos(fd.Pos()), "cannot find the loop over the groups")
		return
	}
	var gv types.Object
	if keepLoop.Value != nil {
		gv = core.ObjOf(info, keepLoop.Value)
	}
	isKeep := func(st ast.Stmt) bool {
		as, ok := st.(*ast.AssignStmt)
		if !ok || len(as.Lhs) != 1 || len(as.Rhs) != 1 {
			return false
		}
		c, ok := ast.Unparen(as.Rhs[0]).(*ast.CallExpr)
		if !ok || !core.IsBuiltin(info, c, "append") || len(c.Args) < 2 {
			return false
		}
		o := core.ObjOf(info, as.Lhs[0])
		if o == nil || o != core.ObjOf(info, c.Args[0]) || gv == nil || !core.UsesObj(info, c.Args[1], gv) {
			return false
		}
		keepObj = o
		return true
	}
	nonEmpty := func(cond ast.Expr) bool {
		be, ok := ast.Unparen(cond).(*ast.BinaryExpr)
		if !ok || (be.Op != token.GTR && be.Op != token.NEQ) {
			return false
		}
		c, ok := ast.Unparen(be.X).(*ast.CallExpr)
		z, okz := core.ConstInt(info, be.Y)
		return ok && okz && z == 0 && core.IsBuiltin(info, c, "len") && gv != nil && core.ObjOf(info, c.Args[0]) == gv
	}
	var count func(list []ast.Stmt) (int, int)
	count = func(list []ast.Stmt) (int, int) {
		lo, hi := 0, 0
		for _, s := range list {
			if isKeep(s) {
				lo++
				hi++
				continue
			}
			switch st := s.(type) {
			case *ast.IfStmt:
				a, b := count(st.Body.List)
				c, d := 0, 0
				if st.Else != nil {
					if blk, ok := st.Else.(*ast.BlockStmt); ok {
						c, d = count(blk.List)
					} else {
						c, d = count([]ast.Stmt{st.Else})
					}
				} else if nonEmpty(st.Cond) {
					c, d = a, b // a group is never empty: the wrapper always runs
				}
				lo += min(a, c)
				hi += max(b, d)
			case *ast.BlockStmt:
				a, b := count(st.List)
				lo += a
				hi += b
			case *ast.ForStmt, *ast.RangeStmt, *ast.SwitchStmt, *ast.TypeSwitchStmt:
				ast.Inspect(st, func(n ast.Node) bool {
					if ss, ok := n.(ast.Stmt); ok && isKeep(ss) {
						hi += 2
					}
					return true
				})
			}
		}
		return lo, hi
	}
	lo, hi := count(keepLoop.Body.List)
	switch {
	case leaves(keepLoop.Body):
		r.Bad("KEEP-ALL", "gts.Repair", p.Pos(keepLoop.Pos()), "the loop over the groups contains continue/break/return: a group that is skipped loses all its features")
	case lo != 1 || hi != 1:
		r.Bad("KEEP-ALL", "gts.Repair", p.Pos(keepLoop.Pos()), fmt.Sprintf("a group's indices are appended to the keep list %d..%d times per group instead of exactly once", lo, hi))
	default:
		_ = keepObj
		r.Ok("KEEP-ALL", "gts.Repair", p.Pos(keepLoop.Pos()), "every group contributes to the keep list exactly once")
	}
}

// mapAppend: st is `m[k] = append(m[k], i)`.
func mapAppend(info *types.Info, st ast.Stmt) *ast.IndexExpr {
	as, ok := st.(*ast.AssignStmt)
	if !ok || len(as.Lhs) != 1 || len(as.Rhs) != 1 {
		return nil
	}
	ix, ok := ast.Unparen(as.Lhs[0]).(*ast.IndexExpr)
	if !ok {
		return nil
	}
	if _, isMap := info.TypeOf(ix.X).Underlying().(*types.Map); !isMap {
		return nil
	}
	c, ok := ast.Unparen(as.Rhs[0]).(*ast.CallExpr)
	if !ok || !core.IsBuiltin(info, c, "append") {
		return nil
	}
	return ix
}

// groupKeyInjective decides GROUP-KEY-INJECTIVE on the expression the grouping
// key is computed by: a Sprintf, or a concatenation of constants,
// strconv.Quote(..) and Sprintf pieces.
func groupKeyInjective(p *core.Prog, r *core.Report, info *types.Info, rhs ast.Expr) {
	key := "gts.Repair|key-format"
	const why = "strings and lists of strings run together (`/note=\"a b\"` and `/note=\"a\" /note=\"b\"` both give [[note a b]]), so Repair puts features with different qualifiers into one group and merges them when they abut (Repair of {misc_feature 1..>10 /note=\"a b\", misc_feature <11..20 /note=\"a\" /note=\"b\"} returns the single feature 1..20)"
	var leaves []ast.Expr
	var walk func(e ast.Expr)
	walk = func(e ast.Expr) {
		if b, ok := ast.Unparen(e).(*ast.BinaryExpr); ok && b.Op == token.ADD {
			walk(b.X)
			walk(b.Y)
			return
		}
		leaves = append(leaves, ast.Unparen(e))
	}
	walk(rhs)
	for _, l := range leaves {
		if _, isConst := core.ConstString(info, l); isConst {
			continue
		}
		lc, isCall := l.(*ast.CallExpr)
		if isCall && core.IsCallTo(info, lc, "strconv.Quote") {
			continue
		}
		if isCall && core.IsCallTo(info, lc, "fmt.Sprintf") && len(lc.Args) >= 1 {
			op, verb, und := unquotedOperand(info, lc)
			switch {
			case und != "":
				r.Und("GROUP-KEY-INJECTIVE", key, p.Pos(lc.Pos()), und)
				return
			case op != nil:
				r.Bad("GROUP-KEY-INJECTIVE", key, p.Pos(op.Pos()), fmt.Sprintf("`%s` is written into the grouping key with %%%c: %s", types.ExprString(op), verb, why))
				return
			}
			continue
		}
		if len(leaves) == 1 {
			r.Und("GROUP-KEY-INJECTIVE", key, p.Pos(rhs.Pos()), "the grouping key is not built by fmt.Sprintf or a concatenation of quoted pieces; the rule cannot tell whether it separates different qualifier lists")
			return
		}
		r.Bad("GROUP-KEY-INJECTIVE", key, p.Pos(l.Pos()), fmt.Sprintf("the piece `%s` of the grouping key is neither a constant, strconv.Quote(..) nor a Sprintf with %%q: %s", types.ExprString(l), why))
		return
	}
	r.Ok("GROUP-KEY-INJECTIVE", key, p.Pos(rhs.Pos()), "every string-valued operand is quoted")
}

// unquotedOperand returns the first string-valued operand of a Sprintf call
// that is not written with %q (nil when all are), or a reason why the call
// cannot be decided.
func unquotedOperand(info *types.Info, c *ast.CallExpr) (ast.Expr, byte, string) {
	format, ok := core.ConstString(info, c.Args[0])
	if !ok {
		return nil, 0, "the format of the grouping key is not a constant"
	}
	var verbs []byte
	for i := 0; i < len(format); i++ {
		if format[i] != '%' {
			continue
		}
		j := i + 1
		for j < len(format) && strings.IndexByte("+-# 0123456789.*[]", format[j]) >= 0 {
			j++
		}
		if j < len(format) {
			if format[j] != '%' {
				verbs = append(verbs, format[j])
			}
			i = j
		}
	}
	ops := c.Args[1:]
	if len(verbs) != len(ops) {
		return nil, 0, "verbs and operands of the grouping-key format do not pair up"
	}
	stringy := func(t types.Type) bool {
		for {
			switch u := t.Underlying().(type) {
			case *types.Slice:
				t = u.Elem()
				continue
			case *types.Basic:
				return u.Info()&types.IsString != 0
			}
			return false
		}
	}
	for i, op := range ops {
		if t := info.TypeOf(op); t != nil && stringy(t) && verbs[i] != 'q' {
			return op, verbs[i], ""
		}
	}
	return nil, 0, ""
}

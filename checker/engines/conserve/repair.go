package conserve

import (
	"go/ast"
	"go/token"
	"go/types"

	"gtsverif/core"
)

// RepairRules decides the structural clauses of C12 on gts.Repair:
// GROUP-KEY (features are grouped by key AND qualifiers), FORCE-SOURCE (abutting
// ranges are merged unconditionally only for source features), ONLY-LOC (the
// only thing Repair writes into a feature is its location; the argument is copied).
func RepairRules(p *core.Prog, r *core.Report) {
	r.Rule("GROUP-KEY", "the grouping key of gts.Repair is computed from both the feature's Key and its Props, so features that differ in either are never in one group", 1)
	r.Rule("FORCE-SOURCE", "the `force` flag handed to LocationList.Push is exactly `Key == \"source\"` of a feature of the group", 1)
	r.Rule("ONLY-LOC", "Repair works on a copy of its argument (make + copy) and the only field it assigns through an element of that copy is Loc", 2)
	info := p.Info(core.PkgGts)
	fd := p.FuncDecl(core.PkgGts, "Repair")
	if fd == nil || fd.Body == nil {
		r.Und("GROUP-KEY", "gts.Repair|anchor", "-", "anchor-unresolved")
		return
	}
	r.Fn("gts.Repair")
	asg := core.Assigns(info, fd.Body)
	// the map index expression: index[key] = append(index[key], i)
	var keyObj types.Object
	ast.Inspect(fd.Body, func(n ast.Node) bool {
		as, ok := n.(*ast.AssignStmt)
		if !ok || len(as.Lhs) != 1 {
			return true
		}
		if ix, ok := ast.Unparen(as.Lhs[0]).(*ast.IndexExpr); ok {
			if _, isMap := info.Types[ix.X].Type.Underlying().(*types.Map); isMap {
				keyObj = core.ObjOf(info, ix.Index)
			}
		}
		return true
	})
	if keyObj == nil || len(asg[keyObj]) != 1 || asg[keyObj][0].RHS == nil {
		r.Und("GROUP-KEY", "gts.Repair", p.Pos(fd.Pos()), "cannot find the grouping key (a single-definition variable indexing a map)")
	} else {
		rhs := asg[keyObj][0].RHS
		hasKey, hasProps := false, false
		ast.Inspect(rhs, func(n ast.Node) bool {
			if sel, ok := n.(*ast.SelectorExpr); ok && core.NamedOf(info.Types[sel.X].Type) == core.PkgGts+".Feature" {
				switch sel.Sel.Name {
				case "Key":
					hasKey = true
				case "Props":
					hasProps = true
				}
			}
			return true
		})
		if hasKey && hasProps {
			r.Ok("GROUP-KEY", "gts.Repair", p.Pos(rhs.Pos()), "grouping key depends on Key and Props")
		} else {
			r.Bad("GROUP-KEY", "gts.Repair", p.Pos(rhs.Pos()), "features are grouped without looking at both their key and their qualifiers: unrelated features that happen to abut are merged")
		}
	}
	// force
	nPush := 0
	for _, c := range core.Calls(fd.Body) {
		if !core.IsCallTo(info, c, core.PkgGts+".LocationList.Push") || len(c.Args) != 2 {
			continue
		}
		nPush++
		e := core.Origin(info, asg, c.Args[1])
		be, ok := ast.Unparen(e).(*ast.BinaryExpr)
		good := false
		if ok && be.Op == token.EQL {
			s, isStr := core.ConstString(info, be.Y)
			sel, isSel := ast.Unparen(be.X).(*ast.SelectorExpr)
			if isStr && s == "source" && isSel && sel.Sel.Name == "Key" && core.NamedOf(info.Types[sel.X].Type) == core.PkgGts+".Feature" {
				good = true
			}
		}
		if good {
			r.Ok("FORCE-SOURCE", "gts.Repair", p.Pos(c.Pos()), "forced merging is reserved for source features")
		} else {
			r.Bad("FORCE-SOURCE", "gts.Repair", p.Pos(c.Pos()), "the force flag of Push is not `Key == \"source\"`: complete ranges of ordinary features that merely abut are fused (or split source features are not re-joined)")
		}
	}
	if nPush == 0 {
		r.Und("FORCE-SOURCE", "gts.Repair", p.Pos(fd.Pos()), "no LocationList.Push call found")
	}
	// copy of the argument
	var param types.Object
	for _, f := range fd.Type.Params.List {
		for _, n := range f.Names {
			param = info.Defs[n]
		}
	}
	copied := types.Object(nil)
	for _, c := range core.Calls(fd.Body) {
		if core.IsBuiltin(info, c, "copy") && len(c.Args) == 2 && core.ObjOf(info, c.Args[1]) == param {
			copied = core.ObjOf(info, c.Args[0])
		}
	}
	if copied != nil {
		r.Ok("ONLY-LOC", "gts.Repair|copy", p.Pos(fd.Pos()), "the table is copied before anything is changed")
	} else {
		r.Bad("ONLY-LOC", "gts.Repair|copy", p.Pos(fd.Pos()), "Repair does not work on a copy of its argument")
	}
	bad := token.NoPos
	ast.Inspect(fd.Body, func(n ast.Node) bool {
		as, ok := n.(*ast.AssignStmt)
		if !ok {
			return true
		}
		for _, l := range as.Lhs {
			if sel, ok := ast.Unparen(l).(*ast.SelectorExpr); ok && core.NamedOf(info.Types[sel.X].Type) == core.PkgGts+".Feature" && sel.Sel.Name != "Loc" {
				bad = as.Pos()
			}
		}
		return true
	})
	if bad == token.NoPos {
		r.Ok("ONLY-LOC", "gts.Repair|fields", p.Pos(fd.Pos()), "only Loc is assigned through a feature")
	} else {
		r.Bad("ONLY-LOC", "gts.Repair|fields", p.Pos(bad), "Repair assigns a feature's key or qualifiers")
	}
}

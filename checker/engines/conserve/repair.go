package conserve

import (
	"fmt"
	"go/ast"
	"go/token"
	"go/types"

	"gtsverif/core"
)

// RepairRules decides the structural clauses of C12 on gts.Repair:
// GROUP-KEY (features are grouped by key AND qualifiers), FORCE-SOURCE (abutting
// ranges are merged unconditionally only for source features), ONLY-LOC (the
// only thing Repair writes into a feature is its location; the argument is copied).
func RepairRules(p *core.Prog, r *core.Report) {
	r.Rule("GROUP-KEY", "the grouping key of gts.Repair is computed from both the feature's Key and its Props, so features that differ in either are never in one group", 1)
	r.Rule("FORCE-SOURCE", "the `force` flag handed to LocationList.Push is exactly `Key == \"source\"` of a feature of the group", 1)
	r.Rule("GROUP-ALL", "the loop of gts.Repair that files feature indices into the group map does so unconditionally for every element (no continue/break, the map append at the top level of the body)", 1)
	r.Rule("KEEP-ALL", "every iteration of the loop over the groups appends indices of the group to the keep list exactly once on every path (the `len(group) > 0` wrapper counts as always taken)", 1)
	r.Rule("ONLY-LOC", "Repair works on a copy of its argument (make + copy) and the only field it assigns through an element of that copy is Loc", 2)
	info := p.Info(core.PkgGts)
	fd := p.FuncDecl(core.PkgGts, "Repair")
	if fd == nil || fd.Body == nil {
		r.Und("GROUP-KEY", "gts.Repair|anchor", "-", "anchor-unresolved")
		return
	}
	r.Fn("gts.Repair")
	asg := core.Assigns(info, fd.Body)
	// the map index expression: index[key] = append(index[key], i)
	var keyObj types.Object
	ast.Inspect(fd.Body, func(n ast.Node) bool {
		as, ok := n.(*ast.AssignStmt)
		if !ok || len(as.Lhs) != 1 {
			return true
		}
		if ix, ok := ast.Unparen(as.Lhs[0]).(*ast.IndexExpr); ok {
			if _, isMap := info.Types[ix.X].Type.Underlying().(*types.Map); isMap {
				keyObj = core.ObjOf(info, ix.Index)
			}
		}
		return true
	})
	if keyObj == nil || len(asg[keyObj]) != 1 || asg[keyObj][0].RHS == nil {
		r.Und("GROUP-KEY", "gts.Repair", p.Pos(fd.Pos()), "cannot find the grouping key (a single-definition variable indexing a map)")
	} else {
		rhs := asg[keyObj][0].RHS
		hasKey, hasProps := false, false
		ast.Inspect(rhs, func(n ast.Node) bool {
			if sel, ok := n.(*ast.SelectorExpr); ok && core.NamedOf(info.Types[sel.X].Type) == core.PkgGts+".Feature" {
				switch sel.Sel.Name {
				case "Key":
					hasKey = true
				case "Props":
					hasProps = true
				}
			}
			return true
		})
		if hasKey && hasProps {
			r.Ok("GROUP-KEY", "gts.Repair", p.Pos(rhs.Pos()), "grouping key depends on Key and Props")
		} else {
			r.Bad("GROUP-KEY", "gts.Repair", p.Pos(rhs.Pos()), "features are grouped without looking at both their key and their qualifiers: unrelated features that happen to abut are merged")
		}
	}
	// force
	nPush := 0
	for _, c := range core.Calls(fd.Body) {
		if !core.IsCallTo(info, c, core.PkgGts+".LocationList.Push") || len(c.Args) != 2 {
			continue
		}
		nPush++
		e := core.Origin(info, asg, c.Args[1])
		be, ok := ast.Unparen(e).(*ast.BinaryExpr)
		good := false
		if ok && be.Op == token.EQL {
			s, isStr := core.ConstString(info, be.Y)
			sel, isSel := ast.Unparen(be.X).(*ast.SelectorExpr)
			if isStr && s == "source" && isSel && sel.Sel.Name == "Key" && core.NamedOf(info.Types[sel.X].Type) == core.PkgGts+".Feature" {
				good = true
			}
		}
		if good {
			r.Ok("FORCE-SOURCE", "gts.Repair", p.Pos(c.Pos()), "forced merging is reserved for source features")
		} else {
			r.Bad("FORCE-SOURCE", "gts.Repair", p.Pos(c.Pos()), "the force flag of Push is not `Key == \"source\"`: complete ranges of ordinary features that merely abut are fused (or split source features are not re-joined)")
		}
	}
	if nPush == 0 {
		r.Und("FORCE-SOURCE", "gts.Repair", p.Pos(fd.Pos()), "no LocationList.Push call found")
	}
	// copy of the argument
	var param types.Object
	for _, f := range fd.Type.Params.List {
		for _, n := range f.Names {
			param = info.Defs[n]
		}
	}
	copied := types.Object(nil)
	for _, c := range core.Calls(fd.Body) {
		if core.IsBuiltin(info, c, "copy") && len(c.Args) == 2 && core.ObjOf(info, c.Args[1]) == param {
			copied = core.ObjOf(info, c.Args[0])
		}
	}
	if copied != nil {
		r.Ok("ONLY-LOC", "gts.Repair|copy", p.Pos(fd.Pos()), "the table is copied before anything is changed")
	} else {
		r.Bad("ONLY-LOC", "gts.Repair|copy", p.Pos(fd.Pos()), "Repair does not work on a copy of its argument")
	}
	bad := token.NoPos
	ast.Inspect(fd.Body, func(n ast.Node) bool {
		as, ok := n.(*ast.AssignStmt)
		if !ok {
			return true
		}
		for _, l := range as.Lhs {
			if sel, ok := ast.Unparen(l).(*ast.SelectorExpr); ok && core.NamedOf(info.Types[sel.X].Type) == core.PkgGts+".Feature" && sel.Sel.Name != "Loc" {
				bad = as.Pos()
			}
		}
		return true
	})
	if bad == token.NoPos {
		r.Ok("ONLY-LOC", "gts.Repair|fields", p.Pos(fd.Pos()), "only Loc is assigned through a feature")
	} else {
		r.Bad("ONLY-LOC", "gts.Repair|fields", p.Pos(bad), "Repair assigns a feature's key or qualifiers")
	}
	repairAll(p, r, info, fd)
}

// repairAll decides GROUP-ALL and KEEP-ALL: no feature falls out of Repair
// other than by being merged into a neighbour of its own group.
func repairAll(p *core.Prog, r *core.Report, info *types.Info, fd *ast.FuncDecl) {
	// GROUP-ALL: the loop that files indices into the map does so for every element
	var groupLoop, keepLoop *ast.RangeStmt
	var keepObj types.Object
	ast.Inspect(fd.Body, func(n ast.Node) bool {
		rs, ok := n.(*ast.RangeStmt)
		if !ok {
			return true
		}
		for _, st := range rs.Body.List {
			if mapAppend(info, st) != nil && groupLoop == nil {
				groupLoop = rs
			}
		}
		if _, isMap := info.TypeOf(rs.X).Underlying().(*types.Map); isMap && keepLoop == nil {
			keepLoop = rs
		}
		return true
	})
	if groupLoop == nil {
		// maybe the append is nested: find any loop that contains one
		ast.Inspect(fd.Body, func(n ast.Node) bool {
			if rs, ok := n.(*ast.RangeStmt); ok && groupLoop == nil {
				ast.Inspect(rs.Body, func(m ast.Node) bool {
					if st, ok := m.(ast.Stmt); ok && mapAppend(info, st) != nil {
						groupLoop = rs
					}
					return true
				})
			}
			return true
		})
	}
	switch {
	case groupLoop == nil:
		r.Und("GROUP-ALL", "gts.Repair", p.Pos(fd.Pos()), "cannot find the loop that files feature indices into the group map")
	case leaves(groupLoop.Body):
		r.Bad("GROUP-ALL", "gts.Repair", p.Pos(groupLoop.Pos()), "the grouping loop contains continue/break/return: a feature that is skipped is in no group and never reaches the result")
	default:
		top := false
		for _, st := range groupLoop.Body.List {
			if mapAppend(info, st) != nil {
				top = true
			}
		}
		if top {
			r.Ok("GROUP-ALL", "gts.Repair", p.Pos(groupLoop.Pos()), "every index is filed into a group unconditionally")
		} else {
			r.Bad("GROUP-ALL", "gts.Repair", p.Pos(groupLoop.Pos()), "the index is filed into its group only under a condition: the other features never reach the result")
		}
	}
	// KEEP-ALL: every iteration over the groups appends to the keep list exactly once
	if keepLoop == nil {
		r.Und("KEEP-ALL", "gts.Repair", p.Pos(fd.Pos()), "cannot find the loop over the groups")
		return
	}
	var gv types.Object
	if keepLoop.Value != nil {
		gv = core.ObjOf(info, keepLoop.Value)
	}
	isKeep := func(st ast.Stmt) bool {
		as, ok := st.(*ast.AssignStmt)
		if !ok || len(as.Lhs) != 1 || len(as.Rhs) != 1 {
			return false
		}
		c, ok := ast.Unparen(as.Rhs[0]).(*ast.CallExpr)
		if !ok || !core.IsBuiltin(info, c, "append") || len(c.Args) < 2 {
			return false
		}
		o := core.ObjOf(info, as.Lhs[0])
		if o == nil || o != core.ObjOf(info, c.Args[0]) || gv == nil || !core.UsesObj(info, c.Args[1], gv) {
			return false
		}
		keepObj = o
		return true
	}
	nonEmpty := func(cond ast.Expr) bool {
		be, ok := ast.Unparen(cond).(*ast.BinaryExpr)
		if !ok || (be.Op != token.GTR && be.Op != token.NEQ) {
			return false
		}
		c, ok := ast.Unparen(be.X).(*ast.CallExpr)
		z, okz := core.ConstInt(info, be.Y)
		return ok && okz && z == 0 && core.IsBuiltin(info, c, "len") && gv != nil && core.ObjOf(info, c.Args[0]) == gv
	}
	var count func(list []ast.Stmt) (int, int)
	count = func(list []ast.Stmt) (int, int) {
		lo, hi := 0, 0
		for _, s := range list {
			if isKeep(s) {
				lo++
				hi++
				continue
			}
			switch st := s.(type) {
			case *ast.IfStmt:
				a, b := count(st.Body.List)
				c, d := 0, 0
				if st.Else != nil {
					if blk, ok := st.Else.(*ast.BlockStmt); ok {
						c, d = count(blk.List)
					} else {
						c, d = count([]ast.Stmt{st.Else})
					}
				} else if nonEmpty(st.Cond) {
					c, d = a, b // a group is never empty: the wrapper always runs
				}
				lo += min(a, c)
				hi += max(b, d)
			case *ast.BlockStmt:
				a, b := count(st.List)
				lo += a
				hi += b
			case *ast.ForStmt, *ast.RangeStmt, *ast.SwitchStmt, *ast.TypeSwitchStmt:
				ast.Inspect(st, func(n ast.Node) bool {
					if ss, ok := n.(ast.Stmt); ok && isKeep(ss) {
						hi += 2
					}
					return true
				})
			}
		}
		return lo, hi
	}
	lo, hi := count(keepLoop.Body.List)
	switch {
	case leaves(keepLoop.Body):
		r.Bad("KEEP-ALL", "gts.Repair", p.Pos(keepLoop.Pos()), "the loop over the groups contains continue/break/return: a group that is skipped loses all its features")
	case lo != 1 || hi != 1:
		r.Bad("KEEP-ALL", "gts.Repair", p.Pos(keepLoop.Pos()), fmt.Sprintf("a group's indices are appended to the keep list %d..%d times per group instead of exactly once", lo, hi))
	default:
		_ = keepObj
		r.Ok("KEEP-ALL", "gts.Repair", p.Pos(keepLoop.Pos()), "every group contributes to the keep list exactly once")
	}
}

// mapAppend: st is `m[k] = append(m[k], i)`.
func mapAppend(info *types.Info, st ast.Stmt) *ast.IndexExpr {
	as, ok := st.(*ast.AssignStmt)
	if !ok || len(as.Lhs) != 1 || len(as.Rhs) != 1 {
		return nil
	}
	ix, ok := ast.Unparen(as.Lhs[0]).(*ast.IndexExpr)
	if !ok {
		return nil
	}
	if _, isMap := info.TypeOf(ix.X).Underlying().(*types.Map); !isMap {
		return nil
	}
	c, ok := ast.Unparen(as.Rhs[0]).(*ast.CallExpr)
	if !ok || !core.IsBuiltin(info, c, "append") {
		return nil
	}
	return ix
}

package conserve

import (
	"go/ast"
	"go/types"

	"gtsverif/core"
)

// RegionDelegate decides REGION-DELEGATE on Regions.Complement: the value stored
// for each part is that part's own Complement(). A part of a Regions may itself
// be a Regions (the region of a join that has a multi-part part): building
// Segment{part.Tail(), part.Head()} instead collapses such a part to one
// segment that spans its gaps, so the complement denotes residues the region
// never had.
func RegionDelegate(p *core.Prog, r *core.Report) {
	r.Rule("REGION-DELEGATE", "Regions.Complement stores, for each element r of the receiver, exactly r.Complement() (dynamic dispatch keeps a nested multi-part element multi-part); it does not rebuild the element from its outer ends", 1)
	info := p.Info(gts)
	fd := p.FuncDecl(gts, "Regions.Complement")
	key := "gts.Regions.Complement"
	if fd == nil || fd.Body == nil || fd.Recv == nil || len(fd.Recv.List) != 1 || len(fd.Recv.List[0].Names) != 1 {
		r.Und("REGION-DELEGATE", key+"|anchor", "-", "anchor-unresolved")
		return
	}
	r.Fn(key)
	recv := info.Defs[fd.Recv.List[0].Names[0]]
	asg := core.Assigns(info, fd.Body)
	isElem := func(e ast.Expr) bool {
		e = ast.Unparen(e)
		if ix, ok := e.(*ast.IndexExpr); ok {
			return core.ObjOf(info, ix.X) == recv
		}
		if o := core.ObjOf(info, e); o != nil {
			for _, a := range asg[o] {
				if rs, ok := a.Node.(*ast.RangeStmt); ok && a.Idx == 1 && core.ObjOf(info, rs.X) == recv {
					return true
				}
			}
		}
		return false
	}
	stores, bad := 0, ""
	var badNode ast.Node
	ast.Inspect(fd.Body, func(n ast.Node) bool {
		as, ok := n.(*ast.AssignStmt)
		if !ok || len(as.Lhs) != len(as.Rhs) {
			return true
		}
		for i, l := range as.Lhs {
			if _, isIdx := ast.Unparen(l).(*ast.IndexExpr); !isIdx {
				continue
			}
			stores++
			c, ok := ast.Unparen(core.Origin(info, asg, as.Rhs[i])).(*ast.CallExpr)
			if ok {
				if sel, isSel := ast.Unparen(c.Fun).(*ast.SelectorExpr); isSel && sel.Sel.Name == "Complement" && len(c.Args) == 0 && isElem(sel.X) {
					continue
				}
			}
			bad, badNode = "the stored part is `"+types.ExprString(as.Rhs[i])+"`, not the element's own Complement()", as
		}
		return true
	})
	// append form
	for _, c := range core.Calls(fd.Body) {
		if core.IsBuiltin(info, c, "append") && len(c.Args) == 2 {
			stores++
			ic, ok := ast.Unparen(core.Origin(info, asg, c.Args[1])).(*ast.CallExpr)
			if ok {
				if sel, isSel := ast.Unparen(ic.Fun).(*ast.SelectorExpr); isSel && sel.Sel.Name == "Complement" && len(ic.Args) == 0 && isElem(sel.X) {
					continue
				}
			}
			bad, badNode = "the appended part is `"+types.ExprString(c.Args[1])+"`, not the element's own Complement()", c
		}
	}
	switch {
	case bad != "":
		r.Bad("REGION-DELEGATE", key, p.Pos(badNode.Pos()), bad+": an element that is itself a multi-part region (the region of join(1..3,complement(join(6..8,11..14)))) is collapsed to one segment spanning its gaps, so the complemented location denotes residues between its parts")
	case stores == 0:
		r.Und("REGION-DELEGATE", key, p.Pos(fd.Pos()), "no element store found")
	default:
		r.Ok("REGION-DELEGATE", key, p.Pos(fd.Pos()), "each part is replaced by its own Complement()")
	}
}

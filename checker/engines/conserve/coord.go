package conserve

import (
	"fmt"
	"go/ast"
	"go/types"

	"golang.org/x/tools/go/cfg"

	"gtsverif/core"
)

// MustPassLinear decides MUST-PASS on gts.Slice: every non-recursive return is
// dominated by `v = WithTopology(v, Linear)` on the returned variable.
func MustPassLinear(p *core.Prog, r *core.Report) {
	info := p.Info(core.PkgGts)
	fd := p.FuncDecl(core.PkgGts, "Slice")
	fn := "gts.Slice"
	if fd == nil || fd.Body == nil {
		r.Und("MUST-PASS", fn+"|anchor", "-", "anchor-unresolved")
		return
	}
	r.Fn(fn)
	self, _ := info.Defs[fd.Name].(*types.Func)
	fl := core.NewFlow(info, fd.Body)
	isLinear := func(e ast.Expr) bool {
		c, ok := core.ObjOf(info, e).(*types.Const)
		return ok && c.Name() == "Linear" && c.Pkg() != nil && c.Pkg().Path() == core.PkgGts
	}
	n := 0
	for _, rs := range core.Returns(fd.Body) {
		if len(rs.Results) != 1 {
			continue
		}
		n++
		key := fmt.Sprintf("%s|return#%d", fn, n)
		if c, ok := ast.Unparen(rs.Results[0]).(*ast.CallExpr); ok && core.Callee(info, c) == self {
			r.Ok("MUST-PASS", key, p.Pos(rs.Pos()), "recursive call: covered by the callee's own returns")
			continue
		}
		v := core.ObjOf(info, rs.Results[0])
		if v == nil {
			r.Bad("MUST-PASS", key, p.Pos(rs.Pos()), "the result is not a variable that went through WithTopology(_, Linear)")
			continue
		}
		ok := false
		for _, c := range core.Calls(fd.Body) {
			if !core.IsCallTo(info, c, core.PkgGts+".WithTopology") || len(c.Args) != 2 || !isLinear(c.Args[1]) {
				continue
			}
			loc := fl.Find(c)
			as, isAs := loc.B.Nodes[loc.I].(*ast.AssignStmt)
			if !isAs || len(as.Lhs) != 1 || core.ObjOf(info, as.Lhs[0]) != v {
				continue
			}
			if !fl.Dominates(loc, fl.Find(rs)) {
				continue
			}
			// no other assignment to v between the call and the return
			dirtyAtReturn := false
			core.Scan(fl, loc, false, core.Stepper[bool]{
				Node: func(s bool, n ast.Node) (bool, bool) {
					if n == ast.Node(rs) {
						if s {
							dirtyAtReturn = true
						}
						return s, true
					}
					if a, ok := n.(*ast.AssignStmt); ok {
						for _, l := range a.Lhs {
							if core.ObjOf(info, l) == v {
								s = true
							}
						}
					}
					return s, false
				},
			})
			if !dirtyAtReturn {
				ok = true
			}
		}
		if ok {
			r.Ok("MUST-PASS", key, p.Pos(rs.Pos()), "the returned sequence went through WithTopology(_, Linear) last")
		} else {
			r.Bad("MUST-PASS", key, p.Pos(rs.Pos()), "a slice can be returned without being marked linear: slicing a circular record yields a circular fragment")
		}
	}
	if n == 0 {
		r.Und("MUST-PASS", fn+"|returns", p.Pos(fd.Pos()), "no return statements found")
	}
}

var editOps = map[string]bool{
	core.PkgGts + ".Insert": true, core.PkgGts + ".Embed": true, core.PkgGts + ".Delete": true, core.PkgGts + ".Erase": true,
	core.PkgGts + ".Slice": true, core.PkgGts + ".Rotate": true, core.PkgGts + ".Concat": true, core.PkgGts + ".Reverse": true,
	core.PkgGts + ".Complement": true, core.PkgGts + ".Transcribe": true,
}

// InputCoord decides INPUT-COORD for the multi-site edit commands.
func InputCoord(p *core.Prog, r *core.Report, cmds []string) {
	info := p.Info(core.PkgMain)
	for _, name := range cmds {
		fd := p.CommandFunc(name)
		fn := "main." + name
		if fd == nil || fd.Body == nil {
			r.Und("INPUT-COORD", fn+"|anchor", "-", "anchor-unresolved: no function registered for the command `"+name+"`")
			continue
		}
		fn = "main." + fd.Name.Name
		r.Fn(fn)
		asg := core.Assigns(info, fd.Body)
		fl := core.NewFlow(info, fd.Body)

		// does an expression (transitively through function-valued locals) call an edit operation?
		var isEdit func(e ast.Expr, depth int) bool
		isEdit = func(e ast.Expr, depth int) bool {
			if depth > 4 {
				return false
			}
			found := false
			ast.Inspect(e, func(n ast.Node) bool {
				c, ok := n.(*ast.CallExpr)
				if !ok {
					return true
				}
				if fnc := core.Callee(info, c); fnc != nil {
					if editOps[core.FuncID(fnc)] {
						found = true
					}
					return true
				}
				// call through a function-valued local: look at what it can hold
				if o := core.ObjOf(info, c.Fun); o != nil {
					for _, a := range asg[o] {
						if a.RHS == nil {
							continue
						}
						if f, ok := core.ObjOf(info, a.RHS).(*types.Func); ok && editOps[core.FuncID(f)] {
							found = true
						}
					}
				}
				return true
			})
			return found
		}
		// definitions of v that reach location `at`
		reaching := func(v types.Object, at core.Loc) []core.Assign {
			defs := asg[v]
			if len(defs) <= 1 {
				return defs
			}
			var out []core.Assign
			for _, d := range defs {
				d := d
				if _, isRange := d.Node.(*ast.RangeStmt); isRange {
					out = append(out, d)
					continue
				}
				dl := fl.Find(d.Node)
				if !dl.Valid() || !at.Valid() {
					out = append(out, d)
					continue
				}
				reaches := false
				core.Scan(fl, dl, 0, core.Stepper[int]{
					Node: func(s int, n ast.Node) (int, bool) {
						if fl.Find(n) == at {
							reaches = true
							return s, true
						}
						if as, ok := n.(*ast.AssignStmt); ok && n != d.Node {
							for _, l := range as.Lhs {
								if core.ObjOf(info, l) == v {
									return s, true // killed
								}
							}
						}
						return s, false
					},
					Exit: func(int, *cfg.Block, ast.Node) {},
				})
				if reaches {
					out = append(out, d)
				}
			}
			return out
		}
		var scannedVar func(o types.Object, at core.Loc, depth int) (bool, string)
		var scannedExpr func(e ast.Expr, at core.Loc, depth int) (bool, string)
		scannedExpr = func(e ast.Expr, at core.Loc, depth int) (bool, string) {
			e = ast.Unparen(e)
			for {
				c, ok := e.(*ast.CallExpr)
				if !ok {
					break
				}
				if core.IsCallTo(info, c, core.PkgSeqio+".Scanner.Value") {
					return true, ""
				}
				if core.IsConversion(info, c) && len(c.Args) == 1 {
					e = ast.Unparen(c.Args[0])
					continue
				}
				// coordinate-preserving wrappers
				if core.IsCallTo(info, c, core.PkgGts+".Copy", core.PkgGts+".WithTopology", core.PkgGts+".WithInfo") && len(c.Args) >= 1 {
					e = ast.Unparen(c.Args[0])
					continue
				}
				if isEdit(c, 0) {
					return false, "the result of an edit operation"
				}
				return false, "a value of unknown provenance"
			}
			if o := core.ObjOf(info, e); o != nil {
				return scannedVar(o, at, depth+1)
			}
			return false, "a value of unknown provenance"
		}
		scannedVar = func(o types.Object, at core.Loc, depth int) (bool, string) {
			if depth > 6 {
				return false, "a value whose provenance is too deep to follow"
			}
			defs := reaching(o, at)
			if len(defs) == 0 {
				return false, "a variable without a local definition"
			}
			for _, d := range defs {
				if rs, ok := d.Node.(*ast.RangeStmt); ok {
					if d.Idx != 1 {
						return false, "a range key"
					}
					so := core.ObjOf(info, rs.X)
					if so == nil {
						return false, "elements of an unnamed collection"
					}
					for _, sd := range asg[so] {
						if sd.RHS == nil {
							return false, "elements of a collection of unknown content"
						}
						rhs := ast.Unparen(sd.RHS)
						if cl, ok := rhs.(*ast.CompositeLit); ok && len(cl.Elts) == 0 {
							continue
						}
						if c, ok := rhs.(*ast.CallExpr); ok && core.IsBuiltin(info, c, "append") && len(c.Args) >= 1 && core.ObjOf(info, c.Args[0]) == so && !c.Ellipsis.IsValid() {
							for _, el := range c.Args[1:] {
								if ok, why := scannedExpr(el, fl.Find(sd.Node), depth+1); !ok {
									return false, why
								}
							}
							continue
						}
						return false, "elements of a collection of unknown content"
					}
					continue
				}
				if d.RHS == nil {
					return false, "a tuple result"
				}
				if ok, why := scannedExpr(d.RHS, fl.Find(d.Node), depth); !ok {
					return false, why
				}
			}
			return true, ""
		}

		n := 0
		for _, c := range core.Calls(fd.Body) {
			tv, ok := info.Types[c.Fun]
			if !ok || core.NamedOf(tv.Type) != core.PkgGts+".Locator" || tv.IsType() || len(c.Args) != 1 {
				continue
			}
			n++
			key := fmt.Sprintf("%s|locator-call#%d", fn, n)
			okc, why := scannedExpr(c.Args[0], fl.Find(c), 0)
			switch {
			case okc:
				r.Ok("INPUT-COORD", key, p.Pos(c.Pos()), "every definition of the argument that reaches the call is the record as scanned (scanner.Value through copies/conversions)")
			case why == "the result of an edit operation":
				r.Bad("INPUT-COORD", key, p.Pos(c.Pos()), "the locator can be applied to "+why+": sites located on a partially edited record are shifted against the input's coordinates")
			default:
				r.Und("INPUT-COORD", key, p.Pos(c.Pos()), "cannot establish that the locator argument is the scanned record: it may be "+why)
			}
		}
		if n == 0 {
			r.Bad("INPUT-COORD", fn+"|no-locator-call", p.Pos(fd.Pos()), "the command never applies its locator")
		}
	}
}

package traps

import (
	"fmt"
	"go/ast"
	"go/token"
	"go/types"

	"gtsverif/core"
)

// reviewed lists the trap sites whose safety is a layout or shape argument no
// local rule can see (DESIGN.md E4 step 4). Keys never mention lines or
// identifiers: (function, kind, role of the base operand) with the number of
// sites confirmed by hand. A count that grows is reported for triage.
type reviewedEntry struct {
	fn, kind, base string
	count          int
	reason         string
}

var reviewedTable = []reviewedEntry{
	{"seqio.validateOrigin", "SLICE", "param#0", 1, "p is state.Buffer() after a successful Request(toOriginLength(length)): the walk consumes exactly that layout (the Request's error check and the non-negative length are separate obligations)"},
	{"seqio.validateOrigin", "IDX", "param#0", 3, "same layout argument: offset stays below toOriginLength(length) = len(p)"},
	{"seqio.slowGenBankOriginParser", "SLICE", "made", 1, "p is made with toOriginLength(length) bytes and offset advances by exactly the layout of the lines copied"},
	{"seqio.slowGenBankOriginParser", "IDX", "made", 1, "same layout argument for the newline written after each line"},
	{"seqio.slowGenBankOriginParser", "SLICE", "from:Token", 1, "extent is only incremented after a check extent < len(q), so extent <= len(q) when the line is copied"},
	{"seqio.quotedQualifierParser", "SLICE", "local", 3, "i = bytes.Index(token, p) >= 0 with len(p) >= 1, so i+1 and i+len(p) are within token, and n = copy(...) keeps i+1+n within it"},
	{"seqio.QualifierParser", "IDX", "captured-literal", 1, "qtype is one of the three known qualifier kinds after the UnknownQualifier case; valueParsers has three entries"},
	{"gts.Props.Index", "IDX", "elem", 1, "shape invariant: every qualifier row holds at least its name (rows are only built by Props.Set/Add)"},
	{"gts.Props.Get", "IDX", "param#-1", 1, "i is a result of Props.Index other than -1, so it indexes props"},
	{"gts.Props.Get", "SLICE", "elem", 1, "shape invariant: every qualifier row holds at least its name"},
	{"gts.Props.Set", "IDX", "made", 1, "prop is made with len(values)+1 >= 1 elements"},
	{"gts.Props.Set", "IDX", "deref", 1, "i is a result of Props.Index other than -1"},
	{"gts.Props.Add", "IDX", "deref", 2, "i is a result of Props.Index other than -1"},
	{"gts.Props.Keys", "IDX", "elem", 1, "shape invariant: every qualifier row holds at least its name"},
	{"gts.Repair", "IDX", "local", 4, "gg is a copy of ff and every list in `index` holds range keys of gg, so indices[i], i and j (taken from `keep`, a sub-list of those keys) index gg; i <= its position in the sorted `keep`"},
	{"gts.Repair", "IDX", "param#0", 1, "indices[0] is a range key of gg, which has len(ff) elements"},
	{"gts.Repair", "SLICE", "local", 1, "gg[:len(keep)]: keep is appended only from the key lists, whose total length is len(gg)"},
	{"gts.LocationList.Push", "IDX", "local", 1, "range over the very slice that is indexed (the type switch variable)"},
	{"seqio.NewOrigin", "SLICE", "made", 1, "q is made with toOriginLength(len(p)) bytes and offset follows exactly that layout (LAYOUT-ARITH is decided under C16)"},
	{"seqio.NewOrigin", "IDX", "made", 2, "same layout argument"},
	{"seqio.NewOrigin", "SLICE", "param#0", 1, "start < length and end = Min(start+10, length) <= len(p)"},
}

// baseRole describes the indexed operand without naming it.
func baseRole(info *types.Info, decl *ast.FuncDecl, asg map[types.Object][]core.Assign, e ast.Expr) string {
	e = ast.Unparen(e)
	switch x := e.(type) {
	case *ast.Ident:
		o := core.ObjOf(info, x)
		if decl != nil {
			if i := core.ParamIndex(info, decl, o); i >= -1 {
				return fmt.Sprintf("param#%d", i)
			}
		}
		defs := asg[o]
		if len(defs) == 1 && defs[0].RHS != nil {
			if _, isRange := defs[0].Node.(*ast.RangeStmt); !isRange {
				switch r := ast.Unparen(defs[0].RHS).(type) {
				case *ast.CallExpr:
					if core.IsBuiltin(info, r, "make") {
						return "made"
					}
					if fn := core.Callee(info, r); fn != nil {
						return "from-call:" + fn.Name()
					}
				case *ast.SelectorExpr:
					return "from:" + r.Sel.Name
				case *ast.CompositeLit:
					return "captured-literal"
				}
			}
		}
		return "local"
	case *ast.SelectorExpr:
		return "field:" + x.Sel.Name
	case *ast.StarExpr, *ast.ParenExpr:
		return "deref"
	case *ast.IndexExpr:
		return "elem"
	case *ast.CallExpr:
		if fn := core.Callee(info, x); fn != nil {
			return "call:" + fn.Name()
		}
	}
	return "expr"
}

// searchOrigin: if v is defined (once) by strings/bytes IndexByte/Index/LastIndex*
// over base, returns the needle length (as a linear form) and true.
func searchOrigin(info *types.Info, asg map[types.Object][]core.Assign, v types.Object, base ast.Expr) (linForm, bool) {
	defs := asg[v]
	if len(defs) == 0 {
		return linForm{}, false
	}
	var L linForm
	for _, d := range defs {
		if d.RHS == nil {
			return linForm{}, false
		}
		c, ok := ast.Unparen(d.RHS).(*ast.CallExpr)
		if !ok || len(c.Args) != 2 || !sameExprT(info, c.Args[0], base) {
			return linForm{}, false
		}
		switch core.FuncID(core.Callee(info, c)) {
		case "strings.IndexByte", "bytes.IndexByte", "strings.IndexRune", "strings.LastIndexByte", "bytes.LastIndexByte":
			L = linForm{c: 1, terms: map[string]int64{}, ok: true}
		case "strings.Index", "bytes.Index", "strings.LastIndex", "bytes.LastIndex":
			L = linearize(info, &ast.CallExpr{Fun: ast.NewIdent("len"), Args: []ast.Expr{c.Args[1]}})
			L = linForm{terms: map[string]int64{"len(" + canonTerm(info, c.Args[1]) + ")": 1}, ok: true}
		default:
			return linForm{}, false
		}
	}
	return L, true
}

func sameExprT(info *types.Info, a, b ast.Expr) bool {
	return canonTerm(info, a) == canonTerm(info, b)
}

// decideSite applies the discharge rules to one site.
func (t *trapCtx) decideSite(s Site) (status, detail string) {
	info := t.p.Info(s.Pkg)
	body := t.nn.enclosingBody(s.Node)
	if body == nil {
		// package-level initialiser (parser values built by combinators)
		return t.decideInit(s, info)
	}
	var scope ast.Node = body
	if s.Decl != nil {
		scope = s.Decl.Body
	}
	asg := core.Assigns(info, scope)
	var base ast.Expr
	type bound struct {
		e      ast.Expr
		strict bool // must be < len(base) (index) rather than <= (slice bound)
	}
	var bounds []bound
	switch x := s.Node.(type) {
	case *ast.IndexExpr:
		base = x.X
		bounds = append(bounds, bound{x.Index, true})
	case *ast.SliceExpr:
		base = x.X
		if x.Low != nil {
			bounds = append(bounds, bound{x.Low, false})
		}
		if x.High != nil {
			bounds = append(bounds, bound{x.High, false})
		}
	}
	// D1: constant index into the children of a parse result: fixed by the shape of the parser
	if isChildren(info, asg, base) {
		if len(bounds) == 1 {
			if _, ok := core.ConstInt(info, bounds[0].e); ok {
				return core.Info, "parser-shape: a constant child of a pars.Result is determined by the combinator that built it, not by the input"
			}
		}
	}
	facts, alive := t.nn.factsAt(s.Node)
	lenBase := linForm{terms: map[string]int64{"len(" + canonTerm(info, base) + ")": 1}, ok: true}
	allOK := true
	var why []string
	for _, b := range bounds {
		e := linearize(info, b.e)
		if !e.ok {
			allOK = false
			why = append(why, "bound is not a linear expression")
			continue
		}
		vars := varsOf(info, b.e, base)
		// ---- upper bound: e - len(base) < 0 (strict) or <= 0
		upper := false
		want := e.add(lenBase, -1)
		if implies(info, facts, alive, want, b.strict, vars) {
			upper = true
			why = append(why, "upper bound by a dominating length guard")
		}
		// constant bound against a string/slice known non-shorter by a case fact is handled below
		// search axiom: e = i + c, i from IndexByte/Index over base, found
		if !upper {
			for term, coef := range e.terms {
				if coef != 1 || len(e.terms) > 2 {
					continue
				}
				v := t.objOfTerm(info, b.e, term)
				if v == nil {
					continue
				}
				L, isSearch := searchOrigin(info, asg, v, base)
				if !isSearch {
					continue
				}
				// rest = e - i
				rest := e.add(linForm{terms: map[string]int64{term: 1}, ok: true}, -1)
				// need i >= 0 (found) and rest <= L (slice) / rest < L (index): rest - L <= 0
				found := t.searchFound(info, facts, alive, v, b.e)
				d := rest.add(L, -1)
				if found && len(d.terms) == 0 && ((b.strict && d.c < 0) || (!b.strict && d.c <= 0)) {
					upper = true
					why = append(why, "upper bound by the post-condition of the index search (i + len(needle) <= len(s) when found)")
				}
			}
		}
		// range key over the base itself, or over a collection the base was made as long as
		if !upper && len(e.terms) == 1 && e.c == 0 {
			for term := range e.terms {
				v := t.objOfTerm(info, b.e, term)
				if v != nil && t.rangeKeyOver(info, asg, v, base, s.Node) {
					upper = true
					why = append(why, "index is the range key over a collection of the same length")
				}
			}
		}
		// best-index-so-far over a collection that is not empty
		if !upper && t.argmaxOver(info, asg, b.e, base, s.Node, s.Pkg) {
			upper = true
			why = append(why, "index is 0 or a range key over the collection, which holds at least one element (one per entry of a non-empty table)")
		}
		// half: n := len(base)/2 with len(base) != 0 established
		if !upper {
			if t.halfLen(info, asg, facts, alive, b.e, base, b.strict) {
				upper = true
				why = append(why, "n = len(s)/2 with s not empty, so n < len(s)")
			}
		}
		// constant bound under a case fact `IndexByte(base, c) == k`: base has at least k+1 bytes
		if !upper && len(e.terms) == 0 {
			for _, f := range facts {
				if f.tag == nil || !f.val {
					continue
				}
				k, isConst := core.ConstInt(info, f.atom)
				tv := core.ObjOf(info, f.tag)
				if !isConst || tv == nil || k < 0 {
					continue
				}
				if _, isSearch := searchOrigin(info, asg, tv, base); isSearch && alive(f, vars) {
					if (b.strict && e.c <= k) || (!b.strict && e.c <= k+1) {
						upper = true
						why = append(why, "the search found its byte at a known index, so the string is at least that long")
					}
				}
			}
		}
		if !upper {
			allOK = false
			why = append(why, fmt.Sprintf("no rule bounds `%s` by len(%s)", types.ExprString(b.e), types.ExprString(base)))
			continue
		}
		// ---- lower bound
		if !t.lowerOK(info, facts, alive, asg, b.e, base, s.Node) {
			allOK = false
			why = append(why, fmt.Sprintf("`%s` is not shown to be non-negative", types.ExprString(b.e)))
		}
	}
	if allOK {
		return core.OK, joinWhy(why)
	}
	// reviewed table
	fn := "seqio." + s.Fn
	if s.Pkg == core.PkgGts {
		fn = "gts." + s.Fn
	}
	role := baseRole(info, s.Decl, asg, base)
	key := fn + "|" + s.Kind + "|" + role
	t.tableUse[key]++
	for _, re := range reviewedTable {
		if re.fn == fn && re.kind == s.Kind && re.base == role {
			if t.tableUse[key] <= re.count {
				return core.OK, "reviewed: " + re.reason
			}
			return core.Violation, fmt.Sprintf("a new unproven %s site on this operand appeared in %s (the reviewed table knows %d): %s", s.Kind, fn, re.count, joinWhy(why))
		}
	}
	return core.Violation, joinWhy(why) + " [role " + role + "]"
}

func joinWhy(w []string) string {
	out := ""
	seen := map[string]bool{}
	for _, s := range w {
		if seen[s] {
			continue
		}
		seen[s] = true
		if out != "" {
			out += "; "
		}
		out += s
	}
	return out
}

func isChildren(info *types.Info, asg map[types.Object][]core.Assign, base ast.Expr) bool {
	e := core.Origin(info, asg, base)
	sel, ok := ast.Unparen(e).(*ast.SelectorExpr)
	if !ok || sel.Sel.Name != "Children" {
		return false
	}
	return core.NamedOf(info.Types[sel.X].Type) == "github.com/go-pars/pars.Result"
}

// objOfTerm finds the variable whose canonical term is `term` inside e.
func (t *trapCtx) objOfTerm(info *types.Info, e ast.Expr, term string) types.Object {
	var out types.Object
	ast.Inspect(e, func(n ast.Node) bool {
		if id, ok := n.(*ast.Ident); ok && canonTerm(info, id) == term {
			out = core.ObjOf(info, id)
		}
		return out == nil
	})
	return out
}

// searchFound: facts establish that the search result v is not -1 / is >= 0.
func (t *trapCtx) searchFound(info *types.Info, facts []fact, alive func(fact, map[types.Object]bool) bool, v types.Object, use ast.Expr) bool {
	vars := map[types.Object]bool{v: true}
	term := "v" + itoa(int64(v.Pos()))
	neg := linForm{terms: map[string]int64{term: -1}, ok: true} // -v <= 0
	if implies(info, facts, alive, neg, false, vars) {
		return true
	}
	for _, f := range facts {
		d, op, ok := cmpFact(info, f)
		if !ok || !alive(f, vars) {
			continue
		}
		// v != -1  <=>  v + 1 != 0
		if op == token.NEQ && len(d.terms) == 1 && d.terms[term] == 1 && d.c == 1 {
			return true
		}
		if op == token.NEQ && len(d.terms) == 1 && d.terms[term] == -1 && d.c == -1 {
			return true
		}
		// v == k (k >= 0)
		if op == token.EQL && len(d.terms) == 1 && d.terms[term] == 1 && d.c <= 0 {
			return true
		}
	}
	return false
}

func (t *trapCtx) rangeKeyOver(info *types.Info, asg map[types.Object][]core.Assign, v types.Object, base ast.Expr, site ast.Node) bool {
	for _, d := range asg[v] {
		rs, ok := d.Node.(*ast.RangeStmt)
		if !ok || d.Idx != 0 || len(asg[v]) != 1 {
			return false
		}
		if !(rs.Body.Pos() <= site.Pos() && site.End() <= rs.Body.End()) {
			return false
		}
		if sameExprT(info, rs.X, base) {
			return true
		}
		// base := make(T, len(rs.X))
		if bo := core.ObjOf(info, base); bo != nil && len(asg[bo]) == 1 && asg[bo][0].RHS != nil {
			if mk, ok := ast.Unparen(asg[bo][0].RHS).(*ast.CallExpr); ok && core.IsBuiltin(info, mk, "make") && len(mk.Args) >= 2 {
				if lc, ok := ast.Unparen(mk.Args[1]).(*ast.CallExpr); ok && core.IsBuiltin(info, lc, "len") && sameExprT(info, lc.Args[0], rs.X) {
					return true
				}
			}
		}
	}
	return false
}

func (t *trapCtx) halfLen(info *types.Info, asg map[types.Object][]core.Assign, facts []fact, alive func(fact, map[types.Object]bool) bool, e, base ast.Expr, strict bool) bool {
	l := linearize(info, e)
	if !l.ok || len(l.terms) != 1 {
		return false
	}
	for term, coef := range l.terms {
		if coef != 1 {
			return false
		}
		v := t.objOfTerm(info, e, term)
		if v == nil || len(asg[v]) != 1 || asg[v][0].RHS == nil {
			return false
		}
		be, ok := ast.Unparen(asg[v][0].RHS).(*ast.BinaryExpr)
		if !ok || be.Op != token.QUO {
			return false
		}
		two, ok := core.ConstInt(info, be.Y)
		lc, isLen := ast.Unparen(be.X).(*ast.CallExpr)
		if !ok || two < 2 || !isLen || !core.IsBuiltin(info, lc, "len") || !sameExprT(info, lc.Args[0], base) {
			return false
		}
		// len(base) != 0 established: fact len(base) == 0 is false, or len(base) > 0
		nonEmpty := false
		lb := "len(" + canonTerm(info, base) + ")"
		vars := varsOf(info, base)
		for _, f := range facts {
			d, op, ok := cmpFact(info, f)
			if !ok || !alive(f, vars) || len(d.terms) != 1 {
				continue
			}
			if op == token.NEQ && (d.terms[lb] == 1 || d.terms[lb] == -1) && d.c == 0 {
				nonEmpty = true
			}
			if op == token.LSS && d.terms[lb] == -1 && d.c <= 0 { // -len + c < 0
				nonEmpty = true
			}
		}
		if !nonEmpty {
			return false
		}
		// n < len: index ok (offset 0); slice bound n+1 <= len ok
		if strict {
			return l.c <= 0
		}
		return l.c <= 1
	}
	return false
}

func (t *trapCtx) lowerOK(info *types.Info, facts []fact, alive func(fact, map[types.Object]bool) bool, asg map[types.Object][]core.Assign, e, base ast.Expr, at ast.Node) bool {
	if t.nn.NN(e, at) {
		return true
	}
	// i + c with i a found search result and c >= 0
	l := linearize(info, e)
	if !l.ok || l.c < 0 {
		return false
	}
	for term, coef := range l.terms {
		if coef < 0 {
			return false
		}
		v := t.objOfTerm(info, e, term)
		if v == nil {
			if len(term) > 4 && term[:4] == "len(" {
				continue
			}
			return false
		}
		if _, isSearch := searchOrigin(info, asg, v, base); isSearch && t.searchFound(info, facts, alive, v, e) {
			continue
		}
		id := ast.NewIdent(v.Name())
		_ = id
		if !t.nn.objNN(v, findIdent(e, info, v), at) {
			return false
		}
	}
	return true
}

func findIdent(e ast.Expr, info *types.Info, v types.Object) *ast.Ident {
	var out *ast.Ident
	ast.Inspect(e, func(n ast.Node) bool {
		if id, ok := n.(*ast.Ident); ok && core.ObjOf(info, id) == v {
			out = id
		}
		return out == nil
	})
	return out
}

// decideInit handles sites in package-level initialisers (Map callbacks of parser values).
func (t *trapCtx) decideInit(s Site, info *types.Info) (string, string) {
	var base ast.Expr
	var idx ast.Expr
	if x, ok := s.Node.(*ast.IndexExpr); ok {
		base, idx = x.X, x.Index
	}
	if base != nil && isChildren(info, map[types.Object][]core.Assign{}, base) {
		if _, ok := core.ConstInt(info, idx); ok {
			return core.Info, "parser-shape"
		}
	}
	return core.Violation, "unproven site in a package-level initialiser"
}

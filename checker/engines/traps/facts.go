package traps

import (
	"go/ast"
	"go/token"
	"go/types"

	"gtsverif/core"
)

// fact is a boolean atom known to hold (val) at a site because of the syntax
// that encloses or precedes it: the branch of an if/switch the site sits in,
// or an earlier `if COND { ...return/continue/break/panic }` in an enclosing block.
type fact struct {
	atom ast.Expr
	val  bool
	pos  token.Pos // where the fact is established (end of the guard)
	// tag != nil: the fact is `tag == atom` (val) / `tag != atom` (!val) from a tagged switch
	tag ast.Expr
}

// fnCtx is the innermost function (declaration or literal) around a site.
type fnCtx struct {
	info  *types.Info
	body  *ast.BlockStmt
	par   map[ast.Node]ast.Node
	asg   map[types.Object][]core.Assign
	outer *ast.FuncDecl // enclosing declaration (nil for package-level initialisers)
}

func terminates(b *ast.BlockStmt) bool {
	if len(b.List) == 0 {
		return false
	}
	switch s := b.List[len(b.List)-1].(type) {
	case *ast.ReturnStmt:
		return true
	case *ast.BranchStmt:
		return s.Tok == token.CONTINUE || s.Tok == token.BREAK || s.Tok == token.GOTO
	case *ast.ExprStmt:
		if c, ok := s.X.(*ast.CallExpr); ok {
			if id, ok := c.Fun.(*ast.Ident); ok && id.Name == "panic" {
				return true
			}
		}
	}
	return false
}

// contextFacts collects the facts that hold at node n inside body.
func contextFacts(info *types.Info, par map[ast.Node]ast.Node, body *ast.BlockStmt, n ast.Node) []fact {
	var out []fact
	add := func(cond ast.Expr, taken bool, pos token.Pos) {
		core.Facts(cond, taken, func(atom ast.Expr, val bool) {
			out = append(out, fact{atom: atom, val: val, pos: pos})
		})
	}
	child := n
	for m := par[n]; m != nil; child, m = m, par[m] {
		switch x := m.(type) {
		case *ast.IfStmt:
			if child == ast.Node(x.Body) {
				add(x.Cond, true, x.Cond.End())
			} else if x.Else != nil && child == ast.Node(x.Else) {
				add(x.Cond, false, x.Cond.End())
			}
		case *ast.ForStmt:
			if child == ast.Node(x.Body) && x.Cond != nil {
				add(x.Cond, true, x.Cond.End())
			}
		case *ast.CaseClause:
			// guards among the earlier statements of this clause
			for _, st := range x.Body {
				if st.End() > child.Pos() {
					break
				}
				if is, ok := st.(*ast.IfStmt); ok && is.Else == nil && terminates(is.Body) {
					add(is.Cond, false, is.End())
				}
			}
			sw, ok := par[par[x]].(*ast.SwitchStmt)
			if !ok {
				break
			}
			if sw.Tag == nil {
				if x.List != nil {
					if len(x.List) == 1 {
						add(x.List[0], true, x.List[0].End())
					}
				}
				// earlier clauses of a tagless switch are false here
				for _, cc := range sw.Body.List {
					cl := cc.(*ast.CaseClause)
					if cl == x {
						break
					}
					for _, e := range cl.List {
						if len(cl.List) == 1 {
							add(e, false, e.End())
						}
					}
				}
				break
			}
			if x.List != nil {
				if len(x.List) == 1 {
					out = append(out, fact{atom: x.List[0], val: true, pos: x.Colon, tag: sw.Tag})
				}
			} else {
				for _, cc := range sw.Body.List {
					for _, e := range cc.(*ast.CaseClause).List {
						out = append(out, fact{atom: e, val: false, pos: x.Colon, tag: sw.Tag})
					}
				}
			}
		case *ast.BlockStmt:
			// guards: earlier statements of this block that leave when COND holds
			for _, s := range x.List {
				if s.End() > child.Pos() {
					break
				}
				if is, ok := s.(*ast.IfStmt); ok && is.Else == nil && terminates(is.Body) {
					add(is.Cond, false, is.End())
				}
				// tagged switch whose listed cases all leave: afterwards the tag is none of them
				if sw, ok := s.(*ast.SwitchStmt); ok && sw.Tag != nil {
					all := true
					for _, cc := range sw.Body.List {
						cl := cc.(*ast.CaseClause)
						if cl.List != nil && !terminates(&ast.BlockStmt{List: cl.Body}) {
							all = false
						}
					}
					if all {
						for _, cc := range sw.Body.List {
							for _, e := range cc.(*ast.CaseClause).List {
								out = append(out, fact{atom: e, val: false, pos: sw.End(), tag: sw.Tag})
							}
						}
					}
				}
			}
		case *ast.FuncLit, *ast.FuncDecl:
			return out
		}
		if m == ast.Node(body) {
			break
		}
	}
	return out
}

// assignedBetween: is any of objs assigned at a position in (from, to), or
// anywhere inside a loop that encloses `to` but not `from`?
func assignedBetween(info *types.Info, par map[ast.Node]ast.Node, body ast.Node, objs map[types.Object]bool, from, to token.Pos, site ast.Node) bool {
	// loops around the site that do not contain the fact
	var loops []ast.Node
	for m := par[site]; m != nil; m = par[m] {
		switch m.(type) {
		case *ast.ForStmt, *ast.RangeStmt:
			if !(m.Pos() <= from && from < m.End()) {
				loops = append(loops, m)
			}
		case *ast.FuncLit, *ast.FuncDecl:
			m = nil
		}
		if m == nil {
			break
		}
	}
	hit := false
	check := func(lhs ast.Expr, pos token.Pos) {
		o := core.ObjOf(info, lhs)
		if o == nil || !objs[o] {
			return
		}
		if from < pos && pos < to {
			hit = true
		}
		for _, l := range loops {
			if l.Pos() <= pos && pos < l.End() {
				hit = true
			}
		}
	}
	ast.Inspect(body, func(n ast.Node) bool {
		switch x := n.(type) {
		case *ast.AssignStmt:
			for _, l := range x.Lhs {
				check(l, x.Pos())
			}
		case *ast.IncDecStmt:
			check(x.X, x.Pos())
		case *ast.RangeStmt:
			if x.Key != nil {
				check(x.Key, x.Pos())
			}
			if x.Value != nil {
				check(x.Value, x.Pos())
			}
		}
		return true
	})
	return hit
}

func varsOf(info *types.Info, es ...ast.Expr) map[types.Object]bool {
	out := map[types.Object]bool{}
	for _, e := range es {
		if e == nil {
			continue
		}
		ast.Inspect(e, func(n ast.Node) bool {
			if id, ok := n.(*ast.Ident); ok {
				if v, ok := info.Uses[id].(*types.Var); ok && !v.IsField() {
					out[v] = true
				}
			}
			return true
		})
	}
	return out
}

// lin is c0 + sum(coef * term) over canonical term strings.
type linForm struct {
	c     int64
	terms map[string]int64
	ok    bool
}

func (l linForm) add(o linForm, sign int64) linForm {
	if !l.ok || !o.ok {
		return linForm{}
	}
	r := linForm{c: l.c + sign*o.c, terms: map[string]int64{}, ok: true}
	for k, v := range l.terms {
		r.terms[k] += v
	}
	for k, v := range o.terms {
		r.terms[k] += sign * v
	}
	for k, v := range r.terms {
		if v == 0 {
			delete(r.terms, k)
		}
	}
	return r
}

// linearize renders an integer expression as constant + terms (variables,
// len(x) calls and anything else as opaque canonical strings).
func linearize(info *types.Info, e ast.Expr) linForm {
	e = ast.Unparen(e)
	if v, ok := core.ConstInt(info, e); ok {
		return linForm{c: v, terms: map[string]int64{}, ok: true}
	}
	switch x := e.(type) {
	case *ast.BinaryExpr:
		switch x.Op {
		case token.ADD:
			return linearize(info, x.X).add(linearize(info, x.Y), 1)
		case token.SUB:
			return linearize(info, x.X).add(linearize(info, x.Y), -1)
		}
	case *ast.CallExpr:
		if core.IsConversion(info, x) && len(x.Args) == 1 {
			return linearize(info, x.Args[0])
		}
	}
	return linForm{terms: map[string]int64{canonTerm(info, e): 1}, ok: true}
}

func canonTerm(info *types.Info, e ast.Expr) string {
	e = ast.Unparen(e)
	switch x := e.(type) {
	case *ast.Ident:
		if o := core.ObjOf(info, x); o != nil {
			return "v" + itoa(int64(o.Pos()))
		}
		return x.Name
	case *ast.CallExpr:
		if core.IsBuiltin(info, x, "len") && len(x.Args) == 1 {
			return "len(" + canonTerm(info, x.Args[0]) + ")"
		}
	case *ast.SelectorExpr:
		return canonTerm(info, x.X) + "." + x.Sel.Name
	case *ast.StarExpr:
		return "*" + canonTerm(info, x.X)
	case *ast.IndexExpr:
		return canonTerm(info, x.X) + "[" + types.ExprString(x.Index) + "]"
	}
	return types.ExprString(e)
}

func itoa(n int64) string {
	if n == 0 {
		return "0"
	}
	neg := n < 0
	if neg {
		n = -n
	}
	var b []byte
	for n > 0 {
		b = append([]byte{byte('0' + n%10)}, b...)
		n /= 10
	}
	if neg {
		b = append([]byte{'-'}, b...)
	}
	return string(b)
}

// cmpFact normalises a comparison atom `L op R` (with truth value) to
// `diff OP 0` where diff = L - R as a linear form and OP is one of < <= == !=.
// It returns ok=false for atoms that are not integer comparisons.
func cmpFact(info *types.Info, f fact) (diff linForm, op token.Token, ok bool) {
	if f.tag != nil {
		d := linearize(info, f.tag).add(linearize(info, f.atom), -1)
		if !d.ok {
			return linForm{}, 0, false
		}
		if f.val {
			return d, token.EQL, true
		}
		return d, token.NEQ, true
	}
	be, isBin := ast.Unparen(f.atom).(*ast.BinaryExpr)
	if !isBin {
		return linForm{}, 0, false
	}
	l, r := linearize(info, be.X), linearize(info, be.Y)
	if !l.ok || !r.ok {
		return linForm{}, 0, false
	}
	op = be.Op
	if !f.val {
		switch op {
		case token.LSS:
			op = token.GEQ
		case token.LEQ:
			op = token.GTR
		case token.GTR:
			op = token.LEQ
		case token.GEQ:
			op = token.LSS
		case token.EQL:
			op = token.NEQ
		case token.NEQ:
			op = token.EQL
		default:
			return linForm{}, 0, false
		}
	}
	d := l.add(r, -1)
	switch op {
	case token.LSS, token.LEQ, token.EQL, token.NEQ:
		return d, op, true
	case token.GTR: // L > R  <=>  R - L < 0
		return r.add(l, -1), token.LSS, true
	case token.GEQ:
		return r.add(l, -1), token.LEQ, true
	}
	return linForm{}, 0, false
}

func sameTerms(a, b linForm) bool {
	if len(a.terms) != len(b.terms) {
		return false
	}
	for k, v := range a.terms {
		if b.terms[k] != v {
			return false
		}
	}
	return true
}

// implies: do the facts establish `want <= 0` (strict=false) or `want < 0`
// (strict=true) for the linear form want? Each fact is used on its own (no
// combination), after checking it is not killed before the site.
func implies(info *types.Info, facts []fact, alive func(f fact, vars map[types.Object]bool) bool, want linForm, strict bool, vars map[types.Object]bool) bool {
	for _, f := range facts {
		d, op, ok := cmpFact(info, f)
		if !ok || !sameTerms(d, want) || !alive(f, vars) {
			continue
		}
		// fact: d OP 0 with d = terms + d.c ; want = terms + want.c
		// want = d + (want.c - d.c)
		k := want.c - d.c
		switch op {
		case token.LSS: // d < 0, integers: d <= -1
			if strict && k <= 0 || !strict && k <= 1 {
				return true
			}
		case token.LEQ:
			if strict && k < 0 || !strict && k <= 0 {
				return true
			}
		case token.EQL:
			if strict && k < 0 || !strict && k <= 0 {
				return true
			}
		}
	}
	return false
}

// Package traps implements E4: trap-site obligations (index, slice bound,
// negative count, Request/Advance protocol, unchecked parser results) in the
// code reachable from the parser entry points.
package traps

import (
	"bufio"
	"bytes"
	"encoding/json"
	"fmt"
	"go/ast"
	"go/token"
	"go/types"
	"os"
	"os/exec"
	"path/filepath"
	"regexp"
	"sort"
	"strconv"
	"strings"

	"golang.org/x/tools/go/ssa"

	"gtsverif/core"
)

// Roots are the parser entry points of the property.
// Root names one entry point.
type Root struct{ Pkg, Name string }

var Roots = []Root{
	{core.PkgSeqio, "GenBankParser"}, {core.PkgSeqio, "FastaParser"}, {core.PkgSeqio, "Scanner.Scan"}, {core.PkgSeqio, "INSDCTableParser"},
	{core.PkgSeqio, "AsDate"}, {core.PkgGts, "ParseLocation"}, {core.PkgGts, "AsLocation"}, {core.PkgGts, "AsLocator"}, {core.PkgGts, "AsModifier"},
	{core.PkgGts, "Selector"}, {core.PkgGts, "AsMolecule"}, {core.PkgGts, "AsTopology"}, {core.PkgSeqio, "NewAutoScanner"}, {core.PkgSeqio, "QualifierParser"},
}

func repoFn(f *ssa.Function) bool {
	return f != nil && f.Pkg != nil && (f.Pkg.Pkg.Path() == core.PkgGts || f.Pkg.Pkg.Path() == core.PkgSeqio)
}

// Reach computes the repo functions reachable from the roots: static calls,
// interface calls over the repo's implementers, calls through function values
// by signature, every closure a reachable function creates, every function
// referenced as a value, and the initialisers of referenced package variables
// (parsers are package-level values built by combinators).
func Reach(p *core.Prog, roots []Root) (map[*ssa.Function]bool, []string) {
	reach := map[*ssa.Function]bool{}
	var work []*ssa.Function
	var missing []string
	push := func(f *ssa.Function) {
		if repoFn(f) && f.Blocks != nil && !reach[f] {
			reach[f] = true
			work = append(work, f)
		}
	}
	var all []*ssa.Function
	for _, path := range []string{core.PkgGts, core.PkgSeqio} {
		sp := p.SSAPkgs[path]
		var add func(f *ssa.Function)
		add = func(f *ssa.Function) {
			if f == nil || f.Blocks == nil {
				return
			}
			all = append(all, f)
			for _, a := range f.AnonFuncs {
				add(a)
			}
		}
		for _, m := range sp.Members {
			switch x := m.(type) {
			case *ssa.Function:
				add(x)
			case *ssa.Type:
				for _, t := range []types.Type{x.Type(), types.NewPointer(x.Type())} {
					ms := p.SSA.MethodSets.MethodSet(t)
					for i := 0; i < ms.Len(); i++ {
						add(p.SSA.MethodValue(ms.At(i)))
					}
				}
			}
		}
	}
	globalsSeen := map[*ssa.Global]bool{}
	for _, r := range roots {
		sp := p.SSAPkgs[r.Pkg]
		var f *ssa.Function
		if i := strings.IndexByte(r.Name, '.'); i >= 0 {
			if t, ok := sp.Members[r.Name[:i]].(*ssa.Type); ok {
				for _, tt := range []types.Type{t.Type(), types.NewPointer(t.Type())} {
					if sel := p.SSA.MethodSets.MethodSet(tt).Lookup(sp.Pkg, r.Name[i+1:]); sel != nil {
						f = p.SSA.MethodValue(sel)
					}
				}
			}
		} else if fn, ok := sp.Members[r.Name].(*ssa.Function); ok {
			f = fn
		} else if g, ok := sp.Members[r.Name].(*ssa.Global); ok {
			// a package-level parser value: its initialiser code lives in init
			globalsSeen[g] = true
			push(sp.Func("init"))
			continue
		}
		if f == nil {
			missing = append(missing, core.Short(r.Pkg)+"."+r.Name)
			continue
		}
		push(f)
	}
	var named []*types.Named
	for _, path := range []string{core.PkgGts, core.PkgSeqio} {
		sc := p.Pkg(path).Types.Scope()
		for _, n := range sc.Names() {
			if tn, ok := sc.Lookup(n).(*types.TypeName); ok {
				if nt, ok := tn.Type().(*types.Named); ok {
					named = append(named, nt)
				}
			}
		}
	}
	for len(work) > 0 {
		f := work[len(work)-1]
		work = work[:len(work)-1]
		for _, b := range f.Blocks {
			for _, ins := range b.Instrs {
				// a function value is run by the parse driver when it has a parser callback signature
				// or is handed to code outside the repository (pars combinators); a closure that is
				// merely returned to the caller (a Locator, a Filter) runs later, outside the parse
				for _, op := range ins.Operands(nil) {
					if op == nil || *op == nil {
						continue
					}
					switch v := (*op).(type) {
					case *ssa.Function:
						if parserCallback(v.Signature) || passedOutside(ins, *op) {
							push(v)
						}
					case *ssa.MakeClosure:
						if fn := v.Fn.(*ssa.Function); parserCallback(fn.Signature) || passedOutside(ins, *op) {
							push(fn)
						}
					case *ssa.Global:
						if repoFn(&ssa.Function{Pkg: v.Pkg}) && !globalsSeen[v] {
							globalsSeen[v] = true
							push(v.Pkg.Func("init"))
						}
					}
				}
				if mc, ok := ins.(*ssa.MakeClosure); ok {
					if fn := mc.Fn.(*ssa.Function); parserCallback(fn.Signature) {
						push(fn)
					}
				}
				var c *ssa.CallCommon
				switch x := ins.(type) {
				case *ssa.Call:
					c = &x.Call
				case *ssa.Defer:
					c = &x.Call
				case *ssa.Go:
					c = &x.Call
				}
				if c == nil {
					continue
				}
				if c.IsInvoke() {
					if iface, _ := c.Value.Type().Underlying().(*types.Interface); iface != nil {
						for _, n := range named {
							for _, t := range []types.Type{n, types.NewPointer(n)} {
								if types.Implements(t, iface) {
									if sel := p.SSA.MethodSets.MethodSet(t).Lookup(c.Method.Pkg(), c.Method.Name()); sel != nil {
										push(p.SSA.MethodValue(sel))
									}
								}
							}
						}
					}
					continue
				}
				switch v := c.Value.(type) {
				case *ssa.Function:
					push(v)
				case *ssa.MakeClosure:
					push(v.Fn.(*ssa.Function))
				case *ssa.Builtin:
				default:
					if sig, _ := c.Value.Type().Underlying().(*types.Signature); sig != nil {
						for _, g := range all {
							if g.Signature.Recv() == nil && types.Identical(types.NewSignatureType(nil, nil, nil, g.Signature.Params(), g.Signature.Results(), g.Signature.Variadic()), sig) {
								push(g)
							}
						}
					}
				}
			}
		}
	}
	return reach, missing
}

// Site is one potential trap in the source.
type Site struct {
	Kind string // IDX | SLICE
	Node ast.Node
	Pos  token.Pos
	Fn   string // enclosing declaration (closures: Decl$n is not tracked, the declaration name is used)
	Decl *ast.FuncDecl
	Pkg  string
	Lit  *ast.FuncLit // innermost enclosing function literal, if any
}

var bceLine = regexp.MustCompile(`^(.*\.go):(\d+):(\d+): Found (IsInBounds|IsSliceInBounds)`)

// BCE runs the compiler's bounds-check-elimination report for the two library
// packages and returns the unproven sites as file -> line:col -> kind.
func BCE(p *core.Prog) (map[string]map[[2]int]string, string, error) {
	args := []string{"build", "-gcflags=-l -d=ssa/check_bce/debug=1"}
	var cleanup func()
	if len(p.Overlay) > 0 {
		dir, err := os.MkdirTemp("", "gtsverif-ov-")
		if err != nil {
			return nil, "", err
		}
		cleanup = func() { os.RemoveAll(dir) }
		rep := map[string]string{}
		i := 0
		for path, content := range p.Overlay {
			i++
			f := filepath.Join(dir, fmt.Sprintf("o%d.go", i))
			if err := os.WriteFile(f, content, 0o644); err != nil {
				return nil, "", err
			}
			rep[path] = f
		}
		b, _ := json.Marshal(map[string]interface{}{"Replace": rep})
		ov := filepath.Join(dir, "overlay.json")
		os.WriteFile(ov, b, 0o644)
		args = append(args, "-overlay", ov)
	}
	if cleanup != nil {
		defer cleanup()
	}
	args = append(args, ".", "./seqio")
	cmd := exec.Command("go", args...)
	cmd.Dir = p.Repo
	cmd.Env = p.Env
	var out bytes.Buffer
	cmd.Stdout, cmd.Stderr = &out, &out
	if err := cmd.Run(); err != nil {
		return nil, "", fmt.Errorf("go build with the bounds-check report failed: %v: %s", err, firstLines(out.String(), 4))
	}
	vcmd := exec.Command("go", "version")
	vcmd.Env = p.Env
	vb, _ := vcmd.Output()
	res := map[string]map[[2]int]string{}
	sc := bufio.NewScanner(&out)
	for sc.Scan() {
		m := bceLine.FindStringSubmatch(sc.Text())
		if m == nil {
			continue
		}
		file := m[1]
		if !filepath.IsAbs(file) {
			file = filepath.Join(p.Repo, file)
		}
		// overlay replacement files are reported under their own path: map back
		for orig := range p.Overlay {
			if filepath.Base(file) != filepath.Base(orig) && strings.Contains(file, "gtsverif-ov-") {
				// resolved below through position matching on content
			}
		}
		l, _ := strconv.Atoi(m[2])
		c, _ := strconv.Atoi(m[3])
		if res[file] == nil {
			res[file] = map[[2]int]string{}
		}
		res[file][[2]int{l, c}] = m[4]
	}
	return res, strings.TrimSpace(string(vb)), nil
}

func firstLines(s string, n int) string {
	ls := strings.Split(strings.TrimSpace(s), "\n")
	if len(ls) > n {
		ls = ls[:n]
	}
	return strings.Join(ls, " | ")
}

// declOf maps ssa functions to their declaration (closures map to the enclosing declaration).
func declRoot(f *ssa.Function) *ssa.Function {
	for f.Parent() != nil {
		f = f.Parent()
	}
	return f
}

// Sites enumerates the unproven index/slice sites inside reachable code.
func Sites(p *core.Prog, reach map[*ssa.Function]bool, bce map[string]map[[2]int]string) []Site {
	// reachable syntax: FuncDecl bodies / FuncLit bodies / package var initialisers of reachable functions
	type span struct{ lo, hi token.Pos }
	var spans []span
	initReach := map[string]bool{}
	for f := range reach {
		if f.Name() == "init" && f.Parent() == nil && f.Syntax() == nil {
			initReach[f.Pkg.Pkg.Path()] = true
			continue
		}
		if n := f.Syntax(); n != nil {
			spans = append(spans, span{n.Pos(), n.End()})
		}
	}
	inReach := func(pos token.Pos) bool {
		for _, s := range spans {
			if s.lo <= pos && pos < s.hi {
				return true
			}
		}
		return false
	}
	var out []Site
	for _, pkg := range []string{core.PkgGts, core.PkgSeqio} {
		pk := p.Pkg(pkg)
		for _, file := range pk.Syntax {
			fname := p.Fset.Position(file.Pos()).Filename
			rep := bce[fname]
			if len(p.Overlay) > 0 && rep == nil {
				// the overlay replacement was compiled under another path: match by base name
				for k, v := range bce {
					if strings.Contains(k, "gtsverif-ov-") {
						if _, isOv := p.Overlay[fname]; isOv {
							rep = v
						}
					}
				}
			}
			if rep == nil {
				continue
			}
			var stack []ast.Node
			ast.Inspect(file, func(n ast.Node) bool {
				if n == nil {
					stack = stack[:len(stack)-1]
					return true
				}
				stack = append(stack, n)
				var lb token.Pos
				kind := ""
				switch x := n.(type) {
				case *ast.IndexExpr:
					lb, kind = x.Lbrack, "IDX"
				case *ast.SliceExpr:
					lb, kind = x.Lbrack, "SLICE"
				default:
					return true
				}
				ps := p.Fset.Position(lb)
				if _, ok := rep[[2]int{ps.Line, ps.Column}]; !ok {
					return true
				}
				var decl *ast.FuncDecl
				var lit *ast.FuncLit
				topVar := ""
				for _, s := range stack {
					switch d := s.(type) {
					case *ast.FuncDecl:
						decl = d
					case *ast.FuncLit:
						lit = d
					case *ast.ValueSpec:
						if decl == nil && len(d.Names) > 0 {
							topVar = d.Names[0].Name
						}
					}
				}
				reachable := inReach(n.Pos())
				if decl == nil && initReach[pkg] {
					reachable = true // package-level initialiser code (parser values built by combinators)
				}
				if !reachable {
					return true
				}
				fn := topVar
				if decl != nil {
					fn = core.DeclName(decl)
				}
				out = append(out, Site{Kind: kind, Node: n, Pos: lb, Fn: fn, Decl: decl, Pkg: pkg, Lit: lit})
				return true
			})
		}
	}
	sort.Slice(out, func(i, j int) bool { return out[i].Pos < out[j].Pos })
	return out
}

// parserCallback: func(*pars.State, *pars.Result) error or func(*pars.Result) error.
func parserCallback(sig *types.Signature) bool {
	if sig.Results().Len() != 1 || sig.Results().At(0).Type().String() != "error" {
		return false
	}
	n := sig.Params().Len()
	if n != 1 && n != 2 {
		return false
	}
	last := sig.Params().At(n - 1).Type().String()
	if last != "*github.com/go-pars/pars.Result" {
		return false
	}
	return n == 1 || sig.Params().At(0).Type().String() == "*github.com/go-pars/pars.State"
}

// passedOutside: the value is an argument of a call whose callee is not in the repository.
func passedOutside(ins ssa.Instruction, v ssa.Value) bool {
	var c *ssa.CallCommon
	switch x := ins.(type) {
	case *ssa.Call:
		c = &x.Call
	case *ssa.Defer:
		c = &x.Call
	case *ssa.Go:
		c = &x.Call
	default:
		return false
	}
	isArg := false
	for _, a := range c.Args {
		if a == v {
			isArg = true
		}
	}
	if !isArg {
		return false
	}
	if f, ok := c.Value.(*ssa.Function); ok {
		return !repoFn(f)
	}
	return c.IsInvoke()
}

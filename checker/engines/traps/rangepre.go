package traps

import (
	"fmt"
	"go/ast"
	"go/token"
	"go/types"

	"gtsverif/core"
)

// RangePrecond decides RANGE-PRECOND. gts.Range and gts.PartialRange panic
// unless start < end. Inside package gts the callers hold that by the
// invariant of the value they take the bounds from (decided by the location
// rules); the callers in seqio and cmd/gts take the bounds from run-time data -
// numbers read from a file, the region of a slice, a search hit - so there the
// order has to be established in front of the call:
//
//   - both bounds constant and ascending, or
//   - on every path from the entry of the enclosing function (or function
//     literal) to the call a branch `a < b` (in any spelling) was taken on the
//     very two variables, neither re-assigned since, or
//   - the bounds are the two ends of a hit of gts.Search / gts.Match, which
//     return nothing for an empty query (checked: both start by returning when
//     Len(query) == 0) and whose hits are as long as the query.
//
// A call that has none of these is reported with the function that feeds it.
func RangePrecond(p *core.Prog, r *core.Report) {
	r.Rule("RANGE-PRECOND", "outside package gts every call of gts.Range / gts.PartialRange (they panic unless start < end) has its bounds ordered in front of it: constants, a dominating `start < end` branch on the same unre-assigned variables, or the ends of a gts.Search / gts.Match hit (non-empty because both return nil for an empty query)", 3)
	hitFuncs := map[string]bool{core.PkgGts + ".Search": true, core.PkgGts + ".Match": true}
	// HIT-NONEMPTY part: the empty-query guard of Search and Match
	guardOK := map[string]bool{}
	ginfo := p.Info(core.PkgGts)
	for _, name := range []string{"Search", "Match"} {
		fd := p.FuncDecl(core.PkgGts, name)
		if fd == nil || fd.Body == nil || fd.Type.Params.NumFields() != 2 {
			continue
		}
		q := paramAt(ginfo, fd, 1)
		for _, st := range fd.Body.List {
			is, ok := st.(*ast.IfStmt)
			if !ok {
				if touches(ginfo, st, q) {
					break
				}
				continue
			}
			empty := false
			// the condition is true whenever Len(query) == 0: that atom is one of its || operands
			var ors func(e ast.Expr)
			ors = func(e ast.Expr) {
				e = ast.Unparen(e)
				if be, ok := e.(*ast.BinaryExpr); ok && be.Op == token.LOR {
					ors(be.X)
					ors(be.Y)
					return
				}
				if be, ok := e.(*ast.BinaryExpr); ok && (be.Op == token.EQL || be.Op == token.LEQ || be.Op == token.LSS) {
					k, isK := core.ConstInt(ginfo, be.Y)
					if isK && ((be.Op == token.EQL && k == 0) || (be.Op == token.LEQ && k == 0) || (be.Op == token.LSS && k == 1)) && isLenOf(ginfo, be.X, q) {
						empty = true
					}
				}
			}
			ors(is.Cond)
			if empty && len(is.Body.List) > 0 {
				if _, isRet := is.Body.List[len(is.Body.List)-1].(*ast.ReturnStmt); isRet {
					guardOK[core.PkgGts+"."+name] = true
				}
			}
			break
		}
	}
	for _, pkg := range []string{core.PkgSeqio, core.PkgMain} {
		info := p.Info(pkg)
		if info == nil {
			continue
		}
		for _, fd := range p.FuncDecls(pkg) {
			if fd.Body == nil {
				continue
			}
			fname := core.DeclName(fd)
			n := 0
			// the innermost function body around each call
			var walk func(body *ast.BlockStmt)
			walk = func(body *ast.BlockStmt) {
				var calls []*ast.CallExpr
				ast.Inspect(body, func(nd ast.Node) bool {
					if fl, ok := nd.(*ast.FuncLit); ok {
						walk(fl.Body)
						return false
					}
					if c, ok := nd.(*ast.CallExpr); ok && core.IsCallTo(info, c, core.PkgGts+".Range", core.PkgGts+".PartialRange") {
						calls = append(calls, c)
					}
					return true
				})
				if len(calls) == 0 {
					return
				}
				asg := core.Assigns(info, body)
				for _, c := range calls {
					n++
					key := fmt.Sprintf("%s.%s|Range#%d", pkgShort(pkg), fname, n)
					pos := p.Pos(c.Pos())
					if len(c.Args) < 2 {
						r.Bad("RANGE-PRECOND", key, pos, fmt.Sprintf("%s passes the two results of `%s` straight on as bounds: nothing orders them, and gts.Range panics unless start < end (an empty region - `gts split` cutting a linear record at its first base, `gts extract` of a zero-width site - kills the writer with `Ranged bounds out of range [0:0]`)", fname, exprOf(c)))
						continue
					}
					a, b := c.Args[0], c.Args[1]
					if ka, ok1 := core.ConstInt(info, a); ok1 {
						if kb, ok2 := core.ConstInt(info, b); ok2 {
							if ka < kb {
								r.Ok("RANGE-PRECOND", key, pos, "constant ascending bounds")
							} else {
								r.Bad("RANGE-PRECOND", key, pos, "constant bounds that are not ascending: the call always panics")
							}
							continue
						}
					}
					oa, ob := core.ObjOf(info, a), core.ObjOf(info, b)
					if oa == nil || ob == nil || oa == ob {
						r.Und("RANGE-PRECOND", key, pos, "the bounds are not two plain variables or constants; the rule cannot follow them")
						continue
					}
					if hitOf(info, asg, body, oa, ob, hitFuncs, guardOK) {
						r.Ok("RANGE-PRECOND", key, pos, "the ends of a Search/Match hit: non-empty because the query is")
						continue
					}
					fl := core.NewFlow(info, body)
					violated, reached := false, false
					core.Scan(fl, fl.Entry(), 0, core.Stepper[int]{
						Node: func(s int, nd ast.Node) (int, bool) {
							for _, cc := range core.NodeCalls(nd) {
								if cc == c {
									reached = true
									if s == 0 {
										violated = true
									}
									return s, true
								}
							}
							switch x := nd.(type) {
							case *ast.AssignStmt:
								for _, l := range x.Lhs {
									if o := core.ObjOf(info, l); o == oa || o == ob {
										return 0, false
									}
								}
							case *ast.IncDecStmt:
								if o := core.ObjOf(info, x.X); o == oa || o == ob {
									return 0, false
								}
							}
							return s, false
						},
						Edge: func(s int, cond ast.Expr, taken bool) int {
							core.Facts(cond, taken, func(atom ast.Expr, val bool) {
								be, ok := ast.Unparen(atom).(*ast.BinaryExpr)
								if !ok {
									return
								}
								x, y := core.ObjOf(info, be.X), core.ObjOf(info, be.Y)
								fwd := x == oa && y == ob // a OP b
								rev := x == ob && y == oa // b OP a
								if !fwd && !rev {
									return
								}
								op := be.Op
								if rev { // mirror to a OP' b
									switch op {
									case token.LSS:
										op = token.GTR
									case token.GTR:
										op = token.LSS
									case token.LEQ:
										op = token.GEQ
									case token.GEQ:
										op = token.LEQ
									}
								}
								if (op == token.LSS && val) || (op == token.GEQ && !val) {
									s = 1
								}
							})
							return s
						},
					})
					switch {
					case !reached:
						r.Und("RANGE-PRECOND", key, pos, "the call is not reached from the entry of its function in the control-flow graph")
					case violated:
						r.Bad("RANGE-PRECOND", key, pos, fmt.Sprintf("%s reaches gts.Range(%s, %s) on a path that never established %s < %s: the bounds come from run-time data and gts.Range panics unless start < end (a REFERENCE line `(bases 10 to 5)` kills `gts extract` / `gts.Slice` of the record with `Ranged bounds out of range [9:5]`)", fname, types.ExprString(a), types.ExprString(b), types.ExprString(a), types.ExprString(b)))
					default:
						r.Ok("RANGE-PRECOND", key, pos, fmt.Sprintf("every path to the call took a branch that establishes %s < %s", types.ExprString(a), types.ExprString(b)))
					}
				}
			}
			walk(fd.Body)
		}
	}
}

func exprOf(c *ast.CallExpr) string {
	if len(c.Args) == 1 {
		return types.ExprString(c.Args[0])
	}
	return types.ExprString(c)
}

func pkgShort(pkg string) string {
	switch pkg {
	case core.PkgSeqio:
		return "seqio"
	case core.PkgMain:
		return "main"
	}
	return pkg
}

func paramAt(info *types.Info, fd *ast.FuncDecl, i int) types.Object {
	k := 0
	for _, f := range fd.Type.Params.List {
		for _, n := range f.Names {
			if k == i {
				return info.Defs[n]
			}
			k++
		}
	}
	return nil
}

func touches(info *types.Info, n ast.Node, o types.Object) bool {
	return o != nil && core.UsesObj(info, n, o)
}

// isLenOf: e is Len(q), len(q.Bytes()) or q.Len().
func isLenOf(info *types.Info, e ast.Expr, q types.Object) bool {
	c, ok := ast.Unparen(e).(*ast.CallExpr)
	if !ok || q == nil {
		return false
	}
	if core.IsCallTo(info, c, core.PkgGts+".Len") && len(c.Args) == 1 {
		return core.ObjOf(info, c.Args[0]) == q
	}
	if id, ok := ast.Unparen(c.Fun).(*ast.Ident); ok && id.Name == "len" && len(c.Args) == 1 {
		if bc, ok := ast.Unparen(c.Args[0]).(*ast.CallExpr); ok {
			if sel, ok := ast.Unparen(bc.Fun).(*ast.SelectorExpr); ok && sel.Sel.Name == "Bytes" {
				return core.ObjOf(info, sel.X) == q
			}
		}
	}
	if sel, ok := ast.Unparen(c.Fun).(*ast.SelectorExpr); ok && sel.Sel.Name == "Len" && len(c.Args) == 0 {
		return core.ObjOf(info, sel.X) == q
	}
	return false
}

// hitOf: oa, ob are defined once, together, by `oa, ob := gts.Unpack(x)` (or
// x[0], x[1]) where x is the value variable of a range over a variable that is
// only ever assigned the result of gts.Search / gts.Match, called directly or
// through a local function variable that holds nothing else.
func hitOf(info *types.Info, asg map[types.Object][]core.Assign, body *ast.BlockStmt, oa, ob types.Object, hitFuncs, guardOK map[string]bool) bool {
	da, db := asg[oa], asg[ob]
	if len(da) != 1 || len(db) != 1 || da[0].Call == nil || da[0].Call != db[0].Call || da[0].Idx != 0 || db[0].Idx != 1 {
		return false
	}
	uc := da[0].Call
	if !core.IsCallTo(info, uc, core.PkgGts+".Unpack") || len(uc.Args) != 1 {
		return false
	}
	seg := core.ObjOf(info, uc.Args[0])
	if seg == nil {
		return false
	}
	// the range statement that defines seg
	var over ast.Expr
	ast.Inspect(body, func(n ast.Node) bool {
		if rs, ok := n.(*ast.RangeStmt); ok && rs.Value != nil && core.ObjOf(info, rs.Value) == seg {
			over = rs.X
		}
		return true
	})
	if over == nil {
		return false
	}
	isHitCall := func(e ast.Expr) bool {
		c, ok := ast.Unparen(e).(*ast.CallExpr)
		if !ok {
			return false
		}
		if fn := core.Callee(info, c); fn != nil {
			id := core.FuncID(fn)
			return hitFuncs[id] && guardOK[id]
		}
		fv := core.ObjOf(info, c.Fun)
		if fv == nil || len(asg[fv]) == 0 {
			return false
		}
		for _, a := range asg[fv] {
			if a.RHS == nil {
				return false
			}
			o := core.ObjOf(info, a.RHS)
			if se, isSel := ast.Unparen(a.RHS).(*ast.SelectorExpr); isSel {
				o = info.Uses[se.Sel] // pkg.Func
			}
			f, ok := o.(*types.Func)
			if !ok {
				return false
			}
			id := core.FuncID(f)
			if !hitFuncs[id] || !guardOK[id] {
				return false
			}
		}
		return true
	}
	if isHitCall(over) {
		return true
	}
	ov := core.ObjOf(info, over)
	if ov == nil || len(asg[ov]) == 0 {
		return false
	}
	for _, a := range asg[ov] {
		if a.RHS == nil || !isHitCall(a.RHS) {
			return false
		}
	}
	return true
}

package traps

import (
	"go/ast"
	"go/token"
	"go/types"

	"gtsverif/core"
)

// nnA is the interprocedural non-negativity analysis (DESIGN.md E4 step 3) on
// the syntax tree with resolved objects.
type nnA struct {
	p      *core.Prog
	par    map[ast.Node]ast.Node // parents over all files of gts and seqio
	infoOf map[*ast.File]*types.Info
	fileOf func(pos token.Pos) *ast.File
	memo   map[types.Object]int             // 1 yes, 2 no, 3 in progress (assumed yes: inductive)
	calls  map[types.Object][]*ast.CallExpr // static call sites per function object
	dyn    []*ast.CallExpr                  // calls through function values
	decls  map[types.Object]*ast.FuncDecl
	lits   []*ast.FuncLit
	assume map[types.Object]bool
	why    map[types.Object]string
}

func newNN(p *core.Prog) *nnA {
	a := &nnA{p: p, par: map[ast.Node]ast.Node{}, infoOf: map[*ast.File]*types.Info{}, memo: map[types.Object]int{},
		calls: map[types.Object][]*ast.CallExpr{}, decls: map[types.Object]*ast.FuncDecl{}, assume: map[types.Object]bool{}, why: map[types.Object]string{}}
	var files []*ast.File
	for _, pkg := range []string{core.PkgGts, core.PkgSeqio} {
		pk := p.Pkg(pkg)
		for _, f := range pk.Syntax {
			files = append(files, f)
			a.infoOf[f] = pk.TypesInfo
			for k, v := range core.Parents(f) {
				a.par[k] = v
			}
			info := pk.TypesInfo
			ast.Inspect(f, func(n ast.Node) bool {
				switch x := n.(type) {
				case *ast.FuncDecl:
					a.decls[info.Defs[x.Name]] = x
				case *ast.FuncLit:
					a.lits = append(a.lits, x)
				case *ast.CallExpr:
					if fn := core.Callee(info, x); fn != nil {
						a.calls[fn] = append(a.calls[fn], x)
					} else if !core.IsConversion(info, x) {
						if _, isB := ast.Unparen(x.Fun).(*ast.Ident); !isB || info.Uses[ast.Unparen(x.Fun).(*ast.Ident)] == nil || !isBuiltinObj(info.Uses[ast.Unparen(x.Fun).(*ast.Ident)]) {
							a.dyn = append(a.dyn, x)
						}
					}
				}
				return true
			})
		}
	}
	a.fileOf = func(pos token.Pos) *ast.File {
		for _, f := range files {
			if f.Pos() <= pos && pos < f.End() {
				return f
			}
		}
		return nil
	}
	return a
}

func isBuiltinObj(o types.Object) bool {
	_, ok := o.(*types.Builtin)
	return ok
}

func (a *nnA) info(n ast.Node) *types.Info {
	if f := a.fileOf(n.Pos()); f != nil {
		return a.infoOf[f]
	}
	return nil
}

// enclosingBody returns the innermost function body around n.
func (a *nnA) enclosingBody(n ast.Node) *ast.BlockStmt {
	for m := a.par[n]; m != nil; m = a.par[m] {
		switch x := m.(type) {
		case *ast.FuncLit:
			return x.Body
		case *ast.FuncDecl:
			return x.Body
		}
	}
	return nil
}

func (a *nnA) outerDecl(n ast.Node) *ast.FuncDecl {
	for m := a.par[n]; m != nil; m = a.par[m] {
		if d, ok := m.(*ast.FuncDecl); ok {
			return d
		}
	}
	return nil
}

// factsAt: facts holding at node `at`, with a liveness test.
func (a *nnA) factsAt(at ast.Node) ([]fact, func(f fact, vars map[types.Object]bool) bool) {
	info := a.info(at)
	body := a.enclosingBody(at)
	if body == nil || info == nil {
		return nil, func(fact, map[types.Object]bool) bool { return false }
	}
	fs := contextFacts(info, a.par, body, at)
	// a captured variable can also be assigned in the enclosing declaration: use it as the scope for kills
	var scope ast.Node = body
	if d := a.outerDecl(at); d != nil {
		scope = d.Body
	}
	alive := func(f fact, vars map[types.Object]bool) bool {
		return !assignedBetween(info, a.par, scope, vars, f.pos, at.Pos(), at)
	}
	return fs, alive
}

// NN: is expression e non-negative whenever control reaches node `at`?
func (a *nnA) NN(e ast.Expr, at ast.Node) bool {
	info := a.info(e)
	if info == nil {
		return false
	}
	e = ast.Unparen(e)
	if v, ok := core.ConstInt(info, e); ok {
		return v >= 0
	}
	// a fact about the whole expression
	if fs, alive := a.factsAt(at); len(fs) > 0 {
		l := linearize(info, e)
		if l.ok {
			neg := linForm{terms: map[string]int64{}, ok: true}.add(l, -1) // -e <= 0
			if implies(info, fs, alive, neg, false, varsOf(info, e)) {
				return true
			}
		}
	}
	switch x := e.(type) {
	case *ast.BinaryExpr:
		switch x.Op {
		case token.ADD, token.MUL:
			return a.NN(x.X, at) && a.NN(x.Y, at)
		case token.QUO, token.REM:
			if c, ok := core.ConstInt(info, x.Y); ok && c > 0 {
				return a.NN(x.X, at)
			}
		case token.SHR, token.AND:
			return a.NN(x.X, at)
		}
		return false
	case *ast.CallExpr:
		if core.IsConversion(info, x) && len(x.Args) == 1 {
			return a.NN(x.Args[0], at)
		}
		if core.IsBuiltin(info, x, "len") || core.IsBuiltin(info, x, "cap") || core.IsBuiltin(info, x, "copy") {
			return true
		}
		fn := core.Callee(info, x)
		if fn == nil {
			return false
		}
		switch core.FuncID(fn) {
		case core.PkgGts + ".Max":
			return a.NN(x.Args[0], at) || a.NN(x.Args[1], at)
		case core.PkgGts + ".Min":
			return a.NN(x.Args[0], at) && a.NN(x.Args[1], at)
		case core.PkgGts + ".Abs", core.PkgGts + ".Len":
			return true
		}
		// repo function: non-negative whenever its arguments are
		if fd := a.decls[fn]; fd != nil && fd.Body != nil {
			for _, arg := range x.Args {
				if tv, ok := info.Types[arg]; ok {
					if b, isB := tv.Type.Underlying().(*types.Basic); isB && b.Info()&types.IsInteger != 0 && !a.NN(arg, at) {
						return false
					}
				}
			}
			return a.resultNN(fd)
		}
		return false
	case *ast.Ident:
		return a.objNN(core.ObjOf(info, x), x, at)
	case *ast.SelectorExpr:
		if sel := info.Selections[x]; sel != nil && sel.Kind() == types.FieldVal {
			return a.fieldNN(sel.Obj().(*types.Var))
		}
	}
	return false
}

// resultNN: every return of fd is non-negative when its integer parameters are.
func (a *nnA) resultNN(fd *ast.FuncDecl) bool {
	info := a.info(fd)
	var ps []types.Object
	for _, f := range fd.Type.Params.List {
		for _, n := range f.Names {
			ps = append(ps, info.Defs[n])
		}
	}
	saved := map[types.Object]int{}
	for _, o := range ps {
		saved[o] = a.memo[o]
		a.memo[o] = 1
	}
	defer func() {
		for _, o := range ps {
			a.memo[o] = saved[o]
		}
		// results computed under the assumption must not be cached as unconditional facts
		for o, v := range a.memo {
			if v == 1 && o.Pos() >= fd.Pos() && o.Pos() < fd.End() {
				isParam := false
				for _, q := range ps {
					if q == o {
						isParam = true
					}
				}
				if !isParam {
					delete(a.memo, o)
				}
			}
		}
	}()
	ok := true
	for _, rs := range core.Returns(fd.Body) {
		for _, r := range rs.Results {
			if tv, has := info.Types[r]; has {
				if b, isB := tv.Type.Underlying().(*types.Basic); isB && b.Info()&types.IsInteger != 0 && !a.NN(r, rs) {
					ok = false
				}
			}
		}
	}
	return ok
}

func (a *nnA) fieldNN(f *types.Var) bool {
	switch a.memo[f] {
	case 1, 3:
		return true
	case 2:
		return false
	}
	a.memo[f] = 3
	ok := true
	seen := false
	for _, pkg := range []string{core.PkgGts, core.PkgSeqio} {
		pk := a.p.Pkg(pkg)
		info := pk.TypesInfo
		for _, file := range pk.Syntax {
			ast.Inspect(file, func(n ast.Node) bool {
				switch x := n.(type) {
				case *ast.CompositeLit:
					st, isSt := info.Types[x].Type.Underlying().(*types.Struct)
					if !isSt {
						return true
					}
					for i, el := range x.Elts {
						var fld *types.Var
						val := el
						if kv, isKV := el.(*ast.KeyValueExpr); isKV {
							if id, isID := kv.Key.(*ast.Ident); isID {
								fld, _ = info.Uses[id].(*types.Var)
							}
							val = kv.Value
						} else if i < st.NumFields() {
							fld = st.Field(i)
						}
						if fld == f {
							seen = true
							if !a.NN(val, x) {
								ok = false
							}
						}
					}
				case *ast.AssignStmt:
					for i, l := range x.Lhs {
						if sel, isSel := ast.Unparen(l).(*ast.SelectorExpr); isSel && info.Uses[sel.Sel] == f {
							seen = true
							if len(x.Lhs) != len(x.Rhs) || x.Tok != token.ASSIGN || !a.NN(x.Rhs[i], x) {
								ok = false
							}
						}
					}
				case *ast.UnaryExpr:
					if x.Op == token.AND {
						if sel, isSel := ast.Unparen(x.X).(*ast.SelectorExpr); isSel && info.Uses[sel.Sel] == f {
							ok = false // address taken
						}
					}
				}
				return true
			})
		}
	}
	_ = seen
	if ok {
		a.memo[f] = 1
	} else {
		a.memo[f] = 2
	}
	return ok
}

// objNN: a variable or parameter.
func (a *nnA) objNN(o types.Object, use *ast.Ident, at ast.Node) bool {
	v, isVar := o.(*types.Var)
	if !isVar {
		return false
	}
	switch a.memo[o] {
	case 1, 3:
		return true
	}
	info := a.info(use)
	// clamp idiom before the site: `if v < 0 { v = <non-negative> }`
	if a.clamped(info, v, at) {
		return true
	}
	// index-search results: i := IndexByte/Index(...) is >= -1; non-negative under a "found" fact
	if a.memo[o] == 2 {
		return false
	}
	a.memo[o] = 3
	res := a.allAssignsNN(info, v)
	if res {
		a.memo[o] = 1
	} else {
		a.memo[o] = 2
	}
	return res
}

func (a *nnA) clamped(info *types.Info, v *types.Var, at ast.Node) bool {
	body := a.enclosingBody(at)
	if body == nil {
		return false
	}
	child := at
	for m := a.par[at]; m != nil; child, m = m, a.par[m] {
		if blk, ok := m.(*ast.BlockStmt); ok {
			var clampEnd token.Pos
			for _, s := range blk.List {
				if s.End() > child.Pos() {
					break
				}
				is, ok := s.(*ast.IfStmt)
				if !ok || is.Else != nil || len(is.Body.List) != 1 {
					continue
				}
				be, ok := ast.Unparen(is.Cond).(*ast.BinaryExpr)
				if !ok || be.Op != token.LSS || core.ObjOf(info, be.X) != v {
					continue
				}
				if z, ok := core.ConstInt(info, be.Y); !ok || z > 1 || z < 0 {
					continue
				}
				as, ok := is.Body.List[0].(*ast.AssignStmt)
				if !ok || as.Tok != token.ASSIGN || len(as.Lhs) != 1 || core.ObjOf(info, as.Lhs[0]) != v || !a.NN(as.Rhs[0], as) {
					continue
				}
				clampEnd = is.End()
			}
			if clampEnd.IsValid() {
				var scope ast.Node = body
				if d := a.outerDecl(at); d != nil {
					scope = d.Body
				}
				if !assignedBetween(info, a.par, scope, map[types.Object]bool{v: true}, clampEnd, at.Pos(), at) {
					return true
				}
			}
		}
		if m == ast.Node(body) {
			break
		}
	}
	return false
}

// allAssignsNN: every definition of v is non-negative (inductively).
func (a *nnA) allAssignsNN(info *types.Info, v *types.Var) bool {
	// parameter?
	if fd, idx, lit := a.paramOf(v); idx >= 0 {
		return a.paramNN(fd, lit, idx)
	}
	// local: find the enclosing declaration and look at all assignments
	var scope ast.Node
	for obj, d := range a.decls {
		_ = obj
		if d.Pos() <= v.Pos() && v.Pos() < d.End() {
			scope = d
		}
	}
	if scope == nil {
		return false // package-level variable
	}
	asg := core.Assigns(info, scope)
	defs := asg[v]
	if len(defs) == 0 {
		return false
	}
	for _, d := range defs {
		switch n := d.Node.(type) {
		case *ast.RangeStmt:
			if d.Idx == 0 {
				continue // range key
			}
			return false
		case *ast.IncDecStmt:
			if n.Tok == token.INC {
				continue
			}
			return false
		case *ast.AssignStmt:
			if d.RHS == nil {
				// tuple from a call: only copy's and known counts are handled above
				return false
			}
			switch n.Tok {
			case token.ADD_ASSIGN, token.MUL_ASSIGN, token.ASSIGN, token.DEFINE:
				if !a.NN(d.RHS, n) {
					return false
				}
			case token.QUO_ASSIGN, token.REM_ASSIGN:
				if c, ok := core.ConstInt(info, d.RHS); !ok || c <= 0 {
					return false
				}
			default:
				return false
			}
		case *ast.ValueSpec:
			if d.RHS == nil {
				continue // zero value
			}
			if !a.NN(d.RHS, n) {
				return false
			}
		default:
			return false
		}
	}
	return true
}

// paramOf: is v a parameter of a declaration or literal? returns its index.
func (a *nnA) paramOf(v *types.Var) (*ast.FuncDecl, int, *ast.FuncLit) {
	find := func(ft *ast.FuncType, info *types.Info) int {
		i := 0
		for _, f := range ft.Params.List {
			for _, n := range f.Names {
				if info.Defs[n] == v {
					return i
				}
				i++
			}
		}
		return -1
	}
	for _, d := range a.decls {
		if d.Pos() <= v.Pos() && v.Pos() < d.End() {
			info := a.info(d)
			if i := find(d.Type, info); i >= 0 {
				return d, i, nil
			}
		}
	}
	for _, l := range a.lits {
		if l.Pos() <= v.Pos() && v.Pos() < l.End() {
			if i := find(l.Type, a.info(l)); i >= 0 {
				return nil, i, l
			}
		}
	}
	return nil, -1, nil
}

// paramNN: every binding of the parameter is non-negative: static call sites of
// the declaration, and calls through function values of identical signature.
func (a *nnA) paramNN(fd *ast.FuncDecl, lit *ast.FuncLit, idx int) bool {
	var sig *types.Signature
	n := 0
	if fd != nil {
		info := a.info(fd)
		fobj := info.Defs[fd.Name]
		sig, _ = fobj.Type().(*types.Signature)
		if fd.Recv != nil {
			// methods: static call sites only
		}
		for _, c := range a.calls[fobj] {
			n++
			if idx >= len(c.Args) || !a.NN(c.Args[idx], c) {
				return false
			}
		}
		if ast.IsExported(fd.Name.Name) && fd.Recv == nil {
			// callable from outside the repository with any argument
			return false
		}
	} else {
		sig, _ = a.info(lit).Types[lit].Type.(*types.Signature)
	}
	if sig == nil {
		return false
	}
	plain := types.NewSignatureType(nil, nil, nil, sig.Params(), sig.Results(), sig.Variadic())
	for _, c := range a.dyn {
		info := a.info(c)
		tv, ok := info.Types[c.Fun]
		if !ok {
			continue
		}
		cs, ok := tv.Type.Underlying().(*types.Signature)
		if !ok || !types.Identical(cs, plain) {
			continue
		}
		n++
		if idx >= len(c.Args) || !a.NN(c.Args[idx], c) {
			return false
		}
	}
	return n > 0
}

package traps

import (
	"go/ast"

	"gtsverif/core"
)

// CommitHonour decides COMMIT-HONOUR on seqio.tryAllParsers, the dispatcher
// that tries the GenBank sub-parsers one after the other. A sub-parser commits
// by closing every frame (state.Clear()); the dispatcher learns of it from
// state.Pushed(). After a failed alternative the dispatcher may pop its frame
// and go on to the next alternative only on a path where Pushed() was found
// true; where it is false the error must be returned. Without the test every
// commit point is void: the error of a malformed DBLINK/FEATURES/ORIGIN block
// is backtracked, the record loop skips the block line by line, and a record
// whose ORIGIN disagrees with its LOCUS line is read as an empty sequence.
func CommitHonour(p *core.Prog, r *core.Report) {
	r.Rule("COMMIT-HONOUR", "in seqio.tryAllParsers every path from a failed alternative to state.Pop() (and so to the next alternative) passes the true edge of state.Pushed(); on the false edge - the sub-parser committed with state.Clear() - the error is returned", 1)
	info := p.Info(core.PkgSeqio)
	fn := "seqio.tryAllParsers"
	fd := p.FuncDecl(core.PkgSeqio, "tryAllParsers")
	if fd == nil || fd.Body == nil {
		r.Und("COMMIT-HONOUR", fn+"|anchor", "-", "anchor-unresolved")
		return
	}
	r.Fn(fn)
	// the parser closure
	var lit *ast.FuncLit
	ast.Inspect(fd.Body, func(n ast.Node) bool {
		if fl, ok := n.(*ast.FuncLit); ok && lit == nil {
			lit = fl
		}
		return lit == nil
	})
	if lit == nil {
		r.Und("COMMIT-HONOUR", fn+"|shape", p.Pos(fd.Pos()), "no parser closure found")
		return
	}
	var pops []*ast.CallExpr
	var push *ast.CallExpr
	for _, c := range core.Calls(lit.Body) {
		if core.IsCallTo(info, c, parsPkg+".State.Pop") {
			pops = append(pops, c)
		}
		if core.IsCallTo(info, c, parsPkg+".State.Push") && push == nil {
			push = c
		}
	}
	if push == nil || len(pops) == 0 {
		r.Und("COMMIT-HONOUR", fn+"|shape", p.Pos(lit.Pos()), "no Push/Pop pair found in the dispatcher")
		return
	}
	fl := core.NewFlow(info, lit.Body)
	start := fl.Find(push)
	if !start.Valid() {
		r.Und("COMMIT-HONOUR", fn+"|shape", p.Pos(push.Pos()), "Push not found in the control-flow graph")
		return
	}
	isPushed := func(e ast.Expr) bool {
		c, ok := ast.Unparen(e).(*ast.CallExpr)
		return ok && core.IsCallTo(info, c, parsPkg+".State.Pushed")
	}
	var badPop *ast.CallExpr
	// state: 0 = nothing known about the frame since the Push, 1 = Pushed() seen true
	core.Scan(fl, start, 0, core.Stepper[int]{
		Node: func(s int, n ast.Node) (int, bool) {
			for _, c := range core.NodeCalls(n) {
				if c == push && n != ast.Node(push) {
					return 0, false
				}
				for _, pc := range pops {
					if c == pc {
						if s == 0 && badPop == nil {
							badPop = pc
						}
						return s, true
					}
				}
				if core.IsCallTo(info, c, parsPkg+".State.Push") {
					return 0, false // the next alternative: knowledge starts afresh
				}
			}
			return s, false
		},
		Edge: func(s int, cond ast.Expr, taken bool) int {
			core.Facts(cond, taken, func(atom ast.Expr, val bool) {
				if isPushed(atom) && val {
					s = 1
				}
			})
			return s
		},
	})
	if badPop != nil {
		r.Bad("COMMIT-HONOUR", fn, p.Pos(badPop.Pos()), "state.Pop() is reached after a failed alternative without state.Pushed() having been found true: a sub-parser that committed with state.Clear() is backtracked all the same, its error is replaced by the 'unknown line' fallback, and the record loop skips the malformed block (a record whose ORIGIN disagrees with its LOCUS length is read as an empty sequence, two records merge into one)")
	} else {
		r.Ok("COMMIT-HONOUR", fn, p.Pos(lit.Pos()), "the frame is popped only where Pushed() is true; a committed failure is returned")
	}
}

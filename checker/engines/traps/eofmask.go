package traps

import (
	"go/ast"
	"go/types"

	"gtsverif/core"
)

// EOFMask decides EOF-MASK on the sequence scanner. Every parser that runs
// out of input in the middle of a record fails with an error whose chain ends
// in io.EOF - exactly like a parser started at the clean end of the input. A
// scanner that tells the two apart by the innermost cause of the error
// (`dig(err) == io.EOF`, errors.Is(err, io.EOF)) reports a record cut off inside
// its LOCUS line, or inside any construct that reads to the end of the line,
// as a clean end of input: Scan() == false and Err() == nil. The end of the
// input must be established before a parser runs (nothing but white space is
// left), never from the way a parser failed.
func EOFMask(p *core.Prog, r *core.Report) {
	r.Rule("EOF-MASK", "(*seqio.Scanner).Scan and (Scanner).Err do not classify an error by its innermost cause (no dig / errors.Is / errors.As / Unwrap, no comparison with io.EOF or io.ErrUnexpectedEOF): an error rooted in io.EOF is what every parser returns for a record that stops in the middle, so masking it turns truncation into a clean end of input", 2)
	info := p.Info(core.PkgSeqio)
	for _, name := range []string{"Scanner.Scan", "Scanner.Err"} {
		fd := p.FuncDecl(core.PkgSeqio, name)
		key := "seqio." + name
		if fd == nil || fd.Body == nil {
			r.Und("EOF-MASK", key+"|anchor", "-", "anchor-unresolved")
			continue
		}
		r.Fn(key)
		var bad ast.Node
		what := ""
		ast.Inspect(fd.Body, func(n ast.Node) bool {
			if bad != nil {
				return false
			}
			switch x := n.(type) {
			case *ast.CallExpr:
				fn := core.Callee(info, x)
				if fn == nil {
					return true
				}
				id := core.FuncID(fn)
				switch id {
				case "errors.Is", "errors.As", "errors.Unwrap", core.PkgSeqio + ".dig":
					bad, what = x, "calls "+id
				}
				if fn.Name() == "Unwrap" || fn.Name() == "Cause" {
					bad, what = x, "calls "+fn.Name()
				}
			case *ast.SelectorExpr:
				if v, ok := info.Uses[x.Sel].(*types.Var); ok && v.Pkg() != nil && v.Pkg().Path() == "io" && (v.Name() == "EOF" || v.Name() == "ErrUnexpectedEOF") {
					bad, what = x, "mentions io."+v.Name()
				}
			}
			return true
		})
		if bad != nil {
			r.Bad("EOF-MASK", key, p.Pos(bad.Pos()), core.DeclName(fd)+" "+what+": errors are classified by their innermost cause, and an error rooted in io.EOF is also what a parser returns when a record stops in the middle (NC_001422.gb cut anywhere inside its LOCUS line gives Scan() == false and Err() == nil: a truncated record is reported as a clean end of input)")
		} else {
			r.Ok("EOF-MASK", key, p.Pos(fd.Pos()), "no classification of errors by their cause")
		}
	}
}

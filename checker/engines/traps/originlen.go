package traps

import (
	"go/ast"
	"go/types"

	"gtsverif/core"
)

// OriginLength decides the two rules behind "a declared length that differs
// from the number of residues in the ORIGIN block is reported as an error":
// the readers consume exactly the layout of the declared length, so residues
// beyond it show up either as the rest of the last line (ORIGIN-LINE-END) or as
// further sequence lines (ORIGIN-END); both must be looked at and rejected.
func OriginLength(p *core.Prog, r *core.Report, endToo bool) {
	r.Rule("ORIGIN-LINE-END", "in seqio.slowGenBankOriginParser, after the loops that walk the groups of one line and before the line is copied into the block, the rest of the line (the line token from the walked extent on) is tested and a non-nil error is returned when residues remain: the fast path rejects such a line (it expects the newline right after the declared residues), the slow path must agree", 1)
	r.Rule("ORIGIN-END", "in seqio.makeGenbankOriginParser every path from storing the block in the record to a return consults the parser state once more (a method of the state or a function that is handed the state): what follows the block must be looked at, because the record loop skips lines it does not recognise, so further sequence lines would be dropped silently", 1)
	info := p.Info(core.PkgSeqio)

	// ---- ORIGIN-LINE-END
	if fd := p.FuncDecl(core.PkgSeqio, "slowGenBankOriginParser"); fd == nil || fd.Body == nil {
		r.Und("ORIGIN-LINE-END", "seqio.slowGenBankOriginParser|anchor", "-", "anchor-unresolved")
	} else {
		r.Fn("seqio.slowGenBankOriginParser")
		key := "seqio.slowGenBankOriginParser|rest-of-line"
		// the line token: a local assigned from result.Token; the extent: the int local used to slice it in copy(...)
		var cp *ast.CallExpr
		for _, c := range core.Calls(fd.Body) {
			if core.IsBuiltin(info, c, "copy") && len(c.Args) == 2 {
				if _, ok := ast.Unparen(c.Args[1]).(*ast.SliceExpr); ok {
					cp = c
				}
			}
		}
		if cp == nil {
			r.Und("ORIGIN-LINE-END", key, p.Pos(fd.Pos()), "no copy(block[offset:], line[:extent]) found")
		} else {
			se := ast.Unparen(cp.Args[1]).(*ast.SliceExpr)
			line, extent := core.ObjOf(info, se.X), core.ObjOf(info, se.High)
			found := false
			if line != nil && extent != nil {
				ast.Inspect(fd.Body, func(n ast.Node) bool {
					is, ok := n.(*ast.IfStmt)
					if !ok || is.Pos() > cp.Pos() {
						return true
					}
					// the condition reads the line from the extent on: line[extent:] or len(line) against extent
					reads := false
					var scan ast.Node = is.Cond
					if is.Init != nil {
						scan = is
					}
					ast.Inspect(scan, func(m ast.Node) bool {
						if m == ast.Node(is.Body) || (is.Else != nil && m == is.Else) {
							return false
						}
						switch x := m.(type) {
						case *ast.SliceExpr:
							if core.ObjOf(info, x.X) == line && x.Low != nil && core.ObjOf(info, x.Low) == extent && x.High == nil {
								reads = true
							}
						case *ast.BinaryExpr:
							lenOfLine := func(e ast.Expr) bool {
								c, ok := ast.Unparen(e).(*ast.CallExpr)
								return ok && core.IsBuiltin(info, c, "len") && len(c.Args) == 1 && core.ObjOf(info, c.Args[0]) == line
							}
							if (lenOfLine(x.X) && core.ObjOf(info, x.Y) == extent) || (lenOfLine(x.Y) && core.ObjOf(info, x.X) == extent) {
								// `len(q) <= extent` inside the loops is the "line too short" test; only `!=` / `>` sees a longer line
								switch x.Op.String() {
								case "!=", ">", "<":
									if x.Op.String() == "<" && !lenOfLine(x.Y) {
										break
									}
									if x.Op.String() == ">" && !lenOfLine(x.X) {
										break
									}
									reads = true
								}
							}
						}
						return true
					})
					if !reads {
						return true
					}
					// the test of the rest of the line decides on its own: on the false edge of the condition the
					// reading comparison is known false (it is the condition, or a disjunct of it); conjoined with
					// another test ("only on the last line") it is skipped for the lines where that test is false
					alone := false
					// variables the if statement's init defines from the rest of the line
					readVars := map[types.Object]bool{}
					if as, ok := is.Init.(*ast.AssignStmt); ok && len(as.Lhs) == len(as.Rhs) {
						for i, rhs := range as.Rhs {
							ast.Inspect(rhs, func(m ast.Node) bool {
								if x, ok := m.(*ast.SliceExpr); ok && core.ObjOf(info, x.X) == line && x.Low != nil && core.ObjOf(info, x.Low) == extent {
									if o := core.ObjOf(info, as.Lhs[i]); o != nil {
										readVars[o] = true
									}
								}
								return true
							})
						}
					}
					core.Facts(is.Cond, false, func(atom ast.Expr, val bool) {
						if val {
							return
						}
						ast.Inspect(atom, func(m ast.Node) bool {
							if id, ok := m.(*ast.Ident); ok && readVars[core.ObjOf(info, id)] {
								alone = true
							}
							if x, ok := m.(*ast.SliceExpr); ok && core.ObjOf(info, x.X) == line && x.Low != nil && core.ObjOf(info, x.Low) == extent {
								alone = true
							}
							if c, ok := m.(*ast.CallExpr); ok && core.IsBuiltin(info, c, "len") && len(c.Args) == 1 && core.ObjOf(info, c.Args[0]) == line {
								alone = true
							}
							return true
						})
					})
					if !alone {
						return true
					}
					// the test sits after the group loops of the line (not inside them) and returns an error
					inLoop := 0
					for _, st := range enclosingLoops(fd.Body, is) {
						_ = st
						inLoop++
					}
					retErr := false
					for _, rs := range core.Returns(is.Body) {
						if len(rs.Results) == 1 && !core.IsNil(info, rs.Results[0]) {
							retErr = true
						}
					}
					if inLoop == 1 && retErr {
						found = true
					}
					return true
				})
			}
			if found {
				r.Ok("ORIGIN-LINE-END", key, p.Pos(cp.Pos()), "the rest of each line is tested before the line is accepted")
			} else {
				r.Bad("ORIGIN-LINE-END", key, p.Pos(cp.Pos()), "the slow ORIGIN reader copies the walked part of the line and never looks at the rest: a record whose LOCUS line declares fewer residues than the line holds is read as a shortened sequence, without an error (the fast path rejects the same block)")
			}
		}
	}

	// ---- ORIGIN-END
	if !endToo {
		delete(r.Rules, "ORIGIN-END")
		delete(r.Floors, "ORIGIN-END")
		return
	}
	fd := p.FuncDecl(core.PkgSeqio, "makeGenbankOriginParser")
	if fd == nil || fd.Body == nil {
		r.Und("ORIGIN-END", "seqio.makeGenbankOriginParser|anchor", "-", "anchor-unresolved")
		return
	}
	r.Fn("seqio.makeGenbankOriginParser")
	// the innermost literal with a *pars.State parameter
	var lit *ast.FuncLit
	ast.Inspect(fd.Body, func(n ast.Node) bool {
		if fl, ok := n.(*ast.FuncLit); ok && len(fl.Type.Params.List) == 2 {
			lit = fl
		}
		return true
	})
	if lit == nil {
		r.Und("ORIGIN-END", "seqio.makeGenbankOriginParser|closure", p.Pos(fd.Pos()), "no parser closure found")
		return
	}
	var state types.Object
	if names := lit.Type.Params.List[0].Names; len(names) == 1 {
		state = info.Defs[names[0]]
	}
	fl := core.NewFlow(info, lit.Body)
	k := 0
	ast.Inspect(lit.Body, func(n ast.Node) bool {
		as, ok := n.(*ast.AssignStmt)
		if !ok || len(as.Lhs) != 1 {
			return true
		}
		se, ok := ast.Unparen(as.Lhs[0]).(*ast.SelectorExpr)
		if !ok || se.Sel.Name != "Origin" {
			return true
		}
		k++
		key := "seqio.makeGenbankOriginParser|store#" + string(rune('0'+k))
		consults := func(m ast.Node) bool {
			if m == ast.Node(as) {
				return false
			}
			for _, c := range core.NodeCalls(m) {
				if recv := recvOf(c); recv != nil && core.ObjOf(info, recv) == state {
					return true
				}
				for _, a := range c.Args {
					if core.ObjOf(info, a) == state && state != nil {
						return true
					}
				}
			}
			return false
		}
		bad := fl.MustPass(fl.Find(as), consults)
		if len(bad) == 0 {
			r.Ok("ORIGIN-END", key, p.Pos(as.Pos()), "what follows the block is looked at before the sub-parser returns")
		} else {
			r.Bad("ORIGIN-END", key, p.Pos(bad[0].Pos()), "the ORIGIN sub-parser returns right after storing the block of the declared length: further sequence lines are then skipped by the record loop as unknown lines, so a record with more residues than its LOCUS line declares is read as a shortened sequence without an error")
		}
		return true
	})
	if k == 0 {
		r.Und("ORIGIN-END", "seqio.makeGenbankOriginParser|store", p.Pos(lit.Pos()), "the block is never stored in the record")
	}
}

func recvOf(c *ast.CallExpr) ast.Expr {
	if se, ok := ast.Unparen(c.Fun).(*ast.SelectorExpr); ok {
		return se.X
	}
	return nil
}

// enclosingLoops lists the for/range statements of body that contain n.
func enclosingLoops(body ast.Node, n ast.Node) []ast.Stmt {
	var out []ast.Stmt
	ast.Inspect(body, func(m ast.Node) bool {
		if m == nil {
			return true
		}
		switch x := m.(type) {
		case *ast.ForStmt:
			if x.Body.Pos() <= n.Pos() && n.End() <= x.Body.End() {
				out = append(out, x)
			}
		case *ast.RangeStmt:
			if x.Body.Pos() <= n.Pos() && n.End() <= x.Body.End() {
				out = append(out, x)
			}
		}
		return true
	})
	return out
}

package traps

import (
	"go/ast"
	"go/token"
	"go/types"

	"gtsverif/core"
)

// argmaxOver discharges `base[a]` where a is a "best index so far" variable:
// every definition of a is the constant 0 or the key of a range loop over base,
// and base is known not to be empty at the site. Then 0 <= a < len(base).
//
// base is not empty when it is a local slice that
//   - is made once with the length of a non-empty table, make(T, len(G)); or
//   - starts empty and is appended to, at the top level of the body of one
//     `for ... range G` loop whose body contains no break/continue/goto (every
//     iteration that comes back to the loop head has appended once; the others
//     leave the function), with the site after that loop in the loop's block;
//
// where G is a package-level variable initialised by a composite literal with
// at least one element that no statement of its package assigns or takes the
// address of.
func (t *trapCtx) argmaxOver(info *types.Info, asg map[types.Object][]core.Assign, e, base ast.Expr, site ast.Node, pkg string) bool {
	id, ok := ast.Unparen(e).(*ast.Ident)
	if !ok {
		return false
	}
	a := core.ObjOf(info, id)
	bo := core.ObjOf(info, base)
	if a == nil || bo == nil || len(asg[a]) == 0 {
		return false
	}
	if v, isVar := bo.(*types.Var); !isVar || v.IsField() || (v.Pkg() != nil && v.Parent() == v.Pkg().Scope()) {
		return false
	}
	for _, d := range asg[a] {
		if d.RHS == nil {
			return false
		}
		if _, isRange := d.Node.(*ast.RangeStmt); isRange {
			return false
		}
		if k, isConst := core.ConstInt(info, d.RHS); isConst && k == 0 {
			continue
		}
		// a = k, k the key of a range over base
		ko := core.ObjOf(info, d.RHS)
		if ko == nil || len(asg[ko]) != 1 {
			return false
		}
		rs, ok := asg[ko][0].Node.(*ast.RangeStmt)
		if !ok || asg[ko][0].Idx != 0 {
			return false
		}
		if core.ObjOf(info, rs.X) != bo {
			// or the key of a range over the table base was made as long as: base := make(T, len(G)); for k := range G
			sameLen := false
			if len(asg[bo]) == 1 && asg[bo][0].RHS != nil {
				if mk, ok := ast.Unparen(asg[bo][0].RHS).(*ast.CallExpr); ok && core.IsBuiltin(info, mk, "make") && len(mk.Args) >= 2 {
					if lc, ok := ast.Unparen(mk.Args[1]).(*ast.CallExpr); ok && core.IsBuiltin(info, lc, "len") && len(lc.Args) == 1 &&
						core.ObjOf(info, lc.Args[0]) != nil && core.ObjOf(info, lc.Args[0]) == core.ObjOf(info, rs.X) && t.nonEmptyTable(info, rs.X, pkg) {
						sameLen = true
					}
				}
			}
			if !sameLen {
				return false
			}
		}
		if !(rs.Body.Pos() <= d.Pos && d.Pos <= rs.Body.End()) {
			return false
		}
		// base is not assigned inside that loop
		for _, bd := range asg[bo] {
			if rs.Pos() <= bd.Pos && bd.Pos <= rs.End() {
				return false
			}
		}
	}
	return t.nonEmptyAt(info, asg, bo, site, pkg)
}

func (t *trapCtx) nonEmptyAt(info *types.Info, asg map[types.Object][]core.Assign, bo types.Object, site ast.Node, pkg string) bool {
	defs := asg[bo]
	if len(defs) == 0 {
		return false
	}
	lenOfTable := func(e ast.Expr) bool {
		lc, ok := ast.Unparen(e).(*ast.CallExpr)
		return ok && core.IsBuiltin(info, lc, "len") && len(lc.Args) == 1 && t.nonEmptyTable(info, lc.Args[0], pkg)
	}
	if len(defs) == 1 && defs[0].RHS != nil {
		mk, ok := ast.Unparen(defs[0].RHS).(*ast.CallExpr)
		return ok && core.IsBuiltin(info, mk, "make") && len(mk.Args) >= 2 && lenOfTable(mk.Args[1])
	}
	// one initial definition, every other one `bo = append(bo, ...)` inside a single range loop over a table
	var loop *ast.RangeStmt
	par := t.nn.par
	for i, d := range defs {
		if i == 0 {
			continue // how it starts does not matter: appending only makes it longer
		}
		as, ok := d.Node.(*ast.AssignStmt)
		if !ok || d.RHS == nil || len(as.Lhs) != 1 {
			return false
		}
		ap, ok := ast.Unparen(d.RHS).(*ast.CallExpr)
		if !ok || !core.IsBuiltin(info, ap, "append") || len(ap.Args) < 2 || ap.Ellipsis != token.NoPos || core.ObjOf(info, ap.Args[0]) != bo {
			return false
		}
		// the statement sits directly in the body of a range loop
		blk, ok := par[as].(*ast.BlockStmt)
		if !ok {
			return false
		}
		rs, ok := par[blk].(*ast.RangeStmt)
		if !ok || rs.Body != blk {
			return false
		}
		if loop != nil && loop != rs {
			return false
		}
		loop = rs
	}
	if loop == nil || !t.nonEmptyTable(info, loop.X, pkg) {
		return false
	}
	if defs[0].Pos >= loop.Pos() {
		return false
	}
	clean := true
	ast.Inspect(loop.Body, func(n ast.Node) bool {
		switch n.(type) {
		case *ast.BranchStmt, *ast.FuncLit, *ast.LabeledStmt, *ast.DeferStmt, *ast.GoStmt:
			clean = false
		}
		return clean
	})
	if !clean {
		return false
	}
	// the site comes after the loop, inside the block the loop belongs to
	outer, ok := par[loop].(*ast.BlockStmt)
	if !ok || site.Pos() <= loop.End() || !(outer.Pos() <= site.Pos() && site.End() <= outer.End()) {
		return false
	}
	return true
}

// nonEmptyTable: e is a package-level variable of the analysed package that is
// initialised with a non-empty composite literal and never assigned or
// address-taken.
func (t *trapCtx) nonEmptyTable(info *types.Info, e ast.Expr, pkg string) bool {
	g, ok := core.ObjOf(info, e).(*types.Var)
	if !ok || g.Pkg() == nil || g.Parent() != g.Pkg().Scope() || g.Pkg().Path() != pkg {
		return false
	}
	pk := t.p.Pkgs[pkg]
	if pk == nil {
		return false
	}
	nonEmpty, touched := false, false
	for _, f := range pk.Syntax {
		ast.Inspect(f, func(n ast.Node) bool {
			is := func(x ast.Expr) bool {
				id, ok := ast.Unparen(x).(*ast.Ident)
				return ok && (info.Uses[id] == types.Object(g) || info.Defs[id] == types.Object(g))
			}
			switch x := n.(type) {
			case *ast.ValueSpec:
				for i, nm := range x.Names {
					if info.Defs[nm] == types.Object(g) && len(x.Values) == len(x.Names) {
						if cl, ok := ast.Unparen(x.Values[i]).(*ast.CompositeLit); ok && len(cl.Elts) >= 1 {
							nonEmpty = true
						}
					}
				}
			case *ast.AssignStmt:
				for _, l := range x.Lhs {
					if is(l) {
						touched = true
					}
				}
			case *ast.IncDecStmt:
				if is(x.X) {
					touched = true
				}
			case *ast.UnaryExpr:
				if x.Op == token.AND && is(x.X) {
					touched = true
				}
			case *ast.RangeStmt:
				if x.Tok == token.ASSIGN && ((x.Key != nil && is(x.Key)) || (x.Value != nil && is(x.Value))) {
					touched = true
				}
			}
			return true
		})
	}
	return nonEmpty && !touched
}

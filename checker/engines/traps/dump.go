package traps

import (
	"go/ast"

	"gtsverif/core"
)

// NoDump decides REQ-BUF: the parsers never look at the input through
// (*pars.State).Dump. Dump returns whatever happens to be buffered and does not
// read from the underlying io.Reader (Request does); a look-ahead through Dump
// gives a different answer when a 4096-byte read boundary falls inside the
// bytes it compares, so a record read from a file or pipe is parsed differently
// from the same record read from memory. The unchanged tree has no such call;
// the self-test keeps a positive example.
func NoDump(p *core.Prog, r *core.Report) {
	r.Rule("REQ-BUF", "no function of gts or gts/seqio inspects parser input through (*pars.State).Dump: look-ahead is Request(n) (which reads from the underlying reader) followed by Buffer(); Dump only shows what is already buffered, so its answer depends on where the reader's 4096-byte reads happen to end", 0)
	n := 0
	for _, pkg := range []string{core.PkgGts, core.PkgSeqio} {
		info := p.Info(pkg)
		for _, fd := range p.FuncDecls(pkg) {
			if fd.Body == nil {
				continue
			}
			n++
			k := 0
			ast.Inspect(fd.Body, func(nd ast.Node) bool {
				c, ok := nd.(*ast.CallExpr)
				if !ok || !core.IsCallTo(info, c, parsPkg+".State.Dump") {
					return true
				}
				k++
				name := core.Short(pkg) + "." + core.DeclName(fd)
				r.Bad("REQ-BUF", name+"|dump", p.Pos(c.Pos()), name+" looks at the input through State.Dump, which does not fetch more bytes from the reader: when a read boundary falls inside the bytes compared the look-ahead fails although the input matches (a qualifier line is then taken for the end of the table and the rest of the table is dropped)")
				return true
			})
		}
	}
	for _, pkg := range []string{core.PkgGts, core.PkgSeqio} {
		// package-level parsers built from literals
		info := p.Info(pkg)
		for _, f := range p.Pkgs[pkg].Syntax {
			for _, d := range f.Decls {
				gd, ok := d.(*ast.GenDecl)
				if !ok {
					continue
				}
				ast.Inspect(gd, func(nd ast.Node) bool {
					c, ok := nd.(*ast.CallExpr)
					if ok && core.IsCallTo(info, c, parsPkg+".State.Dump") {
						r.Bad("REQ-BUF", core.Short(pkg)+".var|dump", p.Pos(c.Pos()), "a package-level parser looks at the input through State.Dump")
					}
					return true
				})
			}
		}
	}
	r.Extra["reqbuf_functions"] = n
	r.Ok("REQ-BUF", "gts+seqio|no-dump", "-", "no look-ahead through State.Dump")
}

package traps

import (
	"go/ast"
	"go/token"
	"go/types"

	"gtsverif/core"
)

// boundLimit: an integer counts as bounded when a dominating guard puts it at
// or below this constant. 2^40 residues are far beyond any flat file, and
// 2^40 times the layout constants (at most 76) stays below 2^47.
const boundLimit = int64(1) << 40

// Bounded: can the magnitude of e be trusted not to overflow the size
// arithmetic it takes part in? Lengths and capacities are bounded by memory;
// sums, differences and products of bounded values are bounded (the constants
// of the layout arithmetic are tiny); an integer that was PARSED FROM THE INPUT
// is bounded only below a dominating guard `v <= C` / `v < C` (C <= 2^40).
// The non-negativity lattice treats `a*b` and `a+b` of non-negatives as
// non-negative, which is only true without overflow: this is the side condition.
func (a *nnA) Bounded(e ast.Expr, at ast.Node) bool {
	return a.bounded(e, at, map[types.Object]bool{})
}

func (a *nnA) bounded(e ast.Expr, at ast.Node, busy map[types.Object]bool) bool {
	info := a.info(e)
	if info == nil {
		return false
	}
	e = ast.Unparen(e)
	if _, ok := core.ConstInt(info, e); ok {
		return true
	}
	// an upper-bound fact about the whole expression
	if fs, alive := a.factsAt(at); len(fs) > 0 {
		if l := linearize(info, e); l.ok {
			lim := linForm{terms: map[string]int64{}, ok: true}
			lim.c = -boundLimit
			want := lim.add(l, 1) // e - 2^40 <= 0
			if implies(info, fs, alive, want, false, varsOf(info, e)) {
				return true
			}
		}
	}
	switch x := e.(type) {
	case *ast.BinaryExpr:
		switch x.Op {
		case token.ADD, token.SUB, token.MUL:
			return a.bounded(x.X, at, busy) && a.bounded(x.Y, at, busy)
		case token.REM:
			if c, ok := core.ConstInt(info, x.Y); ok && c != 0 {
				return true
			}
		case token.QUO, token.SHR, token.AND:
			return a.bounded(x.X, at, busy)
		}
		return false
	case *ast.CallExpr:
		if core.IsConversion(info, x) && len(x.Args) == 1 {
			return a.bounded(x.Args[0], at, busy)
		}
		if core.IsBuiltin(info, x, "len") || core.IsBuiltin(info, x, "cap") || core.IsBuiltin(info, x, "copy") {
			return true
		}
		fn := core.Callee(info, x)
		if fn == nil {
			return false
		}
		switch core.FuncID(fn) {
		case core.PkgGts + ".Min":
			return a.bounded(x.Args[0], at, busy) || a.bounded(x.Args[1], at, busy)
		case core.PkgGts + ".Max":
			return a.bounded(x.Args[0], at, busy) && a.bounded(x.Args[1], at, busy)
		case core.PkgGts + ".Abs":
			return a.bounded(x.Args[0], at, busy)
		case core.PkgGts + ".Len", "bytes.IndexByte", "bytes.Index", "strings.IndexByte", "strings.Index", "bytes.LastIndexByte", "strings.LastIndexByte":
			return true
		}
		if fd := a.decls[fn]; fd != nil && fd.Body != nil {
			for _, arg := range x.Args {
				if tv, ok := info.Types[arg]; ok {
					if b, isB := tv.Type.Underlying().(*types.Basic); isB && b.Info()&types.IsInteger != 0 && !a.bounded(arg, at, busy) {
						return false
					}
				}
			}
			return a.resultBounded(fd, busy)
		}
		return false
	case *ast.Ident:
		v, ok := core.ObjOf(info, x).(*types.Var)
		if !ok {
			return false
		}
		if busy[v] {
			return true // inductive hypothesis (loop counters, recursion)
		}
		busy[v] = true
		defer delete(busy, v)
		return a.varBounded(info, v, busy)
	case *ast.SelectorExpr:
		if sel := info.Selections[x]; sel != nil && sel.Kind() == types.FieldVal {
			f := sel.Obj().(*types.Var)
			if busy[f] {
				return true
			}
			busy[f] = true
			defer delete(busy, f)
			return a.fieldBounded(f, busy)
		}
	}
	return false // type assertions, index expressions, foreign calls: values read from the input
}

// resultBounded: every integer result of fd is bounded when its parameters are.
func (a *nnA) resultBounded(fd *ast.FuncDecl, busy map[types.Object]bool) bool {
	info := a.info(fd)
	var ps []types.Object
	for _, f := range fd.Type.Params.List {
		for _, n := range f.Names {
			ps = append(ps, info.Defs[n])
		}
	}
	for _, o := range ps {
		if busy[o] {
			ps = nil // already under the hypothesis
			break
		}
	}
	for _, o := range ps {
		busy[o] = true
	}
	defer func() {
		for _, o := range ps {
			delete(busy, o)
		}
	}()
	for _, rs := range core.Returns(fd.Body) {
		for _, r := range rs.Results {
			if tv, has := info.Types[r]; has {
				if b, isB := tv.Type.Underlying().(*types.Basic); isB && b.Info()&types.IsInteger != 0 && !a.bounded(r, rs, busy) {
					return false
				}
			}
		}
	}
	return true
}

func (a *nnA) varBounded(info *types.Info, v *types.Var, busy map[types.Object]bool) bool {
	if fd, idx, lit := a.paramOf(v); idx >= 0 {
		return a.paramBounded(fd, lit, idx, busy)
	}
	var scope ast.Node
	for _, d := range a.decls {
		if d.Pos() <= v.Pos() && v.Pos() < d.End() {
			scope = d
		}
	}
	if scope == nil {
		return false
	}
	sinfo := a.info(scope)
	defs := core.Assigns(sinfo, scope)[v]
	if len(defs) == 0 {
		return false
	}
	for _, d := range defs {
		switch n := d.Node.(type) {
		case *ast.RangeStmt:
			if d.Idx == 0 {
				continue // a range key is an index
			}
			return false
		case *ast.IncDecStmt:
			continue
		case *ast.AssignStmt:
			if d.RHS == nil {
				if d.Call != nil && (core.IsBuiltin(sinfo, d.Call, "copy")) {
					continue
				}
				return false
			}
			switch n.Tok {
			case token.ASSIGN, token.DEFINE, token.ADD_ASSIGN, token.SUB_ASSIGN, token.MUL_ASSIGN:
				if !a.bounded(d.RHS, n, busy) {
					return false
				}
			case token.QUO_ASSIGN, token.REM_ASSIGN:
				continue
			default:
				return false
			}
		case *ast.ValueSpec:
			if d.RHS != nil && !a.bounded(d.RHS, n, busy) {
				return false
			}
		default:
			return false
		}
	}
	return true
}

func (a *nnA) paramBounded(fd *ast.FuncDecl, lit *ast.FuncLit, idx int, busy map[types.Object]bool) bool {
	var sig *types.Signature
	n := 0
	if fd != nil {
		info := a.info(fd)
		fobj := info.Defs[fd.Name]
		sig, _ = fobj.Type().(*types.Signature)
		for _, c := range a.calls[fobj] {
			n++
			if idx >= len(c.Args) || !a.bounded(c.Args[idx], c, busy) {
				return false
			}
		}
		if ast.IsExported(fd.Name.Name) && fd.Recv == nil {
			return false
		}
	} else {
		sig, _ = a.info(lit).Types[lit].Type.(*types.Signature)
	}
	if sig == nil {
		return false
	}
	plain := types.NewSignatureType(nil, nil, nil, sig.Params(), sig.Results(), sig.Variadic())
	for _, c := range a.dyn {
		info := a.info(c)
		tv, ok := info.Types[c.Fun]
		if !ok {
			continue
		}
		cs, ok := tv.Type.Underlying().(*types.Signature)
		if !ok || !types.Identical(cs, plain) {
			continue
		}
		n++
		if idx >= len(c.Args) || !a.bounded(c.Args[idx], c, busy) {
			return false
		}
	}
	return n > 0
}

func (a *nnA) fieldBounded(f *types.Var, busy map[types.Object]bool) bool {
	ok := true
	for _, pkg := range []string{core.PkgGts, core.PkgSeqio} {
		pk := a.p.Pkg(pkg)
		info := pk.TypesInfo
		for _, file := range pk.Syntax {
			ast.Inspect(file, func(n ast.Node) bool {
				switch x := n.(type) {
				case *ast.CompositeLit:
					st, isSt := info.Types[x].Type.Underlying().(*types.Struct)
					if !isSt {
						return true
					}
					for i, el := range x.Elts {
						var fld *types.Var
						val := el
						if kv, isKV := el.(*ast.KeyValueExpr); isKV {
							if id, isID := kv.Key.(*ast.Ident); isID {
								fld, _ = info.Uses[id].(*types.Var)
							}
							val = kv.Value
						} else if i < st.NumFields() {
							fld = st.Field(i)
						}
						if fld == f && !a.bounded(val, x, busy) {
							ok = false
						}
					}
				case *ast.AssignStmt:
					for i, l := range x.Lhs {
						if sel, isSel := ast.Unparen(l).(*ast.SelectorExpr); isSel && info.Uses[sel.Sel] == f {
							if len(x.Lhs) != len(x.Rhs) || !a.bounded(x.Rhs[i], x, busy) {
								ok = false
							}
						}
					}
				}
				return true
			})
		}
	}
	return ok
}

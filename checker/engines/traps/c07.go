package traps

import (
	"fmt"
	"go/ast"
	"go/token"
	"go/types"
	"sort"
	"strings"

	"golang.org/x/tools/go/cfg"
	"golang.org/x/tools/go/ssa"

	"gtsverif/core"
)

type trapCtx struct {
	p        *core.Prog
	r        *core.Report
	nn       *nnA
	tableUse map[string]int
}

const parsPkg = "github.com/go-pars/pars"

// reachableSyntax returns the function bodies (declarations and literals) of reachable code.
func reachableSyntax(reach map[*ssa.Function]bool) []ast.Node {
	var out []ast.Node
	for f := range reach {
		if n := f.Syntax(); n != nil {
			out = append(out, n)
		}
	}
	sort.Slice(out, func(i, j int) bool { return out[i].Pos() < out[j].Pos() })
	return out
}

func fnLabel(p *core.Prog, t *trapCtx, n ast.Node) (string, string) {
	pkg := core.PkgSeqio
	if f := t.nn.fileOf(n.Pos()); f != nil && f.Name.Name == "gts" {
		pkg = core.PkgGts
	}
	name := "init"
	if d := t.nn.outerDecl(n); d != nil {
		name = core.DeclName(d)
	} else if d, ok := n.(*ast.FuncDecl); ok {
		name = core.DeclName(d)
	}
	short := "seqio"
	if pkg == core.PkgGts {
		short = "gts"
	}
	return pkg, short + "." + name
}

// C07 decides the trap-site obligations of the parser-reachable code.
// reviewedPanics: explicit panic statements in parser-reachable functions whose
// condition cannot be made true by input text, one line of reason each.
var reviewedPanics = map[string]string{
	"gts.Join":  "panics only when called with no location; the only parser call is parseJoin with the list of multipleLocationParser, which holds the first parsed location before it loops",
	"gts.Order": "panics only when called with no location; the only parser call is parseOrder with the list of multipleLocationParser (at least one element, and flattening never empties a list the parser built)",
}

func C07(p *core.Prog, r *core.Report) {
	r.Rule("COMMIT-BODY", "in every GenBank sub-parser keyed on a fixed field name, each error return behind the recognised name is preceded on every path by a commit (state.Clear(), or a Pop of the dispatcher's frame), so that a malformed field is an error and not an unknown field that is skipped; reviewed lenient fallbacks excepted (CONTIG, REFERENCE)", 5)
	r.Rule("PUSH-POP", "in every parser-reachable function that calls (*pars.State).Push, every path from a Push to a return passes exactly one Pop or Drop (Clear closes all frames; `!state.Pushed()` means they are already closed): an error return that leaves the frame open makes pars.Any try its next alternative from the middle of the input", 13)
	r.Rule("COMMIT", "the GenBank sub-parsers keep their reviewed commit points (state.Clear(), or a Pop of the dispatcher's frame, turns a failure behind a recognised field name into a hard error instead of a backtracked one), and the feature-table parser only runs after one on every path", 5)
	r.Rule("PANIC", "every explicit panic(...) statement in a function reachable from the parser entry points is in the reviewed table of panics whose condition input text cannot reach (one reason per function)", 2)
	r.Rule("IDX", "every index and slice expression the Go compiler's prove pass cannot show in bounds (its bounds-check-elimination report, inlining off) inside code reachable from the parser entry points is discharged by a dominating length guard, the post-condition of an index search (IndexByte/Index), a range key over a collection of the same length, n = len(s)/2 on a non-empty s, or a reviewed layout/shape argument with a fixed site count; constant children of a pars.Result are determined by the parser's shape and excluded", 20)
	r.Rule("NN", "every count handed to strings.Repeat, bytes.Repeat, make and (*pars.State).Request in parser-reachable code is non-negative: constants, len/cap/copy, sums and products of non-negatives, quotients by positive constants, values on the false side of a dominating `x < 0` test or after a clamp, parameters and captured variables all of whose bindings are non-negative (calls through function values resolved by signature), struct fields all of whose writes are non-negative, and results of functions that are non-negative whenever their arguments are", 12)
	r.Rule("OVERFLOW", "side condition of NN: a count that is a sum or product involving an integer parsed from the input (a type-asserted parser result, as opposed to a len/cap/constant) is dominated by a guard that bounds that integer above by a constant <= 2^40, so the arithmetic cannot wrap to a negative count", 10)
	r.Rule("REQ-ERR", "the error of every (*pars.State).Request in parser-reachable code is tested and returned before the buffer is used (a failed Request leaves a short buffer)", 6)
	r.Rule("REQ-ADV", "every (*pars.State).Advance is preceded on every path by a Request (or pars.Next) whose error was tested nil, with no other Advance in between (Advance panics without a pending Request)", 10)
	r.Rule("RES", "wherever a parser is run through Parse(...) the (Result, error) pair's error is tested and returned before the result is read", 3)
	r.Rule("MUSTC", "no regexp.MustCompile of a non-constant pattern and no integer division by a non-constant in parser-reachable code", 0)
	r.NotDecided = append(r.NotDecided, "termination and linear time (needs a progress measure per loop)", "type assertions and constant children of a parse result (fixed by the shape of the parser, settled by any test that runs it)", "residues beyond the declared length (on the last counted line or on further lines) are ignored without an error: the record loop deliberately skips lines no sub-parser recognises; a record without any ORIGIN block is accepted as an empty sequence")
	r.Assumptions = append(r.Assumptions, "the Go compiler's prove pass is a sound value-range analysis (sites absent from its report are in bounds)", "strings/bytes IndexByte/Index return -1 or an index i with i+len(needle) <= len(s)", "(*pars.State).Request(n) returns nil only when n bytes are buffered; pars.Next is Request(1)", "explicit panic(...) statements are developer assertions and are not trap sites")
	reach, missing := Reach(p, Roots)
	for _, m := range missing {
		r.Und("REACH", m, "-", "anchor-unresolved: parser entry point not found")
	}
	r.Rule("REACH", "the functions named by the property are in the reachable set", 6)
	names := map[string]bool{}
	for f := range reach {
		nm := f.Name()
		for g := f; g.Parent() != nil; g = g.Parent() {
			nm = g.Parent().Name()
		}
		names[nm] = true
	}
	for _, want := range []string{"genbankFieldNameParser", "genbankDBLinkPairParser", "validateOrigin", "slowGenBankOriginParser", "makeGenbankOriginParser", "Scan"} {
		if names[want] {
			r.Ok("REACH", want, "-", "reachable from the parser entry points")
		} else {
			r.Bad("REACH", want, "-", "a function the property anchors is no longer reachable from the parser entry points: its trap sites are not being checked")
		}
	}
	runTraps(p, r, reach, true)
}

// runTraps applies every trap rule to the reachable code.
func runTraps(p *core.Prog, r *core.Report, reach map[*ssa.Function]bool, parser bool) {
	bce, ver, err := BCE(p)
	if err != nil {
		r.Und("IDX", "compiler-report", "-", err.Error())
		return
	}
	r.Extra["go_version"] = ver
	r.Extra["reachable_functions"] = len(reach)
	t := &trapCtx{p: p, r: r, nn: newNN(p), tableUse: map[string]int{}}
	for f := range reach {
		r.Fn(strings.ReplaceAll(f.String(), core.Mod, "gts"))
	}
	// ---- IDX
	sites := Sites(p, reach, bce)
	perFn := map[string]int{}
	for _, s := range sites {
		short := "seqio"
		if s.Pkg == core.PkgGts {
			short = "gts"
		}
		fn := short + "." + s.Fn
		perFn[fn+"|"+s.Kind]++
		key := fmt.Sprintf("%s|%s#%d", fn, s.Kind, perFn[fn+"|"+s.Kind])
		st, detail := t.decideSite(s)
		expr := types.ExprString(s.Node.(ast.Expr))
		switch st {
		case core.OK:
			r.Ok("IDX", key, p.Pos(s.Pos), "`"+expr+"`: "+detail)
		case core.Info:
			r.Note("IDX", key, p.Pos(s.Pos), "`"+expr+"`: "+detail)
		default:
			r.Bad("IDX", key, p.Pos(s.Pos), "`"+expr+"` may be out of range on malformed input: "+detail)
		}
	}
	// ---- NN, REQ-ERR, REQ-ADV, RES, MUSTC over reachable syntax
	bodies := reachableSyntax(reach)
	nnN := map[string]int{}
	clears := map[string]int{}
	seenCall := map[*ast.CallExpr]bool{}
	for _, fnNode := range bodies {
		var body *ast.BlockStmt
		switch x := fnNode.(type) {
		case *ast.FuncDecl:
			body = x.Body
		case *ast.FuncLit:
			body = x.Body
		}
		if body == nil {
			continue
		}
		info := t.nn.info(body)
		_, label := fnLabel(p, t, fnNode)
		// calls directly in this body (nested literals are their own entries)
		var calls []*ast.CallExpr
		ast.Inspect(body, func(n ast.Node) bool {
			if fl, ok := n.(*ast.FuncLit); ok && fl.Body != body {
				return false
			}
			if c, ok := n.(*ast.CallExpr); ok {
				calls = append(calls, c)
			}
			return true
		})
		for _, c := range calls {
			if seenCall[c] {
				continue
			}
			seenCall[c] = true
			var count ast.Expr
			what := ""
			switch {
			case core.IsCallTo(info, c, "strings.Repeat", "bytes.Repeat") && len(c.Args) == 2:
				count, what = c.Args[1], "Repeat count"
			case core.IsBuiltin(info, c, "make") && len(c.Args) >= 2:
				for _, a := range c.Args[1:] {
					if _, isConst := core.ConstInt(info, a); !isConst {
						count, what = a, "make length"
						if lc, ok := ast.Unparen(a).(*ast.CallExpr); ok && core.IsBuiltin(info, lc, "len") {
							count = nil // len(...) is trivially non-negative; not counted
						}
					}
				}
			case core.IsCallTo(info, c, parsPkg+".State.Request") && len(c.Args) == 1:
				count, what = c.Args[0], "Request size"
			}
			if count != nil {
				if _, isConst := core.ConstInt(info, count); !isConst {
					nnN[label]++
					key := fmt.Sprintf("%s|count#%d", label, nnN[label])
					if t.nn.NN(count, c) {
						r.Ok("NN", key, p.Pos(c.Pos()), fmt.Sprintf("%s `%s` is non-negative", what, types.ExprString(count)))
						if parser {
							if t.nn.Bounded(count, c) {
								r.Ok("OVERFLOW", key, p.Pos(c.Pos()), fmt.Sprintf("%s `%s` is computed from lengths, constants and input numbers that a guard bounds: the size arithmetic cannot overflow", what, types.ExprString(count)))
							} else {
								r.Bad("OVERFLOW", key, p.Pos(c.Pos()), fmt.Sprintf("%s `%s` is computed from a number read from the input that nothing bounds above: for a huge value the multiplication wraps to a negative count and make/Request/Repeat (or the slice behind it) panics", what, types.ExprString(count)))
							}
						}
					} else {
						r.Bad("NN", key, p.Pos(c.Pos()), fmt.Sprintf("%s `%s` can be negative on malformed input (nothing bounds it below): strings.Repeat/make/Request panic on a negative count", what, types.ExprString(count)))
					}
				}
			}
			if core.IsCallTo(info, c, parsPkg+".State.Request") {
				nnN[label+"|req"]++
				key := fmt.Sprintf("%s|request#%d", label, nnN[label+"|req"])
				u := core.ClassifyErr(info, body, c)
				if u.Kind == "if-return" || u.Kind == "returned" {
					r.Ok("REQ-ERR", key, p.Pos(c.Pos()), "a failed Request returns an error before the buffer is used")
				} else if condOnNil(t.nn.par, c) {
					// `for state.Request(n) == nil { ... }` / `if state.Request(n) == nil { ... }`: the code that
					// relies on the bytes runs under the success test; what runs after a failure is subject to IDX
					r.Ok("REQ-ERR", key, p.Pos(c.Pos()), "the result of Request is the condition the dependent code runs under")
				} else if u.Kind == "if-other" && u.If != nil && leaves(u.If.Body) {
					// the function has no error to return (a predicate): the failure branch leaves it, so the
					// code behind the Request runs only when the bytes are there; what the branch itself
					// does with the buffer is subject to the IDX obligations like any other code
					r.Ok("REQ-ERR", key, p.Pos(c.Pos()), "a failed Request leaves the function before the code behind it runs")
				} else {
					r.Bad("REQ-ERR", key, p.Pos(c.Pos()), "the result of Request is not tested ("+u.Kind+"): on a short input the buffer is shorter than assumed and the code behind it indexes past its end")
				}
			}
			if fn := core.Callee(info, c); fn != nil && fn.Name() == "Parse" && fn.Pkg() != nil && fn.Pkg().Path() == parsPkg {
				if tup, ok := info.Types[c].Type.(*types.Tuple); ok && tup.Len() == 2 {
					nnN[label+"|parse"]++
					key := fmt.Sprintf("%s|parse#%d", label, nnN[label+"|parse"])
					u := core.ClassifyErr(info, body, c)
					if u.Kind == "if-return" || u.Kind == "returned" {
						r.Ok("RES", key, p.Pos(c.Pos()), "the parse error is returned before the result is read")
					} else if u.Kind == "if-nil-success" && readOnlyIn(info, body, c, u.If) {
						r.Ok("RES", key, p.Pos(c.Pos()), "the result is read only on the branch where the parse error is nil")
					} else if u.Kind == "unchecked" && strings.Contains(u.Why, "accumulator") == false && assignedErrField(info, c, t) {
						r.Ok("RES", key, p.Pos(c.Pos()), "result and error are stored together and the error is tested by the caller")
					} else {
						r.Bad("RES", key, p.Pos(c.Pos()), "the result of Parse is read without testing its error ("+u.Kind+"): a failed parse leaves a nil or stale Value and the type assertion panics")
					}
				}
			}
			if core.IsCallTo(info, c, "regexp.MustCompile", "regexp.MustCompilePOSIX") {
				if _, isConst := core.ConstString(info, c.Args[0]); !isConst {
					r.Bad("MUSTC", label+"|mustcompile", p.Pos(c.Pos()), "regexp.MustCompile of input-derived text panics on an invalid pattern")
				}
			}
		}
		// explicit panics
		ast.Inspect(body, func(n ast.Node) bool {
			if fl, ok := n.(*ast.FuncLit); ok && fl.Body != body {
				return false
			}
			if c, ok := n.(*ast.CallExpr); ok && parser && core.IsBuiltin(info, c, "panic") {
				nnN[label+"|panic"]++
				key := fmt.Sprintf("%s|panic#%d", label, nnN[label+"|panic"])
				if why, ok := reviewedPanics[label]; ok {
					r.Ok("PANIC", key, p.Pos(c.Pos()), "reviewed: "+why)
				} else {
					r.Bad("PANIC", key, p.Pos(c.Pos()), "an explicit panic is reachable from the parser entry points and is not in the reviewed table: if its condition can be made true by input text, malformed input crashes the parser instead of producing an error")
				}
			}
			return true
		})
		// integer division by a non-constant
		ast.Inspect(body, func(n ast.Node) bool {
			if fl, ok := n.(*ast.FuncLit); ok && fl.Body != body {
				return false
			}
			if be, ok := n.(*ast.BinaryExpr); ok && (be.Op == token.QUO || be.Op == token.REM) {
				if tv, has := info.Types[be.X]; has {
					if b, isB := tv.Type.Underlying().(*types.Basic); isB && b.Info()&types.IsInteger != 0 {
						if _, isConst := core.ConstInt(info, be.Y); !isConst {
							r.Bad("MUSTC", label+"|division", p.Pos(be.Pos()), "integer division by a value that is not a constant: a zero divisor panics")
						}
					}
				}
			}
			return true
		})
		t.advance(info, body, label)
		if parser {
			t.pushPop(info, body, label)
		}
		t.commit(info, body, label, clears)
		if parser {
			t.commitBody(info, body, label)
		}
	}
	for fn, want := range commitPoints {
		if !parser {
			break
		}
		if clears[fn] < want {
			r.Bad("COMMIT", fn+"|clear", "-", fmt.Sprintf("%d of the %d reviewed commit points (state.Clear()) of this sub-parser remain: without the commit, tryAllParsers backtracks over the error and the record loop skips the malformed line instead of reporting it", clears[fn], want))
		} else {
			r.Ok("COMMIT", fn+"|clear", "-", fmt.Sprintf("%d commit point(s)", clears[fn]))
		}
	}
}

// commitPoints: sub-parsers that turn a failure into a hard error by
// discarding the backtracking stack (state.Clear()) before failing, with the
// number of such points confirmed by reading.
var commitPoints = map[string]int{
	"seqio.GenBankParser":          1, // after the LOCUS line: everything behind it belongs to this record
	"seqio.genbankFieldNameParser": 2, // uneven indent after a recognised field name (two error returns)
	"seqio.genbankFeatureParser":   1, // FEATURES header recognised: a malformed table is an error
	"seqio.genbankSourceParser":    1, // SOURCE recognised but ORGANISM missing: pops the dispatcher's frame so the failure is not retried as an unknown field
}

// commit counts the state.Clear() calls of a body and checks that a feature
// table parser (a parser value built by INSDCTableParser) only runs after one.
func (t *trapCtx) commit(info *types.Info, body *ast.BlockStmt, label string, clears map[string]int) {
	isClear := func(n ast.Node) bool {
		for _, c := range core.NodeCalls(n) {
			if core.IsCallTo(info, c, parsPkg+".State.Clear") {
				return true
			}
		}
		return false
	}
	var tableCalls []*ast.CallExpr
	hasPush := false
	ast.Inspect(body, func(n ast.Node) bool {
		if fl, ok := n.(*ast.FuncLit); ok && fl.Body != body {
			return false
		}
		if c, ok := n.(*ast.CallExpr); ok && core.IsCallTo(info, c, parsPkg+".State.Push") {
			hasPush = true
		}
		return true
	})
	ast.Inspect(body, func(n ast.Node) bool {
		if fl, ok := n.(*ast.FuncLit); ok && fl.Body != body {
			return false
		}
		c, ok := n.(*ast.CallExpr)
		if !ok {
			return true
		}
		if core.IsCallTo(info, c, parsPkg+".State.Clear") {
			clears[label]++
		}
		if core.IsCallTo(info, c, parsPkg+".State.Pop", parsPkg+".State.Drop") && !hasPush {
			clears[label]++ // closes a frame it did not open: the dispatcher's
		}
		if id, ok := ast.Unparen(c.Fun).(*ast.Ident); ok {
			if v, ok := info.Uses[id].(*types.Var); ok {
				if d := t.nn.outerDecl(body); d != nil {
					asg := core.Assigns(info, d.Body)
					if as := asg[v]; len(as) == 1 && as[0].RHS != nil {
						if oc, ok := ast.Unparen(as[0].RHS).(*ast.CallExpr); ok && core.IsCallTo(info, oc, core.PkgSeqio+".INSDCTableParser") {
							tableCalls = append(tableCalls, c)
						}
					}
				}
			}
		}
		return true
	})
	if len(tableCalls) == 0 || !strings.HasPrefix(label, "seqio.genbank") {
		return
	}
	fl := core.NewFlow(info, body)
	for i, c := range tableCalls {
		key := fmt.Sprintf("%s|table-parser#%d", label, i+1)
		target := fl.Find(c)
		if !target.Valid() {
			t.r.Und("COMMIT", key, t.p.Pos(c.Pos()), "call not found in the control-flow graph")
			continue
		}
		reached := false
		core.Scan(fl, fl.Entry(), 0, core.Stepper[int]{
			Node: func(s int, n ast.Node) (int, bool) {
				if fl.Find(n) == target {
					if !isClear(n) {
						reached = true
					}
					return s, true
				}
				return s, isClear(n)
			},
		})
		if reached {
			t.r.Bad("COMMIT", key, t.p.Pos(c.Pos()), "the feature-table parser can run without a preceding state.Clear(): its error is backtracked by tryAllParsers and a malformed feature table is skipped line by line instead of being reported")
		} else {
			t.r.Ok("COMMIT", key, t.p.Pos(c.Pos()), "every path to the table parser passes state.Clear()")
		}
	}
}

// assignedErrField: `s.res, errs[i].err = p.Parse(...)` style: both results stored, error examined by the loop that follows.
// readOnlyIn: after the call `res, err = p.Parse(..)` the result operand is read
// nowhere in body but inside the statement `in` (the branch taken when the error is nil).
func readOnlyIn(info *types.Info, body *ast.BlockStmt, c *ast.CallExpr, in *ast.IfStmt) bool {
	par := core.Parents(body)
	as, ok := par[c].(*ast.AssignStmt)
	if !ok || len(as.Lhs) != 2 || in == nil {
		return false
	}
	want := types.ExprString(as.Lhs[0])
	if want == "_" {
		return true
	}
	ok = true
	ast.Inspect(body, func(n ast.Node) bool {
		if n == ast.Node(in.Body) {
			return false
		}
		e, isExpr := n.(ast.Expr)
		if !isExpr || e.Pos() <= c.End() || types.ExprString(e) != want {
			return true
		}
		if a2, isAs := par[n].(*ast.AssignStmt); isAs {
			for _, l := range a2.Lhs {
				if l == e {
					return true // written, not read
				}
			}
		}
		ok = false
		return false
	})
	return ok
}

func assignedErrField(info *types.Info, c *ast.CallExpr, t *trapCtx) bool {
	as, ok := t.nn.par[c].(*ast.AssignStmt)
	if !ok || len(as.Lhs) != 2 {
		return false
	}
	// the very next statement tests the stored error against nil
	blk, ok := t.nn.par[as].(*ast.BlockStmt)
	if !ok {
		return false
	}
	for i, s := range blk.List {
		if s == ast.Stmt(as) && i+1 < len(blk.List) {
			if is, ok := blk.List[i+1].(*ast.IfStmt); ok {
				if be, ok := ast.Unparen(is.Cond).(*ast.BinaryExpr); ok && core.IsNil(info, be.Y) && types.ExprString(be.X) == types.ExprString(as.Lhs[1]) {
					return true
				}
			}
			// or the assignment is `x, s.err = ...; return s.err == nil`
			if rs, ok := blk.List[i+1].(*ast.ReturnStmt); ok && len(rs.Results) == 1 {
				if be, ok := ast.Unparen(rs.Results[0]).(*ast.BinaryExpr); ok && core.IsNil(info, be.Y) && types.ExprString(be.X) == types.ExprString(as.Lhs[1]) {
					return true
				}
			}
		}
	}
	return false
}

// advance decides REQ-ADV inside one function body.
func (t *trapCtx) advance(info *types.Info, body *ast.BlockStmt, label string) {
	p, r := t.p, t.r
	has := false
	ast.Inspect(body, func(n ast.Node) bool {
		if fl, ok := n.(*ast.FuncLit); ok && fl.Body != body {
			return false
		}
		if c, ok := n.(*ast.CallExpr); ok && core.IsCallTo(info, c, parsPkg+".State.Advance") {
			has = true
		}
		return true
	})
	if !has {
		return
	}
	fl := core.NewFlow(info, body)
	type st struct {
		armed   bool
		pending types.Object
	}
	bad := map[*ast.CallExpr]bool{}
	okc := map[*ast.CallExpr]bool{}
	core.Scan(fl, fl.Entry(), st{}, core.Stepper[st]{
		Node: func(s st, n ast.Node) (st, bool) {
			for _, c := range core.NodeCalls(n) {
				switch {
				case core.IsCallTo(info, c, parsPkg+".State.Request", parsPkg+".Next"):
					s.armed, s.pending = false, nil
					// which variable receives the error?
					if as, ok := n.(*ast.AssignStmt); ok && len(as.Rhs) == 1 && ast.Unparen(as.Rhs[0]) == ast.Expr(c) {
						s.pending = core.ObjOf(info, as.Lhs[len(as.Lhs)-1])
					}
				case core.IsCallTo(info, c, parsPkg+".State.Advance"):
					if s.armed {
						okc[c] = true
					} else {
						bad[c] = true
					}
					s.armed, s.pending = false, nil
				case core.IsCallTo(info, c, parsPkg+".State.Push", parsPkg+".State.Drop", parsPkg+".State.Position", parsPkg+".State.Buffer", parsPkg+".State.Pushed", parsPkg+".NewError"):
				default:
					// any other call that receives the state may consume the pending request
					for _, a := range c.Args {
						if core.NamedOf(info.Types[a].Type) == parsPkg+".State" {
							s.armed, s.pending = false, nil
						}
					}
					if rx, ok := ast.Unparen(c.Fun).(*ast.SelectorExpr); ok && core.NamedOf(info.Types[rx.X].Type) == parsPkg+".State" {
						switch rx.Sel.Name {
						case "Pop", "Clear":
							s.armed, s.pending = false, nil
						}
					}
				}
			}
			return s, false
		},
		Edge: func(s st, cond ast.Expr, taken bool) st {
			core.Facts(cond, taken, func(atom ast.Expr, val bool) {
				be, ok := atom.(*ast.BinaryExpr)
				if !ok || s.pending == nil || core.ObjOf(info, be.X) != s.pending || !core.IsNil(info, be.Y) {
					return
				}
				if (be.Op == token.EQL && val) || (be.Op == token.NEQ && !val) {
					s.armed = true
				}
			})
			return s
		},
		Exit: func(st, *cfg.Block, ast.Node) {},
	})
	n := 0
	var all []*ast.CallExpr
	for c := range okc {
		all = append(all, c)
	}
	for c := range bad {
		if !okc[c] || true {
			all = append(all, c)
		}
	}
	sort.Slice(all, func(i, j int) bool { return all[i].Pos() < all[j].Pos() })
	seen := map[*ast.CallExpr]bool{}
	for _, c := range all {
		if seen[c] {
			continue
		}
		seen[c] = true
		n++
		key := fmt.Sprintf("%s|advance#%d", label, n)
		if bad[c] {
			r.Bad("REQ-ADV", key, p.Pos(c.Pos()), "Advance is reachable on a path without a successful Request/Next since the last Advance: pars panics with \"no previous call to Request\"")
		} else {
			r.Ok("REQ-ADV", key, p.Pos(c.Pos()), "every path to this Advance passed a Request/Next whose error was tested nil")
		}
	}
}

// lenient: sub-parsers that deliberately fall back to an opaque extra field
// when their body does not parse (reviewed, one reason each).
var lenient = map[string]string{
	"seqio.genbankContigParser":    "real CONTIG lines (several parts, gap()) are outside what the parser models; keeping them as an opaque extra field loses nothing",
	"seqio.genbankReferenceParser": "a REFERENCE line the parser cannot read is kept verbatim as an extra field; the property names no REFERENCE inconsistency",
}

// commitBody decides COMMIT-BODY for one sub-parser closure: once a fixed
// field name has been recognised, every error return is a committed one.
func (t *trapCtx) commitBody(info *types.Info, body *ast.BlockStmt, label string) {
	d := t.nn.outerDecl(body)
	if d == nil || !strings.HasPrefix(label, "seqio.") || !(strings.HasPrefix(d.Name.Name, "genbank") || d.Name.Name == "makeGenbankOriginParser") {
		return
	}
	// the name parser: a local of the generator defined as genbankFieldNameParser("CONST", depth)
	asg := core.Assigns(info, d.Body)
	nameVars := map[types.Object]string{}
	for o, as := range asg {
		for _, a := range as {
			if c, ok := ast.Unparen(a.RHS).(*ast.CallExpr); a.RHS != nil && ok && core.IsCallTo(info, c, core.PkgSeqio+".genbankFieldNameParser") && len(c.Args) == 2 {
				if s, ok := core.ConstString(info, c.Args[0]); ok {
					nameVars[o] = s
				}
			}
		}
	}
	if len(nameVars) == 0 {
		return
	}
	hasPush := false
	field := ""
	ast.Inspect(body, func(n ast.Node) bool {
		if fl, ok := n.(*ast.FuncLit); ok && fl.Body != body {
			return false
		}
		if c, ok := n.(*ast.CallExpr); ok {
			if core.IsCallTo(info, c, parsPkg+".State.Push") {
				hasPush = true
			}
			if id, ok := ast.Unparen(c.Fun).(*ast.Ident); ok {
				if f, ok := nameVars[core.ObjOf(info, id)]; ok {
					field = f
				}
			}
		}
		return true
	})
	if field == "" {
		return
	}
	fl := core.NewFlow(info, body)
	type st struct{ named, committed bool }
	var bad []token.Pos
	nRet := 0
	seen := map[token.Pos]bool{}
	core.Scan(fl, fl.Entry(), st{}, core.Stepper[st]{
		Node: func(s st, n ast.Node) (st, bool) {
			if ret, ok := n.(*ast.ReturnStmt); ok && len(ret.Results) == 1 {
				if !core.IsNil(info, ret.Results[0]) && s.named {
					if !seen[ret.Pos()] {
						nRet++
						seen[ret.Pos()] = true
					}
					if !s.committed {
						bad = append(bad, ret.Pos())
					}
				}
				return s, false
			}
			for _, c := range core.NodeCalls(n) {
				if id, ok := ast.Unparen(c.Fun).(*ast.Ident); ok {
					if _, ok := nameVars[core.ObjOf(info, id)]; ok {
						// the name parser runs in the condition `if err := name(...); err != nil`: the
						// error edge returns before anything else, so what follows has the name
						s.named = true
						continue
					}
				}
				if core.IsCallTo(info, c, parsPkg+".State.Clear") || (!hasPush && core.IsCallTo(info, c, parsPkg+".State.Pop", parsPkg+".State.Drop")) {
					s.committed = true
				}
			}
			return s, false
		},
	})
	// the return that hands back the name parser's own error is not a body failure:
	// it is the first return after the call; drop it from `bad`
	var firstRet token.Pos
	ast.Inspect(body, func(n ast.Node) bool {
		if is, ok := n.(*ast.IfStmt); ok && firstRet == 0 && is.Init != nil {
			for _, c := range core.NodeCalls(is.Init) {
				if id, ok := ast.Unparen(c.Fun).(*ast.Ident); ok {
					if _, ok := nameVars[core.ObjOf(info, id)]; ok {
						for _, r := range core.Returns(is.Body) {
							firstRet = r.Pos()
						}
					}
				}
			}
		}
		return true
	})
	var real []token.Pos
	dup := map[token.Pos]bool{}
	for _, b := range bad {
		if b != firstRet && !dup[b] {
			dup[b] = true
			real = append(real, b)
		}
	}
	sort.Slice(real, func(i, j int) bool { return real[i] < real[j] })
	key := label + "|" + field
	switch {
	case len(real) == 0:
		t.r.Ok("COMMIT-BODY", key, t.p.Pos(body.Pos()), "every error return behind the recognised "+field+" name is committed (or there is none)")
	case lenient[label] != "":
		t.r.Ok("COMMIT-BODY", key, t.p.Pos(body.Pos()), "reviewed lenient fallback: "+lenient[label])
	default:
		var where []string
		for _, q := range real {
			where = append(where, t.p.Pos(q))
		}
		t.r.Bad("COMMIT-BODY", key, where[0], fmt.Sprintf("%d error return(s) behind the recognised %s field name are not committed (%s): the dispatcher backtracks, the catch-all parser swallows the field as an unknown one and the record is returned without an error - with an empty sequence if this is ORIGIN", len(real), field, strings.Join(where, ", ")))
	}
}

// pushPop decides PUSH-POP for one body: the backtracking frame a function
// opens with state.Push() is closed by exactly one state.Pop() or state.Drop()
// on every path to a return (state.Clear() closes all of them). A frame left
// open on an error return makes the enclosing pars.Any resume the next
// alternative in the middle of the input instead of at its start.
func (t *trapCtx) pushPop(info *types.Info, body *ast.BlockStmt, label string) {
	p, r := t.p, t.r
	var pushes []*ast.CallExpr
	ast.Inspect(body, func(n ast.Node) bool {
		if fl, ok := n.(*ast.FuncLit); ok && fl.Body != body {
			return false
		}
		if c, ok := n.(*ast.CallExpr); ok && core.IsCallTo(info, c, parsPkg+".State.Push") {
			pushes = append(pushes, c)
		}
		return true
	})
	if len(pushes) == 0 {
		return
	}
	fl := core.NewFlow(info, body)
	type leak struct {
		pos   token.Pos
		depth int
	}
	leaks := map[token.Pos]int{}
	under := map[token.Pos]bool{}
	core.Scan(fl, fl.Entry(), 0, core.Stepper[int]{
		Node: func(d int, n ast.Node) (int, bool) {
			for _, c := range core.NodeCalls(n) {
				switch {
				case core.IsCallTo(info, c, parsPkg+".State.Push"):
					if d < 3 {
						d++
					}
				case core.IsCallTo(info, c, parsPkg+".State.Pop", parsPkg+".State.Drop"):
					if d == 0 {
						under[c.Pos()] = true
					} else {
						d--
					}
				case core.IsCallTo(info, c, parsPkg+".State.Clear"):
					d = 0
				}
			}
			return d, false
		},
		Edge: func(d int, cond ast.Expr, taken bool) int {
			core.Facts(cond, taken, func(atom ast.Expr, val bool) {
				if c, ok := ast.Unparen(atom).(*ast.CallExpr); ok && core.IsCallTo(info, c, parsPkg+".State.Pushed") && !val {
					d = 0 // the stack was cleared underneath
				}
			})
			return d
		},
		Exit: func(d int, b *cfg.Block, last ast.Node) {
			if d != 0 {
				pos := body.End()
				if last != nil {
					pos = last.Pos()
				}
				if leaks[pos] < d {
					leaks[pos] = d
				}
			}
		},
	})
	key := label + "|frames"
	switch {
	case len(leaks) > 0:
		var ps []token.Pos
		for q := range leaks {
			ps = append(ps, q)
		}
		sort.Slice(ps, func(i, j int) bool { return ps[i] < ps[j] })
		var where []string
		for _, q := range ps {
			where = append(where, p.Pos(q))
		}
		r.Bad("PUSH-POP", key, where[0], fmt.Sprintf("%d exit(s) leave a backtracking frame open (no Pop/Drop since the Push): %s; the enclosing alternative then resumes from the middle of the input and can accept a malformed text as a different, shorter one", len(ps), strings.Join(where, ", ")))
	case len(under) > 0:
		r.Bad("PUSH-POP", key, p.Pos(pushes[0].Pos()), "a Pop/Drop can run without an open frame of this function")
	default:
		r.Ok("PUSH-POP", key, p.Pos(pushes[0].Pos()), fmt.Sprintf("%d Push site(s), every path to a return closes the frame exactly once", len(pushes)))
	}
}

// RepairNoPanic applies the trap rules to gts.Repair and what it calls (C12, clause "never panics").
func RepairNoPanic(p *core.Prog, r *core.Report) {
	r.Rule("IDX", "every index and slice expression in gts.Repair and the code it reaches that the compiler cannot prove in bounds is discharged by a dominating guard or a reviewed shape argument (the index lists hold range keys of the copied table)", 5)
	r.Rule("NN", "every make length in that code is non-negative", 0)
	reach, missing := Reach(p, []Root{{core.PkgGts, "Repair"}})
	for _, m := range missing {
		r.Und("REACH", m, "-", "anchor-unresolved")
	}
	runTraps(p, r, reach, false)
}

// leaves: the block ends in a return or a panic.
func leaves(b *ast.BlockStmt) bool {
	if b == nil || len(b.List) == 0 {
		return false
	}
	switch x := b.List[len(b.List)-1].(type) {
	case *ast.ReturnStmt:
		return true
	case *ast.ExprStmt:
		if c, ok := x.X.(*ast.CallExpr); ok {
			if id, ok := c.Fun.(*ast.Ident); ok && id.Name == "panic" {
				return true
			}
		}
	}
	return false
}

// condOnNil: the call is compared with nil and that comparison is (a conjunct of) the condition of a
// for or if statement.
func condOnNil(par map[ast.Node]ast.Node, c *ast.CallExpr) bool {
	be, ok := par[c].(*ast.BinaryExpr)
	if !ok || (be.Op != token.EQL && be.Op != token.NEQ) {
		return false
	}
	other := be.Y
	if ast.Unparen(be.Y) == ast.Expr(c) {
		other = be.X
	}
	if id, ok := ast.Unparen(other).(*ast.Ident); !ok || id.Name != "nil" {
		return false
	}
	for n := par[be]; n != nil; n = par[n] {
		switch x := n.(type) {
		case *ast.ForStmt:
			return x.Cond != nil && x.Cond.Pos() <= be.Pos() && be.End() <= x.Cond.End()
		case *ast.IfStmt:
			return x.Cond.Pos() <= be.Pos() && be.End() <= x.Cond.End()
		case *ast.BinaryExpr, *ast.ParenExpr:
			continue
		default:
			return false
		}
	}
	return false
}

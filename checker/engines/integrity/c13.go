// Package integrity implements E3: must-check / must-pass / ordering rules on
// the cache file format (cmd/cache) that together say "Open returns a nil
// error only for exactly what Close finalised".
package integrity

import (
	"fmt"
	"go/ast"
	"go/token"
	"go/types"
	"sort"
	"strings"

	"golang.org/x/tools/go/cfg"

	"gtsverif/core"
	"gtsverif/engines/cachekey"
)

type ctx struct {
	p    *core.Prog
	r    *core.Report
	info *types.Info
}

func recvObj(info *types.Info, fd *ast.FuncDecl) types.Object {
	if fd.Recv == nil || len(fd.Recv.List) == 0 || len(fd.Recv.List[0].Names) == 0 {
		return nil
	}
	return info.Defs[fd.Recv.List[0].Names[0]]
}

func params(info *types.Info, fd *ast.FuncDecl) []types.Object {
	var out []types.Object
	for _, f := range fd.Type.Params.List {
		for _, n := range f.Names {
			out = append(out, info.Defs[n])
		}
	}
	return out
}

func methodRecv(c *ast.CallExpr) ast.Expr {
	if sel, ok := ast.Unparen(c.Fun).(*ast.SelectorExpr); ok {
		return sel.X
	}
	return nil
}

// fieldOf: e is <recv>.<name>.
func fieldOf(info *types.Info, e ast.Expr, recv types.Object, name string) bool {
	if e == nil {
		return false
	}
	sel, ok := ast.Unparen(e).(*ast.SelectorExpr)
	return ok && sel.Sel.Name == name && recv != nil && core.ObjOf(info, sel.X) == recv
}

func headerFields(p *core.Prog) []*types.Var {
	pk := p.Pkg(core.PkgCache)
	o := pk.Types.Scope().Lookup("Header")
	if o == nil {
		return nil
	}
	st, ok := o.Type().Underlying().(*types.Struct)
	if !ok {
		return nil
	}
	var out []*types.Var
	for i := 0; i < st.NumFields(); i++ {
		out = append(out, st.Field(i))
	}
	return out
}

// C13 decides INT-1..INT-9 and REPLAY.
func C13(p *core.Prog, r *core.Report) {
	c := &ctx{p, r, p.Info(core.PkgCache)}
	r.Rule("INT-1", "Header.Validate compares every field of Header with a distinct parameter through bytes.Equal and returns nil only on the all-equal path", 4)
	r.Rule("INT-2", "in cache.Open the error of os.Open, ReadHeader, io.Copy, Validate and Seek is handled by one of the enumerated idioms (test-and-return, first-error-wins accumulation, accumulator definition); Validate receives Open's key parameters in the roles CreateLevel stores them, and the body digest", 9)
	r.Rule("INT-3", "the body digest is Sum after Reset and exactly io.Copy(h, <the opened file>) with no other I/O on the file between the header read and the copy; the decompressor is created after a seek to the end of the header", 3)
	r.Rule("INT-4", "ReadHeader accepts a header only when the read returned exactly the requested number of bytes (or uses io.ReadFull)", 1)
	r.Rule("INT-5", "the file name in Open and in CreateLevel is the same function of both key digests", 3)
	r.Rule("INT-6", "write protocol: CreateLevel writes the placeholder before creating the compressor; (*File).Close flushes the compressor, seeks past the header, hashes the body into BodySum and only then rewinds and writes the header; every header-length expression uses the number of Header fields as its factor; WriteTo and ReadHeader lay the fields out in declared order; the placeholder is all zero", 9)
	r.Rule("INT-8", "errors inside (*File).Close and CreateLevel follow the enumerated idioms, and a failed finalisation removes the entry", 10)
	r.Rule("INT-9", "(*File).Write/Read pass their buffer to the compressor/decompressor and return its result", 2)
	r.NotDecided = append(r.NotDecided, "collision resistance of the digest", "compress/flate's round trip", "the file system's behaviour at a crash point", "byte-level enumeration of corruptions (needs execution)")
	r.Assumptions = append(r.Assumptions, "hash.Hash.Write never returns an error (documented)", "bytes.Equal, io.Copy, os.File.Seek behave as documented", "field and method names of cmd/cache (File.f/h/hd/rd/wr, Header.*Sum) are the anchors; a rename is reported as anchor-unresolved")

	hf := headerFields(p)
	if len(hf) == 0 {
		r.Und("INT-1", "cache.Header|anchor", "-", "anchor-unresolved: struct cache.Header not found")
		return
	}
	// Validate is decided on the program as inlined and, if that leaves a problem and helpers were
	// inlined, on the program before inlining: a comparison helper (`sameSum(a, b)`) is recognisable as a
	// call, its body spread over Validate is not. Both are the same program.
	var role map[int]*types.Var
	trial := core.NewReport(r.Property)
	(&ctx{p, trial, c.info}).validate(hf)
	problems := false
	for _, o := range trial.Obs {
		if o.Status == core.Violation || o.Status == core.Undecided {
			problems = true
		}
	}
	if problems && p.Pre != nil {
		hfPre := headerFields(p.Pre)
		rolePre := (&ctx{p.Pre, r, p.Pre.Info(core.PkgCache)}).validate(hfPre)
		role = map[int]*types.Var{}
		for i, f := range rolePre {
			for _, g := range hf {
				if f != nil && g.Name() == f.Name() {
					role[i] = g
				}
			}
		}
	} else {
		role = c.validate(hf)
	}
	c.open(hf, role)
	c.readHeader(hf)
	c.names()
	c.protocol(hf)
	c.errors()
	c.passthrough()

	tmp := core.NewReport("C13")
	cachekey.TryCacheRules(p, tmp)
	r.Rule("REPLAY", tmp.Rules["REPLAY"], 2)
	// the key an entry is stored and looked up under is computed in TryCache (cmd/gts/io.go is one of C13's
	// anchors): "an entry keyed for a different input" presupposes that the root digest is the digest of the input
	r.Rule("KEY-5", tmp.Rules["KEY-5"], 6)
	for _, o := range tmp.Obs {
		if o.Rule == "REPLAY" || o.Rule == "KEY-5" {
			r.Obs = append(r.Obs, o)
		}
	}
	r.Fn("main.ioDelegate.TryCache")
}

// validate decides INT-1 and returns, per parameter index, the Header field it is compared with.
func (c *ctx) validate(hf []*types.Var) map[int]*types.Var {
	p, r, info := c.p, c.r, c.info
	fn := "cache.Header.Validate"
	fd := p.FuncDecl(core.PkgCache, "Header.Validate")
	if fd == nil || fd.Body == nil {
		r.Und("INT-1", fn+"|anchor", "-", "anchor-unresolved")
		return nil
	}
	r.Fn(fn)
	recv := recvObj(info, fd)
	ps := params(info, fd)
	role := map[int]*types.Var{}
	// an equality test between a header field and a parameter: bytes.Equal(a, b), or the
	// comparison string(a) == string(b) / string(a) != string(b) (the documented meaning of bytes.Equal)
	eqField := map[ast.Node]*types.Var{}
	eqNeg := map[ast.Node]bool{} // the node is true when the two are NOT equal
	note := func(n ast.Node, x, y ast.Expr, neg bool) {
		var fld *types.Var
		pi := -1
		for _, a := range []ast.Expr{x, y} {
			a = ast.Unparen(a)
			if cv, ok := a.(*ast.CallExpr); ok && core.IsConversion(info, cv) && len(cv.Args) == 1 {
				a = ast.Unparen(cv.Args[0])
			}
			if sel, ok := a.(*ast.SelectorExpr); ok && core.ObjOf(info, sel.X) == recv {
				fld, _ = info.Uses[sel.Sel].(*types.Var)
			}
			for i, po := range ps {
				if core.ObjOf(info, a) == po {
					pi = i
				}
			}
		}
		if fld != nil && pi >= 0 {
			eqField[n] = fld
			eqNeg[n] = neg
			if old, dup := role[pi]; dup && old != fld {
				r.Bad("INT-1", fn+"|param-reuse", p.Pos(n.Pos()), "one parameter is compared with two header fields")
			}
			role[pi] = fld
		}
	}
	ast.Inspect(fd.Body, func(n ast.Node) bool {
		switch x := n.(type) {
		case *ast.CallExpr:
			if core.IsCallTo(info, x, "bytes.Equal") && len(x.Args) == 2 {
				note(x, x.Args[0], x.Args[1], false)
			} else if len(x.Args) == 2 && isSliceEqual(p, info, x) {
				note(x, x.Args[0], x.Args[1], false)
			}
		case *ast.BinaryExpr:
			if x.Op == token.EQL || x.Op == token.NEQ {
				isStrConv := func(e ast.Expr) bool {
					cv, ok := ast.Unparen(e).(*ast.CallExpr)
					if !ok || !core.IsConversion(info, cv) {
						return false
					}
					b, ok := info.Types[cv].Type.Underlying().(*types.Basic)
					return ok && b.Kind() == types.String
				}
				if isStrConv(x.X) && isStrConv(x.Y) {
					note(x, x.X, x.Y, x.Op == token.NEQ)
				}
			}
		}
		return true
	})
	covered := map[*types.Var]bool{}
	for _, f := range role {
		covered[f] = true
	}
	for _, f := range hf {
		key := fn + "|field=" + f.Name()
		if covered[f] {
			r.Ok("INT-1", key, p.Pos(fd.Pos()), "compared with a parameter through bytes.Equal")
		} else {
			r.Bad("INT-1", key, p.Pos(fd.Pos()), "header field "+f.Name()+" is never compared: a corrupted or foreign "+f.Name()+" validates")
		}
	}
	// `return nil` only on the all-equal path
	fl := core.NewFlow(info, fd.Body)
	idx := map[*types.Var]int{}
	for i, f := range hf {
		idx[f] = i
	}
	all := (1 << len(hf)) - 1
	bad := false
	core.Scan(fl, fl.Entry(), 0, core.Stepper[int]{
		Node: func(s int, n ast.Node) (int, bool) { return s, false },
		Edge: func(s int, cond ast.Expr, taken bool) int {
			core.Facts(cond, taken, func(atom ast.Expr, val bool) {
				if f := eqField[ast.Unparen(atom)]; f != nil && val != eqNeg[ast.Unparen(atom)] {
					s |= 1 << idx[f]
				}
			})
			return s
		},
		Exit: func(s int, b *cfg.Block, last ast.Node) {
			rs, ok := last.(*ast.ReturnStmt)
			if !ok || len(rs.Results) != 1 {
				bad = true
				return
			}
			if core.IsNil(info, rs.Results[0]) && s != all {
				bad = true
			}
		},
	})
	if bad {
		r.Bad("INT-1", fn+"|nil-only-if-all-equal", p.Pos(fd.Pos()), "Validate can return nil on a path where not every field compared equal")
	} else {
		r.Ok("INT-1", fn+"|nil-only-if-all-equal", p.Pos(fd.Pos()), "nil is returned only after all bytes.Equal tests were true")
	}
	return role
}

func okKind(k string) bool {
	return k == "if-return" || k == "accumulate" || k == "define-acc" || k == "returned"
}

func (c *ctx) open(hf []*types.Var, role map[int]*types.Var) {
	p, r, info := c.p, c.r, c.info
	fn := "cache.Open"
	fd := p.FuncDecl(core.PkgCache, "Open")
	if fd == nil || fd.Body == nil {
		r.Und("INT-2", fn+"|anchor", "-", "anchor-unresolved")
		return
	}
	r.Fn(fn)
	ps := params(info, fd)
	asg := core.Assigns(info, fd.Body)
	var osOpen, rdHdr, validate, seek, newRd *ast.CallExpr
	var copies []*ast.CallExpr
	for _, call := range core.Calls(fd.Body) {
		switch core.FuncID(core.Callee(info, call)) {
		case "os.Open":
			osOpen = call
		case core.PkgCache + ".ReadHeader":
			rdHdr = call
		case core.PkgCache + ".Header.Validate":
			validate = call
		case "os.File.Seek":
			seek = call
		case "io.Copy", "io.CopyN", "io.CopyBuffer":
			copies = append(copies, call)
		case "compress/flate.NewReader":
			newRd = call
		}
	}
	var fileObj types.Object
	if osOpen != nil {
		for o, as := range asg {
			for _, a := range as {
				if a.Call == osOpen && a.Idx == 0 {
					fileObj = o
				}
			}
		}
	}
	if osOpen == nil || rdHdr == nil || validate == nil || seek == nil || fileObj == nil {
		r.Und("INT-2", fn+"|shape", p.Pos(fd.Pos()), "Open does not contain os.Open, ReadHeader, Header.Validate and Seek calls")
		return
	}
	// the hashing copy
	var hObj types.Object
	if len(ps) >= 2 {
		hObj = ps[1]
	}
	var cp *ast.CallExpr
	for _, x := range copies {
		if len(x.Args) >= 2 && core.ObjOf(info, x.Args[0]) == hObj {
			cp = x
		}
	}
	check := func(name string, call *ast.CallExpr) {
		if call == nil {
			r.Und("INT-2", fn+"|err-"+name, p.Pos(fd.Pos()), "call not found")
			return
		}
		u := core.ClassifyErr(info, fd.Body, call)
		if okKind(u.Kind) {
			r.Ok("INT-2", fn+"|err-"+name, p.Pos(call.Pos()), "error handled: "+u.Kind)
		} else {
			r.Bad("INT-2", fn+"|err-"+name, p.Pos(call.Pos()), fmt.Sprintf("the error of %s does not reach Open's error result (%s %s): Open can succeed although this step failed", name, u.Kind, u.Why))
		}
	}
	check("os.Open", osOpen)
	check("ReadHeader", rdHdr)
	check("io.Copy", cp)
	check("Validate", validate)
	check("Seek", seek)
	// Validate on the header that was read
	hdObj := types.Object(nil)
	for o, as := range asg {
		for _, a := range as {
			if a.Call == rdHdr && a.Idx == 0 {
				hdObj = o
			}
		}
	}
	if core.ObjOf(info, methodRecv(validate)) == hdObj && hdObj != nil {
		r.Ok("INT-2", fn+"|validate-recv", p.Pos(validate.Pos()), "Validate is called on the header returned by ReadHeader")
	} else {
		r.Bad("INT-2", fn+"|validate-recv", p.Pos(validate.Pos()), "Validate is not called on the header that was read from the file")
	}
	// argument roles
	crt := p.FuncDecl(core.PkgCache, "CreateLevel")
	fieldOfParam := map[int]*types.Var{} // CreateLevel param index -> Header field it initialises
	if crt != nil && crt.Body != nil {
		cps := params(info, crt)
		ast.Inspect(crt.Body, func(n ast.Node) bool {
			cl, ok := n.(*ast.CompositeLit)
			if !ok || core.NamedOf(info.Types[cl].Type) != core.PkgCache+".Header" {
				return true
			}
			for i, el := range cl.Elts {
				var val ast.Expr = el
				var fld *types.Var
				if kv, ok := el.(*ast.KeyValueExpr); ok {
					val = kv.Value
					fld, _ = info.Uses[kv.Key.(*ast.Ident)].(*types.Var)
				} else if i < len(hf) {
					fld = hf[i]
				}
				for k, po := range cps {
					if core.ObjOf(info, val) == po && fld != nil {
						fieldOfParam[k] = fld
					}
				}
			}
			return true
		})
	}
	var bsum *ast.CallExpr
	for i, a := range validate.Args {
		fld := role[i]
		if fld == nil {
			r.Und("INT-2", fmt.Sprintf("%s|validate-arg#%d", fn, i), p.Pos(a.Pos()), "Validate's parameter is not compared with a header field")
			continue
		}
		key := fn + "|validate-arg=" + fld.Name()
		// parameter of Open?
		pi := -1
		for k, po := range ps {
			if core.ObjOf(info, a) == po {
				pi = k
			}
		}
		if pi >= 0 {
			if fieldOfParam[pi] == fld {
				r.Ok("INT-2", key, p.Pos(a.Pos()), fmt.Sprintf("Open's parameter #%d is checked against %s, the field CreateLevel stores it in", pi, fld.Name()))
			} else {
				r.Bad("INT-2", key, p.Pos(a.Pos()), fmt.Sprintf("header field %s is validated against Open's parameter #%d, which CreateLevel stores in a different field: an entry keyed for another input validates", fld.Name(), pi))
			}
			continue
		}
		// otherwise it must be the body digest
		sc, _ := core.Origin(info, asg, a).(*ast.CallExpr)
		if sc != nil && core.IsCallTo(info, sc, "hash.Hash.Sum") && core.ObjOf(info, methodRecv(sc)) == hObj {
			bsum = sc
			stored := false
			for _, f := range fieldOfParam {
				if f == fld {
					stored = true
				}
			}
			if stored {
				r.Bad("INT-2", key, p.Pos(a.Pos()), "a key field is validated against the body digest")
			} else {
				r.Ok("INT-2", key, p.Pos(a.Pos()), "the remaining field is checked against the recomputed body digest")
			}
		} else {
			r.Bad("INT-2", key, p.Pos(a.Pos()), "Validate argument is neither one of Open's key parameters nor the recomputed body digest")
		}
	}
	// INT-3
	fl := core.NewFlow(info, fd.Body)
	if bsum == nil || cp == nil {
		r.Bad("INT-3", fn+"|body-digest", p.Pos(fd.Pos()), "no body digest (h.Sum after io.Copy(h, file)) reaches Validate")
	} else {
		srcOK := false
		if len(cp.Args) == 2 && core.IsCallTo(info, cp, "io.Copy") {
			src := core.Origin(info, asg, cp.Args[1])
			if core.ObjOf(info, src) == fileObj {
				srcOK = true
			}
			if bc, ok := src.(*ast.CallExpr); ok && core.IsCallTo(info, bc, "bufio.NewReader") && len(bc.Args) == 1 && core.ObjOf(info, bc.Args[0]) == fileObj {
				srcOK = true
			}
		}
		if srcOK {
			r.Ok("INT-3", fn+"|whole-body", p.Pos(cp.Pos()), "the digest source is the opened file itself, copied to EOF")
		} else {
			r.Bad("INT-3", fn+"|whole-body", p.Pos(cp.Pos()), "the body digest does not cover the file to its end (limited/partial copy or a different reader): a truncated or extended entry validates")
		}
		// Reset -> Copy -> Sum, nothing else
		state := 0
		bad := ""
		reached := false
		core.Scan(fl, fl.Find(rdHdr), 0, core.Stepper[int]{
			Node: func(s int, n ast.Node) (int, bool) {
				for _, x := range core.NodeCalls(n) {
					id := core.FuncID(core.Callee(info, x))
					onH := core.ObjOf(info, methodRecv(x)) == hObj && hObj != nil
					switch {
					case x == bsum:
						reached = true
						if s != 2 {
							bad = "the digest is not Sum after Reset and exactly one copy of the file"
						}
						return s, true
					case id == "hash.Hash.Reset" && onH:
						s = 1
					case x == cp:
						if s == 1 {
							s = 2
						} else {
							s = 3
						}
					case id == "io.Writer.Write" && onH:
						s = 3
					case x != rdHdr && x != cp && (core.ObjOf(info, methodRecv(x)) == fileObj || argIs(info, x, fileObj)):
						if s < 2 {
							bad = "the file is read or repositioned between the header read and the hashing copy"
						}
					}
				}
				return s, false
			},
		})
		_ = state
		switch {
		case !reached:
			r.Und("INT-3", fn+"|body-digest", p.Pos(bsum.Pos()), "Sum not reachable from ReadHeader")
		case bad != "":
			r.Bad("INT-3", fn+"|body-digest", p.Pos(bsum.Pos()), bad)
		default:
			r.Ok("INT-3", fn+"|body-digest", p.Pos(bsum.Pos()), "body digest = Sum after Reset and io.Copy(h, file) starting right after the header")
		}
	}
	// decompressor after seek(3*size)
	if newRd == nil {
		r.Und("INT-3", fn+"|reader-after-seek", p.Pos(fd.Pos()), "no flate.NewReader found")
	} else {
		okSeek := core.ObjOf(info, methodRecv(seek)) == fileObj && fl.Dominates(fl.Find(seek), fl.Find(newRd)) && len(newRd.Args) == 1 && core.ObjOf(info, newRd.Args[0]) == fileObj
		if okSeek {
			r.Ok("INT-3", fn+"|reader-after-seek", p.Pos(newRd.Pos()), "the decompressor reads the opened file after it was positioned at the end of the header")
		} else {
			r.Bad("INT-3", fn+"|reader-after-seek", p.Pos(newRd.Pos()), "the decompressor is not created over the opened file after the seek past the header")
		}
	}
	c.factor(fn+"|seek", seek.Args[0], len(hf), fd)
}

func argIs(info *types.Info, c *ast.CallExpr, o types.Object) bool {
	for _, a := range c.Args {
		if core.ObjOf(info, a) == o && o != nil {
			return true
		}
	}
	return false
}

// factor checks that a header-length expression is <digest size> * numFields.
func (c *ctx) factor(key string, e ast.Expr, want int, fd *ast.FuncDecl) {
	got, ok := multiplier(c.info, core.Assigns(c.info, fd.Body), e)
	switch {
	case !ok:
		c.r.Und("INT-6", key+"|factor", c.p.Pos(e.Pos()), "header length is not of the form size*constant")
	case got == int64(want):
		c.r.Ok("INT-6", key+"|factor", c.p.Pos(e.Pos()), fmt.Sprintf("header length = %d digests = number of Header fields", got))
	default:
		c.r.Bad("INT-6", key+"|factor", c.p.Pos(e.Pos()), fmt.Sprintf("header length uses factor %d but Header has %d fields: reader and writer disagree on where the body starts", got, want))
	}
}

// multiplier evaluates e as k * <size-like value> and returns k.
func multiplier(info *types.Info, asg map[types.Object][]core.Assign, e ast.Expr) (int64, bool) {
	e = core.Origin(info, asg, e)
	switch x := ast.Unparen(e).(type) {
	case *ast.BinaryExpr:
		if x.Op == token.MUL {
			if k, ok := core.ConstInt(info, x.Y); ok {
				m, ok2 := multiplier(info, asg, x.X)
				return k * m, ok2
			}
			if k, ok := core.ConstInt(info, x.X); ok {
				m, ok2 := multiplier(info, asg, x.Y)
				return k * m, ok2
			}
		}
		return 0, false
	case *ast.CallExpr:
		if core.IsConversion(info, x) && len(x.Args) == 1 {
			return multiplier(info, asg, x.Args[0])
		}
		if core.IsCallTo(info, x, "hash.Hash.Size") {
			return 1, true
		}
		return 0, false
	case *ast.Ident:
		if _, ok := core.ConstInt(info, x); ok {
			return 0, false
		}
		return 1, true // a parameter or size variable
	}
	return 0, false
}

func (c *ctx) readHeader(hf []*types.Var) {
	p, r, info := c.p, c.r, c.info
	fn := "cache.ReadHeader"
	fd := p.FuncDecl(core.PkgCache, "ReadHeader")
	if fd == nil || fd.Body == nil {
		r.Und("INT-4", fn+"|anchor", "-", "anchor-unresolved")
		return
	}
	r.Fn(fn)
	ps := params(info, fd)
	asg := core.Assigns(info, fd.Body)
	var rd *ast.CallExpr
	full := false
	for _, call := range core.Calls(fd.Body) {
		id := core.FuncID(core.Callee(info, call))
		if id == "io.ReadFull" && len(call.Args) == 2 && core.ObjOf(info, call.Args[0]) == ps[0] {
			rd, full = call, true
		}
		if id == "io.Reader.Read" && core.ObjOf(info, methodRecv(call)) == ps[0] {
			rd = call
		}
	}
	if rd == nil {
		r.Und("INT-4", fn+"|read", p.Pos(fd.Pos()), "no read from the reader parameter found")
		return
	}
	bufArg := rd.Args[len(rd.Args)-1]
	buf := core.ObjOf(info, bufArg)
	// buffer length factor
	if buf != nil && len(asg[buf]) == 1 && asg[buf][0].RHS != nil {
		if mk, ok := ast.Unparen(asg[buf][0].RHS).(*ast.CallExpr); ok && core.IsBuiltin(info, mk, "make") && len(mk.Args) >= 2 {
			c.factor(fn+"|make", mk.Args[1], len(hf), fd)
		}
	}
	u := core.ClassifyErr(info, fd.Body, rd)
	if !okKind(u.Kind) {
		r.Bad("INT-4", fn+"|short-read", p.Pos(rd.Pos()), "the read error is not returned ("+u.Kind+")")
		return
	}
	if full {
		r.Ok("INT-4", fn+"|short-read", p.Pos(rd.Pos()), "io.ReadFull with its error returned")
	} else {
		var nObj types.Object
		for o, as := range asg {
			for _, a := range as {
				if a.Call == rd && a.Idx == 0 {
					nObj = o
				}
			}
		}
		fl := core.NewFlow(info, fd.Body)
		bad := false
		isLenBuf := func(e ast.Expr) bool {
			lc, ok := ast.Unparen(e).(*ast.CallExpr)
			return ok && core.IsBuiltin(info, lc, "len") && len(lc.Args) == 1 && core.ObjOf(info, lc.Args[0]) == buf
		}
		core.Scan(fl, fl.Find(rd), false, core.Stepper[bool]{
			Node: func(s bool, n ast.Node) (bool, bool) { return s, false },
			Edge: func(s bool, cond ast.Expr, taken bool) bool {
				core.Facts(cond, taken, func(atom ast.Expr, val bool) {
					be, ok := atom.(*ast.BinaryExpr)
					if !ok || nObj == nil {
						return
					}
					x, y, op := be.X, be.Y, be.Op
					if isLenBuf(x) && core.ObjOf(info, y) == nObj {
						x, y = y, x
						switch op {
						case token.LSS:
							op = token.GTR
						case token.GTR:
							op = token.LSS
						case token.LEQ:
							op = token.GEQ
						case token.GEQ:
							op = token.LEQ
						}
					}
					if core.ObjOf(info, x) != nObj || !isLenBuf(y) {
						return
					}
					if (op == token.NEQ && !val) || (op == token.EQL && val) || (op == token.LSS && !val) || (op == token.GEQ && val) {
						s = true
					}
				})
				return s
			},
			Exit: func(s bool, b *cfg.Block, last ast.Node) {
				rs, ok := last.(*ast.ReturnStmt)
				if !ok || len(rs.Results) != 2 {
					return
				}
				if core.IsNil(info, rs.Results[1]) && !s {
					bad = true
				}
			},
		})
		if bad {
			r.Bad("INT-4", fn+"|short-read", p.Pos(rd.Pos()), "a header is returned without checking that the read filled the buffer: a torn header (partial write) is accepted with trailing zero bytes")
		} else {
			r.Ok("INT-4", fn+"|short-read", p.Pos(rd.Pos()), "success is returned only when the byte count equals the buffer length")
		}
	}
	// layout: field k gets p[k*size:(k+1)*size]
	var lit *ast.CompositeLit
	for _, rs := range core.Returns(fd.Body) {
		if len(rs.Results) == 2 && core.IsNil(info, rs.Results[1]) {
			lit, _ = core.Origin(info, asg, rs.Results[0]).(*ast.CompositeLit)
		}
	}
	if lit == nil {
		r.Und("INT-6", fn+"|layout", p.Pos(fd.Pos()), "the returned header is not a composite literal")
		return
	}
	okLayout := len(lit.Elts) == len(hf)
	for i, el := range lit.Elts {
		var val ast.Expr = el
		k := i
		if kv, ok := el.(*ast.KeyValueExpr); ok {
			val = kv.Value
			k = -1
			for j, f := range hf {
				if info.Uses[kv.Key.(*ast.Ident)] == f {
					k = j
				}
			}
		}
		se, ok := ast.Unparen(val).(*ast.SliceExpr)
		if !ok || core.ObjOf(info, se.X) != buf || k < 0 {
			okLayout = false
			continue
		}
		lo, hi := int64(0), int64(len(hf))
		if se.Low != nil {
			v, ok := multiplier(info, asg, se.Low)
			if !ok {
				okLayout = false
			}
			lo = v
		}
		if se.High != nil {
			v, ok := multiplier(info, asg, se.High)
			if !ok {
				okLayout = false
			}
			hi = v
		}
		if lo != int64(k) || hi != int64(k+1) {
			okLayout = false
		}
	}
	if okLayout {
		r.Ok("INT-6", fn+"|layout", p.Pos(lit.Pos()), "field k is read from bytes [k*size, (k+1)*size)")
	} else {
		r.Bad("INT-6", fn+"|layout", p.Pos(lit.Pos()), "header fields are not read from consecutive size-byte slots in declared order")
	}
}

// canon renders an expression with locals inlined and parameters numbered.
func canon(info *types.Info, fd *ast.FuncDecl, asg map[types.Object][]core.Assign, e ast.Expr, depth int) string {
	if depth > 12 {
		return "?"
	}
	e = ast.Unparen(e)
	switch x := e.(type) {
	case *ast.Ident:
		o := core.ObjOf(info, x)
		if i := core.ParamIndex(info, fd, o); i >= -1 {
			return fmt.Sprintf("$%d", i)
		}
		if v, ok := core.ConstInt(info, x); ok {
			return fmt.Sprint(v)
		}
		if core.IsNil(info, x) {
			return "nil"
		}
		if as := asg[o]; len(as) == 1 && as[0].RHS != nil {
			return canon(info, fd, asg, as[0].RHS, depth+1)
		}
		if _, isVar := o.(*types.Var); !isVar && o != nil {
			return o.Name()
		}
		return "?" + x.Name
	case *ast.BasicLit:
		return x.Value
	case *ast.SelectorExpr:
		if o, ok := info.Uses[x.Sel].(*types.Func); ok {
			return core.FuncID(o)
		}
		return canon(info, fd, asg, x.X, depth+1) + "." + x.Sel.Name
	case *ast.CallExpr:
		var args []string
		for _, a := range x.Args {
			args = append(args, canon(info, fd, asg, a, depth+1))
		}
		ell := ""
		if x.Ellipsis.IsValid() {
			ell = "..."
		}
		name := ""
		if fn := core.Callee(info, x); fn != nil {
			name = core.FuncID(fn)
			if rx := methodRecv(x); rx != nil && info.Selections[ast.Unparen(x.Fun).(*ast.SelectorExpr)] != nil {
				name = canon(info, fd, asg, rx, depth+1) + "." + fn.Name()
				if fn.Name() == "Sum" {
					// the digest's content: the calls on the same receiver since the last Reset
					var ev []string
					ro := core.ObjOf(info, rx)
					for _, c := range core.Calls(fd.Body) {
						if c.End() >= x.Pos() || core.ObjOf(info, methodRecv(c)) != ro || ro == nil {
							continue
						}
						cf := core.Callee(info, c)
						if cf == nil {
							continue
						}
						if cf.Name() == "Reset" {
							ev = nil
							continue
						}
						var as []string
						for _, a := range c.Args {
							as = append(as, canon(info, fd, asg, a, depth+1))
						}
						ev = append(ev, cf.Name()+"("+strings.Join(as, ",")+")")
					}
					name += "[" + strings.Join(ev, ";") + "]"
				}
			}
		} else if id, ok := ast.Unparen(x.Fun).(*ast.Ident); ok {
			name = id.Name
		} else {
			name = "call"
		}
		return name + "(" + strings.Join(args, ",") + ell + ")"
	}
	return "?"
}

func (c *ctx) names() {
	p, r, info := c.p, c.r, c.info
	canonName := map[string]string{}
	for _, fname := range []string{"Open", "CreateLevel"} {
		fd := p.FuncDecl(core.PkgCache, fname)
		if fd == nil || fd.Body == nil {
			r.Und("INT-5", "cache."+fname+"|anchor", "-", "anchor-unresolved")
			return
		}
		asg := core.Assigns(info, fd.Body)
		var open *ast.CallExpr
		for _, call := range core.Calls(fd.Body) {
			if core.IsCallTo(info, call, "os.Open", "os.Create", "os.OpenFile") {
				open = call
			}
		}
		if open == nil {
			r.Und("INT-5", "cache."+fname+"|name", p.Pos(fd.Pos()), "no os.Open/os.Create call found")
			return
		}
		cn := canon(info, fd, asg, open.Args[0], 0)
		canonName[fname] = cn
		ps := params(info, fd)
		need := []string{}
		for i := range ps {
			if i >= 2 && i <= 3 {
				need = append(need, fmt.Sprintf("$%d", i))
			}
		}
		missing := ""
		for _, n := range need {
			if !strings.Contains(cn, n) {
				missing += " " + n
			}
		}
		key := "cache." + fname + "|name-binds-key"
		if missing == "" {
			r.Ok("INT-5", key, p.Pos(open.Pos()), "file name = "+cn)
		} else {
			r.Bad("INT-5", key, p.Pos(open.Pos()), "the file name does not depend on key parameter(s)"+missing+": entries for different inputs or arguments collide ("+cn+")")
		}
	}
	if canonName["Open"] == canonName["CreateLevel"] {
		r.Ok("INT-5", "cache|same-name", "-", "Open and CreateLevel compute the name with the same expression")
	} else {
		r.Bad("INT-5", "cache|same-name", "-", fmt.Sprintf("Open looks an entry up under %s but CreateLevel stores it under %s", canonName["Open"], canonName["CreateLevel"]))
	}
}

func (c *ctx) protocol(hf []*types.Var) {
	p, r, info := c.p, c.r, c.info
	// CreateLevel: placeholder before compressor
	if fd := p.FuncDecl(core.PkgCache, "CreateLevel"); fd != nil && fd.Body != nil {
		fn := "cache.CreateLevel"
		r.Fn(fn)
		var wr, nw *ast.CallExpr
		for _, call := range core.Calls(fd.Body) {
			switch core.FuncID(core.Callee(info, call)) {
			case "os.File.Write":
				wr = call
			case "compress/flate.NewWriter":
				nw = call
			}
		}
		if wr == nil || nw == nil {
			early := false
			for _, call := range core.Calls(fd.Body) {
				if core.IsCallTo(info, call, core.PkgCache+".Header.WriteTo") && (nw == nil || call.Pos() < nw.Pos()) {
					early = true
					r.Bad("INT-6", fn+"|placeholder-invalid", p.Pos(call.Pos()), "a real header is written before the body instead of an all-zero placeholder: a writer interrupted before any compressed byte reaches the file leaves a self-consistent entry for an empty body that Open accepts")
				}
			}
			if !early {
				r.Und("INT-6", fn+"|placeholder", p.Pos(fd.Pos()), "no placeholder write / compressor creation found")
			}
		} else {
			fl := core.NewFlow(info, fd.Body)
			if fl.Dominates(fl.Find(wr), fl.Find(nw)) && core.ObjOf(info, methodRecv(wr)) == core.ObjOf(info, nw.Args[0]) {
				r.Ok("INT-6", fn+"|placeholder", p.Pos(wr.Pos()), "the placeholder header is written to the file before the compressor is attached to it")
			} else {
				r.Bad("INT-6", fn+"|placeholder", p.Pos(nw.Pos()), "the compressor is attached before the header placeholder is written: body bytes land inside the header area")
			}
			if mk, ok := ast.Unparen(wr.Args[0]).(*ast.CallExpr); ok && core.IsBuiltin(info, mk, "make") && len(mk.Args) >= 2 {
				c.factor(fn+"|placeholder", mk.Args[1], len(hf), fd)
				r.Ok("INT-6", fn+"|placeholder-invalid", p.Pos(wr.Pos()), "the placeholder is a fresh all-zero buffer: it cannot validate against any digest, so a writer interrupted before Close leaves an entry Open rejects")
			} else {
				r.Bad("INT-6", fn+"|placeholder-invalid", p.Pos(wr.Pos()), "the bytes written before the body are not an all-zero placeholder: if they form a self-consistent header, a writer interrupted before any body byte reaches the file leaves an entry that Open accepts")
			}
		}
		// no other write to the file (e.g. a real header through WriteTo) before the compressor exists
		if nw != nil {
			for _, call := range core.Calls(fd.Body) {
				if call.Pos() < nw.Pos() && core.IsCallTo(info, call, core.PkgCache+".Header.WriteTo") {
					r.Bad("INT-6", fn+"|placeholder-invalid", p.Pos(call.Pos()), "a real header is written before the body: a writer interrupted before any compressed byte reaches the file leaves a self-consistent entry for an empty body that Open accepts")
				}
			}
		}
	}
	// WriteTo: fields in declared order
	if fd := p.FuncDecl(core.PkgCache, "Header.WriteTo"); fd != nil && fd.Body != nil {
		fn := "cache.Header.WriteTo"
		r.Fn(fn)
		recv := recvObj(info, fd)
		asg := core.Assigns(info, fd.Body)
		var wcall *ast.CallExpr
		for _, call := range core.Calls(fd.Body) {
			if core.FuncID(core.Callee(info, call)) == "io.Writer.Write" {
				wcall = call
			}
		}
		var order []string
		var flat func(e ast.Expr)
		flat = func(e ast.Expr) {
			e = core.Origin(info, asg, e)
			if call, ok := e.(*ast.CallExpr); ok && core.IsBuiltin(info, call, "append") {
				for _, a := range call.Args {
					flat(a)
				}
				return
			}
			if sel, ok := ast.Unparen(e).(*ast.SelectorExpr); ok && core.ObjOf(info, sel.X) == recv {
				order = append(order, sel.Sel.Name)
				return
			}
			order = append(order, "?")
		}
		if wcall != nil {
			flat(wcall.Args[0])
		}
		var want []string
		for _, f := range hf {
			want = append(want, f.Name())
		}
		if wcall != nil && strings.Join(order, ",") == strings.Join(want, ",") {
			r.Ok("INT-6", fn+"|layout", p.Pos(wcall.Pos()), "header written as "+strings.Join(order, "+"))
		} else {
			r.Bad("INT-6", fn+"|layout", p.Pos(fd.Pos()), "the header is not written as the fields in declared order ("+strings.Join(order, ",")+"): ReadHeader reads them back into the wrong fields")
		}
		if wcall != nil {
			u := core.ClassifyErr(info, fd.Body, wcall)
			if okKind(u.Kind) {
				r.Ok("INT-8", fn+"|err-Write", p.Pos(wcall.Pos()), "error handled: "+u.Kind)
			} else {
				r.Bad("INT-8", fn+"|err-Write", p.Pos(wcall.Pos()), "header write error dropped ("+u.Kind+")")
			}
		}
	}
	// (*File).Close ordering
	fd := p.FuncDecl(core.PkgCache, "File.Close")
	fn := "cache.File.Close"
	if fd == nil || fd.Body == nil {
		r.Und("INT-6", fn+"|anchor", "-", "anchor-unresolved")
		return
	}
	r.Fn(fn)
	recv := recvObj(info, fd)
	type st struct{ flushed, pastHeader, reset, copied, summed, rewound, written, bad, failing, retNil, retSet, dead bool }
	fl := core.NewFlow(info, fd.Body)
	var firstBad string
	var badPos token.Pos
	var flushCall, writeTo *ast.CallExpr
	fail := func(s *st, pos token.Pos, why string) {
		if !s.bad && firstBad == "" {
			firstBad, badPos = why, pos
		}
		s.bad = true
	}
	isFF := func(e ast.Expr) bool { return fieldOf(info, e, recv, "f") }
	isFH := func(e ast.Expr) bool { return fieldOf(info, e, recv, "h") }
	var seekBody ast.Expr
	step := func(s st, n ast.Node) (st, bool) {
		if _, isDefer := n.(*ast.DeferStmt); isDefer {
			return s, false
		}
		for _, x := range core.NodeCalls(n) {
			id := core.FuncID(core.Callee(info, x))
			rx := methodRecv(x)
			switch {
			case id == "io.Closer.Close" && fieldOf(info, rx, recv, "wr"):
				s.flushed = true
				flushCall = x
			case id == "os.File.Seek" && isFF(rx):
				off, isConst := core.ConstInt(info, x.Args[0])
				wh, whOK := core.ConstInt(info, x.Args[1])
				if whOK && wh == 0 && isConst && off == 0 {
					if !s.copied {
						fail(&s, x.Pos(), "the file is rewound before the body was hashed")
					}
					s.rewound, s.pastHeader = true, false
				} else if whOK && wh == 0 {
					s.pastHeader, s.rewound = true, false
					seekBody = x.Args[0]
				} else {
					s.pastHeader, s.rewound = false, false
				}
			case id == "hash.Hash.Reset" && isFH(rx):
				s.reset, s.copied = true, false
			case id == "io.Copy" && len(x.Args) == 2 && isFH(x.Args[0]):
				if !isFF(x.Args[1]) {
					fail(&s, x.Pos(), "the body digest is not computed over the cache file itself")
				}
				if !s.flushed {
					fail(&s, x.Pos(), "the body is hashed before the compressor is closed: buffered bytes are missing from the digest")
				}
				if !s.pastHeader {
					fail(&s, x.Pos(), "the body is hashed without first seeking past the header")
				}
				if !s.reset {
					fail(&s, x.Pos(), "the hash is not reset before the body is hashed")
				}
				s.copied, s.reset, s.pastHeader = true, false, false
			case id == "io.Writer.Write" && isFH(rx):
				s.reset, s.copied = false, false
			case id == core.PkgCache+".Header.WriteTo" && fieldOf(info, rx, recv, "hd"):
				writeTo = x
				if !s.summed {
					fail(&s, x.Pos(), "the header is written before BodySum was set from the body digest")
				}
				if !s.rewound {
					fail(&s, x.Pos(), "the header is not written at offset 0")
				}
				if len(x.Args) != 1 || !isFF(x.Args[0]) {
					fail(&s, x.Pos(), "the header is not written to the cache file")
				}
				s.written = true
			case (id == "os.File.Write" || id == "os.File.Read") && isFF(rx):
				s.rewound, s.pastHeader = false, false
			}
		}
		if as, ok := n.(*ast.AssignStmt); ok && len(as.Lhs) == 1 && len(as.Rhs) == 1 {
			if sel, ok := ast.Unparen(as.Lhs[0]).(*ast.SelectorExpr); ok && fieldOf(info, sel.X, recv, "hd") {
				sc, _ := ast.Unparen(as.Rhs[0]).(*ast.CallExpr)
				isBody := sel.Sel.Name == hf[len(hf)-1].Name()
				if isBody && sc != nil && core.IsCallTo(info, sc, "hash.Hash.Sum") && isFH(methodRecv(sc)) {
					if !s.copied {
						fail(&s, as.Pos(), "BodySum is taken before the body was hashed")
					}
					s.summed = true
				} else {
					fail(&s, as.Pos(), "a header field is overwritten with something other than the body digest")
				}
			}
		}
		return s, false
	}
	missing := false
	isErr := func(e ast.Expr) bool {
		t := info.TypeOf(e)
		return t != nil && types.TypeString(t, nil) == "error"
	}
	// INT-10: the header that makes the entry verify is written only when nothing failed before. The
	// accumulator of the first error (the variable the flush result is stored in) is followed: `retNil`
	// holds on the paths that established it is nil and have not assigned it since.
	var acc types.Object
	ast.Inspect(fd.Body, func(n ast.Node) bool {
		if as, ok := n.(*ast.AssignStmt); ok && len(as.Lhs) == 1 && len(as.Rhs) == 1 && acc == nil {
			if c, ok := ast.Unparen(as.Rhs[0]).(*ast.CallExpr); ok && isErr(as.Lhs[0]) {
				if fn := core.Callee(info, c); fn != nil && fn.Name() == "Close" {
					acc = core.ObjOf(info, as.Lhs[0])
				}
			}
		}
		return true
	})
	unguarded := token.NoPos
	step10 := func(s st, n ast.Node) (st, bool) {
		if s.dead {
			return s, true // a path the tests on the accumulator rule out
		}
		for _, x := range core.NodeCalls(n) {
			if core.FuncID(core.Callee(info, x)) == core.PkgCache+".Header.WriteTo" && fieldOf(info, methodRecv(x), recv, "hd") {
				if s.flushed && !s.retNil && unguarded == token.NoPos {
					unguarded = x.Pos()
				}
			}
		}
		// the calls of the node are evaluated before its assignment takes effect
		s2, stop := step(s, n)
		if as, ok := n.(*ast.AssignStmt); ok && acc != nil {
			for _, l := range as.Lhs {
				if core.ObjOf(info, l) == acc {
					s2.retNil, s2.retSet = false, false
				}
			}
		}
		return s2, stop
	}
	core.Scan(fl, fl.Entry(), st{}, core.Stepper[st]{
		Node: step10,
		Edge: func(s st, cond ast.Expr, taken bool) st {
			core.Facts(cond, taken, func(atom ast.Expr, val bool) {
				be, ok := ast.Unparen(atom).(*ast.BinaryExpr)
				if !ok || (be.Op != token.NEQ && be.Op != token.EQL) || !core.IsNil(info, be.Y) || !isErr(be.X) {
					return
				}
				isAcc := acc != nil && core.ObjOf(info, be.X) == acc
				if (be.Op == token.NEQ) == val {
					s.failing = true // an error is known to be pending on this path
					if isAcc {
						if s.retNil {
							s.dead = true
						}
						s.retSet = true
					}
				} else if isAcc {
					if s.retSet {
						s.dead = true // known non-nil and not assigned since
					}
					s.retNil = true
				}
			})
			return s
		},
		Exit: func(s st, b *cfg.Block, last ast.Node) {
			if s.flushed && !s.written && !s.failing && !s.dead {
				missing = true
			}
		},
	})
	c.r.Rule("INT-10", "(*File).Close writes the final header - the only thing that makes an entry verify - on no path on which the flush of the compressor or a later step may have failed: the first-error accumulator is known to be nil where Header.WriteTo is called and is not assigned in between (a header written after a failed flush verifies for the truncated body; only the caller's os.Remove, if it gets to run, keeps that entry from being opened)", 1)
	switch {
	case writeTo == nil || acc == nil:
		c.r.Und("INT-10", fn+"|finalise", p.Pos(fd.Pos()), "no flush result variable / header write found in Close")
	case unguarded != token.NoPos:
		c.r.Bad("INT-10", fn+"|finalise", p.Pos(unguarded), "the final header is written on a path on which the flush of the compressor (or the seek / re-hash behind it) may have failed: the header then verifies for whatever part of the body reached the file, cache.Open succeeds on the entry and reading it yields a strict prefix of what was written. Failing history: a write fault (ENOSPC, EFBIG) during the final flush, then a crash or kill before the caller removes the file")
	default:
		c.r.Ok("INT-10", fn+"|finalise", p.Pos(writeTo.Pos()), "the header is finalised only where the accumulated error is known to be nil")
	}
	if flushCall == nil || writeTo == nil {
		r.Bad("INT-6", fn+"|order", p.Pos(fd.Pos()), "Close does not both close the compressor and write the header")
	} else if firstBad != "" {
		r.Bad("INT-6", fn+"|order", p.Pos(badPos), firstBad)
	} else if missing {
		r.Bad("INT-6", fn+"|order", p.Pos(fd.Pos()), "a path closes the compressor but never writes the final header")
	} else {
		r.Ok("INT-6", fn+"|order", p.Pos(writeTo.Pos()), "wr.Close < Seek(header end) < Reset < io.Copy(h, file) < BodySum=Sum < Seek(0) < WriteTo(file) on every path")
	}
	if seekBody != nil {
		c.factor(fn+"|seek", seekBody, len(hf), fd)
	} else {
		r.Und("INT-6", fn+"|seek|factor", p.Pos(fd.Pos()), "no seek past the header found")
	}
}

func (c *ctx) errors() {
	p, r, info := c.p, c.r, c.info
	for _, fname := range []string{"File.Close", "CreateLevel"} {
		fd := p.FuncDecl(core.PkgCache, fname)
		if fd == nil || fd.Body == nil {
			continue
		}
		fn := "cache." + fname
		recv := recvObj(info, fd)
		var keys []string
		obs := map[string]func(){}
		n := map[string]int{}
		for _, call := range core.Calls(fd.Body) {
			u := core.ClassifyErr(info, fd.Body, call)
			if u.Kind == "no-error" {
				continue
			}
			id := core.FuncID(core.Callee(info, call))
			// named exceptions, one line of reason each
			if id == "io.Writer.Write" {
				if tv, ok := info.Types[methodRecv(call)]; ok && core.NamedOf(tv.Type) == "hash.Hash" {
					continue // hash.Hash.Write is documented never to return an error
				}
			}
			par := core.Parents(fd.Body)
			if _, isDefer := par[call].(*ast.DeferStmt); isDefer {
				rx := methodRecv(call)
				if fieldOf(info, rx, recv, "rd") || fieldOf(info, rx, recv, "f") {
					continue // deferred close of a handle with nothing buffered (the compressor is closed explicitly)
				}
			}
			n[id]++
			key := fmt.Sprintf("%s|err-%s#%d", fn, id, n[id])
			call := call
			keys = append(keys, key)
			obs[key] = func() {
				if okKind(u.Kind) {
					r.Ok("INT-8", key, p.Pos(call.Pos()), "error handled: "+u.Kind)
				} else {
					r.Bad("INT-8", key, p.Pos(call.Pos()), fmt.Sprintf("the error of %s is not propagated (%s %s): a failed write protocol step still yields a finalised entry", id, u.Kind, u.Why))
				}
			}
		}
		sort.Strings(keys)
		for _, k := range keys {
			obs[k]()
		}
	}
	// failed finalisation removes the entry (in cmd/gts)
	minfo := p.Info(core.PkgMain)
	fd := p.FuncDecl(core.PkgMain, "ioDelegate.Close")
	if fd == nil || fd.Body == nil {
		r.Und("INT-8", "main.ioDelegate.Close|anchor", "-", "anchor-unresolved")
		return
	}
	r.Fn("main.ioDelegate.Close")
	d := recvObj(minfo, fd)
	found := false
	for _, call := range core.Calls(fd.Body) {
		if !core.IsCallTo(minfo, call, core.PkgCache+".File.Close") || !fieldOf(minfo, methodRecv(call), d, "cache") {
			continue
		}
		found = true
		u := core.ClassifyErr(minfo, fd.Body, call)
		removes := false
		if u.If != nil {
			for _, x := range core.Calls(u.If.Body) {
				if core.IsCallTo(minfo, x, "os.Remove") && len(x.Args) == 1 {
					if nc, ok := ast.Unparen(x.Args[0]).(*ast.CallExpr); ok && core.IsCallTo(minfo, nc, core.PkgCache+".File.Name") {
						removes = true
					}
				}
			}
		}
		if (u.Kind == "if-other" || u.Kind == "if-return") && removes {
			r.Ok("INT-8", "main.ioDelegate.Close|remove-on-failure", p.Pos(call.Pos()), "a non-nil error from cache.File.Close leads to os.Remove of the entry")
		} else {
			r.Bad("INT-8", "main.ioDelegate.Close|remove-on-failure", p.Pos(call.Pos()), "a failed finalisation does not remove the entry ("+u.Kind+"): a half-written header stays in the cache directory")
		}
	}
	if !found {
		r.Und("INT-8", "main.ioDelegate.Close|remove-on-failure", p.Pos(fd.Pos()), "no d.cache.Close() found")
	}
}

func (c *ctx) passthrough() {
	p, r, info := c.p, c.r, c.info
	for _, w := range []struct{ name, field, callee string }{{"File.Write", "wr", "io.Writer.Write"}, {"File.Read", "rd", "io.Reader.Read"}} {
		fd := p.FuncDecl(core.PkgCache, w.name)
		fn := "cache." + w.name
		if fd == nil || fd.Body == nil {
			r.Und("INT-9", fn+"|anchor", "-", "anchor-unresolved")
			continue
		}
		r.Fn(fn)
		recv := recvObj(info, fd)
		ps := params(info, fd)
		ok := false
		for _, rs := range core.Returns(fd.Body) {
			if len(rs.Results) == 1 {
				if call, isCall := ast.Unparen(rs.Results[0]).(*ast.CallExpr); isCall && core.FuncID(core.Callee(info, call)) == w.callee &&
					fieldOf(info, methodRecv(call), recv, w.field) && len(call.Args) == 1 && core.ObjOf(info, call.Args[0]) == ps[0] {
					ok = true
				}
			}
		}
		if ok {
			r.Ok("INT-9", fn+"|passthrough", p.Pos(fd.Pos()), "returns f."+w.field+"'s result for the caller's buffer")
		} else {
			r.Bad("INT-9", fn+"|passthrough", p.Pos(fd.Pos()), "the caller's buffer is not passed unchanged to f."+w.field+" with its result returned")
		}
	}
}

// isSliceEqual: the call is to a function of the cache package that is byte-slice
// equality written out, in exactly this shape (after normalisation):
//
//	if len(a) != len(b) { return false }
//	for i := range a { if a[i] != b[i] { return false } }
//	return true
//
// Any other hand-written comparison (a prefix, the last byte, a checksum) is not
// accepted; the rule then reports the field as never compared.
func isSliceEqual(p *core.Prog, info *types.Info, call *ast.CallExpr) bool {
	fn := core.Callee(info, call)
	if fn == nil || fn.Pkg() == nil || fn.Pkg().Path() != core.PkgCache {
		return false
	}
	fd := p.FuncDecl(core.PkgCache, fn.Name())
	if fd == nil || fd.Body == nil || fd.Recv != nil || len(fd.Body.List) != 3 {
		return false
	}
	ps := params(info, fd)
	if len(ps) != 2 {
		return false
	}
	isP := func(e ast.Expr, k int) bool { return core.ObjOf(info, e) == ps[k] }
	isFalse := func(st ast.Stmt, want string) bool {
		rs, ok := st.(*ast.ReturnStmt)
		if !ok || len(rs.Results) != 1 {
			return false
		}
		tv, ok := info.Types[rs.Results[0]]
		return ok && tv.Value != nil && tv.Value.String() == want
	}
	// 1: lengths differ -> false
	is1, ok := fd.Body.List[0].(*ast.IfStmt)
	if !ok || is1.Init != nil || is1.Else != nil || len(is1.Body.List) != 1 || !isFalse(is1.Body.List[0], "false") {
		return false
	}
	be, ok := ast.Unparen(is1.Cond).(*ast.BinaryExpr)
	if !ok || be.Op != token.NEQ {
		return false
	}
	lenOf := func(e ast.Expr) int {
		c, ok := ast.Unparen(e).(*ast.CallExpr)
		if !ok || !core.IsBuiltin(info, c, "len") || len(c.Args) != 1 {
			return -1
		}
		for k := range ps {
			if isP(c.Args[0], k) {
				return k
			}
		}
		return -1
	}
	if l, r := lenOf(be.X), lenOf(be.Y); l < 0 || r < 0 || l == r {
		return false
	}
	// 2: some element differs -> false
	rs, ok := fd.Body.List[1].(*ast.RangeStmt)
	if !ok || rs.Key == nil || rs.Value != nil || len(rs.Body.List) != 1 || !(isP(rs.X, 0) || isP(rs.X, 1)) {
		return false
	}
	is2, ok := rs.Body.List[0].(*ast.IfStmt)
	if !ok || is2.Init != nil || is2.Else != nil || len(is2.Body.List) != 1 || !isFalse(is2.Body.List[0], "false") {
		return false
	}
	ne, ok := ast.Unparen(is2.Cond).(*ast.BinaryExpr)
	if !ok || ne.Op != token.NEQ {
		return false
	}
	elemOf := func(e ast.Expr) int {
		ix, ok := ast.Unparen(e).(*ast.IndexExpr)
		if !ok || core.ObjOf(info, ix.Index) != core.ObjOf(info, rs.Key) {
			return -1
		}
		for k := range ps {
			if isP(ix.X, k) {
				return k
			}
		}
		return -1
	}
	if l, r := elemOf(ne.X), elemOf(ne.Y); l < 0 || r < 0 || l == r {
		return false
	}
	// 3: otherwise equal
	return isFalse(fd.Body.List[2], "true")
}
